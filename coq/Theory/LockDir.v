(* Theory/LockDir.v -- invariants of Model/LockDir.v over ALL schedules.
   Every global statement is proved with Lib/SchedLD.run_invariant: it holds for
   any number of lockers, any programs, any fault points, any schedule. *)
From Coq Require Import NArith List Bool Arith Lia.
From BV Require Import Lib.Obs Lib.SchedLD Model.LockDir.
Import ListNotations.

(* ------------------------------------------------------------ equalities -- *)

Lemma nonce_eqb_eq : forall a b, nonce_eqb a b = true <-> a = b.
Proof.
  intros [a1 a2] [b1 b2]. unfold nonce_eqb. cbn [fst snd].
  rewrite andb_true_iff, !Nat.eqb_eq. split.
  - intros [-> ->]. reflexivity.
  - intros H. inversion H. auto.
Qed.
Lemma nonce_eqb_refl : forall a, nonce_eqb a a = true.
Proof. intros. apply nonce_eqb_eq. reflexivity. Qed.

Lemma optN_eqb_eq : forall a b, optN_eqb a b = true <-> a = b.
Proof.
  intros [a|] [b|]; cbn; try rewrite N.eqb_eq; split; intros H; try discriminate; try reflexivity.
  - subst. reflexivity.
  - inversion H. reflexivity.
Qed.
Lemma hinfo_eqb_eq : forall a b, hinfo_eqb a b = true <-> a = b.
Proof.
  intros [a1 a2 a3] [b1 b2 b3]. unfold hinfo_eqb. cbn [h_host h_user h_pid].
  rewrite !andb_true_iff, !optN_eqb_eq. split.
  - intros [[-> ->] ->]. reflexivity.
  - intros H. inversion H. auto.
Qed.
Lemma content_eqb_eq : forall a b, content_eqb a b = true <-> a = b.
Proof.
  intros [n h| |x] [n' h'| |y]; cbn; split; intros H; try discriminate; try reflexivity.
  - apply andb_true_iff in H. destruct H as [H1 H2].
    apply nonce_eqb_eq in H1. apply hinfo_eqb_eq in H2. subst. reflexivity.
  - inversion H. subst. apply andb_true_iff. split; [apply nonce_eqb_refl|apply hinfo_eqb_eq; reflexivity].
  - apply N.eqb_eq in H. subst. reflexivity.
  - inversion H. apply N.eqb_refl.
Qed.
Lemma content_eqb_refl : forall a, content_eqb a a = true.
Proof. intros. apply content_eqb_eq. reflexivity. Qed.

Lemma tkind_eqb_eq : forall a b, tkind_eqb a b = true <-> a = b.
Proof. intros [] []; cbn; split; intros H; try discriminate; reflexivity. Qed.
Lemma tname_eqb_eq : forall a b, tname_eqb a b = true <-> a = b.
Proof.
  intros [[k p] i] [[k' p'] i']. unfold tname_eqb. cbn [fst snd].
  rewrite !andb_true_iff, tkind_eqb_eq, !Nat.eqb_eq. split.
  - intros [[-> ->] ->]. reflexivity.
  - intros H. inversion H. auto.
Qed.
Lemma tset_same : forall m t v, tset m t v t = v.
Proof. intros. unfold tset. replace (tname_eqb t t) with true; [reflexivity|]. symmetry. apply tname_eqb_eq. reflexivity. Qed.
Lemma tset_other : forall m t v u, u <> t -> tset m t v u = m u.
Proof.
  intros. unfold tset. destruct (tname_eqb u t) eqn:E; [|reflexivity].
  apply tname_eqb_eq in E. contradiction.
Qed.

Lemma pset_same : forall f p l, pset f p l p = l.
Proof. intros. unfold pset. rewrite Nat.eqb_refl. reflexivity. Qed.
Lemma pset_other : forall f p l q, q <> p -> pset f p l q = f q.
Proof. intros. unfold pset. destruct (Nat.eqb q p) eqn:E; [apply Nat.eqb_eq in E; contradiction|reflexivity]. Qed.

Lemma own_spec : forall l c, own l c = true -> exists n h, c = CInfo n h /\ l_nonce l = Some n.
Proof.
  intros l c H. unfold own in H. destruct c as [n h| |x]; try discriminate.
  destruct (l_nonce l) as [m|] eqn:E; [|discriminate].
  apply nonce_eqb_eq in H. subst. eauto.
Qed.
Lemma own_intro : forall l n h, l_nonce l = Some n -> own l (CInfo n h) = true.
Proof. intros. unfold own. rewrite H. apply nonce_eqb_refl. Qed.

(* ------------------------------------------- dispatch changes only pc/prog/log -- *)

Lemma dispatch_fields : forall prog l,
  l_held (dispatch prog l) = l_held l /\ l_nonce (dispatch prog l) = l_nonce l /\
  l_k (dispatch prog l) = l_k l /\ l_t (dispatch prog l) = l_t l /\
  l_peeked (dispatch prog l) = l_peeked l /\ l_fault (dispatch prog l) = l_fault l /\
  l_wid (dispatch prog l) = l_wid l /\ l_env (dispatch prog l) = l_env l /\
  l_eb (dispatch prog l) = l_eb l /\ l_ep (dispatch prog l) = l_ep l.
Proof.
  induction prog as [|c rest IH]; intros l; [cbn; tauto|].
  destruct c; cbn [dispatch];
    repeat match goal with
           | |- context [if ?b then _ else _] => destruct b eqn:?
           | |- context [match l_peeked l with _ => _ end] => destruct (l_peeked l) as [[?|]|] eqn:?
           end;
    try (cbn; intuition congruence);
    match goal with |- context [dispatch rest ?x] => specialize (IH x); cbn in IH; cbn; intuition congruence end.
Qed.

Lemma dispatch_held : forall prog l, l_held (dispatch prog l) = l_held l.
Proof. intros. apply dispatch_fields. Qed.
Lemma dispatch_nonce : forall prog l, l_nonce (dispatch prog l) = l_nonce l.
Proof. intros. apply dispatch_fields. Qed.
Lemma dispatch_k : forall prog l, l_k (dispatch prog l) = l_k l.
Proof. intros. apply dispatch_fields. Qed.
Lemma dispatch_t : forall prog l, l_t (dispatch prog l) = l_t l.
Proof. intros. apply dispatch_fields. Qed.
Lemma dispatch_peeked : forall prog l, l_peeked (dispatch prog l) = l_peeked l.
Proof. intros. apply dispatch_fields. Qed.
Lemma dispatch_env : forall prog l, l_env (dispatch prog l) = l_env l.
Proof. intros. apply dispatch_fields. Qed.
Lemma dispatch_wid : forall prog l, l_wid (dispatch prog l) = l_wid l.
Proof. intros. apply dispatch_fields. Qed.
Lemma dispatch_eb : forall prog l, l_eb (dispatch prog l) = l_eb l.
Proof. intros. apply dispatch_fields. Qed.
Lemma dispatch_ep : forall prog l, l_ep (dispatch prog l) = l_ep l.
Proof. intros. apply dispatch_fields. Qed.

(* the program counters a dispatch can produce *)
Definition start_pc (l : lstate) (c : pc) : Prop :=
  c = Idle \/ c = Dead \/ (c = A_mkdir /\ l_held l = false) \/ (c = U_confirm /\ l_held l = true) \/
  (c = C_peek /\ l_held l = true) \/ c = P_peek \/
  (exists d, c = B_peek FromCmd d /\ l_held l = false /\ l_peeked l = Some (Some d)) \/
  (exists d, c = K_rename d /\ l_held l = false /\ l_peeked l = Some (Some d)).

Lemma dispatch_pc : forall prog l, start_pc l (l_pc (dispatch prog l)).
Proof.
  induction prog as [|c rest IH]; intros l; [cbn; left; reflexivity|].
  assert (Hlog : forall r, start_pc l (l_pc (dispatch rest (logr l r)))).
  { intros r. specialize (IH (logr l r)). unfold start_pc in *. cbn in IH. exact IH. }
  destruct c; cbn [dispatch].
  - destruct (l_held l) eqn:E; [apply Hlog|]. cbn. right; right; left. auto.
  - destruct (l_held l) eqn:E; [|apply Hlog]. cbn. right; right; right; left. auto.
  - destruct (l_held l) eqn:E; [|apply Hlog]. cbn. right; right; right; right; left. auto.
  - cbn. right; right; right; right; right; left. reflexivity.
  - destruct (l_peeked l) as [[d|]|] eqn:Ep; try apply Hlog.
    destruct (readable d); [|apply Hlog].
    destruct (l_held l) eqn:E; [apply Hlog|]. cbn.
    right; right; right; right; right; right; left. exists d. auto.
  - destruct (l_peeked l) as [[d|]|] eqn:Ep; try apply Hlog.
    destruct (readable d); [apply Hlog|].
    destruct (l_held l) eqn:E; [apply Hlog|]. cbn.
    right; right; right; right; right; right; right. exists d. auto.
  - cbn. right; left. reflexivity.
Qed.

(* ----------------------------------------------------- local well-formedness -- *)

Definition needs_held (c : pc) : option bool :=
  match c with
  | U_confirm | U_rename | C_peek => Some true
  | A_mkdir | A_put _ | A_rename _ | A_check | A_peek _ | A_rm_delete _ _ | A_rm_rmdir _ _
  | B_peek _ _ | B_rename _ _ | B_read _ _ _ | B_delete _ _ | B_rmdir _ _
  | K_rename _ | K_read _ _ | K_delete _ | K_rmdir _ => Some false
  | _ => None
  end.

Definition steal_ok (l : lstate) : Prop :=
  match l_pc l with
  | B_peek (FromAttempt _) d | B_rename (FromAttempt _) d | B_read (FromAttempt _) d _ =>
      known_dead (l_env l) d = true /\ e_steal (l_env l) = true
  | _ => True
  end.

Definition krename_ok (l : lstate) : Prop :=
  match l_pc l with K_rename c => l_peeked l = Some (Some c) | _ => True end.

Record W (p : nat) (l : lstate) : Prop := {
  W_nonce : forall n, l_nonce l = Some n -> fst n = p;
  W_flag : forall b, needs_held (l_pc l) = Some b -> l_held l = b;
  W_has : l_held l = true -> exists n, l_nonce l = Some n;
  W_steal : steal_ok l;
  W_krename : krename_ok l
}.

Lemma W_dispatch : forall p prog l,
  (forall n, l_nonce l = Some n -> fst n = p) ->
  (l_held l = true -> exists n, l_nonce l = Some n) ->
  W p (dispatch prog l).
Proof.
  intros p prog l H1 H2.
  pose proof (dispatch_pc prog l) as Hpc.
  constructor.
  - rewrite dispatch_nonce. exact H1.
  - intros b Hb. rewrite dispatch_held.
    unfold start_pc in Hpc.
    destruct Hpc as [E|[E|[[E F]|[[E F]|[[E F]|[E|[[d [E [F _]]]|[d [E [F _]]]]]]]]]];
      rewrite E in Hb; cbn in Hb; try discriminate; inversion Hb; subst; auto.
  - rewrite dispatch_held, dispatch_nonce. exact H2.
  - unfold steal_ok. unfold start_pc in Hpc.
    destruct Hpc as [E|[E|[[E F]|[[E F]|[[E F]|[E|[[d [E [F _]]]|[d [E [F _]]]]]]]]]]; rewrite E; exact I.
  - unfold krename_ok. unfold start_pc in Hpc.
    destruct Hpc as [E|[E|[[E F]|[[E F]|[[E F]|[E|[[d [E [F G]]]|[d [E [F G]]]]]]]]]]; rewrite E; try exact I.
    rewrite dispatch_peeked. exact G.
Qed.

Ltac unf := unfold fail_in, done_in in *; unfold finish, set_pc, set_pc_t, logr, upd in *.

(* facts about react, each by case analysis on the program counter and the outcome *)

Lemma react_W : forall p l r, W p l -> W p (react p l r).
Proof.
  intros p l r [H1 H2 H3 H4 H5].
  assert (D : forall pr l', l_nonce l' = l_nonce l -> l_held l' = l_held l ->
                         W p (dispatch pr l')).
  { intros pr l' En Eh. apply W_dispatch; rewrite ?En, ?Eh; assumption. }
  assert (D2 : forall pr l', l_nonce l' = l_nonce l -> l_held l' = true -> (exists n, l_nonce l = Some n) ->
                         W p (dispatch pr l')).
  { intros pr l' En Eh Ex. apply W_dispatch; rewrite ?En; auto. }
  unfold react.
  destruct (l_pc l) eqn:Epc; try (constructor; rewrite ?Epc; assumption);
    destruct r;
    repeat match goal with
           | |- context [if ?b then _ else _] => destruct b eqn:?
           | x : bctx |- _ => destruct x
           end;
    unf; cbn [l_prog];
    try (apply D; reflexivity);
    try (constructor; cbn; intros; try discriminate; auto; fail).
  all: try (constructor; cbn;
            [ intros n Hn; first [ inversion Hn; reflexivity | apply H1; assumption ]
            | intros b Hb; first [ inversion Hb; reflexivity | discriminate
                                 | (specialize (H2 b); rewrite Epc in H2; apply H2; reflexivity) ]
            | intros Hh; first [ eexists; reflexivity | auto ]
            | unfold steal_ok; cbn; auto
            | unfold krename_ok; cbn; auto ]; fail).
  all: try (match goal with
            | H : own _ ?c = true |- _ => apply own_spec in H; destruct H as [n0 [h0 [-> Hn0]]];
                apply D2; [reflexivity|reflexivity|eauto]
            end; fail).
  - (* A_mkdir, RDone *)
    constructor; cbn.
    + intros n Hn. inversion Hn. reflexivity.
    + intros b Hb. inversion Hb. apply H2. reflexivity.
    + intros _. eexists. reflexivity.
    + exact I.
    + exact I.
  - (* A_peek -> steal *)
    constructor; cbn; auto; try exact I.
    all: try (intros b Hb; inversion Hb; apply H2; reflexivity).
    all: try (unfold steal_ok; cbn; apply andb_true_iff in Heqb0; exact Heqb0).
  - (* B_peek -> B_rename *)
    constructor; cbn; auto; try exact I.
    all: try (intros b Hb; inversion Hb; apply H2; reflexivity).
    all: try (unfold steal_ok in *; rewrite Epc in H4; cbn; exact H4).
  - (* B_rename -> B_read *)
    constructor; cbn; auto; try exact I.
    all: try (intros b Hb; inversion Hb; apply H2; reflexivity).
    all: try (unfold steal_ok in *; rewrite Epc in H4; cbn; exact H4).
Qed.

Ltac react_cases l :=
  unfold react;
  destruct (l_pc l) eqn:?Epc;
  try match goal with r : ores |- _ => destruct r end;
  repeat match goal with
         | |- context [if ?b then _ else _] => destruct b eqn:?
         | x : bctx |- _ => destruct x
         end;
  unf; rewrite ?dispatch_held, ?dispatch_nonce, ?dispatch_k, ?dispatch_t, ?dispatch_peeked, ?dispatch_env,
               ?dispatch_eb, ?dispatch_ep; cbn.

Lemma react_gain_held : forall p l r,
  l_held (react p l r) = true ->
  l_held l = true \/ (l_pc l = A_check /\ exists c, r = RGot c /\ own l c = true).
Proof.
  intros p l r. react_cases l; intros H; auto; try discriminate.
  right. split; [reflexivity|]. eexists. split; [reflexivity|assumption].
Qed.

Lemma react_lose_held : forall p l r,
  l_held l = true -> l_held (react p l r) = false -> l_pc l = U_rename /\ r = RDone.
Proof.
  intros p l r Hh. react_cases l; intros H; try congruence; auto.
Qed.

Lemma react_nonce : forall p l r,
  l_nonce (react p l r) = l_nonce l \/ (l_pc l = A_mkdir /\ l_nonce (react p l r) = Some (p, l_k l)).
Proof.
  intros p l r. react_cases l; auto.
Qed.

Lemma react_dead : forall p l r, l_pc l = Dead -> react p l r = l.
Proof. intros p l r H. unfold react. rewrite H. reflexivity. Qed.

Lemma react_env : forall p l r, l_env (react p l r) = l_env l /\ l_wid (react p l r) = l_wid l.
Proof.
  intros p l r. react_cases l; rewrite ?dispatch_wid; cbn; auto.
Qed.

(* stamp / dec_fault touch only ghost epochs / the fault counter *)
Lemma stamp_fields : forall a b acq,
  l_pc (stamp a b acq) = l_pc b /\ l_held (stamp a b acq) = l_held b /\ l_nonce (stamp a b acq) = l_nonce b /\
  l_peeked (stamp a b acq) = l_peeked b /\ l_env (stamp a b acq) = l_env b /\ l_k (stamp a b acq) = l_k b /\
  l_t (stamp a b acq) = l_t b.
Proof. intros. unfold stamp. destruct (l_pc a); cbn; tauto. Qed.

Lemma W_stamp : forall p a b acq, W p b -> W p (stamp a b acq).
Proof.
  intros p a b acq [H1 H2 H3 H4 H5].
  destruct (stamp_fields a b acq) as (E1 & E2 & E3 & E4 & E5 & _).
  constructor; unfold steal_ok, krename_ok in *; rewrite ?E1, ?E2, ?E3, ?E4, ?E5; assumption.
Qed.

Lemma W_dec_fault : forall p l, W p l -> W p (dec_fault l).
Proof. intros p l [H1 H2 H3 H4 H5]. constructor; assumption. Qed.

(* -------------------------------------------------- facts about exec_op -- *)

Lemma exec_held : forall mem o h tm h' tm' r,
  exec_op mem o h tm = (h', tm', r) ->
  h' = h \/
  (exists t d, o = ORenIn t /\ r = RDone /\ tm t = Some d /\ h' = Some d /\ held_content h = None) \/
  (exists t d, o = ORenOut t /\ r = RDone /\ h = Some d /\ h' = None).
Proof.
  intros mem o h tm h' tm' r H.
  destruct o; cbn in H;
    repeat match type of H with
           | context [match ?x with _ => _ end] => destruct x eqn:?
           end; inversion H; subst; auto.
  - right; left. eexists; eexists. repeat split; eauto.
  - right; left. eexists; eexists. repeat split; eauto.
  - right; right. eexists; eexists. repeat split; eauto.
Qed.

Lemma exec_get : forall mem h tm h' tm' r,
  exec_op mem OGetHeld h tm = (h', tm', r) ->
  h' = h /\ tm' = tm /\
  ((exists c, r = RGot c /\ h = Some (Some c)) \/ (r = RNoSuch /\ held_content h = None)).
Proof.
  intros mem h tm h' tm' r H. cbn in H.
  destruct h as [[c|]|]; inversion H; subst; repeat split; eauto.
Qed.

Lemma exec_renin_done : forall mem t h tm h' tm' r,
  exec_op mem (ORenIn t) h tm = (h', tm', r) -> r = RDone ->
  exists d, tm t = Some d /\ h' = Some d /\ held_content h = None.
Proof.
  intros mem t h tm h' tm' r H Hr. cbn in H.
  destruct (tm t) as [d|]; [|inversion H; subst; discriminate].
  destruct h as [[c|]|]; inversion H; subst; try discriminate; eauto.
Qed.

Lemma exec_renout_done : forall mem t h tm h' tm' r,
  exec_op mem (ORenOut t) h tm = (h', tm', r) -> r = RDone -> h' = None.
Proof.
  intros mem t h tm h' tm' r H Hr. cbn in H.
  destruct h; inversion H; subst; reflexivity.
Qed.

Lemma next_op_renin : forall p l t, next_op p l = Some (ORenIn t) ->
  exists i, l_pc l = A_rename i /\ t = (Pending, p, i).
Proof. intros p l t H. unfold next_op in H. destruct (l_pc l); inversion H; eauto. Qed.

Lemma next_op_renout : forall p l t, next_op p l = Some (ORenOut t) ->
  l_pc l = U_rename \/ (exists x d, l_pc l = B_rename x d) \/ (exists c, l_pc l = K_rename c).
Proof.
  intros p l t H. unfold next_op in H. destruct (l_pc l); inversion H; eauto.
Qed.

Lemma next_op_alive : forall p l o, next_op p l = Some o -> alive l = true.
Proof. intros p l o H. unfold next_op in H. unfold alive. destruct (l_pc l); try discriminate; reflexivity. Qed.

(* ------------------------------------------------------- unfolding a step -- *)

Definition outcome (s : sys) (l : lstate) (o : op) : option dir * tmap * ores :=
  if faults_now l then (s_held s, s_tmps s, RFault) else exec_op (s_mem s) o (s_held s) (s_tmps s).

Lemma step_unfold : forall p s,
  (next_op p (s_procs s p) = None /\ step p s = s) \/
  (exists o h' tm' r,
     next_op p (s_procs s p) = Some o /\ outcome s (s_procs s p) o = (h', tm', r) /\
     step p s =
     {| s_mem := s_mem s; s_held := h'; s_tmps := tm';
        s_procs := pset (s_procs s) p (stamp (s_procs s p) (react p (dec_fault (s_procs s p)) r) (g_acq (s_g s)));
        s_g := ghost_step (s_procs s) (s_procs s p) (held_content (s_held s)) r (s_g s) |}).
Proof.
  intros p s. unfold step.
  destruct (next_op p (s_procs s p)) as [o|] eqn:E; [|left; auto].
  right. unfold outcome.
  destruct (if faults_now (s_procs s p) then (s_held s, s_tmps s, RFault)
            else exec_op (s_mem s) o (s_held s) (s_tmps s)) as [[h' tm'] r] eqn:Eo.
  exists o, h', tm', r. auto.
Qed.

Lemma outcome_cases : forall s l o h' tm' r,
  outcome s l o = (h', tm', r) ->
  (r = RFault /\ h' = s_held s /\ tm' = s_tmps s) \/
  (r <> RFault /\ exec_op (s_mem s) o (s_held s) (s_tmps s) = (h', tm', r)).
Proof.
  intros s l o h' tm' r H. unfold outcome in H.
  destruct (faults_now l).
  - inversion H; subst. left; auto.
  - right. split; [|exact H].
    intros ->. destruct o; cbn in H;
      repeat match type of H with
             | context [match ?x with _ => _ end] => destruct x eqn:?
             end; inversion H.
Qed.

(* ------------------------------------------------ every locker is well formed -- *)

Definition Wall (s : sys) : Prop := forall p, W p (s_procs s p).

Lemma Wall_step : forall p s, Wall s -> Wall (step p s).
Proof.
  intros p s HW q.
  destruct (step_unfold p s) as [[_ ->]|(o & h' & tm' & r & Hop & Hout & ->)]; [apply HW|].
  cbn [s_procs]. destruct (Nat.eq_dec q p) as [->|Hne].
  - rewrite pset_same. apply W_stamp. apply react_W. apply W_dec_fault. apply HW.
  - rewrite pset_other by assumption. apply HW.
Qed.

Lemma W_linit : forall p c, W p (linit c).
Proof.
  intros p c. unfold linit. apply W_dispatch; cbn; intros; discriminate.
Qed.

Lemma Wall_init : forall mem h0 confs, Wall (init mem h0 confs).
Proof. intros mem h0 confs p. cbn. apply W_linit. Qed.

(* core fields of the stepping locker after the step *)
Lemma after_fields : forall p l r acq,
  let l' := stamp l (react p (dec_fault l) r) acq in
  l_held l' = l_held (react p (dec_fault l) r) /\ l_nonce l' = l_nonce (react p (dec_fault l) r) /\
  l_pc l' = l_pc (react p (dec_fault l) r).
Proof.
  intros. destruct (stamp_fields l (react p (dec_fault l) r) acq) as (E1 & E2 & E3 & _). auto.
Qed.

(* ----------------------------- I1: mutual exclusion unless a live holder was broken -- *)

Definition I1 (s : sys) : Prop :=
  g_live (s_g s) = false ->
  forall p, holds (s_procs s p) = true ->
    exists n h, s_held s = Some (Some (CInfo n h)) /\ l_nonce (s_procs s p) = Some n.

Lemma ghost_live_mono : forall procs l hc r g,
  g_live (ghost_step procs l hc r g) = false -> g_live g = false.
Proof.
  intros procs l hc r g. unfold ghost_step.
  destruct (l_pc l); destruct r; cbn; auto; destruct hc as [c0|]; cbn; auto;
    try (destruct (own l c0); cbn; auto);
    try (intros H; apply orb_false_iff in H; tauto).
Qed.

Lemma ghost_live_break : forall procs l c r g,
  (exists x d, l_pc l = B_rename x d) \/ (exists d, l_pc l = K_rename d) ->
  r = RDone ->
  g_live (ghost_step procs l (Some c) r g) = g_live g || victim_live procs c.
Proof.
  intros procs l c r g [[x [d E]]|[d E]] ->; unfold ghost_step; rewrite E; reflexivity.
Qed.

Lemma holds_split : forall l, holds l = true <-> l_held l = true /\ alive l = true.
Proof. intros. unfold holds. apply andb_true_iff. Qed.

Lemma I1_step : forall p s, Wall s -> I1 s -> I1 (step p s).
Proof.
  intros p s HW HI.
  destruct (step_unfold p s) as [[_ ->]|(o & h' & tm' & r & Hop & Hout & ->)]; [exact HI|].
  set (l := s_procs s p) in *.
  intros Hlive q Hq. cbn [s_g s_procs s_held] in *.
  pose proof (ghost_live_mono _ _ _ _ _ Hlive) as Hlive0.
  specialize (HI Hlive0).
  pose proof (next_op_alive _ _ _ Hop) as Halive.
  pose proof (HW p) as Wp. fold l in Wp.
  destruct (outcome_cases _ _ _ _ _ _ Hout) as [(Hr & -> & ->)|(Hnf & Hex)].
  - (* fault: nothing on the transport changes *)
    destruct (Nat.eq_dec q p) as [->|Hne].
    + rewrite pset_same in *.
      destruct (after_fields p l r (g_acq (s_g s))) as (E1 & E2 & E3).
      apply holds_split in Hq. destruct Hq as [Hh Ha].
      rewrite E1 in Hh. rewrite E2.
      destruct (react_gain_held _ _ _ Hh) as [Hh0|(Hpc & c & Hrc & _)]; [|subst r; discriminate].
      cbn in Hh0.
      destruct (HI p) as (n & h & Hheld & Hn).
      { apply holds_split. split; [exact Hh0|exact Halive]. }
      exists n, h. split; [exact Hheld|].
      destruct (react_nonce p (dec_fault l) r) as [->|[Hpc _]]; [exact Hn|].
      cbn in Hpc. pose proof (W_flag _ _ Wp false) as Hf. fold l in Hf. rewrite Hpc in Hf.
      specialize (Hf eq_refl). fold l in Hh0. congruence.
    + rewrite pset_other in * by assumption. apply HI. exact Hq.
  - destruct (exec_held _ _ _ _ _ _ _ Hex) as [->|[(t & d & -> & -> & Htm & -> & Hnone)|(t & d & -> & -> & Hd & ->)]].
    + (* held unchanged *)
      destruct (Nat.eq_dec q p) as [->|Hne].
      * rewrite pset_same in *.
        destruct (after_fields p l r (g_acq (s_g s))) as (E1 & E2 & E3).
        apply holds_split in Hq. destruct Hq as [Hh Ha].
        rewrite E1 in Hh. rewrite E2.
        destruct (react_gain_held _ _ _ Hh) as [Hh0|(Hpc & c & Hrc & Hown)].
        -- cbn in Hh0.
           destruct (HI p) as (n & h & Hheld & Hn).
           { apply holds_split. split; [exact Hh0|exact Halive]. }
           exists n, h. split; [exact Hheld|].
           destruct (react_nonce p (dec_fault l) r) as [->|[Hpc _]]; [exact Hn|].
           cbn in Hpc. pose proof (W_flag _ _ Wp false) as Hf. fold l in Hf. rewrite Hpc in Hf.
           specialize (Hf eq_refl). fold l in Hh0. congruence.
        -- (* the confirming peek saw our own nonce *)
           cbn in Hpc. subst r.
           assert (o = OGetHeld) as -> by (unfold next_op in Hop; fold l in Hop; rewrite Hpc in Hop; inversion Hop; reflexivity).
           destruct (exec_get _ _ _ _ _ _ Hex) as (_ & _ & [(c' & Hc' & Hh')|[Hc' _]]); [|discriminate].
           inversion Hc'; subst c'.
           apply own_spec in Hown. destruct Hown as (n & h & -> & Hn). cbn in Hn.
           exists n, h. split; [exact Hh'|].
           destruct (react_nonce p (dec_fault l) (RGot (CInfo n h))) as [->|[Hpc' _]]; [exact Hn|].
           cbn in Hpc'. fold l in Hpc'. congruence.
      * rewrite pset_other in * by assumption. apply HI. exact Hq.
    + (* a rename into place succeeded: held was empty, so nobody held it *)
      destruct (Nat.eq_dec q p) as [->|Hne].
      * rewrite pset_same in *.
        destruct (after_fields p l RDone (g_acq (s_g s))) as (E1 & E2 & E3).
        apply holds_split in Hq. destruct Hq as [Hh Ha]. rewrite E1 in Hh.
        destruct (next_op_renin _ _ _ Hop) as (i & Hpc & Ht). fold l in Hpc.
        destruct (react_gain_held _ _ _ Hh) as [Hh0|(Hpc' & _)]; [|cbn in Hpc'; fold l in Hpc'; congruence].
        cbn in Hh0. pose proof (W_flag _ _ Wp false) as Hf. fold l in Hf. rewrite Hpc in Hf.
        specialize (Hf eq_refl). fold l in Hh0. congruence.
      * rewrite pset_other in * by assumption.
        destruct (HI q Hq) as (n & h & Hheld & _). rewrite Hheld in Hnone. discriminate.
    + (* held was renamed away *)
      pose proof (next_op_renout _ _ _ Hop) as Hpc. fold l in Hpc.
      destruct (Nat.eq_dec q p) as [->|Hne].
      * rewrite pset_same in *.
        destruct (after_fields p l RDone (g_acq (s_g s))) as (E1 & E2 & E3).
        apply holds_split in Hq. destruct Hq as [Hh Ha]. rewrite E1 in Hh.
        exfalso.
        destruct Hpc as [Hpc|[(x & d' & Hpc)|(c & Hpc)]].
        -- assert (l_held (react p (dec_fault l) RDone) = false) as Hf
             by (unfold react; cbn [l_pc dec_fault]; fold l; rewrite Hpc; reflexivity).
           congruence.
        -- destruct (react_gain_held _ _ _ Hh) as [Hh0|(Hpc' & _)]; [|cbn in Hpc'; fold l in Hpc'; congruence].
           cbn in Hh0. pose proof (W_flag _ _ Wp false) as Hf. fold l in Hf. rewrite Hpc in Hf.
           specialize (Hf eq_refl). fold l in Hh0. congruence.
        -- destruct (react_gain_held _ _ _ Hh) as [Hh0|(Hpc' & _)]; [|cbn in Hpc'; fold l in Hpc'; congruence].
           cbn in Hh0. pose proof (W_flag _ _ Wp false) as Hf. fold l in Hf. rewrite Hpc in Hf.
           specialize (Hf eq_refl). fold l in Hh0. congruence.
      * rewrite pset_other in * by assumption. exfalso.
        destruct (HI q Hq) as (n & h & Hheld & Hn).
        pose proof (W_nonce _ _ (HW q) _ Hn) as Hown.
        destruct Hpc as [Hpc|Hbrk].
        -- (* an unlock: the unlocker holds, so held carries ITS nonce *)
           pose proof (W_flag _ _ Wp true) as Hf. fold l in Hf. rewrite Hpc in Hf. specialize (Hf eq_refl).
           destruct (HI p) as (n' & h'' & Hheld' & Hn').
           { apply holds_split. split; [exact Hf|exact Halive]. }
           rewrite Hheld in Hheld'. inversion Hheld'; subst n' h''.
           pose proof (W_nonce _ _ (HW p) _ Hn') as Hown'. congruence.
        -- (* a break: the victim is live, so the ghost flag is set *)
           rewrite Hheld in Hlive. cbn [held_content] in Hlive.
           rewrite (ghost_live_break _ _ _ _ _ Hbrk eq_refl) in Hlive.
           apply orb_false_iff in Hlive. destruct Hlive as [_ Hv].
           unfold victim_live in Hv. rewrite Hown in Hv. rewrite Hq, Hn, nonce_eqb_refl in Hv. discriminate.
Qed.

(* ---------------- J: a locker keeps its lock unless somebody else moved it away -- *)

Definition J (s : sys) : Prop :=
  forall p n, l_held (s_procs s p) = true -> l_nonce (s_procs s p) = Some n ->
    In n (g_brk (s_g s)) \/ In n (g_stale (s_g s)) \/ exists h, s_held s = Some (Some (CInfo n h)).

Lemma consn_incl : forall c l n, In n l -> In n (consn c l).
Proof. intros [m h| |x] l n H; cbn; auto. Qed.

Lemma ghost_brk_mono : forall procs l hc r g n,
  In n (g_brk g) -> In n (g_brk (ghost_step procs l hc r g)).
Proof.
  intros procs l hc r g n H. unfold ghost_step.
  destruct (l_pc l); destruct r; cbn; auto; destruct hc as [c0|]; cbn; auto;
    try (destruct (own l c0); cbn; auto); apply consn_incl; assumption.
Qed.

Lemma ghost_stale_mono : forall procs l hc r g n,
  In n (g_stale g) -> In n (g_stale (ghost_step procs l hc r g)).
Proof.
  intros procs l hc r g n H. unfold ghost_step.
  destruct (l_pc l); destruct r; cbn; auto; destruct hc as [c0|]; cbn; auto;
    try (destruct (own l c0); cbn; auto); apply consn_incl; assumption.
Qed.

Lemma ghost_break_brk : forall procs l n h g,
  (exists x d, l_pc l = B_rename x d) \/ (exists d, l_pc l = K_rename d) ->
  In n (g_brk (ghost_step procs l (Some (CInfo n h)) RDone g)).
Proof.
  intros procs l n h g [[x [d E]]|[d E]]; unfold ghost_step; rewrite E; cbn; auto.
Qed.

Lemma ghost_unlock_stale : forall procs l n h g,
  l_pc l = U_rename -> own l (CInfo n h) = false ->
  In n (g_stale (ghost_step procs l (Some (CInfo n h)) RDone g)).
Proof.
  intros procs l n h g E Ho. unfold ghost_step. rewrite E, Ho. cbn. auto.
Qed.

Lemma same_nonce_after : forall p l r,
  W p l -> l_held l = true -> l_nonce (react p (dec_fault l) r) = l_nonce l.
Proof.
  intros p l r Wp Hh.
  destruct (react_nonce p (dec_fault l) r) as [E|[Hpc _]]; [exact E|].
  cbn in Hpc. pose proof (W_flag _ _ Wp false) as Hf. rewrite Hpc in Hf. specialize (Hf eq_refl). congruence.
Qed.

Lemma J_step : forall p s, Wall s -> J s -> J (step p s).
Proof.
  intros p s HW HJ.
  destruct (step_unfold p s) as [[_ ->]|(o & h' & tm' & r & Hop & Hout & ->)]; [exact HJ|].
  set (l := s_procs s p) in *.
  intros q n Hq Hn. cbn [s_g s_procs s_held] in *.
  pose proof (HW p) as Wp. fold l in Wp.
  (* what held the locker q before the step *)
  assert (Hprev : (l_held (s_procs s q) = true /\ l_nonce (s_procs s q) = Some n) \/
                  (q = p /\ l_pc l = A_check /\ exists h, r = RGot (CInfo n h))).
  { destruct (Nat.eq_dec q p) as [->|Hne].
    - rewrite pset_same in *.
      destruct (after_fields p l r (g_acq (s_g s))) as (E1 & E2 & E3).
      rewrite E1 in Hq. rewrite E2 in Hn.
      destruct (react_gain_held _ _ _ Hq) as [Hh0|(Hpc & c & Hrc & Hown)].
      + cbn in Hh0. left. split; [exact Hh0|]. fold l. rewrite <- (same_nonce_after p l r Wp Hh0). exact Hn.
      + right. cbn in Hpc. split; [reflexivity|]. split; [exact Hpc|].
        apply own_spec in Hown. destruct Hown as (m & h & -> & Hm). cbn in Hm.
        destruct (react_nonce p (dec_fault l) r) as [E|[Hpc' _]]; [|cbn in Hpc'; fold l in Hpc'; congruence].
        rewrite E in Hn. cbn in Hn. fold l in Hm. assert (m = n) by congruence. subst m. eauto.
    - rewrite pset_other in * by assumption. left. auto. }
  destruct Hprev as [[Hq0 Hn0]|(-> & Hpc & h & ->)].
  - destruct (HJ q n Hq0 Hn0) as [Hb|[Hs|[h Hheld]]].
    + left. apply ghost_brk_mono. exact Hb.
    + right; left. apply ghost_stale_mono. exact Hs.
    + destruct (outcome_cases _ _ _ _ _ _ Hout) as [(Hr & -> & ->)|(Hnf & Hex)]; [right; right; eauto|].
      destruct (exec_held _ _ _ _ _ _ _ Hex) as [->|[(t & d & -> & -> & Htm & -> & Hnone)|(t & d & -> & -> & Hd & ->)]].
      * right; right; eauto.
      * rewrite Hheld in Hnone. discriminate.
      * pose proof (next_op_renout _ _ _ Hop) as Hpc. fold l in Hpc.
        rewrite Hheld. cbn [held_content].
        destruct Hpc as [Hpc|Hbrk].
        -- destruct (own l (CInfo n h)) eqn:Hown.
           ++ (* the owner's own unlock: it no longer believes it holds the lock *)
              exfalso.
              apply own_spec in Hown. destruct Hown as (m & h2 & Hc & Hm). inversion Hc; subst m h2.
              pose proof (W_nonce _ _ Wp _ Hm) as O1. pose proof (W_nonce _ _ (HW q) _ Hn0) as O2.
              assert (Eq : q = p) by congruence. rewrite Eq in Hq.
              rewrite pset_same in Hq.
              destruct (after_fields p l RDone (g_acq (s_g s))) as (E1 & _). rewrite E1 in Hq.
              assert (l_held (react p (dec_fault l) RDone) = false) as Hf
                by (unfold react; cbn [l_pc dec_fault]; fold l; rewrite Hpc; reflexivity).
              congruence.
           ++ right; left. apply ghost_unlock_stale; assumption.
        -- left. apply ghost_break_brk. exact Hbrk.
  - (* the confirming peek just saw our nonce in held/info *)
    right; right.
    assert (o = OGetHeld) as -> by (unfold next_op in Hop; fold l in Hop; rewrite Hpc in Hop; inversion Hop; reflexivity).
    destruct (outcome_cases _ _ _ _ _ _ Hout) as [(Hr & _)|(Hnf & Hex)]; [discriminate|].
    destruct (exec_get _ _ _ _ _ _ Hex) as (-> & _ & [(c' & Hc' & Hh')|[Hc' _]]); [|discriminate].
    inversion Hc'; subst c'. eauto.
Qed.

(* a foreign lock is moved by an unlock only after a break *)
Definition StaleAfterBreak (s : sys) : Prop := g_stale (s_g s) <> [] -> g_brk (s_g s) <> [].

Lemma ghost_stale_change : forall procs l hc r g,
  g_stale (ghost_step procs l hc r g) <> g_stale g ->
  l_pc l = U_rename /\ r = RDone /\ exists c, hc = Some c /\ own l c = false.
Proof.
  intros procs l hc r g. unfold ghost_step.
  destruct (l_pc l); destruct r; cbn; try congruence; destruct hc as [c0|]; cbn; try congruence.
  destruct (own l c0) eqn:E; cbn; try congruence. eauto.
Qed.

Lemma nonempty_in : forall (A : Type) (x : A) l, In x l -> l <> [].
Proof. intros A x l H E. subst. contradiction. Qed.

Lemma Stale_step : forall p s, Wall s -> J s -> StaleAfterBreak s -> StaleAfterBreak (step p s).
Proof.
  intros p s HW HJ HS.
  destruct (step_unfold p s) as [[_ ->]|(o & h' & tm' & r & Hop & Hout & ->)]; [exact HS|].
  set (l := s_procs s p) in *. unfold StaleAfterBreak in *. cbn [s_g]. intros Hne.
  assert (Hmono : g_brk (s_g s) <> [] -> g_brk (ghost_step (s_procs s) l (held_content (s_held s)) r (s_g s)) <> []).
  { intros Hb. destruct (g_brk (s_g s)) as [|x xs] eqn:E; [congruence|].
    apply (nonempty_in _ x). apply ghost_brk_mono. rewrite E. left. reflexivity. }
  destruct (list_eq_dec (fun a b : nonce => ltac:(decide equality; apply Nat.eq_dec))
              (g_stale (ghost_step (s_procs s) l (held_content (s_held s)) r (s_g s))) (g_stale (s_g s))) as [E|E].
  - apply Hmono. apply HS. rewrite <- E. exact Hne.
  - apply ghost_stale_change in E. destruct E as (Hpc & -> & c & Hc & Hown).
    pose proof (HW p) as Wp. fold l in Wp.
    pose proof (W_flag _ _ Wp true) as Hf. rewrite Hpc in Hf. specialize (Hf eq_refl).
    destruct (W_has _ _ Wp Hf) as (m & Hm).
    apply Hmono.
    destruct (HJ p m Hf Hm) as [Hb|[Hs|[h Hheld]]].
    + apply (nonempty_in _ m). exact Hb.
    + apply HS. apply (nonempty_in _ m). exact Hs.
    + exfalso. rewrite Hheld in Hc. cbn in Hc. inversion Hc; subst c.
      rewrite (own_intro l m h Hm) in Hown. discriminate.
Qed.

(* ------------- K: a break moves only the examined lock, absent the race window -- *)

Definition Kinv (s : sys) : Prop :=
  (forall p, l_eb (s_procs s p) <= g_acq (s_g s) /\ l_ep (s_procs s p) <= g_acq (s_g s)) /\
  (forall p x d, l_pc (s_procs s p) = B_rename x d -> l_eb (s_procs s p) = g_acq (s_g s) ->
      held_content (s_held s) = None \/ held_content (s_held s) = Some d) /\
  (forall p c, l_peeked (s_procs s p) = Some (Some c) -> l_ep (s_procs s p) = g_acq (s_g s) ->
      held_content (s_held s) = None \/ held_content (s_held s) = Some c) /\
  (g_window (s_g s) = false -> g_wrong (s_g s) = false).

Lemma ghost_acq : forall procs l hc r g,
  (g_acq (ghost_step procs l hc r g) = g_acq g /\ ~ (exists i, l_pc l = A_rename i /\ r = RDone)) \/
  ((exists i, l_pc l = A_rename i) /\ r = RDone /\ g_acq (ghost_step procs l hc r g) = S (g_acq g)).
Proof.
  intros procs l hc r g. unfold ghost_step.
  destruct (l_pc l) eqn:E; destruct r; cbn;
    try (right; repeat split; eauto; fail);
    left; (split; [|intros (j0 & Hj0 & Hr0); congruence]);
    try reflexivity; destruct hc as [c0|]; cbn; try reflexivity; destruct (own l c0); reflexivity.
Qed.

Lemma ghost_wrong_cases : forall procs l hc r g,
  g_window (ghost_step procs l hc r g) = false ->
  g_window g = false /\
  (g_wrong (ghost_step procs l hc r g) = g_wrong g \/
   (exists x d c, l_pc l = B_rename x d /\ hc = Some c /\ l_eb l = g_acq g /\
                  g_wrong (ghost_step procs l hc r g) = g_wrong g || negb (content_eqb c d)) \/
   (exists d c, l_pc l = K_rename d /\ hc = Some c /\ l_ep l = g_acq g /\
                g_wrong (ghost_step procs l hc r g) = g_wrong g || negb (content_eqb c d))).
Proof.
  intros procs l hc r g. unfold ghost_step.
  destruct (l_pc l) eqn:E; destruct r; cbn; auto; destruct hc as [c0|]; cbn; auto;
    try (destruct (own l c0); cbn; auto; fail);
    intros H; apply orb_false_iff in H; destruct H as [H1 H2];
    apply negb_false_iff in H2; apply Nat.eqb_eq in H2; (split; [exact H1|]).
  - right; left. exists x, d, c0. auto.
  - right; right. exists c, c0. auto.
Qed.

Lemma dispatch_pc_simple : forall prog l x d, l_pc (dispatch prog l) <> B_rename x d.
Proof.
  intros prog l x d H. pose proof (dispatch_pc prog l) as Hs. rewrite H in Hs. unfold start_pc in Hs.
  destruct Hs as [E|[E|[[E _]|[[E _]|[[E _]|[E|[[d' [E _]]|[d' [E _]]]]]]]]]; discriminate.
Qed.

Lemma react_to_brename : forall p l r x d,
  l_pc (react p l r) = B_rename x d ->
  l_pc l = B_peek x d /\ exists c, r = RGot c /\ content_eqb c d = true.
Proof.
  intros p l r x d. unfold react.
  destruct (l_pc l) eqn:Epc; try (intros H; congruence);
    try destruct r;
    repeat match goal with
           | |- context [if ?b then _ else _] => destruct b eqn:?
           | y : bctx |- _ => destruct y
           end; unf; cbn; intros H;
    try discriminate; try (exfalso; eapply dispatch_pc_simple; eassumption).
  all: inversion H; subst; split; [reflexivity|eauto].
Qed.

Lemma react_epochs : forall p l r, l_eb (react p l r) = l_eb l /\ l_ep (react p l r) = l_ep l.
Proof. intros p l r. react_cases l; auto. Qed.

Lemma react_peeked : forall p l r,
  (l_pc l <> P_peek /\ l_peeked (react p l r) = l_peeked l) \/
  (l_pc l = P_peek /\ forall c, l_peeked (react p l r) = Some (Some c) -> r = RGot c).
Proof.
  intros p l r. react_cases l;
    first [ left; split; [congruence|reflexivity]
          | right; split; [reflexivity|intros c' H; congruence] ].
Qed.

Lemma stamp_epochs : forall a b acq,
  (l_eb (stamp a b acq) = l_eb b \/ ((exists x d, l_pc a = B_peek x d) /\ l_eb (stamp a b acq) = acq)) /\
  (l_ep (stamp a b acq) = l_ep b \/ (l_pc a = P_peek /\ l_ep (stamp a b acq) = acq)).
Proof.
  intros. unfold stamp. destruct (l_pc a) eqn:E; cbn; split; auto.
  right. split; [eauto|reflexivity].
Qed.

Lemma K_step : forall p s, Wall s -> Kinv s -> Kinv (step p s).
Proof.
  intros p s HW (K1 & K2 & K3 & K4).
  destruct (step_unfold p s) as [[_ ->]|(o & h' & tm' & r & Hop & Hout & ->)]; [exact (conj K1 (conj K2 (conj K3 K4)))|].
  set (l := s_procs s p) in *.
  set (g' := ghost_step (s_procs s) l (held_content (s_held s)) r (s_g s)).
  set (l' := stamp l (react p (dec_fault l) r) (g_acq (s_g s))).
  pose proof (HW p) as Wp. fold l in Wp.
  destruct (react_epochs p (dec_fault l) r) as [Reb Rep]. cbn in Reb, Rep. fold l in Reb, Rep.
  destruct (stamp_epochs l (react p (dec_fault l) r) (g_acq (s_g s))) as [Seb Sep]. fold l' in Seb, Sep.
  destruct (K1 p) as [K1b K1p]. fold l in K1b, K1p.
  (* how held/info and the acquisition counter change together *)
  assert (Hch : (g_acq g' = g_acq (s_g s) /\ (held_content h' = held_content (s_held s) \/ held_content h' = None)) \/
                (g_acq g' = S (g_acq (s_g s)) /\ (exists i, l_pc l = A_rename i))).
  { destruct (ghost_acq (s_procs s) l (held_content (s_held s)) r (s_g s)) as [[Ea Hno]|[Hi [-> Ea]]]; [|right; auto].
    left. split; [exact Ea|].
    destruct (outcome_cases _ _ _ _ _ _ Hout) as [(Hr & -> & ->)|(Hnf & Hex)]; [left; reflexivity|].
    destruct (exec_held _ _ _ _ _ _ _ Hex) as [->|[(t & d & -> & -> & Htm & -> & Hnone)|(t & d & -> & -> & Hd & ->)]].
    - left; reflexivity.
    - exfalso. apply Hno. destruct (next_op_renin _ _ _ Hop) as (i & Hpc & _). eauto.
    - right; reflexivity. }
  assert (Hle : g_acq (s_g s) <= g_acq g') by (destruct Hch as [[-> _]|[-> _]]; lia).
  split; [|split; [|split]]; cbn [s_g s_procs s_held].
  - intros p0. destruct (Nat.eq_dec p0 p) as [->|Hne]; [rewrite pset_same|rewrite pset_other by assumption; destruct (K1 p0); lia].
    fold l'. fold g'. destruct Seb as [->|[_ ->]]; destruct Sep as [->|[_ ->]]; lia.
  - (* a locker about to do the break rename *)
    intros q x d Hpc Heb.
    destruct (Nat.eq_dec q p) as [->|Hne].
    + rewrite pset_same in *. fold l' in Hpc, Heb.
      destruct (after_fields p l r (g_acq (s_g s))) as (_ & _ & E3). fold l' in E3. rewrite E3 in Hpc.
      apply react_to_brename in Hpc. destruct Hpc as (Hpc & c & -> & Hc). cbn in Hpc. fold l in Hpc.
      apply content_eqb_eq in Hc. subst c.
      assert (o = OGetHeld) as -> by (unfold next_op in Hop; fold l in Hop; rewrite Hpc in Hop; inversion Hop; reflexivity).
      destruct (outcome_cases _ _ _ _ _ _ Hout) as [(Hr & _)|(Hnf & Hex)]; [discriminate|].
      destruct (exec_get _ _ _ _ _ _ Hex) as (-> & _ & [(c' & Hc' & Hh')|[Hc' _]]); [|discriminate].
      inversion Hc'; subst c'. right. rewrite Hh'. reflexivity.
    + rewrite pset_other in * by assumption.
      destruct Hch as [[Ea Hh]|[Ea _]].
      * rewrite Ea in Heb. destruct (K2 q x d Hpc Heb) as [E|E]; destruct Hh as [-> | ->]; auto.
      * exfalso. destruct (K1 q). lia.
  - (* a driver that remembers a peeked info *)
    intros q c Hpk Hep.
    destruct (Nat.eq_dec q p) as [->|Hne].
    + rewrite pset_same in *. fold l' in Hpk, Hep.
      destruct (stamp_fields l (react p (dec_fault l) r) (g_acq (s_g s))) as (_ & _ & _ & E4 & _). fold l' in E4.
      rewrite E4 in Hpk.
      destruct (react_peeked p (dec_fault l) r) as [[Hnp E]|[Hpc Hgot]].
      * rewrite E in Hpk. cbn in Hpk, Hnp. fold l in Hpk, Hnp.
        destruct Sep as [Sep|[Hpc Sep]]; [|contradiction].
        rewrite Sep, Rep in Hep.
        destruct Hch as [[Ea Hh]|[Ea _]]; [|lia].
        rewrite Ea in Hep. destruct (K3 p c Hpk Hep) as [E0|E0]; destruct Hh as [-> | ->]; auto.
      * cbn in Hpc. fold l in Hpc. specialize (Hgot c Hpk). subst r.
        assert (o = OGetHeld) as -> by (unfold next_op in Hop; fold l in Hop; rewrite Hpc in Hop; inversion Hop; reflexivity).
        destruct (outcome_cases _ _ _ _ _ _ Hout) as [(Hr & _)|(Hnf & Hex)]; [discriminate|].
        destruct (exec_get _ _ _ _ _ _ Hex) as (-> & _ & [(c' & Hc' & Hh')|[Hc' _]]); [|discriminate].
        inversion Hc'; subst c'. right. rewrite Hh'. reflexivity.
    + rewrite pset_other in * by assumption.
      destruct Hch as [[Ea Hh]|[Ea _]].
      * rewrite Ea in Hep. destruct (K3 q c Hpk Hep) as [E|E]; destruct Hh as [-> | ->]; auto.
      * exfalso. destruct (K1 q). lia.
  - (* no window => no wrong break *)
    intros Hw. fold g' in Hw. unfold g' in Hw.
    apply ghost_wrong_cases in Hw. destruct Hw as [Hw0 Hcase]. specialize (K4 Hw0). unfold g'.
    destruct Hcase as [->|[(x & d & c & Hpc & Hc & Heb & ->)|(d & c & Hpc & Hc & Hep & ->)]]; [exact K4| |].
    + rewrite K4. cbn. apply negb_false_iff. apply content_eqb_eq.
      destruct (K2 p x d Hpc Heb) as [E|E]; rewrite E in Hc; congruence.
    + rewrite K4. cbn. apply negb_false_iff. apply content_eqb_eq.
      pose proof (W_krename _ _ Wp) as Hk. unfold krename_ok in Hk. rewrite Hpc in Hk.
      destruct (K3 p d Hk Hep) as [E|E]; rewrite E in Hc; congruence.
Qed.

(* ---------------- P: the info file is complete before the rename into place -- *)

Definition pending_of (c : pc) : option nat :=
  match c with
  | A_rename i | A_peek i
  | B_peek (FromAttempt i) _ | B_rename (FromAttempt i) _ | B_read (FromAttempt i) _ _
  | B_delete (FromAttempt i) _ | B_rmdir (FromAttempt i) _ => Some i
  | _ => None
  end.

Definition W2 (p : nat) (l : lstate) : Prop :=
  match l_pc l with A_put _ => l_nonce l = Some (p, l_k l) | _ => True end.

Lemma dispatch_W2 : forall p prog l, W2 p (dispatch prog l) /\ pending_of (l_pc (dispatch prog l)) = None.
Proof.
  intros p prog l. unfold W2. pose proof (dispatch_pc prog l) as Hs. unfold start_pc in Hs.
  destruct Hs as [E|[E|[[E _]|[[E _]|[[E _]|[E|[[d' [E _]]|[d' [E _]]]]]]]]]; rewrite E; cbn; auto.
Qed.

Lemma react_W2 : forall p l r, W2 p (react p l r).
Proof.
  intros p l r. unfold react.
  destruct (l_pc l) eqn:Epc; try (unfold W2; rewrite Epc; exact I);
    try destruct r;
    repeat match goal with
           | |- context [if ?b then _ else _] => destruct b eqn:?
           | y : bctx |- _ => destruct y
           end; unf; try apply dispatch_W2; unfold W2; cbn; auto.
Qed.

Definition Wall2 (s : sys) : Prop := forall p, W2 p (s_procs s p).

Lemma W2_stamp : forall p a b acq, W2 p b -> W2 p (stamp a b acq).
Proof.
  intros p a b acq H. unfold W2 in *.
  destruct (stamp_fields a b acq) as (E1 & _ & E3 & _ & _ & E6 & _). rewrite E1, E3, E6. exact H.
Qed.

Lemma Wall2_step : forall p s, Wall2 s -> Wall2 (step p s).
Proof.
  intros p s HW q.
  destruct (step_unfold p s) as [[_ ->]|(o & h' & tm' & r & Hop & Hout & ->)]; [apply HW|].
  cbn [s_procs]. destruct (Nat.eq_dec q p) as [->|Hne].
  - rewrite pset_same. apply W2_stamp. apply react_W2.
  - rewrite pset_other by assumption. apply HW.
Qed.

Definition op_name (o : op) : option tname :=
  match o with
  | OMkdir t | OPut t _ | ORenIn t | ORenOut t | OGetTmp t | ODelete t | ORmdir t | ODelTree t => Some t
  | OGetHeld => None
  end.

Lemma exec_tm_other : forall mem o h tm h' tm' r t,
  exec_op mem o h tm = (h', tm', r) -> op_name o <> Some t -> tm' t = tm t.
Proof.
  intros mem o h tm h' tm' r t H Hn.
  destruct o; cbn in H, Hn;
    repeat match type of H with
           | context [match ?x with _ => _ end] => destruct x eqn:?
           end; inversion H; subst; try reflexivity;
    apply tset_other; congruence.
Qed.

Lemma exec_renin_fail : forall mem t h tm h' tm' r,
  exec_op mem (ORenIn t) h tm = (h', tm', r) -> r <> RDone -> tm' = tm.
Proof.
  intros mem t h tm h' tm' r H Hr. cbn in H.
  repeat match type of H with
         | context [match ?x with _ => _ end] => destruct x eqn:?
         end; inversion H; subst; congruence.
Qed.

Lemma exec_put_done : forall mem t c h tm h' tm' r,
  exec_op mem (OPut t c) h tm = (h', tm', r) -> r = RDone -> tm' t = Some (Some c).
Proof.
  intros mem t c h tm h' tm' r H Hr. cbn in H.
  destruct (tm t); inversion H; subst; [apply tset_same|discriminate].
Qed.

Lemma next_op_owner : forall p l o t, next_op p l = Some o -> op_name o = Some t -> t_owner t = p.
Proof.
  intros p l o t H Hn. unfold next_op in H.
  destruct (l_pc l); inversion H; subst; cbn in Hn; inversion Hn; reflexivity.
Qed.

Lemma next_op_pending : forall p l o i,
  next_op p l = Some o -> pending_of (l_pc l) = Some i -> op_name o = Some (Pending, p, i) ->
  l_pc l = A_rename i.
Proof.
  intros p l o i H Hp Hn. unfold next_op in H.
  destruct (l_pc l); cbn in Hp; try discriminate; inversion H; subst; cbn in Hn; try discriminate;
    try (destruct x; discriminate).
  inversion Hn; subst. inversion Hp. reflexivity.
Qed.

Lemma react_pending : forall p l r i,
  pending_of (l_pc (react p l r)) = Some i ->
  l_nonce (react p l r) = l_nonce l /\
  ((pending_of (l_pc l) = Some i /\ ~ (l_pc l = A_rename i /\ r = RDone)) \/
   (l_pc l = A_put i /\ r = RDone)).
Proof.
  intros p l r i. unfold react.
  destruct (l_pc l) eqn:Epc; try (cbn; intros; discriminate);
    try destruct r;
    repeat match goal with
           | |- context [if ?b then _ else _] => destruct b eqn:?
           | y : bctx |- _ => destruct y
           end; unf; rewrite ?dispatch_nonce;
    try (intros H; rewrite (proj2 (dispatch_W2 p _ _)) in H; discriminate);
    cbn; intros H; try discriminate; try (rewrite Epc in H; cbn in H; discriminate); inversion H; subst;
    (split; [reflexivity|]);
    first [ right; split; reflexivity
          | left; split; [reflexivity|intros [A B]; congruence] ].
Qed.

Definition Pinv (s : sys) : Prop :=
  forall p i, pending_of (l_pc (s_procs s p)) = Some i ->
    exists n h, s_tmps s (Pending, p, i) = Some (Some (CInfo n h)) /\ l_nonce (s_procs s p) = Some n.

Lemma P_step : forall p s, Wall2 s -> Pinv s -> Pinv (step p s).
Proof.
  intros p s HW2 HP.
  destruct (step_unfold p s) as [[_ ->]|(o & h' & tm' & r & Hop & Hout & ->)]; [exact HP|].
  set (l := s_procs s p) in *.
  intros q i Hq. cbn [s_procs s_tmps] in *.
  destruct (Nat.eq_dec q p) as [->|Hne].
  - rewrite pset_same in *.
    destruct (after_fields p l r (g_acq (s_g s))) as (_ & E2 & E3). rewrite E3 in Hq. rewrite E2.
    apply react_pending in Hq. destruct Hq as [En [[Hp Hno]|[Hpc ->]]].
    + cbn in Hp, Hno, En. fold l in Hp, Hno, En. rewrite En.
      destruct (HP p i Hp) as (n & h & Htm & Hn). fold l in Hn.
      exists n, h. split; [|exact Hn]. rewrite <- Htm.
      destruct (outcome_cases _ _ _ _ _ _ Hout) as [(Hr & _ & ->)|(Hnf & Hex)]; [reflexivity|].
      assert (Hdec : {op_name o = Some (Pending, p, i)} + {op_name o <> Some (Pending, p, i)}) by (repeat decide equality). destruct Hdec as [Eo|Eo].
      * pose proof (next_op_pending _ _ _ _ Hop Hp Eo) as Hpc.
        assert (o = ORenIn (Pending, p, i)) as -> by (unfold next_op in Hop; fold l in Hop; rewrite Hpc in Hop; inversion Hop; reflexivity).
        rewrite (exec_renin_fail _ _ _ _ _ _ _ Hex); [reflexivity|]. intros ->. apply Hno. auto.
      * eapply exec_tm_other; eassumption.
    + cbn in Hpc, En. fold l in Hpc, En. rewrite En.
      pose proof (HW2 p) as Hw. unfold W2 in Hw. fold l in Hw. rewrite Hpc in Hw.
      exists (p, l_k l), (l_wid l). split; [|exact Hw].
      destruct (outcome_cases _ _ _ _ _ _ Hout) as [(Hr & _)|(Hnf & Hex)]; [discriminate|].
      assert (o = OPut (Pending, p, i) (CInfo (p, l_k l) (l_wid l))) as ->
        by (unfold next_op in Hop; fold l in Hop; rewrite Hpc in Hop; inversion Hop; reflexivity).
      eapply exec_put_done; [eassumption|reflexivity].
  - rewrite pset_other in * by assumption.
    destruct (HP q i Hq) as (n & h & Htm & Hn). exists n, h. split; [|exact Hn]. rewrite <- Htm.
    destruct (outcome_cases _ _ _ _ _ _ Hout) as [(Hr & _ & ->)|(Hnf & Hex)]; [reflexivity|].
    eapply exec_tm_other; [eassumption|].
    intros Eo. pose proof (next_op_owner _ _ _ _ Hop Eo) as Ho. cbn in Ho. congruence.
Qed.

(* ---------------- R: held always carries an info file; unreadable only if it was so initially -- *)

Definition Rinv (h0 : option content) (s : sys) : Prop :=
  s_held s <> Some None /\
  forall x, s_held s = Some (Some (CCorrupt x)) -> h0 = Some (CCorrupt x).

Lemma R_step : forall h0 p s, Pinv s -> Rinv h0 s -> Rinv h0 (step p s).
Proof.
  intros h0 p s HP [R1 R2].
  destruct (step_unfold p s) as [[_ ->]|(o & h' & tm' & r & Hop & Hout & ->)]; [split; assumption|].
  set (l := s_procs s p) in *. unfold Rinv. cbn [s_held].
  destruct (outcome_cases _ _ _ _ _ _ Hout) as [(Hr & -> & ->)|(Hnf & Hex)]; [split; assumption|].
  destruct (exec_held _ _ _ _ _ _ _ Hex) as [->|[(t & d & -> & -> & Htm & -> & Hnone)|(t & d & -> & -> & Hd & ->)]].
  - split; assumption.
  - destruct (next_op_renin _ _ _ Hop) as (i & Hpc & ->). fold l in Hpc.
    destruct (HP p i) as (n & h & Htm' & _); [fold l; rewrite Hpc; reflexivity|].
    rewrite Htm' in Htm. inversion Htm; subst d. split; [discriminate|intros x Hx; discriminate].
  - split; [discriminate|intros x Hx; discriminate].
Qed.

(* ------- F: held/info never names a locker that neither holds nor is confirming -- *)

Definition Finv (h0 : option content) (s : sys) : Prop :=
  g_chkfault (s_g s) = false ->
  forall n h, s_held s = Some (Some (CInfo n h)) ->
    h0 = Some (CInfo n h) \/
    (l_nonce (s_procs s (fst n)) = Some n /\
     (l_held (s_procs s (fst n)) = true \/ l_pc (s_procs s (fst n)) = A_check)).

Lemma ghost_chk_mono : forall procs l hc r g,
  g_chkfault (ghost_step procs l hc r g) = false -> g_chkfault g = false.
Proof.
  intros procs l hc r g. unfold ghost_step.
  destruct (l_pc l); destruct r; cbn; auto; try discriminate; destruct hc as [c0|]; cbn; auto;
    destruct (own l c0); cbn; auto.
Qed.

Lemma ghost_chk_fault : forall procs l hc g,
  l_pc l = A_check -> g_chkfault (ghost_step procs l hc RFault g) = true.
Proof. intros procs l hc g E. unfold ghost_step. rewrite E. reflexivity. Qed.

Lemma react_check : forall p l c,
  l_pc l = A_check -> own l c = true ->
  l_held (react p l (RGot c)) = true /\ l_nonce (react p l (RGot c)) = l_nonce l.
Proof.
  intros p l c E Ho. unfold react. rewrite E.
  pose proof Ho as Ho'. apply own_spec in Ho'. destruct Ho' as (n & h & -> & _). cbn [readable].
  rewrite Ho. unf. rewrite dispatch_held, dispatch_nonce. cbn. auto.
Qed.

Lemma react_renin_done : forall p l i,
  l_pc l = A_rename i ->
  l_pc (react p l RDone) = A_check /\ l_nonce (react p l RDone) = l_nonce l.
Proof. intros p l i E. unfold react. rewrite E. cbn. auto. Qed.

Lemma F_step : forall h0 p s, Wall s -> Pinv s -> Finv h0 s -> Finv h0 (step p s).
Proof.
  intros h0 p s HW HP HF.
  destruct (step_unfold p s) as [[_ ->]|(o & h' & tm' & r & Hop & Hout & ->)]; [exact HF|].
  set (l := s_procs s p) in *.
  intros Hchk n h Hheld. cbn [s_g s_procs s_held] in *.
  pose proof (ghost_chk_mono _ _ _ _ _ Hchk) as Hchk0. specialize (HF Hchk0).
  pose proof (HW p) as Wp. fold l in Wp.
  destruct (after_fields p l r (g_acq (s_g s))) as (E1 & E2 & E3).
  (* the case "held/info is unchanged by the step" *)
  assert (Hsame : s_held s = Some (Some (CInfo n h)) ->
                  (r = RFault \/ (r <> RFault /\ exec_op (s_mem s) o (s_held s) (s_tmps s) = (s_held s, tm', r))) ->
                  h0 = Some (CInfo n h) \/
                  l_nonce (pset (s_procs s) p (stamp l (react p (dec_fault l) r) (g_acq (s_g s))) (fst n)) = Some n /\
                  (l_held (pset (s_procs s) p (stamp l (react p (dec_fault l) r) (g_acq (s_g s))) (fst n)) = true \/
                   l_pc (pset (s_procs s) p (stamp l (react p (dec_fault l) r) (g_acq (s_g s))) (fst n)) = A_check)).
  { intros Hh Hr.
    destruct (HF n h Hh) as [H0|[Hn Hst]]; [left; exact H0|]. right.
    destruct (Nat.eq_dec (fst n) p) as [Eo|Hne]; [|rewrite pset_other by assumption; auto].
    rewrite Eo in *. rewrite pset_same. fold l in Hn, Hst. rewrite E1, E2.
    destruct (l_held l) eqn:Hl.
    - rewrite (same_nonce_after p l r Wp Hl). split; [exact Hn|]. left.
      destruct (l_held (react p (dec_fault l) r)) eqn:Hl'; [reflexivity|exfalso].
      destruct (react_lose_held p (dec_fault l) r Hl Hl') as [Hpc ->]. cbn in Hpc. fold l in Hpc.
      destruct Hr as [Hr|[_ Hex]]; [discriminate|].
      assert (exists t, o = ORenOut t) as [t ->]
        by (unfold next_op in Hop; fold l in Hop; rewrite Hpc in Hop; inversion Hop; eauto).
      pose proof (exec_renout_done _ _ _ _ _ _ _ Hex eq_refl) as Hnone. congruence.
    - destruct Hst as [Hst|Hpc]; [discriminate|].
      destruct Hr as [->|[Hnf Hex]].
      + rewrite (ghost_chk_fault _ _ _ _ Hpc) in Hchk. discriminate.
      + assert (o = OGetHeld) as -> by (unfold next_op in Hop; fold l in Hop; rewrite Hpc in Hop; inversion Hop; reflexivity).
        destruct (exec_get _ _ _ _ _ _ Hex) as (_ & _ & [(c' & -> & Hh')|[Hc' Hno]]).
        * rewrite Hh in Hh'. inversion Hh'; subst c'.
          destruct (react_check p (dec_fault l) (CInfo n h)) as [A B]; [exact Hpc|apply own_intro; exact Hn|].
          rewrite A, B. split; [exact Hn|left; reflexivity].
        * rewrite Hh in Hno. discriminate. }
  destruct (outcome_cases _ _ _ _ _ _ Hout) as [(Hr & -> & ->)|(Hnf & Hex)].
  - apply Hsame; [exact Hheld|left; exact Hr].
  - destruct (exec_held _ _ _ _ _ _ _ Hex) as [->|[(t & d & -> & -> & Htm & -> & Hnone)|(t & d & -> & -> & Hd & ->)]].
    + apply Hsame; [exact Hheld|right; split; assumption].
    + right.
      destruct (next_op_renin _ _ _ Hop) as (i & Hpc & ->). fold l in Hpc.
      destruct (HP p i) as (m & h2 & Htm' & Hm); [fold l; rewrite Hpc; reflexivity|]. fold l in Hm.
      rewrite Htm' in Htm. inversion Htm; subst d. inversion Hheld; subst m h2.
      pose proof (W_nonce _ _ Wp _ Hm) as Ho. rewrite Ho. rewrite pset_same. rewrite E2, E3.
      destruct (react_renin_done p (dec_fault l) i Hpc) as [A B]. rewrite A, B. auto.
    + discriminate.
Qed.

(* ------------------------------------------------ all invariants together -- *)

Definition Einv (confs : list pconf) (s : sys) : Prop :=
  forall p, l_env (s_procs s p) = c_env (nth p confs idle_conf) /\
            l_wid (s_procs s p) = c_wid (nth p confs idle_conf).

Lemma E_step : forall confs p s, Einv confs s -> Einv confs (step p s).
Proof.
  intros confs p s HE q.
  destruct (step_unfold p s) as [[_ ->]|(o & h' & tm' & r & Hop & Hout & ->)]; [apply HE|].
  cbn [s_procs]. destruct (Nat.eq_dec q p) as [->|Hne]; [|rewrite pset_other by assumption; apply HE].
  rewrite pset_same.
  destruct (react_env p (dec_fault (s_procs s p)) r) as [A B]. cbn in A, B.
  unfold stamp. destruct (l_pc (s_procs s p)); cbn; rewrite ?A, ?B; apply HE.
Qed.

Record AllInv (h0 : option content) (confs : list pconf) (s : sys) : Prop := {
  ai_W : Wall s; ai_W2 : Wall2 s; ai_I1 : I1 s; ai_J : J s; ai_S : StaleAfterBreak s;
  ai_K : Kinv s; ai_P : Pinv s; ai_R : Rinv h0 s; ai_F : Finv h0 s; ai_E : Einv confs s
}.

Lemma linit_fields : forall c,
  l_held (linit c) = false /\ l_nonce (linit c) = None /\ l_peeked (linit c) = None /\
  l_eb (linit c) = 0 /\ l_ep (linit c) = 0 /\ l_env (linit c) = c_env c /\ l_wid (linit c) = c_wid c.
Proof.
  intros c. unfold linit.
  rewrite dispatch_held, dispatch_nonce, dispatch_peeked, dispatch_eb, dispatch_ep, dispatch_env, dispatch_wid.
  cbn. tauto.
Qed.

Lemma AllInv_init : forall mem h0 confs, AllInv h0 confs (init mem h0 confs).
Proof.
  intros mem h0 confs.
  constructor.
  - apply Wall_init.
  - intros p. cbn. apply dispatch_W2.
  - intros _ p Hp. cbn in Hp. unfold holds in Hp.
    destruct (linit_fields (nth p confs idle_conf)) as (E & _). rewrite E in Hp. discriminate.
  - intros p n Hp. cbn in Hp. destruct (linit_fields (nth p confs idle_conf)) as (E & _). congruence.
  - intros H. cbn in H. congruence.
  - split; [|split; [|split]]; cbn.
    + intros p. destruct (linit_fields (nth p confs idle_conf)) as (_ & _ & _ & E1 & E2 & _). lia.
    + intros p x d Hpc. exfalso. eapply dispatch_pc_simple. exact Hpc.
    + intros p c Hp. destruct (linit_fields (nth p confs idle_conf)) as (_ & _ & E & _). congruence.
    + reflexivity.
  - intros p i Hp. cbn in Hp. unfold linit in Hp. rewrite (proj2 (dispatch_W2 p _ _)) in Hp. discriminate.
  - split; cbn; destruct h0 as [c|]; try discriminate;
      intros x Hx; inversion Hx; reflexivity.
  - intros _ n h Hh. cbn in Hh. destruct h0 as [c|]; [|discriminate]. inversion Hh. left. reflexivity.
  - intros p. cbn. destruct (linit_fields (nth p confs idle_conf)) as (_ & _ & _ & _ & _ & E1 & E2). auto.
Qed.

Lemma AllInv_step : forall h0 confs p s, AllInv h0 confs s -> AllInv h0 confs (step p s).
Proof.
  intros h0 confs p s [HW HW2 HI HJ HS HK HP HR HF HE].
  constructor.
  - apply Wall_step; assumption.
  - apply Wall2_step; assumption.
  - apply I1_step; assumption.
  - apply J_step; assumption.
  - apply Stale_step; assumption.
  - apply K_step; assumption.
  - apply P_step; assumption.
  - apply R_step; assumption.
  - apply F_step; assumption.
  - apply E_step; assumption.
Qed.

Theorem all_inv : forall mem h0 confs sched, AllInv h0 confs (runs sched (init mem h0 confs)).
Proof.
  intros mem h0 confs sched. unfold runs.
  apply (run_invariant sys step (AllInv h0 confs)).
  - apply AllInv_init.
  - intros p s. apply AllInv_step.
Qed.

(* ------------------------------------------------------------- corollaries -- *)

Section Reach.
  Variables (mem : bool) (h0 : option content) (confs : list pconf) (sched : list nat).
  Let s := runs sched (init mem h0 confs).

  Lemma mutex_no_live_break :
    g_live (s_g s) = false ->
    forall p q, holds (s_procs s p) = true -> holds (s_procs s q) = true -> p = q.
  Proof.
    intros Hl p q Hp Hq. destruct (all_inv mem h0 confs sched) as [HW _ HI _ _ _ _ _ _ _]. fold s in HW, HI.
    destruct (HI Hl p Hp) as (n & h & Hh & Hn). destruct (HI Hl q Hq) as (n' & h' & Hh' & Hn').
    rewrite Hh in Hh'. inversion Hh'; subst n' h'.
    rewrite <- (W_nonce _ _ (HW p) _ Hn). apply (W_nonce _ _ (HW q) _ Hn').
  Qed.

  Lemma no_loss_no_live_break :
    g_live (s_g s) = false ->
    forall p, holds (s_procs s p) = true ->
      exists n h, l_nonce (s_procs s p) = Some n /\ fst n = p /\ s_held s = Some (Some (CInfo n h)).
  Proof.
    intros Hl p Hp. destruct (all_inv mem h0 confs sched) as [HW _ HI _ _ _ _ _ _ _]. fold s in HW, HI.
    destruct (HI Hl p Hp) as (n & h & Hh & Hn). exists n, h. repeat split; auto. apply (W_nonce _ _ (HW p) _ Hn).
  Qed.

  Lemma no_loss_without_break :
    forall p n, l_held (s_procs s p) = true -> l_nonce (s_procs s p) = Some n ->
      ~ In n (g_brk (s_g s)) -> ~ In n (g_stale (s_g s)) ->
      exists h, s_held s = Some (Some (CInfo n h)).
  Proof.
    intros p n Hp Hn Hb Hs. destruct (all_inv mem h0 confs sched) as [_ _ _ HJ _ _ _ _ _ _]. fold s in HJ.
    destruct (HJ p n Hp Hn) as [H|[H|H]]; [contradiction|contradiction|exact H].
  Qed.

  Lemma stale_only_after_break : g_stale (s_g s) <> [] -> g_brk (s_g s) <> [].
  Proof. destruct (all_inv mem h0 confs sched) as [_ _ _ _ HS _ _ _ _ _]. exact HS. Qed.

  Lemma mutex_without_break :
    g_brk (s_g s) = [] ->
    forall p q, l_held (s_procs s p) = true -> l_held (s_procs s q) = true -> p = q.
  Proof.
    intros Hb p q Hp Hq. destruct (all_inv mem h0 confs sched) as [HW _ _ HJ HS _ _ _ _ _]. fold s in HW, HJ, HS.
    assert (Hst : g_stale (s_g s) = []).
    { destruct (g_stale (s_g s)) eqn:E; [reflexivity|]. exfalso. apply HS; [rewrite E; discriminate|exact Hb]. }
    destruct (W_has _ _ (HW p) Hp) as (n & Hn). destruct (W_has _ _ (HW q) Hq) as (m & Hm).
    destruct (HJ p n Hp Hn) as [H|[H|[h Hh]]]; [rewrite Hb in H; contradiction|rewrite Hst in H; contradiction|].
    destruct (HJ q m Hq Hm) as [H|[H|[h' Hh']]]; [rewrite Hb in H; contradiction|rewrite Hst in H; contradiction|].
    rewrite Hh in Hh'. inversion Hh'; subst m h'.
    rewrite <- (W_nonce _ _ (HW p) _ Hn). apply (W_nonce _ _ (HW q) _ Hm).
  Qed.

  Lemma filter_le1 : forall (f : nat -> bool) (l : list nat),
    NoDup l -> (forall x y, In x l -> In y l -> f x = true -> f y = true -> x = y) ->
    length (filter f l) <= 1.
  Proof.
    intros f l Hnd. induction Hnd as [|a l Hna Hnd IH]; intros Hu; [cbn; lia|].
    cbn. destruct (f a) eqn:Ea.
    - assert (filter f l = []) as ->.
      { destruct (filter f l) as [|b t] eqn:E; [reflexivity|exfalso].
        assert (Hb : In b (filter f l)) by (rewrite E; left; reflexivity).
        apply filter_In in Hb. destruct Hb as [Hb1 Hb2].
        assert (a = b) by (apply Hu; [left; reflexivity|right; exact Hb1|exact Ea|exact Hb2]).
        subst b. contradiction. }
      cbn. lia.
    - apply IH. intros x y Hx Hy. apply Hu; right; assumption.
  Qed.

  Lemma observable_at_most_one : forall n, length (observable n s) <= 1.
  Proof.
    intros n. unfold observable. apply filter_le1; [apply seq_NoDup|].
    intros x y _ _ Hx Hy.
    destruct (all_inv mem h0 confs sched) as [HW _ _ _ _ _ _ _ _ _]. fold s in HW.
    apply andb_true_iff in Hx. destruct Hx as [_ Hx]. apply andb_true_iff in Hy. destruct Hy as [_ Hy].
    destruct (held_content (s_held s)) as [c|]; [|discriminate].
    apply own_spec in Hx. destruct Hx as (n1 & h1 & -> & Hn1).
    apply own_spec in Hy. destruct Hy as (n2 & h2 & Hc & Hn2). inversion Hc; subst n2 h2.
    rewrite <- (W_nonce _ _ (HW x) _ Hn1). apply (W_nonce _ _ (HW y) _ Hn2).
  Qed.

  Lemma known_dead_spec : forall e c, known_dead e c = true ->
    exists n h pd, c = CInfo n h /\ h_host h = Some (e_host e) /\ e_host e <> 0%N /\
                   h_user h = Some (e_user e) /\ h_pid h = Some pd /\ In pd (e_dead e).
  Proof.
    intros e c H. unfold known_dead in H.
    destruct c as [n h| |x]; try discriminate.
    destruct (h_host h) as [hh|] eqn:Eh; [|discriminate].
    destruct (N.eqb hh (e_host e)) eqn:E1; cbn in H; [|discriminate].
    destruct (N.eqb hh 0) eqn:E2; [discriminate|].
    destruct (h_user h) as [u|] eqn:Eu; [|discriminate].
    destruct (N.eqb u (e_user e)) eqn:E3; cbn in H; [|discriminate].
    destruct (h_pid h) as [pd|] eqn:Ep; [|discriminate].
    apply existsb_exists in H. destruct H as (x & Hx & Hpx). apply N.eqb_eq in Hpx. subst x.
    apply N.eqb_eq in E1. apply N.eqb_eq in E3. apply N.eqb_neq in E2. subst hh u.
    exists n, h, pd. repeat split; auto.
  Qed.

  Lemma steal_only_known_dead :
    forall p i d, l_pc (s_procs s p) = B_rename (FromAttempt i) d ->
      let e := c_env (nth p confs idle_conf) in
      e_steal e = true /\
      exists n h pd, d = CInfo n h /\ h_host h = Some (e_host e) /\ e_host e <> 0%N /\
                     h_user h = Some (e_user e) /\ h_pid h = Some pd /\ In pd (e_dead e).
  Proof.
    intros p i d Hpc e. destruct (all_inv mem h0 confs sched) as [HW _ _ _ _ _ _ _ _ HE]. fold s in HW, HE.
    pose proof (W_steal _ _ (HW p)) as Hs. unfold steal_ok in Hs. rewrite Hpc in Hs.
    destruct (HE p) as [Ee _]. rewrite Ee in Hs. fold e in Hs. destruct Hs as [Hk Hst].
    split; [exact Hst|]. apply known_dead_spec. exact Hk.
  Qed.

  Lemma break_only_examined_guarded : g_window (s_g s) = false -> g_wrong (s_g s) = false.
  Proof. destruct (all_inv mem h0 confs sched) as [_ _ _ _ _ (_ & _ & _ & K4) _ _ _ _]. exact K4. Qed.

  (* C27 *)
  Lemma held_recoverable :
    s_held s = None \/ exists c, s_held s = Some (Some c) /\ (readable c = true \/ h0 = Some c).
  Proof.
    destruct (all_inv mem h0 confs sched) as [_ _ _ _ _ _ _ [R1 R2] _ _]. fold s in R1, R2.
    destruct (s_held s) as [[c|]|] eqn:E; [|contradiction|left; reflexivity].
    right. exists c. split; [reflexivity|]. destruct c as [n h| |x]; cbn; auto.
  Qed.

  Lemma info_before_rename :
    forall p i, l_pc (s_procs s p) = A_rename i ->
      exists n h, s_tmps s (Pending, p, i) = Some (Some (CInfo n h)) /\ l_nonce (s_procs s p) = Some n /\ fst n = p.
  Proof.
    intros p i Hpc. destruct (all_inv mem h0 confs sched) as [HW _ _ _ _ _ HP _ _ _]. fold s in HW, HP.
    destruct (HP p i) as (n & h & Ht & Hn); [rewrite Hpc; reflexivity|].
    exists n, h. repeat split; auto. apply (W_nonce _ _ (HW p) _ Hn).
  Qed.

  Lemma failed_attempt_not_held_guarded :
    g_chkfault (s_g s) = false ->
    forall n h, s_held s = Some (Some (CInfo n h)) ->
      h0 = Some (CInfo n h) \/
      (l_nonce (s_procs s (fst n)) = Some n /\
       (l_held (s_procs s (fst n)) = true \/ l_pc (s_procs s (fst n)) = A_check)).
  Proof. destruct (all_inv mem h0 confs sched) as [_ _ _ _ _ _ _ _ HF _]. exact HF. Qed.
End Reach.

(* ------------------------------------------------ witnesses (closed terms) -- *)

Definition wid0 : hinfo := {| h_host := Some 1%N; h_user := Some 1%N; h_pid := Some 10%N |}.
Definition env0 : env := {| e_host := 1; e_user := 1; e_dead := [11%N]; e_steal := false |}.
Definition mk (prog : list cmd) (f : option nat) : pconf :=
  {| c_prog := prog; c_fault := f; c_wid := wid0; c_env := env0 |}.

(* the force_break race: B peeks A's lock, A unlocks, C acquires, B renames C's lock away *)
Definition race_confs : list pconf :=
  [mk [Attempt; Unlock] None; mk [Peek; ForceBreak] None; mk [Attempt] None; mk [Attempt] None].
Definition race_sched : list nat := [0;0;0;0; 1;1; 0;0;0;0; 2;2;2;2; 1;1; 3;3;3;3].

Lemma break_only_examined_refuted :
  exists confs sched,
    let s := runs sched (init false None confs) in
    g_wrong (s_g s) = true /\
    (* the breaker got LockBreakMismatch; the later holder's lock sits in broken.*.tmp *)
    l_log (s_procs s 1) = [RErr ELockBreakMismatch; RSaw (Some (CInfo (0, 0) wid0))] /\
    s_tmps s (Broken, 1, 0) = Some (Some (CInfo (2, 0) wid0)) /\
    (* ... so a fourth locker acquires while the third still believes it holds the lock *)
    holds (s_procs s 2) = true /\ holds (s_procs s 3) = true /\
    s_held s = Some (Some (CInfo (3, 0) wid0)).
Proof. exists race_confs, race_sched. vm_compute. repeat split; reflexivity. Qed.

(* the guard of the guarded theorem is false on that schedule, true on the sequential one *)
Example race_window_flag :
  g_window (s_g (runs race_sched (init false None race_confs))) = true /\
  g_window (s_g (runs [0;0;0;0; 1;1;1;1;1;1] (init false None race_confs))) = false /\
  g_brk (s_g (runs [0;0;0;0; 1;1;1;1;1;1] (init false None race_confs))) = [(0, 0)].
Proof. vm_compute. repeat split; reflexivity. Qed.

(* a transport fault at the confirming peek: attempt_lock raises, the lock stays on disk *)
Lemma failed_attempt_not_held_refuted :
  exists confs sched,
    let s := runs sched (init false None confs) in
    l_log (s_procs s 0) = [RErr EFault] /\ l_held (s_procs s 0) = false /\ l_pc (s_procs s 0) = Idle /\
    s_held s = Some (Some (CInfo (0, 0) wid0)).
Proof. exists [mk [Attempt] (Some 3)], [0;0;0;0]. vm_compute. repeat split; reflexivity. Qed.

(* non-vacuity: two lockers, a broken live lock, steal of a dead holder, recovery from every initial content *)
Example mutex_example :
  let s := runs [0;1;0;1;0;1;0;1;1;1] (init true None [mk [Attempt] None; mk [Attempt] None]) in
  holds (s_procs s 0) = true /\ holds (s_procs s 1) = false /\ g_live (s_g s) = false /\
  l_log (s_procs s 1) = [RErr ELockContention] /\ s_tmps s (Pending, 1, 0) = None.
Proof. vm_compute. repeat split; reflexivity. Qed.

Definition deadw : hinfo := {| h_host := Some 1%N; h_user := Some 1%N; h_pid := Some 11%N |}.
Definition envs : env := {| e_host := 1; e_user := 1; e_dead := [11%N]; e_steal := true |}.
Example steal_example :
  let confs := [ {| c_prog := [Attempt; Crash]; c_fault := None; c_wid := deadw; c_env := envs |};
                 {| c_prog := [Attempt]; c_fault := None; c_wid := wid0; c_env := envs |} ] in
  let s := runs ([0;0;0;0] ++ repeat 1 11) (init false None confs) in
  holds (s_procs s 1) = true /\ holds (s_procs s 0) = false /\ g_live (s_g s) = false /\ g_brk (s_g s) = [(0, 0)].
Proof. vm_compute. repeat split; reflexivity. Qed.

Definition recovery_prog : list cmd := [Peek; ForceBreak; BreakCorrupt; Attempt].
Example recovery_examples :
  forallb (fun h0 =>
     let s := runs (repeat 0 10) (init false h0 [mk recovery_prog None]) in
     l_held (s_procs s 0) && match s_held s with Some (Some (CInfo (0, 0) _)) => true | _ => false end)
   [None; Some (CInfo (7, 0) deadw); Some CEmpty; Some (CCorrupt 0)] = true.
Proof. vm_compute. reflexivity. Qed.
