(* Theory/TreeFacts.v -- facts about Lib/Tree.v.

   Main results (all unbounded, for arbitrary trees):
     sorted_ext                 two sorted trees with the same lookups are equal
     lookup_tset_* / lookup_tremove_* / *_sorted
     apply_changes_lookup       what a list of changes derived from (a,b) does to one id
     is_changed_false_eq        an unchanged id has the same entry in both trees
     in_changes_gen             membership in the comparison spec
     apply_changes_roundtrip    apply_changes (changes a b) a = b *)
From Coq Require Import List NArith Bool Arith Lia.
From BV Require Import Lib.Bytes Lib.Tree.
Import ListNotations.
Local Open Scope nat_scope.

(* ------------------------------------------------------------ equalities *)

Lemma bytes_eqb_iff : forall a b : bytes, bytes_eqb a b = true <-> a = b.
Proof.
  unfold bytes_eqb.
  induction a as [|x a IH]; destruct b as [|y b]; split; intro H; try reflexivity; try discriminate.
  - apply andb_prop in H as [H1 H2]. apply N.eqb_eq in H1. apply IH in H2. subst; reflexivity.
  - injection H as -> ->. rewrite N.eqb_refl. apply IH. reflexivity.
Qed.

Lemma bytes_eqb_refl' : forall a, bytes_eqb a a = true.
Proof. intro a. apply bytes_eqb_iff. reflexivity. Qed.

Lemma kind_eqb_iff : forall a b, kind_eqb a b = true <-> a = b.
Proof. destruct a, b; cbn; split; intro H; try reflexivity; discriminate. Qed.

Lemma opt_nat_eqb_iff : forall a b : option nat, opt_eqb Nat.eqb a b = true <-> a = b.
Proof.
  destruct a as [x|], b as [y|]; cbn; split; intro H; try reflexivity; try discriminate.
  - apply Nat.eqb_eq in H. subst; reflexivity.
  - injection H as ->. apply Nat.eqb_refl.
Qed.

Lemma opt_bytes_eqb_iff : forall a b : option bytes, opt_eqb bytes_eqb a b = true <-> a = b.
Proof.
  destruct a as [x|], b as [y|]; cbn; split; intro H; try reflexivity; try discriminate.
  - apply bytes_eqb_iff in H. subst; reflexivity.
  - injection H as ->. apply bytes_eqb_refl'.
Qed.

Lemma opt_bool_eqb_iff : forall a b : option bool, opt_eqb Bool.eqb a b = true <-> a = b.
Proof.
  destruct a as [x|], b as [y|]; cbn; split; intro H; try reflexivity; try discriminate.
  - apply eqb_prop in H. subst; reflexivity.
  - injection H as ->. apply eqb_reflx.
Qed.

(* ------------------------------------------------------------ sorted maps *)

Lemma keys_above_weaken : forall t k k', k' <= k -> keys_above k t -> keys_above k' t.
Proof.
  induction t as [|[j e] r IH]; cbn; intros k k' Hle H; [exact I|].
  destruct H as [H1 H2]. split; [lia | eapply IH; eauto].
Qed.

Lemma sortedb_sorted : forall t, sortedb t = true -> sorted t.
Proof.
  induction t as [|[i e] r IH]; cbn; intro H; [exact I|].
  apply andb_prop in H as [H1 H2]. split; [|apply IH; exact H2].
  clear IH H2. induction r as [|[j f] r IHr]; cbn in *; [exact I|].
  apply andb_prop in H1 as [Ha Hb]. apply Nat.ltb_lt in Ha. split; [exact Ha | apply IHr; exact Hb].
Qed.

Lemma lookup_keys_above : forall t k i, keys_above k t -> i <= k -> lookup i t = None.
Proof.
  induction t as [|[j e] r IH]; cbn; intros k i H Hle; [reflexivity|].
  destruct H as [H1 H2].
  destruct (Nat.eqb i j) eqn:E; [apply Nat.eqb_eq in E; lia | eapply IH; eauto].
Qed.

Lemma sorted_ext : forall a b, sorted a -> sorted b ->
  (forall i, lookup i a = lookup i b) -> a = b.
Proof.
  induction a as [|[i e] a IH]; intros b Sa Sb H.
  - destruct b as [|[j f] b]; [reflexivity|].
    specialize (H j). cbn in H. rewrite Nat.eqb_refl in H. discriminate.
  - destruct b as [|[j f] b].
    + specialize (H i). cbn in H. rewrite Nat.eqb_refl in H. discriminate.
    + cbn in Sa, Sb. destruct Sa as [Ka Sa], Sb as [Kb Sb].
      assert (Hij : i = j).
      { destruct (Nat.lt_trichotomy i j) as [L|[L|L]]; [|exact L|].
        - pose proof (H i) as Hi. cbn in Hi. rewrite Nat.eqb_refl in Hi.
          destruct (Nat.eqb i j) eqn:E; [apply Nat.eqb_eq in E; lia|].
          rewrite (lookup_keys_above b j i Kb) in Hi by lia. discriminate.
        - pose proof (H j) as Hj. cbn in Hj. rewrite Nat.eqb_refl in Hj.
          destruct (Nat.eqb j i) eqn:E; [apply Nat.eqb_eq in E; lia|].
          rewrite (lookup_keys_above a i j Ka) in Hj by lia. discriminate. }
      subst j.
      pose proof (H i) as Hi. cbn in Hi. rewrite Nat.eqb_refl in Hi. injection Hi as ->.
      f_equal. apply IH; [exact Sa | exact Sb |].
      intro k. specialize (H k). cbn in H.
      destruct (Nat.eqb k i) eqn:E; [|exact H].
      apply Nat.eqb_eq in E. subst k.
      rewrite (lookup_keys_above a i i Ka), (lookup_keys_above b i i Kb) by lia. reflexivity.
Qed.

Lemma lookup_tset_same : forall t i e, lookup i (tset i e t) = Some e.
Proof.
  induction t as [|[j f] r IH]; intros i e; cbn [tset tremove lookup keys_above sorted].
  - rewrite Nat.eqb_refl. reflexivity.
  - destruct (Nat.ltb i j) eqn:L; cbn [tset tremove lookup keys_above sorted].
    + rewrite Nat.eqb_refl. reflexivity.
    + destruct (Nat.eqb i j) eqn:E; cbn [tset tremove lookup keys_above sorted].
      * rewrite Nat.eqb_refl. reflexivity.
      * rewrite E. apply IH.
Qed.

Lemma lookup_tset_other : forall t i k e, k <> i -> lookup k (tset i e t) = lookup k t.
Proof.
  induction t as [|[j f] r IH]; intros i k e Hne; cbn [tset tremove lookup keys_above sorted].
  - destruct (Nat.eqb k i) eqn:E; [apply Nat.eqb_eq in E; contradiction | reflexivity].
  - destruct (Nat.ltb i j) eqn:L; cbn [tset tremove lookup keys_above sorted].
    + destruct (Nat.eqb k i) eqn:E; [apply Nat.eqb_eq in E; contradiction | reflexivity].
    + destruct (Nat.eqb i j) eqn:E; cbn [tset tremove lookup keys_above sorted].
      * apply Nat.eqb_eq in E. subst j.
        destruct (Nat.eqb k i) eqn:E2; [apply Nat.eqb_eq in E2; contradiction | reflexivity].
      * destruct (Nat.eqb k j); [reflexivity | apply IH; exact Hne].
Qed.

Lemma keys_above_tset : forall t k i e, k < i -> keys_above k t -> keys_above k (tset i e t).
Proof.
  induction t as [|[j f] r IH]; intros k i e Hlt H; cbn [tset tremove lookup keys_above sorted].
  - split; [exact Hlt | exact I].
  - cbn [tset tremove lookup keys_above sorted] in H. destruct H as [H1 H2].
    destruct (Nat.ltb i j); cbn [tset tremove lookup keys_above sorted]; [split; [exact Hlt | split; assumption]|].
    destruct (Nat.eqb i j); cbn [tset tremove lookup keys_above sorted]; [split; assumption|].
    split; [exact H1 | apply IH; assumption].
Qed.

Lemma tset_sorted : forall t i e, sorted t -> sorted (tset i e t).
Proof.
  induction t as [|[j f] r IH]; intros i e S; cbn [tset tremove lookup keys_above sorted].
  - split; exact I.
  - cbn [tset tremove lookup keys_above sorted] in S. destruct S as [K S].
    destruct (Nat.ltb i j) eqn:L; cbn [tset tremove lookup keys_above sorted].
    + apply Nat.ltb_lt in L. split; [split; [exact L | eapply keys_above_weaken; [|exact K]; lia] | split; assumption].
    + destruct (Nat.eqb i j) eqn:E; cbn [tset tremove lookup keys_above sorted].
      * apply Nat.eqb_eq in E. subst j. split; assumption.
      * apply Nat.ltb_ge in L. apply Nat.eqb_neq in E.
        split; [apply keys_above_tset; [lia | exact K] | apply IH; exact S].
Qed.

Lemma lookup_tremove_other : forall t i k, k <> i -> lookup k (tremove i t) = lookup k t.
Proof.
  induction t as [|[j f] r IH]; intros i k Hne; cbn [tset tremove lookup keys_above sorted]; [reflexivity|].
  destruct (Nat.eqb i j) eqn:E; cbn [tset tremove lookup keys_above sorted].
  - apply Nat.eqb_eq in E. subst j.
    destruct (Nat.eqb k i) eqn:E2; [apply Nat.eqb_eq in E2; contradiction | reflexivity].
  - destruct (Nat.eqb k j); [reflexivity | apply IH; exact Hne].
Qed.

Lemma lookup_tremove_same : forall t i, sorted t -> lookup i (tremove i t) = None.
Proof.
  induction t as [|[j f] r IH]; intros i S; cbn [tset tremove lookup keys_above sorted]; [reflexivity|].
  cbn in S. destruct S as [K S].
  destruct (Nat.eqb i j) eqn:E; cbn.
  - apply Nat.eqb_eq in E. subst j. eapply lookup_keys_above; [exact K | lia].
  - rewrite E. apply IH. exact S.
Qed.

Lemma keys_above_tremove : forall t k i, keys_above k t -> keys_above k (tremove i t).
Proof.
  induction t as [|[j f] r IH]; intros k i H; cbn; [exact I|].
  cbn in H. destruct H as [H1 H2].
  destruct (Nat.eqb i j); cbn; [exact H2 | split; [exact H1 | apply IH; exact H2]].
Qed.

Lemma tremove_sorted : forall t i, sorted t -> sorted (tremove i t).
Proof.
  induction t as [|[j f] r IH]; intros i S; cbn; [exact I|].
  cbn in S. destruct S as [K S].
  destruct (Nat.eqb i j); cbn; [exact S|].
  split; [apply keys_above_tremove; exact K | apply IH; exact S].
Qed.

Lemma lookup_in_keys : forall t i, lookup i t <> None <-> In i (keys t).
Proof.
  induction t as [|[j f] r IH]; intro i; cbn.
  - split; [intro H; contradiction H; reflexivity | intros []].
  - destruct (Nat.eqb i j) eqn:E.
    + apply Nat.eqb_eq in E. subst j. split; [intros _; left; reflexivity | intros _; discriminate].
    + apply Nat.eqb_neq in E. rewrite IH. split; [intro H; right; exact H | intros [H|H]; [congruence | exact H]].
Qed.

Lemma lookup_in : forall t i e, lookup i t = Some e -> In (i, e) t.
Proof.
  induction t as [|[j f] r IH]; intros i e H; cbn in *; [discriminate|].
  destruct (Nat.eqb i j) eqn:E.
  - apply Nat.eqb_eq in E. injection H as ->. subst j. left; reflexivity.
  - right. apply IH. exact H.
Qed.

Lemma keys_above_in : forall t k i e, keys_above k t -> In (i, e) t -> k < i.
Proof.
  induction t as [|[j f] r IH]; intros k i e K H; cbn in *; [contradiction|].
  destruct K as [K1 K2]. destruct H as [H|H]; [injection H as -> ->; exact K1 | eapply IH; eauto].
Qed.

Lemma in_lookup : forall t i e, sorted t -> In (i, e) t -> lookup i t = Some e.
Proof.
  induction t as [|[j f] r IH]; intros i e S H; cbn in *; [contradiction|].
  destruct S as [K S]. destruct H as [H|H].
  - injection H as -> ->. rewrite Nat.eqb_refl. reflexivity.
  - destruct (Nat.eqb i j) eqn:E.
    + apply Nat.eqb_eq in E. subst j. pose proof (keys_above_in r i i e K H). lia.
    + apply IH; assumption.
Qed.

Lemma in_merge_keys_fuel : forall n x y i, length x + length y < n ->
  (In i (merge_keys_fuel n x y) <-> In i x \/ In i y).
Proof.
  induction n as [|n IH]; intros x y i Hn; [lia|].
  cbn [merge_keys_fuel]. destruct x as [|a x]; [cbn [In]; tauto|].
  destruct y as [|b y]; [cbn [In]; tauto|].
  cbn [length] in Hn.
  destruct (Nat.ltb a b) eqn:L.
  - cbn [In]. rewrite IH by (cbn [length]; lia). cbn [In]. tauto.
  - destruct (Nat.eqb a b) eqn:E.
    + apply Nat.eqb_eq in E. subst b. cbn [In]. rewrite IH by lia. tauto.
    + cbn [In]. rewrite IH by (cbn [length]; lia). cbn [In]. tauto.
Qed.

Lemma in_merge_keys : forall x y i, In i (merge_keys x y) <-> In i x \/ In i y.
Proof. intros. unfold merge_keys. apply in_merge_keys_fuel. lia. Qed.

(* ------------------------------------------------------------ changes *)

Lemma all_normal_lookup : forall t i e, all_normalb t = true -> lookup i t = Some e -> normalb e = true.
Proof.
  intros t i e H L. apply lookup_in in L. unfold all_normalb in H.
  rewrite forallb_forall in H. apply (H (i, e)). exact L.
Qed.

Lemma content_same : forall x y, normalb x = true -> normalb y = true ->
  content_differs x y = false ->
  e_kind x = e_kind y /\ e_content x = e_content y /\ e_target x = e_target y.
Proof.
  intros [px nx kx cx xx tx] [py ny ky cy xy ty]. unfold normalb, content_differs. cbn.
  intros Nx Ny H.
  destruct (kind_eqb kx ky) eqn:K; [|discriminate]. apply kind_eqb_iff in K. subst ky.
  cbn in H.
  destruct kx.
  - apply negb_false_iff, bytes_eqb_iff in H. subst.
    destruct tx; [|discriminate]. destruct ty; [|discriminate]. auto.
  - destruct cx; [|discriminate]. destruct tx; [|discriminate].
    destruct cy; [|discriminate]. destruct ty; [|discriminate]. auto.
  - apply negb_false_iff, bytes_eqb_iff in H. subst.
    destruct cx; [|discriminate]. destruct cy; [|discriminate]. auto.
  - apply negb_false_iff, bytes_eqb_iff in H. subst.
    destruct tx; [|discriminate]. destruct ty; [|discriminate]. auto.
Qed.

Lemma c_id_mk_change : forall a b i, c_id (mk_change a b i) = i.
Proof. reflexivity. Qed.

(* an id whose change is "unchanged" has the same entry on both sides *)
Lemma is_changed_false_eq : forall a b i,
  all_normalb a = true -> all_normalb b = true ->
  is_changed (mk_change a b i) = false -> lookup i a = lookup i b.
Proof.
  intros a b i Na Nb H. unfold is_changed, mk_change in H.
  cbn [c_changed_content c_versioned c_parent c_name c_exec c_kind fst snd] in H.
  destruct (lookup i a) as [x|] eqn:La, (lookup i b) as [y|] eqn:Lb;
    cbn [option_map opt_eqb Bool.eqb negb orb] in H;
    try reflexivity; try discriminate.
  apply orb_false_iff in H as [H Hx]. apply orb_false_iff in H as [H Hn].
  apply orb_false_iff in H as [H Hp]. apply orb_false_iff in H as [H _].
  pose proof (all_normal_lookup _ _ _ Na La) as Nx.
  pose proof (all_normal_lookup _ _ _ Nb Lb) as Ny.
  destruct (content_same x y Nx Ny H) as (Hk & Hc & Ht).
  apply negb_false_iff in Hx, Hn, Hp.
  apply opt_nat_eqb_iff in Hp. apply bytes_eqb_iff in Hn. apply eqb_prop in Hx.
  destruct x, y; cbn in *. subst. reflexivity.
Qed.

Definition derived (a b : tree) (c : change) : Prop := c = mk_change a b (c_id c).

Lemma derived_mk : forall a b i, derived a b (mk_change a b i).
Proof. intros. unfold derived. reflexivity. Qed.

Lemma apply_change_sorted : forall src c t, sorted t -> sorted (apply_change src c t).
Proof.
  intros src c t S. unfold apply_change.
  destruct (snd (c_versioned c)); [|apply tremove_sorted; exact S].
  destruct (snd (c_name c)); [|exact S].
  destruct (snd (c_kind c)); [|exact S].
  destruct (snd (c_exec c)); [|exact S].
  apply tset_sorted; exact S.
Qed.

Lemma apply_changes_sorted : forall src cs t, sorted t -> sorted (apply_changes src cs t).
Proof.
  intros src cs. unfold apply_changes.
  induction cs as [|c cs IH]; intros t S; cbn; [exact S|].
  apply IH. apply apply_change_sorted. exact S.
Qed.

Lemma apply_change_other : forall src c t k, k <> c_id c ->
  lookup k (apply_change src c t) = lookup k t.
Proof.
  intros src c t k Hne. unfold apply_change.
  destruct (snd (c_versioned c)); [|apply lookup_tremove_other; exact Hne].
  destruct (snd (c_name c)); [|reflexivity].
  destruct (snd (c_kind c)); [|reflexivity].
  destruct (snd (c_exec c)); [|reflexivity].
  apply lookup_tset_other; exact Hne.
Qed.

Lemma apply_change_same : forall a b c t,
  all_normalb a = true -> all_normalb b = true -> sorted t -> derived a b c ->
  (lookup (c_id c) t = lookup (c_id c) a \/ lookup (c_id c) t = lookup (c_id c) b) ->
  lookup (c_id c) (apply_change (tree_content b) c t) = lookup (c_id c) b.
Proof.
  intros a b c t Na Nb S D Ht. set (i := c_id c) in *.
  rewrite D. fold i. unfold apply_change, mk_change. cbn.
  destruct (lookup i b) as [y|] eqn:Lb; cbn.
  2:{ apply lookup_tremove_same. exact S. }
  rewrite lookup_tset_same. f_equal.
  destruct (lookup i a) as [x|] eqn:La.
  - destruct (content_differs x y) eqn:CD.
    + unfold tree_content. rewrite Lb. destruct y; reflexivity.
    + pose proof (all_normal_lookup _ _ _ Na La) as Nx.
      pose proof (all_normal_lookup _ _ _ Nb Lb) as Ny.
      destruct (content_same x y Nx Ny CD) as (Hk & Hc & Hg).
      unfold tree_content. destruct Ht as [Ht|Ht]; rewrite Ht; cbn.
      * rewrite Hc, Hg. destruct y; reflexivity.
      * destruct y; reflexivity.
  - unfold tree_content. rewrite Lb. destruct y; reflexivity.
Qed.

(* what a list of changes derived from (a, b) does to the entry of one id *)
Lemma apply_changes_lookup : forall a b cs t i,
  all_normalb a = true -> all_normalb b = true -> sorted t ->
  Forall (derived a b) cs ->
  (lookup i t = lookup i a \/ lookup i t = lookup i b) ->
  lookup i (apply_changes (tree_content b) cs t) =
    if existsb (fun c => Nat.eqb (c_id c) i) cs then lookup i b else lookup i t.
Proof.
  intros a b cs. unfold apply_changes.
  induction cs as [|c cs IH]; intros t i Na Nb S F Ht; cbn; [reflexivity|].
  inversion F as [|? ? Dc Fcs]; subst.
  pose proof (apply_change_sorted (tree_content b) c t S) as S1.
  destruct (Nat.eqb (c_id c) i) eqn:E; cbn.
  - apply Nat.eqb_eq in E. subst i.
    pose proof (apply_change_same a b c t Na Nb S Dc Ht) as H1.
    rewrite (IH _ _ Na Nb S1 Fcs (or_intror H1)). rewrite H1.
    destruct (existsb _ cs); reflexivity.
  - apply Nat.eqb_neq in E.
    assert (H1 : lookup i (apply_change (tree_content b) c t) = lookup i t)
      by (apply apply_change_other; congruence).
    rewrite (IH _ _ Na Nb S1 Fcs) by (rewrite H1; exact Ht). rewrite H1. reflexivity.
Qed.

(* ids that no change mentions keep their entry (no hypothesis needed) *)
Lemma apply_changes_untouched : forall src cs t i,
  existsb (fun c => Nat.eqb (c_id c) i) cs = false ->
  lookup i (apply_changes src cs t) = lookup i t.
Proof.
  intros src cs. unfold apply_changes.
  induction cs as [|c cs IH]; intros t i H; cbn in *; [reflexivity|].
  apply orb_false_iff in H as [H1 H2]. apply Nat.eqb_neq in H1.
  rewrite IH by exact H2. apply apply_change_other. congruence.
Qed.

Lemma in_changes_gen : forall incl a b c,
  In c (changes_gen incl a b) <->
  exists i, (In i (keys a) \/ In i (keys b)) /\ c = mk_change a b i /\
            (incl || is_changed c) = true.
Proof.
  intros incl a b c. unfold changes_gen. rewrite in_flat_map. split.
  - intros (i & Hi & Hc). apply in_merge_keys in Hi.
    destruct (versioned_somewhere (mk_change a b i) && (incl || is_changed (mk_change a b i))) eqn:E;
      [|contradiction].
    destruct Hc as [Hc|[]]. subst c. apply andb_prop in E as [_ E]. exists i. auto.
  - intros (i & Hi & -> & Hc). exists i. split; [apply in_merge_keys; exact Hi|].
    assert (V : versioned_somewhere (mk_change a b i) = true).
    { unfold versioned_somewhere, mk_change. cbn.
      destruct Hi as [Hi|Hi]; apply lookup_in_keys in Hi.
      - destruct (lookup i a); [reflexivity | contradiction Hi; reflexivity].
      - destruct (lookup i b); [apply orb_true_r | contradiction Hi; reflexivity]. }
    rewrite V, Hc. left; reflexivity.
Qed.

Lemma changes_gen_derived : forall incl a b, Forall (derived a b) (changes_gen incl a b).
Proof.
  intros. apply Forall_forall. intros c Hc. apply in_changes_gen in Hc as (i & _ & -> & _).
  apply derived_mk.
Qed.

(* THE round trip: applying the full (unfiltered) change set to the source
   yields the target.  Only sortedness and entry normalisation are needed. *)
Theorem apply_changes_roundtrip_strong : forall a b,
  sorted a -> sorted b -> all_normalb a = true -> all_normalb b = true ->
  apply_changes (tree_content b) (changes a b) a = b.
Proof.
  intros a b Sa Sb Na Nb.
  apply sorted_ext; [apply apply_changes_sorted; exact Sa | exact Sb |].
  intro i.
  rewrite (apply_changes_lookup a b (changes a b) a i Na Nb Sa (changes_gen_derived false a b) (or_introl eq_refl)).
  destruct (existsb (fun c => Nat.eqb (c_id c) i) (changes a b)) eqn:E; [reflexivity|].
  destruct (lookup i a) as [x|] eqn:La, (lookup i b) as [y|] eqn:Lb; try reflexivity;
  (destruct (is_changed (mk_change a b i)) eqn:C;
   [ exfalso;
     assert (Hin : In (mk_change a b i) (changes a b));
     [ apply in_changes_gen; exists i; split;
       [ first [ left; apply lookup_in_keys; rewrite La; discriminate
               | right; apply lookup_in_keys; rewrite Lb; discriminate ]
       | split; [reflexivity | rewrite C; reflexivity] ]
     | assert (E' : existsb (fun c => Nat.eqb (c_id c) i) (changes a b) = true);
       [ apply existsb_exists; exists (mk_change a b i); split; [exact Hin | cbn; apply Nat.eqb_refl]
       | rewrite E in E'; discriminate ] ]
   | rewrite <- La, <- Lb; apply is_changed_false_eq; assumption ]).
Qed.

Lemma valid_tree_parts : forall t, valid_tree t ->
  sorted t /\ all_normalb t = true.
Proof.
  unfold valid_tree, valid_treeb. intros t H.
  repeat (apply andb_prop in H; destruct H as [H ?]).
  split; [apply sortedb_sorted; assumption | assumption].
Qed.

Theorem apply_changes_roundtrip : forall a b, valid_tree a -> valid_tree b ->
  apply_changes (tree_content b) (changes a b) a = b.
Proof.
  intros a b Va Vb.
  destruct (valid_tree_parts a Va) as [Sa Na], (valid_tree_parts b Vb) as [Sb Nb].
  apply apply_changes_roundtrip_strong; assumption.
Qed.
