(* Theory/WTLaws.v -- C09: laws of the specification machine.
   status sound+complete (both formats), commit-then-clean and
   revert-restores-basis (dirstate format, all reachable states), re-open
   identity; the git commit law is refuted by a concrete state (an index entry
   that became a directory on disk). *)
From Coq Require Import NArith Arith List Bool Lia.
From BV Require Import Lib.Obs Model.WT Theory.WTBase Theory.WTValid.
Import ListNotations.

(* ------------------------------------------------------------------ *)
(* status is sound and complete                                        *)

Lemma okind_eqb_spec a b : okind_eqb a b = true <-> a = b.
Proof. destruct a as [[|]|], b as [[|]|]; simpl; split; intros H; try reflexivity; try discriminate. Qed.
Lemma bytes_eqb_spec (a b : list N) : list_eqb N.eqb a b = true <-> a = b.
Proof. apply list_eqb_spec. intros; apply N.eqb_eq. Qed.
Lemma bool_eqb_spec (a b : bool) : Bool.eqb a b = true <-> a = b.
Proof. destruct a, b; simpl; split; intros H; try reflexivity; try discriminate. Qed.

Lemma tentry_eqb_spec a b : tentry_eqb a b = true <-> a = b.
Proof.
  destruct a as [p1 k1 c1 x1], b as [p2 k2 c2 x2]. unfold tentry_eqb. simpl.
  rewrite !andb_true_iff, path_eqb_spec, okind_eqb_spec, bytes_eqb_spec, bool_eqb_spec.
  split; [intros [[[-> ->] ->] ->]; reflexivity | intros H; inversion H; auto].
Qed.

(* the dirstate comparison looks at (parent id, name, kind, text, exec) -- not at the path itself *)
Definition pkey (e : pentry) := (pparent e, pname e, tkind (pent e), tcontent (pent e), texec (pent e)).
Lemma pentry_eqb_spec a b : pentry_eqb a b = true <-> pkey a = pkey b.
Proof.
  destruct a as [pa na [p1 k1 c1 x1]], b as [pb nb [p2 k2 c2 x2]]. unfold pentry_eqb, pkey. simpl.
  rewrite !andb_true_iff, name_eqb_spec, okind_eqb_spec, bytes_eqb_spec, bool_eqb_spec.
  assert (Hp : (match pa, pb with
                | None, None => true
                | Some x, Some y => match x, y with Some i, Some j => Nat.eqb i j | None, None => true | _, _ => false end
                | _, _ => false
                end) = true <-> pa = pb).
  { destruct pa as [[i|]|], pb as [[j|]|]; split; intros H; try reflexivity; try discriminate.
    - apply Nat.eqb_eq in H. subst. reflexivity.
    - inversion H. apply Nat.eqb_refl. }
  rewrite Hp. split; [intros [[[[-> ->] ->] ->] ->]; reflexivity | intros H; inversion H; auto].
Qed.

(* Git: applying the reported changes to the basis tree gives the working snapshot, path by path *)
Theorem git_status_sound_complete s p :
  assoc path_eqb p (apply_changes path_eqb (git_status s) (git_basis_tree s)) = assoc path_eqb p (git_snapshot s).
Proof. apply (changes_sound_complete path_eqb path_eqb_spec tentry_eqb tentry_eqb_spec). Qed.

(* Bzr: the comparison key is [pkey]; quotienting entries by it the same law holds.  We state it on the
   key projection so that boolean equality is Leibniz equality. *)
Definition ktree (t : list (nat * tentry)) := map (fun e => (fst e, pkey (snd e))) (ptree t).
Definition pkey_eqb (a b : option (option nat) * name * option kind * list N * bool) : bool :=
  (match fst (fst (fst (fst a))), fst (fst (fst (fst b))) with
   | None, None => true
   | Some x, Some y => match x, y with Some i, Some j => Nat.eqb i j | None, None => true | _, _ => false end
   | _, _ => false
   end) && name_eqb (snd (fst (fst (fst a)))) (snd (fst (fst (fst b)))) &&
  okind_eqb (snd (fst (fst a))) (snd (fst (fst b))) && list_eqb N.eqb (snd (fst a)) (snd (fst b)) &&
  Bool.eqb (snd a) (snd b).
Lemma pkey_eqb_spec a b : pkey_eqb a b = true <-> a = b.
Proof.
  destruct a as [[[[pa na] ka] ca] xa], b as [[[[pb nb] kb] cb] xb]. unfold pkey_eqb. simpl.
  rewrite !andb_true_iff, name_eqb_spec, okind_eqb_spec, bytes_eqb_spec, bool_eqb_spec.
  assert (Hp : (match pa, pb with
                | None, None => true
                | Some x, Some y => match x, y with Some i, Some j => Nat.eqb i j | None, None => true | _, _ => false end
                | _, _ => false
                end) = true <-> pa = pb).
  { destruct pa as [[i|]|], pb as [[j|]|]; split; intros H; try reflexivity; try discriminate.
    - apply Nat.eqb_eq in H. subst. reflexivity.
    - inversion H. apply Nat.eqb_refl. }
  rewrite Hp. split; [intros [[[[-> ->] ->] ->] ->]; reflexivity | intros H; inversion H; auto].
Qed.

Theorem bzr_status_sound_complete s k :
  assoc Nat.eqb k (apply_changes Nat.eqb (changes Nat.eqb pkey_eqb (ktree (sbasis s)) (ktree (bzr_view s)))
                                 (ktree (sbasis s)))
  = assoc Nat.eqb k (ktree (bzr_view s)).
Proof. apply (changes_sound_complete Nat.eqb nat_eqb_spec pkey_eqb pkey_eqb_spec). Qed.

(* the rows of [bzr_status] are exactly the ids whose keys differ *)
Lemma assoc_map_snd {A B C} (eqb : A -> A -> bool) (g : B -> C) k (l : list (A * B)) :
  assoc eqb k (map (fun e => (fst e, g (snd e))) l) = option_map g (assoc eqb k l).
Proof.
  induction l as [|[k' v] l IH]; simpl; [reflexivity|]. destruct (eqb k k'); [reflexivity | exact IH].
Qed.

Theorem bzr_status_rows s k :
  (exists x y, In (k, x, y) (bzr_status s)) <->
  assoc Nat.eqb k (ktree (sbasis s)) <> assoc Nat.eqb k (ktree (bzr_view s)).
Proof.
  unfold bzr_status, ktree. rewrite !assoc_map_snd.
  set (a := ptree (sbasis s)). set (b := ptree (bzr_view s)).
  assert (Hiff : oeeqb pentry_eqb (assoc Nat.eqb k a) (assoc Nat.eqb k b) = true <->
                 option_map pkey (assoc Nat.eqb k a) = option_map pkey (assoc Nat.eqb k b)).
  { destruct (assoc Nat.eqb k a) as [x|], (assoc Nat.eqb k b) as [y|]; simpl.
    - rewrite pentry_eqb_spec. split; [intros ->; reflexivity | intros H; congruence].
    - split; discriminate.
    - split; discriminate.
    - split; reflexivity. }
  split.
  - intros [x [y Hin]]. unfold changes in Hin. apply in_flat_map in Hin as [k' [Hk Hc]].
    destruct (oeeqb pentry_eqb (assoc Nat.eqb k' a) (assoc Nat.eqb k' b)) eqn:E; [destruct Hc|].
    destruct Hc as [Hc|[]]. inversion Hc; subst. intros Heq. apply Hiff in Heq. congruence.
  - intros Hne. exists (assoc Nat.eqb k a), (assoc Nat.eqb k b).
    unfold changes. apply in_flat_map. exists k. split.
    + apply (keys_union_complete Nat.eqb nat_eqb_spec).
      destruct (assoc Nat.eqb k a); [left; discriminate|].
      destruct (assoc Nat.eqb k b); [right; discriminate | exfalso; apply Hne; reflexivity].
    + destruct (oeeqb pentry_eqb (assoc Nat.eqb k a) (assoc Nat.eqb k b)) eqn:E.
      * exfalso. apply Hne. apply Hiff. reflexivity.
      * left; reflexivity.
Qed.

Lemma bzr_status_same s : sbasis s = bzr_view s -> bzr_status s = [].
Proof.
  intros H. unfold bzr_status. rewrite H.
  unfold changes. induction (keys_union Nat.eqb (ptree (bzr_view s)) (ptree (bzr_view s))) as [|k l IH];
    simpl; [reflexivity|].
  assert (Hr : oeeqb pentry_eqb (assoc Nat.eqb k (ptree (bzr_view s))) (assoc Nat.eqb k (ptree (bzr_view s))) = true).
  { destruct (assoc Nat.eqb k (ptree (bzr_view s))); simpl; [|reflexivity]. apply pentry_eqb_spec. reflexivity. }
  rewrite Hr. exact IH.
Qed.

(* ------------------------------------------------------------------ *)
(* commit then clean (dirstate format)                                 *)

Lemma view_entry_idem d p : view_entry d (tpath (view_entry d p)) = view_entry d p.
Proof. rewrite view_entry_path. reflexivity. Qed.

Theorem bzr_commit_then_clean s st s' :
  bzr_commit s = Done st s' -> st = SOk /\ bzr_view s' = sbasis s' /\ bzr_status s' = [].
Proof.
  unfold bzr_commit. intros H; inversion H; subst; clear H.
  assert (Hv : forall keep, (forall e, In e keep -> In e (bzr_view s)) ->
               map (fun e : nat * (path * kind) => (fst e, view_entry (sdisk s) (fst (snd e))))
                   (map (fun e : nat * tentry => (fst e, (tpath (snd e), match tkind (snd e) with Some KD => KD | _ => KF end))) keep)
               = keep).
  { intros keep Hsub. rewrite map_map. simpl. rewrite <- (map_id keep) at 2. apply map_ext_in.
    intros [k e] Hin. simpl. f_equal. apply Hsub in Hin. unfold bzr_view in Hin.
    apply in_map_iff in Hin as [[k' [p kd]] [He _]]. simpl in He. inversion He; subst. apply view_entry_idem. }
  split; [reflexivity|].
  assert (Hview : bzr_view {| sdisk := sdisk s;
      sinv := map (fun e : nat * tentry => (fst e, (tpath (snd e), match tkind (snd e) with Some KD => KD | _ => KF end)))
                  (filter (fun e : nat * tentry => negb (existsb (fun m : path => under m (tpath (snd e)))
                     (map (fun e0 : nat * tentry => tpath (snd e0))
                        (filter (fun e0 : nat * tentry => match tkind (snd e0) with Some _ => false | None => true end) (bzr_view s)))))
                     (bzr_view s));
      sindex := sindex s;
      sbasis := filter (fun e : nat * tentry => negb (existsb (fun m : path => under m (tpath (snd e)))
                     (map (fun e0 : nat * tentry => tpath (snd e0))
                        (filter (fun e0 : nat * tentry => match tkind (snd e0) with Some _ => false | None => true end) (bzr_view s)))))
                     (bzr_view s);
      gbasis := gbasis s; scommitted := true; snext := snext s |} =
    filter (fun e : nat * tentry => negb (existsb (fun m : path => under m (tpath (snd e)))
                     (map (fun e0 : nat * tentry => tpath (snd e0))
                        (filter (fun e0 : nat * tentry => match tkind (snd e0) with Some _ => false | None => true end) (bzr_view s)))))
                     (bzr_view s)).
  { unfold bzr_view at 1. cbn [sdisk sinv]. apply Hv. intros e He. apply filter_In in He as [He _]. exact He. }
  split; [exact Hview|]. apply bzr_status_same. cbn [sbasis]. symmetry. exact Hview.
Qed.

(* ------------------------------------------------------------------ *)
(* revert restores the basis (dirstate format)                         *)

(* a basis entry is what [view_entry] would read back from its own node *)
Definition norm_entry (e : tentry) : Prop := view_entry [(tpath e, tnode e)] (tpath e) = e.
Definition basis_norm (s : state) : Prop := Forall (fun e => norm_entry (snd e)) (sbasis s).

Lemma norm_view d p : tkind (view_entry d p) <> None -> norm_entry (view_entry d p).
Proof.
  unfold norm_entry. rewrite view_entry_path. unfold view_entry at 1 3 4. unfold tnode.
  destruct p as [|a p].
  - simpl. intros _. reflexivity.
  - unfold view_entry. destruct (dl d (a :: p)) as [[c x|]|] eqn:E; simpl; intros Hk;
      try (exfalso; apply Hk; reflexivity); rewrite !path_eqb_refl; reflexivity.
Qed.

Lemma norm_read d e : norm_entry e -> (tpath e <> [] -> dl d (tpath e) = Some (tnode e)) -> view_entry d (tpath e) = e.
Proof.
  unfold norm_entry. intros Hn Hd.
  transitivity (view_entry [(tpath e, tnode e)] (tpath e)); [|exact Hn].
  assert (Hl : dl d (tpath e) = dl [(tpath e, tnode e)] (tpath e)).
  { destruct (tpath e) as [|a p] eqn:Ep; [reflexivity|].
    rewrite Hd by discriminate. unfold dl, assoc. rewrite path_eqb_refl. reflexivity. }
  unfold view_entry. rewrite Hl. reflexivity.
Qed.

Lemma assoc_app_l {A B} (eqb : A -> A -> bool) k (a b : list (A * B)) v :
  assoc eqb k a = Some v -> assoc eqb k (a ++ b) = Some v.
Proof.
  induction a as [|[k' v'] a IH]; simpl; [discriminate|]. destruct (eqb k k'); [auto | exact IH].
Qed.

Definition bnodes_of (b : list (nat * tentry)) : disk :=
  flat_map (fun e => match tpath (snd e) with [] => [] | p => [(p, tnode (snd e))] end) b.

Lemma bnodes_lookup b k e :
  NoDup (map snd (bproj b)) -> In (k, e) b -> tpath e <> [] ->
  assoc path_eqb (tpath e) (bnodes_of b) = Some (tnode e).
Proof.
  induction b as [|[k' e'] b IH]; [intros _ []|].
  intros Hnd Hin Hne. simpl in Hnd. inversion Hnd as [|x l Hnotin Hnd']; subst.
  destruct Hin as [Hin|Hin].
  - inversion Hin; subst e' k'. clear IH. unfold bnodes_of. cbn [flat_map snd].
    destruct (tpath e) as [|a p] eqn:Ep; [contradiction|]. cbn [app assoc].
    rewrite path_eqb_refl. reflexivity.
  - unfold bnodes_of. cbn [flat_map snd]. fold (bnodes_of b).
    destruct (tpath e') as [|a' p'] eqn:Ep'; cbn [app].
    + apply IH; assumption.
    + cbn [assoc]. destruct (path_eqb (tpath e) (a' :: p')) eqn:E.
      * apply path_eqb_spec in E. exfalso. apply Hnotin. simpl. rewrite <- E.
        apply in_map_iff. exists (k, tpath e). split; [reflexivity|].
        unfold bproj. apply in_map_iff. exists (k, e). split; [reflexivity | assumption].
      * apply IH; assumption.
Qed.

Theorem bzr_revert_restores_basis s st s' :
  vt (snext s) (bproj (sbasis s)) -> basis_norm s ->
  bzr_revert s = Done st s' ->
  st = SOk /\ sbasis s' = sbasis s /\ bzr_view s' = sbasis s /\ bzr_status s' = [].
Proof.
  intros Hb Hnorm. unfold bzr_revert.
  match goal with |- match revert_disk ?d ?bo ?ch ?ad ?bn ?f with _ => _ end = _ -> _ =>
    destruct (revert_disk d bo ch ad bn f) as [d'|] eqn:Erd; [|discriminate] end.
  intros H; inversion H; subst; clear H. split; [reflexivity|]. split; [reflexivity|].
  set (i := map (fun e : nat * tentry => (fst e, (tpath (snd e), match tkind (snd e) with Some KD => KD | _ => KF end))) (sbasis s)).
  assert (Hroot : assoc Nat.eqb 0 i <> None).
  { intros Hn. apply (assoc_None Nat.eqb nat_eqb_spec) in Hn. apply Hn.
    pose proof (vt_root _ _ Hb) as Hr. apply (in_map fst) in Hr. simpl in Hr.
    unfold i. rewrite map_map. simpl. unfold bproj in Hr. rewrite map_map in Hr. exact Hr. }
  (* what revert_disk returns starts with the basis nodes *)
  assert (Hpre : forall p v, assoc path_eqb p (bnodes_of (sbasis s)) = Some v -> assoc path_eqb p d' = Some v).
  { unfold revert_disk in Erd.
    match type of Erd with (if ?c then _ else _) = _ => destruct c; [discriminate|] end.
    match type of Erd with (if ?c then _ else _) = _ => destruct c; [discriminate|] end.
    match type of Erd with (if ?c then _ else _) = _ => destruct c; [|discriminate] end.
    injection Erd as <-. intros p v Hp. apply assoc_app_l. exact Hp. }
  clear Erd.
  assert (Hview : bzr_view {| sdisk := d'; sinv := match assoc Nat.eqb 0 i with Some _ => i | None => (0, ([], KD)) :: i end;
                              sindex := sindex s; sbasis := sbasis s; gbasis := gbasis s;
                              scommitted := scommitted s; snext := snext s |} = sbasis s).
  { unfold bzr_view. cbn [sdisk sinv]. destruct (assoc Nat.eqb 0 i); [|contradiction].
    unfold i. rewrite map_map. simpl. rewrite <- (map_id (sbasis s)) at 2. apply map_ext_in.
    intros [k e] Hin. simpl. f_equal. apply norm_read.
    - unfold basis_norm in Hnorm. rewrite Forall_forall in Hnorm. apply (Hnorm (k, e)). exact Hin.
    - intros Hne. destruct (tpath e) as [|a0 p0] eqn:Ep; [contradiction|].
      unfold dl. apply Hpre. rewrite <- Ep. apply (bnodes_lookup (sbasis s) k e).
      + apply (vt_paths _ _ Hb).
      + exact Hin.
      + rewrite Ep. discriminate. }
  split; [exact Hview|]. apply bzr_status_same. cbn [sbasis]. symmetry. exact Hview.
Qed.

(* the normal-form invariant of the basis holds in every reachable state *)
Lemma bzr_commit_norm s st s' : bzr_commit s = Done st s' -> basis_norm s'.
Proof.
  unfold bzr_commit. intros H; inversion H; subst; clear H. unfold basis_norm. cbn [sbasis].
  apply Forall_forall. intros [k e] Hin. simpl. apply filter_In in Hin as [Hin Hkeep]. simpl in Hkeep.
  unfold bzr_view in Hin. pose proof Hin as Hin0. apply in_map_iff in Hin as [[k' [p kd]] [He _]]. simpl in He.
  inversion He; subst. apply norm_view. intros Hnone.
  apply negb_true_iff in Hkeep. apply not_true_iff_false in Hkeep. apply Hkeep.
  apply existsb_exists. exists p. split.
  - apply in_map_iff. exists (k, view_entry (sdisk s) p). split; [apply view_entry_path|].
    apply filter_In. split; [exact Hin0|]. simpl. rewrite Hnone. reflexivity.
  - rewrite view_entry_path. apply under_refl.
Qed.

Ltac res_inv := intros H; inversion H; subst; try reflexivity.

Lemma add_entry_basis s p k st s' : bzr_add_entry s p k = Done st s' -> sbasis s' = sbasis s.
Proof.
  unfold bzr_add_entry. destruct (bzr_parent_check s p) as [[e|]|]; try discriminate; res_inv.
Qed.

Lemma bzr_rename_one_basis s p q st s' : bzr_rename_one s p q = Done st s' -> sbasis s' = sbasis s.
Proof.
  unfold bzr_rename_one, refuse, ok.
  repeat match goal with
         | |- Done _ _ = Done _ _ -> _ => intros H; inversion H; subst; reflexivity
         | |- Stuck = Done _ _ -> _ => discriminate
         | |- context [match ?x with _ => _ end] => destruct x
         | |- context [if ?x then _ else _] => destruct x
         end.
Qed.

Lemma bzr_move_basis s p d st s' : bzr_move s p d = Done st s' -> sbasis s' = sbasis s.
Proof.
  unfold bzr_move, refuse, ok.
  repeat match goal with
         | |- Done _ _ = Done _ _ -> _ => intros H; inversion H; subst; reflexivity
         | |- Stuck = Done _ _ -> _ => discriminate
         | |- context [match ?x with _ => _ end] => destruct x
         | |- context [if ?x then _ else _] => destruct x
         end.
Qed.

Lemma bzr_add_basis s p st s' : bzr_add s p = Done st s' -> sbasis s' = sbasis s.
Proof.
  unfold bzr_add. destruct (dl (sdisk s) p); [|res_inv].
  destruct (path2id (sinv s) p); [res_inv|]. apply add_entry_basis.
Qed.

Lemma move_many_bzr_basis ps : forall s d st s', move_many Bzr s ps d = Done st s' -> sbasis s' = sbasis s.
Proof.
  induction ps as [|p ps IH]; intros s d st s'; simpl; [res_inv|].
  destruct (bzr_move s p d) as [[|e] s1|] eqn:E; [| |discriminate].
  - intros H. apply IH in H. apply bzr_move_basis in E. congruence.
  - intros H; inversion H; subst. eapply bzr_move_basis; eassumption.
Qed.

Lemma step_bzr_basis_norm s o st s' : basis_norm s -> step Bzr s o = Done st s' -> basis_norm s'.
Proof.
  intros Hn. unfold basis_norm in *.
  assert (Hsame : sbasis s' = sbasis s -> Forall (fun e => norm_entry (snd e)) (sbasis s')).
  { intros ->. exact Hn. }
  destruct o; cbn [step].
  - unfold bzr_add. destruct (dl (sdisk s) p); [|res_inv; exact Hn].
    destruct (path2id (sinv s) p); [res_inv; exact Hn|]. intros H. apply Hsame. eapply add_entry_basis; eassumption.
  - unfold bzr_mkdir. destruct (d_mkdir (sdisk s) p); [res_inv; exact Hn|].
    destruct (path2id (sinv s) p); [res_inv; exact Hn|]. intros H. apply Hsame.
    apply add_entry_basis in H. exact H.
  - unfold bzr_remove. destruct p; res_inv; exact Hn.
  - unfold bzr_remove. destruct p; res_inv; exact Hn.
  - intros H. apply Hsame. eapply bzr_rename_one_basis; eassumption.
  - intros H. apply Hsame. eapply bzr_move_basis; eassumption.
  - unfold op_put. destruct (dl (sdisk s) p) as [[c0 x|]|]; try (res_inv; exact Hn).
    destruct (parent_err (sdisk s) p); res_inv; exact Hn.
  - unfold op_chmod. destruct (dl (sdisk s) p) as [[c0 x0|]|]; res_inv; exact Hn.
  - unfold op_osrm. destruct p; [res_inv; exact Hn|]. destruct (exists_ _ _); res_inv; exact Hn.
  - unfold op_osmkdir. destruct (d_mkdir _ _); res_inv; exact Hn.
  - intros H. eapply bzr_commit_norm; eassumption.
  - unfold bzr_revert. destruct (revert_disk _ _ _ _ _ _); [|discriminate]. res_inv; exact Hn.
  - res_inv; exact Hn.
  - intros H. apply Hsame. eapply move_many_bzr_basis; eassumption.
  - unfold smart_add. destruct (isfile (sdisk s) p); [|discriminate].
    destruct (path2id (sinv s) p); [intros H; apply Hsame; eapply bzr_add_basis; eassumption|].
    destruct (bzr_parent_check s p); [discriminate|]. intros H; apply Hsame; eapply bzr_add_basis; eassumption.
Qed.

Lemma run_bzr_basis_norm : forall ops s, basis_norm s -> basis_norm (run Bzr s ops).
Proof.
  induction ops as [|o ops IH]; intros s Hn; simpl; [exact Hn|].
  destruct (step Bzr s o) as [st s'|] eqn:E; [|exact Hn].
  apply IH. eapply step_bzr_basis_norm; eassumption.
Qed.

(* revert after any operation sequence *)
Theorem bzr_revert_after_run ops st s' :
  let s := run Bzr init_state ops in
  sbasis s <> [] -> bzr_revert s = Done st s' ->
  st = SOk /\ sbasis s' = sbasis s /\ bzr_view s' = sbasis s /\ bzr_status s' = [].
Proof.
  intros s Hne Hr. apply bzr_revert_restores_basis; [| |exact Hr].
  - pose proof (run_valid Bzr ops init_state (init_valid Bzr)) as [_ [Hb|Hb]]; [contradiction | exact Hb].
  - apply run_bzr_basis_norm. constructor.
Qed.

(* with a null basis revert unversions everything *)
Theorem bzr_revert_null_basis s st s' :
  sbasis s = [] -> bzr_revert s = Done st s' -> st = SOk /\ sinv s' = [(0, ([], KD))] /\ sbasis s' = [].
Proof.
  intros Hb. unfold bzr_revert. rewrite Hb. simpl.
  destruct (revert_disk _ _ _ _ _ _); [|discriminate]. intros H; inversion H; subst. simpl. auto.
Qed.

(* ------------------------------------------------------------------ *)
(* re-open                                                             *)

Theorem reopen_identity f s : step f s OReopen = Done SOk s.
Proof. reflexivity. Qed.

(* ------------------------------------------------------------------ *)
(* git: commit-then-clean fails when an index entry became a directory  *)

Definition nm (c : N) : name := [c].
Definition git_dirified_ops : list op :=
  [OPut [nm 98] [120; 10]%N; OAdd [nm 98]; OOsRm [nm 98]; OOsMkdir [nm 98]; OCommit].

Theorem git_commit_then_clean_refuted :
  exists ops s st s', s = run Git init_state ops /\ step Git s OCommit = Done st s' /\ st = SOk /\ git_status s' <> [].
Proof.
  exists [OPut [nm 98] [120; 10]%N; OAdd [nm 98]; OOsRm [nm 98]; OOsMkdir [nm 98]].
  eexists. eexists. eexists. split; [reflexivity|]. split; [vm_compute; reflexivity|].
  split; [reflexivity|]. vm_compute. discriminate.
Qed.

(* the guard under which the law is expected (no index entry is a directory on disk); not proved in general *)
Definition git_commit_guard (s : state) : bool :=
  negb (g_notadir s) && forallb (fun p => negb (isdir (sdisk s) p)) (sindex s).
