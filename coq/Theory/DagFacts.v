(* Theory/DagFacts.v -- facts about Lib/Dag.v.

   Main results (all for every well-formed graph, no size bound):
   - [ancestors_spec]: the computed ancestor set is exactly reachability along
     parent edges ([reach], = the reflexive-transitive closure of "parent of",
     [reach_rtc]);
   - [reach_antisym]: a well-formed graph has no cycles;
   - [heads_spec]: [heads] = the keys that no other key descends from;
   - [lefthand_unfold], [distance_spec]: the left-hand history and its length
     (= the revno, when there is no ghost on it);
   - [reach_extend], [lefthand_extend], ...: appending a new revision does not
     change anything about the existing ones. *)
From Coq Require Import List Arith Bool Lia Relations.
From BV Require Import Lib.Dag.
Import ListNotations.

(* ---- list-sets --------------------------------------------------------- *)

Lemma memb_In x l : memb x l = true <-> In x l.
Proof.
  unfold memb. rewrite existsb_exists. split.
  - intros [y [Hy E]]. apply Nat.eqb_eq in E. subst. exact Hy.
  - intros H. exists x. split; [exact H | apply Nat.eqb_refl].
Qed.

Lemma memb_false x l : memb x l = false <-> ~ In x l.
Proof. rewrite <- memb_In. destruct (memb x l); split; congruence. Qed.

Lemma In_add x y l : In x (add y l) <-> x = y \/ In x l.
Proof.
  unfold add. destruct (memb y l) eqn:E.
  - apply memb_In in E. split; [auto|]. intros [->|H]; assumption.
  - simpl. split; intros [H|H]; auto.
Qed.

Lemma In_union x a b : In x (union a b) <-> In x a \/ In x b.
Proof.
  unfold union. induction a as [|y a IH]; simpl.
  - tauto.
  - rewrite In_add, IH. split; intros H; intuition (subst; auto).
Qed.

Lemma In_dedup x l : In x (dedup l) <-> In x l.
Proof.
  induction l as [|y l IH]; simpl; [tauto|].
  destruct (memb y l) eqn:E.
  - apply memb_In in E. rewrite IH. split; [auto|]. intros [->|H]; assumption.
  - simpl. rewrite IH. tauto.
Qed.

Lemma subsetb_spec a b : subsetb a b = true <-> (forall x, In x a -> In x b).
Proof.
  unfold subsetb. rewrite forallb_forall. split; intros H x Hx.
  - apply memb_In. auto.
  - apply memb_In. auto.
Qed.

Lemma set_eqb_spec a b : set_eqb a b = true <-> (forall x, In x a <-> In x b).
Proof.
  unfold set_eqb. rewrite andb_true_iff, !subsetb_spec. split.
  - intros [H1 H2] x. split; auto.
  - intros H. split; intros x Hx; apply H; exact Hx.
Qed.

(* ---- parents, well-formedness ------------------------------------------ *)

Lemma parents_ghost g r : length g <= r -> parents g r = [].
Proof. intros H. unfold parents. apply nth_overflow. exact H. Qed.

Lemma parents_present g r p : In p (parents g r) -> r < length g.
Proof.
  intros H. destruct (Nat.lt_ge_cases r (length g)) as [L|L]; [exact L|].
  rewrite (parents_ghost g r L) in H. contradiction.
Qed.

Lemma wf_from_spec n : forall rows i, wf_from n i rows = true ->
  forall k p, In p (nth k rows []) -> p < i + k \/ n <= p.
Proof.
  induction rows as [|ps rows IH]; intros i H k p Hin.
  - destruct k; simpl in Hin; contradiction.
  - simpl in H. apply andb_true_iff in H as [H1 H2]. destruct k as [|k]; simpl in Hin.
    + rewrite forallb_forall in H1. specialize (H1 p Hin).
      apply orb_true_iff in H1 as [H1|H1].
      * apply Nat.ltb_lt in H1. lia.
      * apply Nat.leb_le in H1. lia.
    + specialize (IH (S i) H2 k p Hin). lia.
Qed.

Lemma wf_parents g r p : wf_dag g = true -> In p (parents g r) -> p < r \/ length g <= p.
Proof. intros H Hin. apply (wf_from_spec _ _ _ H r p Hin). Qed.

(* ---- reachability ------------------------------------------------------- *)

(* [reach g a b]: a is b or an ancestor of b *)
Inductive reach (g : dag) : revid -> revid -> Prop :=
| reach_refl r : reach g r r
| reach_step a p r : In p (parents g r) -> reach g a p -> reach g a r.

Definition parent_of (g : dag) (p c : revid) : Prop := In p (parents g c).

Lemma reach_trans g a b c : reach g a b -> reach g b c -> reach g a c.
Proof.
  intros Hab Hbc. induction Hbc as [r | b p r Hp Hbp IH].
  - exact Hab.
  - eapply reach_step; [exact Hp | apply IH; exact Hab].
Qed.

Lemma reach_rtc g a b : reach g a b <-> clos_refl_trans revid (parent_of g) a b.
Proof.
  split.
  - intros H. induction H as [r | a p r Hp Hap IH].
    + apply rt_refl.
    + eapply rt_trans; [exact IH | apply rt_step; exact Hp].
  - intros H. induction H as [x y Hxy | x | x y z _ IH1 _ IH2].
    + eapply reach_step; [exact Hxy | apply reach_refl].
    + apply reach_refl.
    + eapply reach_trans; eassumption.
Qed.

Lemma reach_ghost g a b : length g <= b -> reach g a b -> a = b.
Proof.
  intros L H. inversion H as [r | a' p r Hp Hap]; subst; [reflexivity|].
  rewrite (parents_ghost g b L) in Hp. contradiction.
Qed.

Lemma reach_le g a b : wf_dag g = true -> reach g a b -> a = b \/ a < b \/ length g <= a.
Proof.
  intros W H. induction H as [r | a p r Hp Hap IH].
  - left; reflexivity.
  - destruct (wf_parents g r p W Hp) as [Lt|Gh].
    + destruct IH as [->|[Lt'|Gh']]; [right; left; exact Lt | right; left; lia | right; right; exact Gh'].
    + apply (reach_ghost g a p Gh) in Hap. subst a. right; right; exact Gh.
Qed.

Lemma reach_antisym g a b : wf_dag g = true -> reach g a b -> reach g b a -> a = b.
Proof.
  intros W Hab Hba.
  destruct (reach_le g a b W Hab) as [E|[L|G]]; [exact E| |].
  - destruct (reach_le g b a W Hba) as [E|[L'|G']]; [symmetry; exact E | lia |].
    apply (reach_ghost g a b G') in Hab. exact Hab.
  - apply (reach_ghost g b a G) in Hba. symmetry; exact Hba.
Qed.

(* ---- the downward sweep computes reachability -------------------------- *)

Lemma close_down_incl g : forall n s x, In x s -> In x (close_down g n s).
Proof.
  induction n as [|n IH]; simpl; intros s x H; [exact H|].
  apply IH. destruct (memb n s); [apply In_union; right|]; exact H.
Qed.

Lemma close_down_sound g : forall n s x, In x (close_down g n s) ->
  exists y, In y s /\ reach g x y.
Proof.
  induction n as [|n IH]; simpl; intros s x H.
  - exists x. split; [exact H | apply reach_refl].
  - apply IH in H as [y [Hy R]]. destruct (memb n s) eqn:E.
    + apply In_union in Hy as [Hy|Hy].
      * exists n. split; [apply memb_In; exact E|].
        eapply reach_trans; [exact R|]. eapply reach_step; [exact Hy | apply reach_refl].
      * exists y. split; assumption.
    + exists y. split; assumption.
Qed.

Lemma close_down_new g : wf_dag g = true -> forall n s x,
  In x (close_down g n s) -> In x s \/ S x < n \/ length g <= x.
Proof.
  intros W. induction n as [|n IH]; simpl; intros s x H; [left; exact H|].
  apply IH in H as [H|[H|H]]; [| right; left; lia | right; right; exact H].
  destruct (memb n s) eqn:E; [|left; exact H].
  apply In_union in H as [H|H]; [|left; exact H].
  destruct (wf_parents g n x W H) as [L|G]; [right; left; lia | right; right; exact G].
Qed.

Lemma close_down_closed g : wf_dag g = true -> forall n s x,
  In x (close_down g n s) -> x < n ->
  forall p, In p (parents g x) -> In p (close_down g n s).
Proof.
  intros W. induction n as [|n IH]; intros s x Hx Hlt p Hp; [lia|].
  simpl in *. destruct (Nat.eq_dec x n) as [->|Hne].
  - destruct (memb n s) eqn:E.
    + apply close_down_incl. apply In_union. left. exact Hp.
    + apply (close_down_new g W) in Hx as [Hx|[Hx|Hx]].
      * apply memb_false in E. contradiction.
      * lia.
      * rewrite (parents_ghost g n Hx) in Hp. contradiction.
  - apply IH with x; [exact Hx | lia | exact Hp].
Qed.

Lemma ancestors_closed g seeds : wf_dag g = true -> forall r a,
  reach g a r -> In r (ancestors g seeds) -> In a (ancestors g seeds).
Proof.
  intros W r a H. induction H as [r | a p r Hp Hap IH]; intros Hr; [exact Hr|].
  apply IH. unfold ancestors in *.
  apply (close_down_closed g W _ _ r Hr); [|exact Hp].
  apply (parents_present g r p Hp).
Qed.

(* ancestors = reflexive-transitive closure of "parent of", from the seeds *)
Theorem ancestors_spec g seeds a : wf_dag g = true ->
  (In a (ancestors g seeds) <-> exists s, In s seeds /\ reach g a s).
Proof.
  intros W. split.
  - apply close_down_sound.
  - intros [s [Hs R]]. apply (ancestors_closed g seeds W s a R).
    apply close_down_incl. exact Hs.
Qed.

Theorem is_ancestor_spec g a b : wf_dag g = true -> (is_ancestor g a b = true <-> reach g a b).
Proof.
  intros W. unfold is_ancestor. rewrite memb_In, (ancestors_spec g [b] a W). split.
  - intros [s [[<-|[]] R]]. exact R.
  - intros R. exists b. split; [left; reflexivity | exact R].
Qed.

Lemma is_ancestor_refl g a : wf_dag g = true -> is_ancestor g a a = true.
Proof. intros W. apply is_ancestor_spec; [exact W | apply reach_refl]. Qed.

Lemma is_ancestor_trans g a b c : wf_dag g = true ->
  is_ancestor g a b = true -> is_ancestor g b c = true -> is_ancestor g a c = true.
Proof.
  intros W H1 H2. apply is_ancestor_spec in H1; [|exact W]. apply is_ancestor_spec in H2; [|exact W].
  apply is_ancestor_spec; [exact W|]. eapply reach_trans; eassumption.
Qed.

Lemma is_ancestor_antisym g a b : wf_dag g = true ->
  is_ancestor g a b = true -> is_ancestor g b a = true -> a = b.
Proof.
  intros W H1 H2. apply is_ancestor_spec in H1; [|exact W]. apply is_ancestor_spec in H2; [|exact W].
  apply (reach_antisym g a b W H1 H2).
Qed.

(* ---- heads -------------------------------------------------------------- *)

Lemma dominated_false g keys k :
  dominated g keys k = false <->
  (forall k', In k' keys -> k' <> k -> is_ancestor g k k' = false).
Proof.
  unfold dominated. split.
  - intros H k' Hin Hne. destruct (is_ancestor g k k') eqn:E; [|reflexivity].
    assert (X : existsb (fun k' => negb (k' =? k) && is_ancestor g k k') keys = true).
    { apply existsb_exists. exists k'. split; [exact Hin|].
      apply Nat.eqb_neq in Hne. rewrite Hne, E. reflexivity. }
    congruence.
  - intros H. apply not_true_is_false. intros Hex.
    apply existsb_exists in Hex as [k' [Hin Hc]].
    apply andb_true_iff in Hc as [H1 H2]. apply negb_true_iff in H1. apply Nat.eqb_neq in H1.
    rewrite (H k' Hin H1) in H2. discriminate.
Qed.

(* heads = the maximal keys *)
Theorem heads_spec g keys k :
  In k (heads g keys) <->
  In k keys /\ (forall k', In k' keys -> k' <> k -> is_ancestor g k k' = false).
Proof.
  unfold heads. rewrite filter_In, In_dedup, negb_true_iff, dominated_false. tauto.
Qed.

(* ---- left-hand history -------------------------------------------------- *)

Lemma lefthand_fuel_enough g : wf_dag g = true -> forall f r,
  (S (S r) <= f \/ (length g <= r /\ 1 <= f)) ->
  forall f', f <= f' -> lefthand_fuel g f' r = lefthand_fuel g f r.
Proof.
  intros W. induction f as [|f IH]; intros r H f' Hle; [lia|].
  destruct f' as [|f']; [lia|]. cbn [lefthand_fuel]. f_equal.
  destruct (parents g r) as [|p ps] eqn:E; [reflexivity|].
  assert (Hp : In p (parents g r)) by (rewrite E; left; reflexivity).
  apply IH; [|lia].
  destruct H as [H|[H _]].
  - destruct (wf_parents g r p W Hp) as [L|G]; [left; lia | right; split; [exact G | lia]].
  - rewrite (parents_ghost g r H) in Hp. contradiction.
Qed.

Lemma lefthand_unfold g r : wf_dag g = true -> r < length g ->
  lefthand g r = r :: match parents g r with [] => [] | p :: _ => lefthand g p end.
Proof.
  intros W L. unfold lefthand at 1. cbn [lefthand_fuel]. f_equal.
  destruct (parents g r) as [|p ps] eqn:E; [reflexivity|].
  assert (Hp : In p (parents g r)) by (rewrite E; left; reflexivity).
  unfold lefthand. symmetry. apply (lefthand_fuel_enough g W); [|lia].
  destruct (wf_parents g r p W Hp) as [L'|G]; [left; lia | right; split; [exact G | lia]].
Qed.

Lemma lefthand_ghost g r : length g <= r -> lefthand g r = [r].
Proof. intros L. unfold lefthand. cbn [lefthand_fuel]. rewrite (parents_ghost g r L). reflexivity. Qed.

Lemma lefthand_head g r : exists l, lefthand g r = r :: l.
Proof. unfold lefthand. cbn [lefthand_fuel]. eexists. reflexivity. Qed.

Lemma In_lefthand_self g r : In r (lefthand g r).
Proof. destruct (lefthand_head g r) as [l E]. rewrite E. left; reflexivity. Qed.

Lemma lefthand_fuel_reach g : forall f r x, In x (lefthand_fuel g f r) -> reach g x r.
Proof.
  induction f as [|f IH]; intros r x H; [contradiction|].
  cbn [lefthand_fuel] in H. destruct H as [<-|H]; [apply reach_refl|].
  destruct (parents g r) as [|p ps] eqn:E; [contradiction|].
  eapply reach_step; [rewrite E; left; reflexivity | apply IH; exact H].
Qed.

(* everything on the left-hand history of r is r or an ancestor of r *)
Lemma lefthand_reach g r x : In x (lefthand g r) -> reach g x r.
Proof. apply lefthand_fuel_reach. Qed.

Lemma distance_fuel_spec g : wf_dag g = true -> forall f r,
  (S (S r) <= f \/ (length g <= r /\ 1 <= f)) ->
  distance_fuel g f r =
  if forallb (present g) (lefthand_fuel g f r) then Some (length (lefthand_fuel g f r)) else None.
Proof.
  intros W. induction f as [|f IH]; intros r H; [lia|].
  cbn [distance_fuel lefthand_fuel forallb length].
  destruct (present g r) eqn:P; cbn [andb]; [|reflexivity].
  destruct (parents g r) as [|p ps] eqn:E; [reflexivity|].
  assert (Hp : In p (parents g r)) by (rewrite E; left; reflexivity).
  rewrite IH.
  - destruct (forallb (present g) (lefthand_fuel g f p)); reflexivity.
  - destruct H as [H|[H _]].
    + destruct (wf_parents g r p W Hp) as [L|G]; [left; lia | right; split; [exact G | lia]].
    + rewrite (parents_ghost g r H) in Hp. contradiction.
Qed.

(* the revno is the length of the left-hand history, and is defined exactly
   when that history meets no ghost *)
Theorem distance_spec g r : wf_dag g = true ->
  distance_to_null g r =
  if lefthand_present g r then Some (length (lefthand g r)) else None.
Proof.
  intros W. unfold distance_to_null, lefthand_present, lefthand.
  destruct (Nat.lt_ge_cases r (length g)) as [L|G].
  - apply (distance_fuel_spec g W). left. lia.
  - apply (distance_fuel_spec g W). right. split; [exact G | lia].
Qed.

Corollary distance_length g r n : wf_dag g = true ->
  distance_to_null g r = Some n -> length (lefthand g r) = n /\ lefthand_present g r = true.
Proof.
  intros W H. rewrite (distance_spec g r W) in H.
  destruct (lefthand_present g r); [|discriminate]. injection H as <-. split; reflexivity.
Qed.

Lemma distance_unfold g r : wf_dag g = true -> r < length g ->
  distance_to_null g r =
  match parents g r with [] => Some 1 | p :: _ => option_map S (distance_to_null g p) end.
Proof.
  intros W L. rewrite (distance_spec g r W). unfold lefthand_present.
  rewrite (lefthand_unfold g r W L). cbn [forallb length].
  assert (P : present g r = true) by (apply Nat.ltb_lt; exact L). rewrite P. cbn [andb].
  destruct (parents g r) as [|p ps]; [reflexivity|].
  rewrite (distance_spec g p W). unfold lefthand_present.
  destruct (forallb (present g) (lefthand g p)); reflexivity.
Qed.

(* ---- appending a revision ---------------------------------------------- *)

(* the id of the next revision is not already referenced as a ghost *)
Definition fresh_next (g : dag) : bool := forallb (fun ps => negb (memb (length g) ps)) g.

Lemma fresh_next_spec g r : fresh_next g = true -> ~ In (length g) (parents g r).
Proof.
  intros F Hin. unfold fresh_next in F. rewrite forallb_forall in F.
  assert (L : r < length g) by (apply (parents_present g r _ Hin)).
  assert (X : In (parents g r) g) by (apply nth_In; exact L).
  specialize (F _ X). apply negb_true_iff in F. apply memb_false in F. contradiction.
Qed.

Lemma parents_extend g ps r : r <> length g -> parents (g ++ [ps]) r = parents g r.
Proof.
  intros H. unfold parents. destruct (Nat.lt_ge_cases r (length g)) as [L|G].
  - apply app_nth1. exact L.
  - rewrite !nth_overflow; [reflexivity | exact G | rewrite app_length; simpl; lia].
Qed.

Lemma parents_new g ps : parents (g ++ [ps]) (length g) = ps.
Proof. unfold parents. rewrite app_nth2; [|lia]. rewrite Nat.sub_diag. reflexivity. Qed.

Lemma reach_extend g ps a b : fresh_next g = true -> b <> length g ->
  (reach (g ++ [ps]) a b <-> reach g a b).
Proof.
  intros F Hb. split.
  - intros H. induction H as [r | a p r Hp Hap IH]; [apply reach_refl|].
    rewrite (parents_extend g ps r Hb) in Hp.
    eapply reach_step; [exact Hp|]. apply IH.
    intros ->. apply (fresh_next_spec g r F Hp).
  - intros H. induction H as [r | a p r Hp Hap IH]; [apply reach_refl|].
    eapply reach_step; [rewrite (parents_extend g ps r Hb); exact Hp|]. apply IH.
    intros ->. apply (fresh_next_spec g r F Hp).
Qed.

Lemma wf_extend g ps : wf_dag g = true ->
  forallb (fun p => (p <? length g) || (S (length g) <=? p)) ps = true ->
  fresh_next g = true -> wf_dag (g ++ [ps]) = true.
Proof.
  intros W P F. unfold wf_dag in *. rewrite app_length. simpl length.
  replace (length g + 1) with (S (length g)) by lia.
  assert (G : forall rows i, wf_from (length g) i rows = true ->
              forallb (fun ps0 => negb (memb (length g) ps0)) rows = true ->
              i + length rows = length g ->
              wf_from (S (length g)) i (rows ++ [ps]) = true).
  { induction rows as [|q rows IH]; intros i H1 H2 H3.
    - cbn [app wf_from length] in *. rewrite Bool.andb_true_r. rewrite Nat.add_0_r in H3. subst i. exact P.
    - cbn [app wf_from]. cbn [wf_from] in H1. cbn [forallb] in H2. cbn [length] in H3.
      apply andb_true_iff in H1 as [H1a H1b]. apply andb_true_iff in H2 as [H2a H2b].
      apply andb_true_iff. split.
      + apply forallb_forall. intros p Hp. rewrite forallb_forall in H1a. specialize (H1a p Hp).
        apply negb_true_iff in H2a. apply memb_false in H2a.
        apply orb_true_iff in H1a as [A|A]; apply orb_true_iff.
        * left; exact A.
        * right. apply Nat.leb_le in A. apply Nat.leb_le.
          assert (p <> length g) by (intros ->; contradiction). lia.
      + apply IH; [exact H1b | exact H2b | lia]. }
  apply G; [exact W | exact F | reflexivity].
Qed.

Lemma is_ancestor_extend g ps a b : wf_dag g = true -> wf_dag (g ++ [ps]) = true ->
  fresh_next g = true -> b <> length g ->
  is_ancestor (g ++ [ps]) a b = is_ancestor g a b.
Proof.
  intros W W' F Hb.
  destruct (is_ancestor g a b) eqn:E.
  - apply is_ancestor_spec; [exact W'|]. apply reach_extend; [exact F | exact Hb|].
    apply is_ancestor_spec; [exact W | exact E].
  - apply not_true_is_false. intros H. apply is_ancestor_spec in H; [|exact W'].
    apply reach_extend in H; [|exact F | exact Hb].
    apply is_ancestor_spec in H; [|exact W]. congruence.
Qed.

Lemma lefthand_fuel_extend g ps : fresh_next g = true -> forall f r, r <> length g ->
  lefthand_fuel (g ++ [ps]) f r = lefthand_fuel g f r.
Proof.
  intros F. induction f as [|f IH]; intros r Hr; [reflexivity|].
  cbn [lefthand_fuel]. rewrite (parents_extend g ps r Hr). f_equal.
  destruct (parents g r) as [|p qs] eqn:E; [reflexivity|].
  apply IH. intros ->. apply (fresh_next_spec g r F). rewrite E. left; reflexivity.
Qed.

Lemma lefthand_extend g ps r : wf_dag g = true -> fresh_next g = true -> r <> length g ->
  lefthand (g ++ [ps]) r = lefthand g r.
Proof.
  intros W F Hr. unfold lefthand. rewrite (lefthand_fuel_extend g ps F _ r Hr).
  rewrite app_length. simpl length.
  destruct (Nat.lt_ge_cases r (length g)) as [L|G].
  - apply (lefthand_fuel_enough g W); [left|]; lia.
  - apply (lefthand_fuel_enough g W); [right|]; lia.
Qed.

(* ---- fuel bookkeeping for clients that walk the left-hand history -------- *)

Definition enough_fuel (g : dag) (f : nat) (r : revid) : Prop :=
  S (S r) <= f \/ (length g <= r /\ 1 <= f).

Lemma enough_fuel_top g r : enough_fuel g (S (length g)) r.
Proof.
  unfold enough_fuel. destruct (Nat.lt_ge_cases r (length g)) as [L|G]; [left | right]; lia.
Qed.

Lemma enough_fuel_parent g f r p : wf_dag g = true ->
  enough_fuel g (S f) r -> In p (parents g r) -> enough_fuel g f p.
Proof.
  intros W H Hp. unfold enough_fuel in *. destruct H as [H|[H _]].
  - destruct (wf_parents g r p W Hp) as [L|G]; [left; lia | right; split; [exact G | lia]].
  - rewrite (parents_ghost g r H) in Hp. contradiction.
Qed.

Lemma distance_fuel_enough g f f' r : wf_dag g = true ->
  enough_fuel g f r -> enough_fuel g f' r -> distance_fuel g f r = distance_fuel g f' r.
Proof.
  intros W H H'.
  rewrite (distance_fuel_spec g W f r H), (distance_fuel_spec g W f' r H').
  destruct (Nat.le_ge_cases f f') as [L|L].
  - rewrite (lefthand_fuel_enough g W f r H f' L). reflexivity.
  - rewrite (lefthand_fuel_enough g W f' r H' f L). reflexivity.
Qed.

(* ---- unique ancestors, suffixes of the left-hand history, heads after append -- *)

Theorem find_unique_ancestors_spec g u cs a : wf_dag g = true ->
  (In a (find_unique_ancestors g u cs) <->
   reach g a u /\ (forall c, In c cs -> ~ reach g a c)).
Proof.
  intros W. unfold find_unique_ancestors.
  rewrite filter_In, negb_true_iff, memb_false, !(ancestors_spec g _ a W). split.
  - intros [[s [[<-|[]] R]] N]. split; [exact R|]. intros c Hc Rc. apply N. exists c. split; assumption.
  - intros [R N]. split.
    + exists u. split; [left; reflexivity | exact R].
    + intros [c [Hc Rc]]. apply (N c Hc Rc).
Qed.

(* the left-hand history of the d-th element is the rest of the list *)
Lemma lefthand_skipn g : wf_dag g = true -> forall d t r,
  nth_error (lefthand g t) d = Some r -> lefthand g r = skipn d (lefthand g t).
Proof.
  intros W. induction d as [|d IH]; intros t r H.
  - destruct (lefthand_head g t) as [l E]. rewrite E in H. cbn in H. injection H as <-. reflexivity.
  - destruct (Nat.lt_ge_cases t (length g)) as [L|G].
    + rewrite (lefthand_unfold g t W L) in *. cbn [nth_error skipn] in *.
      destruct (parents g t) as [|p ps]; [destruct d; discriminate|].
      apply IH. exact H.
    + rewrite (lefthand_ghost g t G) in H. cbn in H. destruct d; discriminate.
Qed.

Theorem lefthand_nth_distance g t d r : wf_dag g = true ->
  lefthand_present g t = true -> nth_error (lefthand g t) d = Some r ->
  distance_to_null g r = Some (length (lefthand g t) - d).
Proof.
  intros W P H. rewrite (distance_spec g r W). unfold lefthand_present in *.
  rewrite (lefthand_skipn g W d t r H).
  assert (X : forallb (present g) (skipn d (lefthand g t)) = true).
  { rewrite forallb_forall in *. intros x Hx. apply P.
    rewrite <- (firstn_skipn d (lefthand g t)). apply in_or_app. right. exact Hx. }
  rewrite X, skipn_length. reflexivity.
Qed.

Lemma existsb_ext_in {A} (f h : A -> bool) l :
  (forall x, In x l -> f x = h x) -> existsb f l = existsb h l.
Proof.
  induction l as [|x l IH]; intros H; [reflexivity|]. cbn [existsb].
  rewrite (H x (or_introl eq_refl)), IH; [reflexivity|]. intros y Hy. apply H. right. exact Hy.
Qed.

Lemma heads_extend g ps keys : wf_dag g = true -> wf_dag (g ++ [ps]) = true ->
  fresh_next g = true -> (forall k, In k keys -> k <> length g) ->
  heads (g ++ [ps]) keys = heads g keys.
Proof.
  intros W W' F K. unfold heads. apply filter_ext_in. intros k Hk. f_equal.
  unfold dominated. apply existsb_ext_in. intros k' Hk'. f_equal.
  apply (is_ancestor_extend g ps k k' W W' F). apply K. exact Hk'.
Qed.
