(* Theory/CountedLock.v -- C28: the generated programs of CountedLock (Gen/CountedLock.v,
   translated from breezy/counted_lock.py on every run) refine a reentrant counter.

   Step 1: closed forms of the three methods on every state of the shape the
           class keeps (this is where a change of the Python code breaks the proof).
   Step 2: invariants and trace theorems over ARBITRARY call sequences and
           ARBITRARY collaborator behaviour (any reply script, including failures). *)
From Coq Require Import ZArith List String Bool Lia.
From BV Require Import Lib.PyImp Gen.CountedLock.
Import ListNotations.
Open Scope string_scope.
Open Scope Z_scope.

Definition cl_store (m : val) (c : Z) (ot : option val) : store :=
  ([("_lock_mode", m); ("_lock_count", VInt c)] ++
   match ot with Some t => [("_token", t)] | None => [] end)%list.

Definition cl_init : store := cl_store VNone 0 None.    (* CountedLock.__init__ *)

Definition flow_of_reply (rep : reply) (ok : val -> flow) : flow :=
  match rep with RepOk v => ok v | RepRaise e => FRaise e end.

(* ---- closed forms ------------------------------------------------------ *)

Lemma cl_lock_read_spec m c ot env :
  run_method cl_lock_read [] (cl_store m c ot) env =
  if truthy m then mkResult (cl_store m (c + 1) ot) [] [] env (FReturn VNone)
  else let '(rep, env') := pop_reply env in
       match rep with
       | RepOk _ => mkResult (cl_store (VStr "r") 1 ot) [] [("lock_read", [])] env' (FReturn VNone)
       | RepRaise e => mkResult (cl_store m c ot) [] [("lock_read", [])] env' (FRaise e)
       end.
Proof.
  unfold run_method, cl_lock_read, cl_store.
  destruct ot as [t|]; cbn; destruct (truthy m); cbn; try reflexivity;
    destruct env as [|[v|e] env]; reflexivity.
Qed.

Lemma cl_lock_write_spec m c ot tok env :
  run_method cl_lock_write [("token", tok)] (cl_store m c ot) env =
  if c =? 0 then
    let '(rep, env') := pop_reply env in
    match rep with
    | RepOk v => mkResult (cl_store (VStr "w") (c + 1) (Some v)) [] [("lock_write", [tok])] env' (FReturn v)
    | RepRaise e => mkResult (cl_store m c ot) [] [("lock_write", [tok])] env' (FRaise e)
    end
  else if negb (val_eqb m (VStr "w")) then
    mkResult (cl_store m c ot) [] [] env (FRaise "ReadOnlyError")
  else
    let '(rep, env') := pop_reply env in
    match rep with
    | RepOk _ => match ot with
                 | Some t => mkResult (cl_store m (c + 1) ot) [] [("validate_token", [tok])] env' (FReturn t)
                 | None => mkResult (cl_store m (c + 1) ot) [] [("validate_token", [tok])] env' pyerror
                 end
    | RepRaise e => mkResult (cl_store m c ot) [] [("validate_token", [tok])] env' (FRaise e)
    end.
Proof.
  unfold run_method, cl_lock_write, cl_store.
  destruct ot as [t|]; cbn; destruct (c =? 0) eqn:E0; cbn.
  - destruct env as [|[v|e] env]; reflexivity.
  - destruct (val_eqb m (VStr "w")); cbn; [|reflexivity].
    destruct env as [|[v|e] env]; reflexivity.
  - destruct env as [|[v|e] env]; reflexivity.
  - destruct (val_eqb m (VStr "w")); cbn; [|reflexivity].
    destruct env as [|[v|e] env]; reflexivity.
Qed.

Lemma cl_unlock_spec m c ot env :
  run_method cl_unlock [] (cl_store m c ot) env =
  if c =? 0 then mkResult (cl_store m c ot) [] [] env (FRaise "LockNotHeld")
  else if c =? 1 then
    let '(rep, env') := pop_reply env in
    mkResult (cl_store VNone (c - 1) ot) [] [("unlock", [])] env'
             (flow_of_reply rep (fun _ => FReturn VNone))
  else mkResult (cl_store m (c - 1) ot) [] [] env (FReturn VNone).
Proof.
  unfold run_method, cl_unlock, cl_store.
  destruct ot as [t|]; cbn; destruct (c =? 0) eqn:E0; cbn; try reflexivity;
    destruct (c =? 1) eqn:E1; cbn; try reflexivity;
    destruct env as [|[v|e] env]; reflexivity.
Qed.

(* ---- call sequences ---------------------------------------------------- *)

Inductive op := LockRead | LockWrite (tok : val) | Unlock.

Definition prog_of (o : op) : stmt * store :=
  match o with
  | LockRead => (cl_lock_read, [])
  | LockWrite tok => (cl_lock_write, [("token", tok)])
  | Unlock => (cl_unlock, [])
  end.

(* one call: new attributes, events of this call, remaining replies, outcome *)
Definition step (o : op) (s : store) (env : list reply) : result :=
  run_method (fst (prog_of o)) (snd (prog_of o)) s env.

(* a whole sequence; a raising call does not stop the caller from calling again *)
Fixpoint run (ops : list op) (s : store) (env : list reply) (evs : list event)
  : store * list reply * list event :=
  match ops with
  | [] => (s, env, evs)
  | o :: ops' => let r := step o s env in run ops' (r_self r) (r_env r) (evs ++ r_events r)%list
  end.

Definition is_mode (m : val) : Prop := m = VNone \/ m = VStr "r" \/ m = VStr "w".

(* the representation invariant of a CountedLock *)
Definition Inv (s : store) : Prop :=
  exists m c ot, s = cl_store m c ot /\ 0 <= c /\ is_mode m /\
                 (c = 0 <-> m = VNone) /\ (m = VStr "w" -> ot <> None).

Lemma Inv_init : Inv cl_init.
Proof.
  exists VNone, 0, None. repeat split; try lia; try (left; reflexivity); try discriminate.
Qed.

Lemma truthy_mode m : is_mode m -> truthy m = negb (val_eqb m VNone).
Proof. intros [ -> | [ -> | -> ] ]; reflexivity. Qed.

Lemma Inv_intro m c ot :
  0 <= c -> is_mode m -> (c = 0 <-> m = VNone) -> (m = VStr "w" -> ot <> None) ->
  Inv (cl_store m c ot).
Proof. intros. exists m, c, ot. auto. Qed.

Ltac inv_side :=
  first [ lia
        | (unfold is_mode; tauto)
        | (split; intros X; first [lia | discriminate X | reflexivity | congruence])
        | (intros X; first [discriminate X | congruence | (intros Y; discriminate Y)])
        | assumption ].

Lemma Inv_cases m c :
  0 <= c -> is_mode m -> (c = 0 <-> m = VNone) ->
  (m = VNone /\ c = 0) \/ ((m = VStr "r" \/ m = VStr "w") /\ 1 <= c).
Proof.
  intros Hc [ -> | [ -> | -> ] ] Hz.
  - left. split; [reflexivity|]. apply Hz. reflexivity.
  - right. split; [auto|]. assert (c <> 0) by (intros X; apply Hz in X; discriminate). lia.
  - right. split; [auto|]. assert (c <> 0) by (intros X; apply Hz in X; discriminate). lia.
Qed.

Lemma Inv_step o s env : Inv s -> Inv (r_self (step o s env)).
Proof.
  intros (m & c & ot & -> & Hc & Hm & Hz & Hw).
  destruct (Inv_cases m c Hc Hm Hz) as [[-> ->]|[Hrw Hc1]];
  destruct o as [|tok|]; unfold step, prog_of, fst, snd.
  - rewrite cl_lock_read_spec. cbn [truthy].
    destruct (pop_reply env) as [[v|e] env']; cbn [r_self]; apply Inv_intro; inv_side.
  - rewrite cl_lock_write_spec. cbn [Z.eqb].
    destruct (pop_reply env) as [[v|e] env']; cbn [r_self]; apply Inv_intro; inv_side.
  - rewrite cl_unlock_spec. cbn [Z.eqb r_self]. apply Inv_intro; inv_side.
  - rewrite cl_lock_read_spec.
    assert (truthy m = true) as -> by (destruct Hrw as [ -> | -> ]; reflexivity).
    cbn [r_self]. apply Inv_intro; try inv_side.
    split; intros X; [lia|]. destruct Hrw as [ -> | -> ]; discriminate X.
  - rewrite cl_lock_write_spec. destruct (Z.eqb_spec c 0) as [E0|E0]; [lia|].
    destruct (negb (val_eqb m (VStr "w"))) eqn:Ew; cbn [r_self].
    + apply Inv_intro; inv_side.
    + destruct (pop_reply env) as [[v|e] env']; [destruct ot as [t|]|]; cbn [r_self];
        apply Inv_intro; try inv_side;
        split; intros X; try lia; destruct Hrw as [ -> | -> ]; discriminate X.
  - rewrite cl_unlock_spec. destruct (Z.eqb_spec c 0) as [E0|E0]; [lia|].
    destruct (Z.eqb_spec c 1) as [E1|E1].
    + subst c. destruct (pop_reply env) as [rep env']; cbn [r_self].
      apply Inv_intro; inv_side.
    + cbn [r_self]. apply Inv_intro; try inv_side.
      split; intros X; [lia|]. destruct Hrw as [ -> | -> ]; discriminate X.
Qed.

Lemma Inv_run ops : forall s env evs, Inv s -> Inv (fst (fst (run ops s env evs))).
Proof.
  induction ops as [|o ops IH]; intros s env evs H; cbn [run]; [exact H|].
  apply IH. apply Inv_step. exact H.
Qed.

(* ---- physical lock accounting ------------------------------------------ *)

Definition count_of (s : store) : Z :=
  match lookup "_lock_count" s with Some (VInt c) => c | _ => -1 end.
Definition mode_of (s : store) : val :=
  match lookup "_lock_mode" s with Some m => m | None => VNone end.

Definition is_acquire (e : event) : bool :=
  String.eqb (fst e) "lock_read" || String.eqb (fst e) "lock_write".
Definition is_release (e : event) : bool := String.eqb (fst e) "unlock".

(* acquisitions minus releases attempted on the real lock *)
Fixpoint balance (evs : list event) : Z :=
  match evs with
  | [] => 0
  | e :: evs' => (if is_acquire e then 1 else 0) - (if is_release e then 1 else 0) + balance evs'
  end.

Lemma balance_app a b : balance (a ++ b)%list = balance a + balance b.
Proof. induction a as [|e a IH]; cbn [balance app]; lia. Qed.

Definition all_ok (env : list reply) : Prop := forall r, In r env -> exists v, r = RepOk v.

Lemma all_ok_tail r env : all_ok (r :: env) -> all_ok env.
Proof. intros H x Hx. apply H. right. exact Hx. Qed.

Definition held01 (c : Z) : Z := if c =? 0 then 0 else 1.

Lemma all_ok_no_raise e env : all_ok (RepRaise e :: env) -> False.
Proof. intros H. destruct (H (RepRaise e)) as [v Hv]; [left; reflexivity|discriminate]. Qed.

Lemma count_of_store m c ot : count_of (cl_store m c ot) = c.
Proof. reflexivity. Qed.

Ltac bal :=
  rewrite ?count_of_store; unfold held01;
  repeat match goal with |- context[Z.eqb ?x ?y] => destruct (Z.eqb_spec x y) end;
  cbn; lia.

Ltac env_cases env Hok :=
  destruct env as [|[?v|?e] ?env']; cbn [pop_reply r_events r_self r_env flow_of_reply];
  [ split; [bal|exact Hok]
  | split; [bal|eapply all_ok_tail; exact Hok]
  | exfalso; eapply all_ok_no_raise; exact Hok ].

(* one call, collaborator never fails: the physical balance moves exactly with
   the 0 <-> positive transitions of the count *)
Lemma step_balance o s env :
  Inv s -> all_ok env ->
  let r := step o s env in
  balance (r_events r) = held01 (count_of (r_self r)) - held01 (count_of s) /\ all_ok (r_env r).
Proof.
  intros (m & c & ot & -> & Hc & Hm & Hz & Hw) Hok.
  destruct (Inv_cases m c Hc Hm Hz) as [[-> ->]|[Hrw Hc1]];
  destruct o as [|tok|]; unfold step, prog_of, fst, snd; cbv zeta.
  - rewrite cl_lock_read_spec. cbn [truthy]. env_cases env Hok.
  - rewrite cl_lock_write_spec. cbn [Z.eqb]. env_cases env Hok.
  - rewrite cl_unlock_spec. cbn [Z.eqb r_events r_self r_env]. split; [bal|exact Hok].
  - rewrite cl_lock_read_spec.
    assert (truthy m = true) as -> by (destruct Hrw as [ -> | -> ]; reflexivity).
    cbn [r_events r_self r_env]. split; [bal|exact Hok].
  - rewrite cl_lock_write_spec. destruct (Z.eqb_spec c 0) as [E0|E0]; [lia|].
    destruct (negb (val_eqb m (VStr "w"))) eqn:Ew; cbn [r_events r_self r_env].
    + split; [bal|exact Hok].
    + destruct ot as [t|]; env_cases env Hok.
  - rewrite cl_unlock_spec. destruct (Z.eqb_spec c 0) as [E0|E0]; [lia|].
    destruct (Z.eqb_spec c 1) as [E1|E1].
    + subst c. env_cases env Hok.
    + cbn [r_events r_self r_env]. split; [bal|exact Hok].
Qed.

(* ANY call sequence: the real lock is held (acquired once more than released)
   exactly while the count is positive, and never more than once *)
Theorem physical_iff_counted ops : forall s env evs,
  Inv s -> all_ok env -> balance evs = held01 (count_of s) ->
  let '(s', _, evs') := run ops s env evs in
  balance evs' = held01 (count_of s').
Proof.
  induction ops as [|o ops IH]; intros s env evs HI Hok Hb; cbn [run]; [exact Hb|].
  pose proof (step_balance o s env HI Hok) as [H1 H2]. cbv zeta in H1, H2.
  apply IH; [apply Inv_step; exact HI|exact H2|].
  rewrite balance_app, H1, Hb. lia.
Qed.

Corollary acquire_release_once ops env :
  all_ok env ->
  let '(s', _, evs') := run ops cl_init env [] in
  (balance evs' = 0 \/ balance evs' = 1) /\ (balance evs' = 1 <-> 0 < count_of s').
Proof.
  intros Hok.
  pose proof (physical_iff_counted ops cl_init env [] Inv_init Hok eq_refl) as H.
  pose proof (Inv_run ops cl_init env [] Inv_init) as HI.
  destruct (run ops cl_init env []) as [[s' env'] evs']. cbn [fst] in HI.
  destruct HI as (m & c & ot & -> & Hc & _). change (count_of (cl_store m c ot)) with c in *.
  unfold held01 in H. destruct (Z.eqb_spec c 0); split; try lia.
Qed.

(* ---- refusals leave everything unchanged ------------------------------- *)

Lemma write_after_read_refused c ot tok env :
  0 < c ->
  step (LockWrite tok) (cl_store (VStr "r") c ot) env =
  mkResult (cl_store (VStr "r") c ot) [] [] env (FRaise "ReadOnlyError").
Proof.
  intros Hc. unfold step, prog_of, fst, snd. rewrite cl_lock_write_spec.
  destruct (Z.eqb_spec c 0); [lia|]. reflexivity.
Qed.

Lemma over_unlock_refused m ot env :
  step Unlock (cl_store m 0 ot) env = mkResult (cl_store m 0 ot) [] [] env (FRaise "LockNotHeld").
Proof. unfold step, prog_of, fst, snd. rewrite cl_unlock_spec. reflexivity. Qed.

(* re-entrant lock_write validates the token on the real lock and does not re-acquire *)
Lemma reentrant_write_validates c t tok env :
  0 < c ->
  let r := step (LockWrite tok) (cl_store (VStr "w") c (Some t)) env in
  r_events r = [("validate_token", [tok])] /\
  match fst (pop_reply env) with
  | RepOk _ => r_self r = cl_store (VStr "w") (c + 1) (Some t) /\ r_flow r = FReturn t
  | RepRaise e => r_self r = cl_store (VStr "w") c (Some t) /\ r_flow r = FRaise e
  end.
Proof.
  intros Hc. unfold step, prog_of, fst, snd. cbv zeta. rewrite cl_lock_write_spec.
  destruct (Z.eqb_spec c 0); [lia|]. cbn [val_eqb String.eqb negb].
  destruct env as [|[v|e] env']; cbn; repeat split; reflexivity.
Qed.

(* a failed acquisition leaves the CountedLock unlocked and unchanged *)
Lemma failed_acquire_unchanged o ot e env :
  o = LockRead \/ (exists tok, o = LockWrite tok) ->
  let r := step o (cl_store VNone 0 ot) (RepRaise e :: env) in
  r_self r = cl_store VNone 0 ot /\ r_flow r = FRaise e.
Proof.
  intros [->|[tok ->]]; unfold step, prog_of, fst, snd; cbv zeta.
  - rewrite cl_lock_read_spec. cbn. split; reflexivity.
  - rewrite cl_lock_write_spec. cbn. split; reflexivity.
Qed.

(* a failed release still forgets the lock (the code's stated intent) *)
Lemma failed_release_forgets m ot e env :
  let r := step Unlock (cl_store m 1 ot) (RepRaise e :: env) in
  r_self r = cl_store VNone 0 ot /\ r_flow r = FRaise e.
Proof. unfold step, prog_of, fst, snd. cbv zeta. rewrite cl_unlock_spec. cbn. split; reflexivity. Qed.

Example nonvacuous :
  let '(s, _, evs) := run [LockWrite VNone; LockRead; Unlock; Unlock; Unlock] cl_init [RepOk (VTok 7)] [] in
  count_of s = 0 /\ evs = [("lock_write", [VNone]); ("unlock", [])].
Proof. vm_compute. split; reflexivity. Qed.
