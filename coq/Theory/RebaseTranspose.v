(* Theory/RebaseTranspose.v -- the one fact proved about Model/RebaseTranspose.v
   (generate_transpose_plan): the renamed revisions themselves are never keys of
   the plan (they are replaced by existing revisions, not rewritten).  The rest
   of that model is validated by the correspondence run only. *)
From Coq Require Import List Arith Bool.
From BV Require Import Lib.Dag Lib.PyDict Model.Rebase Model.RebaseTranspose.
Import ListNotations.

Theorem transpose_renamed_not_keys g gen ancestry renames rm :
  transpose_plan g gen ancestry renames = TOk rm ->
  forall r, dict_mem Nat.eqb renames r = true -> ~ In r (map fst rm).
Proof.
  unfold transpose_plan. destruct (tp_scan ancestry [] []) as [children parent_map].
  destruct (tp_init renames (tp_update g renames parent_map) [] []) as [st|e]; [|discriminate].
  destruct (tp_loop gen renames children (tp_update g renames parent_map) _ [] st) as [rm0|e]; [|discriminate].
  intros H r Hr Hin. inversion H; subst rm. clear H.
  apply in_map_iff in Hin as [e [<- He]]. apply filter_In in He as [_ He].
  apply negb_true_iff in He. exact (eq_true_false_abs _ Hr He).
Qed.
