(* Theory/Search.v -- the recipes of Model/Search.v replay, on the server graph, to
   exactly the revisions the client meant; the wire format round-trips. *)
From Coq Require Import Arith NArith List Bool Lia.
From BV Require Import Lib.Bytes Lib.DagSearch Theory.DagSearch Model.Search.
Import ListNotations.
Local Open Scope list_scope.
Local Open Scope nat_scope.

(* ---------- reflection of the executable hypotheses ---------- *)
Lemma nodupb_NoDup l : nodupb l = true -> NoDup l.
Proof.
  induction l as [|x l IH]; simpl; intros H; [constructor|].
  apply andb_true_iff in H. destruct H as [H1 H2]. apply negb_true_iff in H1.
  constructor; [apply memb_false; exact H1|apply IH; exact H2].
Qed.
Lemma eql_eq a b : eql a b = true -> a = b.
Proof. unfold eql. destruct (list_eq_dec Nat.eq_dec a b); [trivial|discriminate]. Qed.

Record cache_ok (g pm : graph) : Prop := {
  co_nodup : NoDup (keys pm);
  co_sub : forall k ps, In (k, ps) pm -> lookup g k = Some ps;
  co_lt : forall k ps p, In (k, ps) pm -> In p ps -> p < k;
  co_empty : in_dom g EMPTYKEY = false }.

Lemma cache_okb_spec g pm : cache_okb g pm = true -> cache_ok g pm.
Proof.
  unfold cache_okb. rewrite !andb_true_iff, negb_true_iff. intros [[[H1 H2] H3] H4].
  constructor.
  - apply nodupb_NoDup. exact H1.
  - intros k ps Hin. unfold submapb in H2. rewrite forallb_forall in H2.
    specialize (H2 _ Hin). simpl in H2. destruct (lookup g k) as [ps'|]; [|discriminate].
    apply eql_eq in H2. subst. reflexivity.
  - intros k ps p Hin Hp. unfold wf_dagb in H3. rewrite forallb_forall in H3.
    specialize (H3 _ Hin). simpl in H3. rewrite forallb_forall in H3.
    apply Nat.ltb_lt. apply H3. exact Hp.
  - exact H4.
Qed.

Section Cache.
  Variables (g pm : graph).
  Hypothesis CO : cache_ok g pm.

  Lemma key_entry k : In k (keys pm) -> exists ps, In (k, ps) pm.
  Proof.
    unfold keys. intros H. apply in_map_iff in H. destruct H as ([k' ps] & E & H).
    simpl in E. subst. exists ps. exact H.
  Qed.
  Lemma key_facts k : In k (keys pm) ->
    in_dom g k = true /\ in_dom pm k = true /\ parents g k = parents pm k /\ k <> EMPTYKEY.
  Proof.
    intros Hk. destruct (key_entry k Hk) as (ps & Hin).
    pose proof (co_sub _ _ CO _ _ Hin) as Eg.
    pose proof (In_lookup _ _ _ (co_nodup _ _ CO) Hin) as Ep.
    assert (Hd : in_dom g k = true) by (unfold in_dom; rewrite Eg; reflexivity).
    repeat split.
    - exact Hd.
    - unfold in_dom. rewrite Ep. reflexivity.
    - unfold parents. rewrite Eg, Ep. reflexivity.
    - intros E. subst. rewrite (co_empty _ _ CO) in Hd. discriminate.
  Qed.
  Lemma parent_lt c p : In p (parents pm c) -> In c (keys pm) /\ p < c.
  Proof.
    unfold parents. destruct (lookup pm c) as [ps|] eqn:E; [|contradiction].
    intros Hp. apply lookup_In in E. split.
    - unfold keys. apply in_map_iff. exists (c, ps). split; [reflexivity|exact E].
    - apply (co_lt _ _ CO c ps p E Hp).
  Qed.
  Lemma all_parents_entry p : In p (all_parents pm) -> exists c, In c (keys pm) /\ In p (parents pm c) /\ p < c.
  Proof.
    unfold all_parents. intros H. apply in_flat_map in H. destruct H as ([c ps] & Hin & Hp). simpl in Hp.
    exists c. split; [|split].
    - unfold keys. apply in_map_iff. exists (c, ps). split; [reflexivity|exact Hin].
    - unfold parents. rewrite (In_lookup _ _ _ (co_nodup _ _ CO) Hin). exact Hp.
    - apply (co_lt _ _ CO c ps p Hin Hp).
  Qed.
  Lemma key_bound k : In k (keys pm) -> k < S (list_max (keys pm)).
  Proof.
    intros Hk. pose proof (proj1 (list_max_le (keys pm) (list_max (keys pm))) (le_n _)) as F.
    rewrite Forall_forall in F. specialize (F _ Hk). lia.
  Qed.
End Cache.

Lemma In_parse_keys x l : In x l -> In x (parse_keys l).
Proof. destruct l; [contradiction|trivial]. Qed.
Lemma parse_keys_In x l : In x (parse_keys l) -> In x l \/ x = EMPTYKEY.
Proof. destruct l; simpl; intros H; [destruct H as [H|[]]; right; symmetry; exact H|left; exact H]. Qed.

(* two duplicate-free lists with the same members have the same length *)
Lemma same_members_length (a b : list nat) :
  NoDup a -> NoDup b -> (forall x, In x a <-> In x b) -> length a = length b.
Proof.
  intros Ha Hb H. apply Nat.le_antisymm; apply NoDup_incl_length; try assumption; intros x Hx; apply H; exact Hx.
Qed.

(* ---------- the full recipe: search_result_from_parent_map ---------- *)
Lemma full_recipe_spec pm missing :
  forall start stop count, search_result_from_parent_map pm missing = (start, stop, count) ->
  (forall r, In r start <-> In r (keys pm) /\ ~ In r (all_parents pm)) /\
  (forall r, In r stop <-> In r (all_parents pm) /\ ~ In r (keys pm) /\ ~ In r missing) /\
  count = length pm + (if memb NULL (all_parents pm) && memb NULL missing then 1 else 0).
Proof.
  intros start stop count E. destruct pm as [|kv pm'].
  - simpl in E. inversion E. subst. simpl. repeat split; try tauto.
  - remember (kv :: pm') as pm eqn:Epm. unfold search_result_from_parent_map in E.
    rewrite Epm in E. rewrite <- Epm in E. inversion E; subst start stop count. clear E.
    assert (Hm : memb NULL (dedup (all_parents pm)) = memb NULL (all_parents pm)).
    { destruct (memb NULL (all_parents pm)) eqn:E1.
      - apply memb_In. apply dedup_In. apply memb_In. exact E1.
      - apply memb_false. rewrite dedup_In. apply memb_false. exact E1. }
    split; [|split].
    + intros r. rewrite diff_In, inter_In, dedup_In. tauto.
    + intros r. rewrite !diff_In, dedup_In. tauto.
    + rewrite Hm. reflexivity.
Qed.

Record missing_ok (g pm : graph) (missing : list nat) : Prop := {
  mo_disj : forall m, In m missing -> ~ In m (keys pm);
  mo_ghost : forall m, In m missing -> m = NULL \/ in_dom g m = false;
  mo_null : lookup g NULL = Some [] }.

Lemma missing_okb_spec g pm missing : missing_okb g pm missing = true -> missing_ok g pm missing.
Proof.
  unfold missing_okb. rewrite andb_true_iff, forallb_forall. intros [H1 H2]. constructor.
  - intros m Hm. specialize (H1 _ Hm). apply andb_true_iff in H1. destruct H1 as [H1 _].
    apply negb_true_iff in H1. apply memb_false. exact H1.
  - intros m Hm. specialize (H1 _ Hm). apply andb_true_iff in H1. destruct H1 as [_ H1].
    apply orb_true_iff in H1. destruct H1 as [H1|H1].
    + left. apply Nat.eqb_eq. exact H1.
    + right. apply negb_true_iff. exact H1.
  - destruct (lookup g NULL) as [[|? ?]|]; try discriminate. reflexivity.
Qed.

Section Full.
  Variables (g pm : graph) (missing start stop : list nat) (count : nat).
  Hypothesis CO : cache_ok g pm.
  Hypothesis MO : missing_ok g pm missing.
  Hypothesis Hstart : forall r, In r start <-> In r (keys pm) /\ ~ In r (all_parents pm).
  Hypothesis Hstop : forall r, In r stop <-> In r (all_parents pm) /\ ~ In r (keys pm) /\ ~ In r missing.

  Let VisS := Vis g (parse_keys start) (parse_keys stop).
  Let okS := okb g (parse_keys stop).

  Lemma full_key_ok k : In k (keys pm) -> okS k = true.
  Proof.
    intros Hk. destruct (key_facts g pm CO k Hk) as (Hd & _ & _ & Hne).
    unfold okS, okb. rewrite Hd, andb_true_r. apply negb_true_iff. apply memb_false.
    intros Hin. apply parse_keys_In in Hin. destruct Hin as [Hin|Hin]; [|contradiction].
    apply Hstop in Hin. tauto.
  Qed.

  Lemma full_key_vis : forall n k, In k (keys pm) -> S (list_max (keys pm)) <= k + n -> VisS k.
  Proof.
    induction n as [|n IH]; intros k Hk Hb.
    - pose proof (key_bound pm k Hk). lia.
    - destruct (in_dec Nat.eq_dec k (all_parents pm)) as [Hr|Hr].
      + destruct (all_parents_entry g pm CO k Hr) as (c & Hc & Hp & Hlt).
        apply Vis_step with c.
        * apply IH; [exact Hc|lia].
        * apply full_key_ok. exact Hc.
        * destruct (key_facts g pm CO c Hc) as (_ & _ & Ep & _). rewrite Ep. exact Hp.
      + apply Vis_start. apply In_parse_keys. apply Hstart. tauto.
  Qed.

  Lemma full_vis_inv r : VisS r -> In r (keys pm) \/ In r (all_parents pm) \/ r = EMPTYKEY.
  Proof.
    induction 1 as [r Hr|c p Hc IH Ho Hp].
    - apply parse_keys_In in Hr. destruct Hr as [Hr|Hr]; [|tauto]. apply Hstart in Hr. tauto.
    - unfold okb in Ho. apply andb_true_iff in Ho. destruct Ho as [Hx Hd].
      apply negb_true_iff in Hx. apply memb_false in Hx.
      destruct (in_dec Nat.eq_dec c (keys pm)) as [Hk|Hk].
      + right. left. destruct (key_facts g pm CO c Hk) as (_ & _ & Ep & _). rewrite Ep in Hp.
        apply parents_all with c. exact Hp.
      + exfalso. destruct IH as [IH|[IH|IH]]; [contradiction| |].
        * destruct (in_dec Nat.eq_dec c missing) as [Hm|Hm].
          -- destruct (mo_ghost _ _ _ MO c Hm) as [E|E].
             ++ subst c. unfold parents in Hp. rewrite (mo_null _ _ _ MO) in Hp. contradiction.
             ++ rewrite E in Hd. discriminate.
          -- apply Hx. apply In_parse_keys. apply Hstop. tauto.
        * subst c. rewrite (co_empty _ _ CO) in Hd. discriminate.
  Qed.

  Lemma full_walk_members r :
    (VisS r /\ okS r = true) <-> In r (intended_full pm missing).
  Proof.
    unfold intended_full. rewrite in_app_iff. split.
    - intros [Hv Ho]. pose proof Ho as Ho'. unfold okS, okb in Ho. apply andb_true_iff in Ho. destruct Ho as [Hx Hd].
      apply negb_true_iff in Hx. apply memb_false in Hx.
      destruct (full_vis_inv r Hv) as [H|[H|H]].
      + right. exact H.
      + destruct (in_dec Nat.eq_dec r (keys pm)) as [Hk|Hk]; [right; exact Hk|]. left.
        destruct (in_dec Nat.eq_dec r missing) as [Hm|Hm].
        * destruct (mo_ghost _ _ _ MO r Hm) as [E|E]; [|rewrite E in Hd; discriminate].
          subst r. apply memb_In in H. apply memb_In in Hm. rewrite H, Hm. simpl. left. reflexivity.
        * exfalso. apply Hx. apply In_parse_keys. apply Hstop. tauto.
      + subst r. rewrite (co_empty _ _ CO) in Hd. discriminate.
    - intros [H|H].
      + destruct (memb NULL (all_parents pm)) eqn:E1; [|contradiction].
        destruct (memb NULL missing) eqn:E2; [|contradiction]. simpl in H. destruct H as [H|[]]. subst r.
        apply memb_In in E1. apply memb_In in E2.
        destruct (all_parents_entry g pm CO NULL E1) as (c & Hc & Hp & _). split.
        * apply Vis_step with c.
          -- apply full_key_vis with (S (list_max (keys pm))); [exact Hc|lia].
          -- apply full_key_ok. exact Hc.
          -- destruct (key_facts g pm CO c Hc) as (_ & _ & Ep & _). rewrite Ep. exact Hp.
        * unfold okS, okb, in_dom. rewrite (mo_null _ _ _ MO), andb_true_r.
          apply negb_true_iff. apply memb_false. intros Hin. apply parse_keys_In in Hin.
          destruct Hin as [Hin|Hin]; [|discriminate]. apply Hstop in Hin. tauto.
      + split; [|apply full_key_ok; exact H].
        apply full_key_vis with (S (list_max (keys pm))); [exact H|lia].
  Qed.

  Lemma intended_full_NoDup : NoDup (intended_full pm missing).
  Proof.
    unfold intended_full. destruct (memb NULL (all_parents pm) && memb NULL missing) eqn:E; simpl.
    - apply andb_true_iff in E. destruct E as [_ E]. apply memb_In in E. constructor.
      + apply (mo_disj _ _ _ MO). exact E.
      + apply (co_nodup _ _ CO).
    - apply (co_nodup _ _ CO).
  Qed.

  Lemma full_replay :
    count = length pm + (if memb NULL (all_parents pm) && memb NULL missing then 1 else 0) ->
    exists started excludes walk,
      recreate_search_from_recipe g start stop count = Walk started excludes walk /\
      NoDup walk /\ length walk = count /\
      (forall r, In r walk <-> In r (intended_full pm missing)).
  Proof.
    intros Hcount. unfold recreate_search_from_recipe.
    destruct (bfs_included g (parse_keys start) (parse_keys stop)) as (seen & stopped & refs & E & Hnd & Hinc & _ & _).
    rewrite E.
    assert (Hmem : forall r, In r (included_of seen stopped) <-> In r (intended_full pm missing)).
    { intros r. rewrite Hinc. apply full_walk_members. }
    assert (Hlen : length (included_of seen stopped) = count).
    { rewrite (same_members_length _ _ Hnd intended_full_NoDup Hmem), Hcount.
      unfold intended_full. rewrite app_length. unfold keys. rewrite map_length.
      destruct (memb NULL (all_parents pm) && memb NULL missing); simpl; lia. }
    rewrite (proj2 (Nat.eqb_eq _ _) Hlen).
    exists (parse_keys start), stopped, (included_of seen stopped). repeat split; try assumption; apply Hmem.
  Qed.
End Full.

Theorem full_recipe_exact g pm missing :
  cache_okb g pm = true -> missing_okb g pm missing = true ->
  exists started excludes walk,
    server_replay g (search_result_from_parent_map pm missing) = Walk started excludes walk /\
    NoDup walk /\
    length walk = snd (search_result_from_parent_map pm missing) /\
    (forall r, In r walk <-> In r (intended_full pm missing)).
Proof.
  intros Hc Hm. apply cache_okb_spec in Hc. apply missing_okb_spec in Hm.
  destruct (search_result_from_parent_map pm missing) as [[start stop] count] eqn:E.
  destruct (full_recipe_spec pm missing start stop count E) as (Hs & Ht & Hn).
  simpl. apply (full_replay g pm missing start stop count Hc Hm Hs Ht Hn).
Qed.

(* the usual situation: null: is not in the negative cache -> exactly the cached keys *)
Corollary full_recipe_exact_keys g pm missing :
  cache_okb g pm = true -> missing_okb g pm missing = true -> memb NULL missing = false ->
  exists started excludes walk,
    server_replay g (search_result_from_parent_map pm missing) = Walk started excludes walk /\
    length walk = length pm /\
    (forall r, In r walk <-> In r (keys pm)).
Proof.
  intros Hc Hm Hn. destruct (full_recipe_exact g pm missing Hc Hm) as (st & ex & w & E & Hnd & Hl & Hw).
  exists st, ex, w. split; [exact E|].
  assert (Hi : intended_full pm missing = keys pm).
  { unfold intended_full. rewrite Hn, andb_false_r. reflexivity. }
  rewrite Hi in Hw. split; [|exact Hw].
  apply cache_okb_spec in Hc. unfold keys in *.
  rewrite <- (map_length fst pm). apply same_members_length; [exact Hnd|apply (co_nodup _ _ Hc)|exact Hw].
Qed.

(* ---------- the depth-limited recipe: limited_search_result_from_parent_map ----------
   The client walks its own parent map [pm] from [heads] stopping at [tips]; the
   recipe is (heads - found_heads, the searcher's _stopped_keys, number of keys).
   The result below holds for ANY head set (whatever _find_possible_heads returns). *)
Section Limited.
  Variables (g pm : graph) (heads tips : list nat).
  Hypothesis CO : cache_ok g pm.

  Variables (stoppedC refsC : list nat).
  Let VisC := Vis pm heads tips.
  Let okC := okb pm tips.
  Hypothesis HstoppedC : forall r, In r stoppedC <-> VisC r /\ okC r = false.
  Hypothesis HrefsC : forall r, In r refsC <-> exists c, VisC c /\ okC c = true /\ In r (parents pm c).

  Let start' := diff heads (inter heads refsC).
  Let VisS := Vis g (parse_keys start') (parse_keys stoppedC).
  Let okS := okb g (parse_keys stoppedC).

  Lemma okC_key c : okC c = true -> In c (keys pm).
  Proof.
    unfold okC, okb. intros H. apply andb_true_iff in H. apply in_dom_keys. tauto.
  Qed.

  Lemma lim_ok_transfer c : VisC c -> okC c = true -> okS c = true.
  Proof.
    intros Hv Ho. destruct (key_facts g pm CO c (okC_key c Ho)) as (Hd & _ & _ & Hne).
    unfold okS, okb. rewrite Hd, andb_true_r. apply negb_true_iff. apply memb_false.
    intros Hin. apply parse_keys_In in Hin. destruct Hin as [Hin|Hin]; [|contradiction].
    apply HstoppedC in Hin. destruct Hin as [_ Hin]. congruence.
  Qed.

  Lemma lim_vis_CS : forall n r, VisC r -> S (list_max (keys pm)) <= r + n -> VisS r.
  Proof.
    induction n as [|n IH]; intros r Hv Hb.
    - (* r is above every key: it can only be an unreferenced head *)
      inversion Hv as [r' Hh|c p Hc Ho Hp]; subst.
      + apply Vis_start. apply In_parse_keys. unfold start'. rewrite diff_In, inter_In. split; [exact Hh|].
        intros [_ Hr]. apply HrefsC in Hr. destruct Hr as (c & _ & _ & Hp).
        destruct (parent_lt g pm CO c r Hp) as [Hk Hlt]. pose proof (key_bound pm c Hk). lia.
      + destruct (parent_lt g pm CO c r Hp) as [Hk Hlt]. pose proof (key_bound pm c Hk). lia.
    - assert (Hstep : forall c, VisC c -> okC c = true -> In r (parents pm c) -> VisS r).
      { intros c Hc Ho Hp. destruct (parent_lt g pm CO c r Hp) as [Hk Hlt].
        apply Vis_step with c.
        - apply IH; [exact Hc|lia].
        - apply lim_ok_transfer; assumption.
        - destruct (key_facts g pm CO c Hk) as (_ & _ & Ep & _). rewrite Ep. exact Hp. }
      inversion Hv as [r' Hh|c p Hc Ho Hp]; subst.
      + destruct (in_dec Nat.eq_dec r refsC) as [Hr|Hr].
        * apply HrefsC in Hr. destruct Hr as (c & Hc & Ho & Hp). apply (Hstep c Hc Ho Hp).
        * apply Vis_start. apply In_parse_keys. unfold start'. rewrite diff_In, inter_In. tauto.
      + apply (Hstep c Hc Ho Hp).
  Qed.

  Lemma lim_vis_SC r : VisS r -> VisC r \/ r = EMPTYKEY.
  Proof.
    induction 1 as [r Hr|c p Hc IH Ho Hp].
    - apply parse_keys_In in Hr. destruct Hr as [Hr|Hr]; [|right; exact Hr].
      left. apply Vis_start. unfold start' in Hr. apply diff_In in Hr. tauto.
    - left. unfold okb in Ho. apply andb_true_iff in Ho. destruct Ho as [Hx Hd].
      apply negb_true_iff in Hx. apply memb_false in Hx.
      destruct IH as [IH|IH]; [|subst c; rewrite (co_empty _ _ CO) in Hd; discriminate].
      destruct (okC c) eqn:Eo.
      + apply Vis_step with c; [exact IH|exact Eo|].
        destruct (key_facts g pm CO c (okC_key c Eo)) as (_ & _ & Ep & _). rewrite <- Ep. exact Hp.
      + exfalso. apply Hx. apply In_parse_keys. apply HstoppedC. tauto.
  Qed.

  Lemma lim_walk_members r : (VisS r /\ okS r = true) <-> (VisC r /\ okC r = true).
  Proof.
    split.
    - intros [Hv Ho]. pose proof Ho as Ho'. unfold okS, okb in Ho. apply andb_true_iff in Ho. destruct Ho as [Hx Hd].
      apply negb_true_iff in Hx. apply memb_false in Hx.
      destruct (lim_vis_SC r Hv) as [Hc|Hc]; [|subst r; rewrite (co_empty _ _ CO) in Hd; discriminate].
      split; [exact Hc|]. destruct (okC r) eqn:Eo; [reflexivity|].
      exfalso. apply Hx. apply In_parse_keys. apply HstoppedC. tauto.
    - intros [Hv Ho]. split; [|apply lim_ok_transfer; assumption].
      apply lim_vis_CS with (S (list_max (keys pm))); [exact Hv|lia].
  Qed.
End Limited.

Lemma empty_recipe_replay g : in_dom g EMPTYKEY = false ->
  exists started excludes, recreate_search_from_recipe g [] [] 0 = Walk started excludes [].
Proof.
  intros He. unfold recreate_search_from_recipe.
  destruct (bfs_included g (parse_keys []) (parse_keys [])) as (seen & stopped & refs & E & _ & Hinc & _ & _).
  rewrite E.
  assert (Hv : forall r, Vis g (parse_keys []) (parse_keys []) r -> r = EMPTYKEY).
  { induction 1 as [r Hr|c p Hc IH Ho Hp].
    - simpl in Hr. destruct Hr as [Hr|[]]. symmetry. exact Hr.
    - subst c. unfold okb in Ho. rewrite He, andb_false_r in Ho. discriminate. }
  destruct (included_of seen stopped) as [|x l] eqn:El.
  - simpl. eauto.
  - exfalso. assert (Hx : In x (x :: l)) by (left; reflexivity).
    apply Hinc in Hx. destruct Hx as [Hx Ho]. apply Hv in Hx. subst x.
    unfold okb in Ho. rewrite He, andb_false_r in Ho. discriminate.
Qed.

Theorem limited_recipe_exact g pm missing tips depth :
  cache_okb g pm = true ->
  exists r started excludes walk,
    limited_search_result_from_parent_map pm missing tips depth = Some r /\
    server_replay g r = Walk started excludes walk /\
    NoDup walk /\ length walk = snd r /\
    (forall x, In x walk <-> In x (limited_client_keys pm tips depth)) /\
    (forall x, In x walk -> In x (keys pm) /\ ~ In x tips).
Proof.
  intros Hc. apply cache_okb_spec in Hc.
  unfold limited_search_result_from_parent_map, limited_client_keys, run_search.
  set (heads := find_possible_heads pm tips depth).
  destruct (bfs_included pm heads (dedup tips)) as (seen & stopped & refs & E & Hnd & Hinc & Hst & Hrf).
  rewrite E.
  assert (Hsub : forall x, In x (included_of seen stopped) -> In x (keys pm) /\ ~ In x tips).
  { intros x Hx. apply Hinc in Hx. destruct Hx as [_ Ho]. unfold okb in Ho.
    apply andb_true_iff in Ho. destruct Ho as [H1 H2]. split; [apply in_dom_keys; exact H2|].
    apply negb_true_iff in H1. apply memb_false in H1. rewrite dedup_In in H1. exact H1. }
  destruct pm as [|kv pm'] eqn:Epm.
  - (* nothing cached: the recipe is ([], [], 0) *)
    destruct (empty_recipe_replay g (co_empty _ _ Hc)) as (st & ex & Er).
    exists ([], [], 0), st, ex, []. split; [reflexivity|]. split; [exact Er|]. split; [constructor|].
    split; [reflexivity|]. split; [|intros x []].
    intros x. split; [intros []|]. intros Hx. apply Hsub in Hx. destruct Hx as [[] _].
  - rewrite <- Epm in *. clear Epm.
    exists (diff heads (inter heads refs), stopped, length (included_of seen stopped)).
    unfold server_replay, recreate_search_from_recipe.
    destruct (bfs_included g (parse_keys (diff heads (inter heads refs))) (parse_keys stopped))
      as (seenS & stoppedS & refsS & ES & HndS & HincS & _ & _).
    rewrite ES.
    assert (Hmem : forall x, In x (included_of seenS stoppedS) <-> In x (included_of seen stopped)).
    { intros x. rewrite HincS, Hinc. apply (lim_walk_members g pm heads (dedup tips) Hc stopped refs Hst Hrf). }
    rewrite (same_members_length _ _ HndS Hnd Hmem), Nat.eqb_refl.
    exists (parse_keys (diff heads (inter heads refs))), stoppedS, (included_of seenS stoppedS).
    split; [reflexivity|]. split; [reflexivity|]. split; [exact HndS|].
    split; [apply (same_members_length _ _ HndS Hnd Hmem)|]. split; [exact Hmem|].
    intros x Hx. apply Hsub. apply Hmem. exact Hx.
Qed.

(* ---------- the wire format ---------- *)
Lemma bmemb_app c a b : Bytes.memb c (a ++ b) = Bytes.memb c a || Bytes.memb c b.
Proof. unfold Bytes.memb. apply existsb_app. Qed.

Lemma split1_aux_nosep sep p : forall cur,
  Bytes.memb sep p = false -> split1_aux sep cur p = [rev cur ++ p].
Proof.
  induction p as [|c p IH]; intros cur H; simpl.
  - rewrite app_nil_r. reflexivity.
  - simpl in H. apply orb_false_iff in H. destruct H as [H1 H2].
    rewrite N.eqb_sym, H1. rewrite IH by exact H2. simpl. rewrite <- app_assoc. reflexivity.
Qed.
Lemma split1_aux_sep sep p rest : forall cur,
  Bytes.memb sep p = false ->
  split1_aux sep cur (p ++ sep :: rest) = (rev cur ++ p) :: split1_aux sep [] rest.
Proof.
  induction p as [|c p IH]; intros cur H; simpl.
  - rewrite N.eqb_refl, app_nil_r. reflexivity.
  - simpl in H. apply orb_false_iff in H. destruct H as [H1 H2].
    rewrite N.eqb_sym, H1. rewrite IH by exact H2. simpl. rewrite <- app_assoc. reflexivity.
Qed.
Lemma split_join sep xs :
  Forall (fun x => Bytes.memb sep x = false) xs -> xs <> [] -> split1 sep (join [sep] xs) = xs.
Proof.
  unfold split1. induction xs as [|x xs IH]; intros HF Hne; [congruence|].
  inversion HF as [|? ? Hx HF']; subst. destruct xs as [|y ys].
  - simpl. rewrite split1_aux_nosep by exact Hx. reflexivity.
  - change (join [sep] (x :: y :: ys)) with (x ++ sep :: join [sep] (y :: ys)).
    rewrite split1_aux_sep by exact Hx. cbn [rev app].
    rewrite IH; [reflexivity|exact HF'|discriminate].
Qed.
Lemma split_join_keys sep xs :
  Forall (fun x => Bytes.memb sep x = false) xs -> split1 sep (join [sep] xs) = keys_or_empty xs.
Proof.
  intros HF. destruct xs as [|x xs]; [reflexivity|]. apply split_join; [exact HF|discriminate].
Qed.
Lemma join_nomemb c sep xs :
  Forall (fun x => Bytes.memb c x = false) xs -> N.eqb c sep = false -> Bytes.memb c (join [sep] xs) = false.
Proof.
  intros HF Hc. induction xs as [|x xs IH]; [reflexivity|].
  inversion HF as [|? ? Hx HF']; subst. destruct xs as [|y ys]; [exact Hx|].
  change (join [sep] (x :: y :: ys)) with (x ++ [sep] ++ join [sep] (y :: ys)).
  rewrite !bmemb_app, Hx, (IH HF'). simpl. rewrite Hc. reflexivity.
Qed.

Definition digitb (c : N) : bool := (N.leb 48 c && N.leb c 57)%bool.
Lemma digit_of_nat m : m < 10 ->
  digitb (N.of_nat (48 + m)) = true /\ N.to_nat (N.of_nat (48 + m)) - 48 = m.
Proof.
  intros H. rewrite Nat2N.id. split; [|lia].
  unfold digitb. apply andb_true_iff. split; apply N.leb_le; lia.
Qed.
Lemma dec_aux_digits : forall f n acc,
  Forall (fun c => digitb c = true) acc -> Forall (fun c => digitb c = true) (dec_aux f n acc).
Proof.
  induction f as [|f IH]; intros n acc H; cbn [dec_aux]; [exact H|].
  assert (Hd : digitb (N.of_nat (48 + n mod 10)) = true).
  { apply digit_of_nat. apply Nat.mod_upper_bound. discriminate. }
  destruct (Nat.eqb (n / 10) 0); [|apply IH]; constructor; assumption.
Qed.
Lemma dec_aux_nonempty : forall f n acc, acc <> [] -> dec_aux f n acc <> [].
Proof.
  induction f as [|f IH]; intros n acc H; cbn [dec_aux]; [exact H|].
  destruct (Nat.eqb (n / 10) 0); [discriminate|apply IH; discriminate].
Qed.
Lemma undec_dec_aux : forall f n acc, n < f -> undec_aux 0 (dec_aux f n acc) = undec_aux n acc.
Proof.
  induction f as [|f IH]; intros n acc Hn; [lia|].
  cbn [dec_aux].
  assert (Hm : n mod 10 < 10) by (apply Nat.mod_upper_bound; discriminate).
  destruct (digit_of_nat _ Hm) as [Hd Hv]. unfold digitb in Hd.
  pose proof (Nat.div_mod n 10 ltac:(discriminate)) as Hdm.
  destruct (Nat.eqb (n / 10) 0) eqn:E.
  - apply Nat.eqb_eq in E. cbn [undec_aux]. rewrite Hd, Hv. f_equal. lia.
  - apply Nat.eqb_neq in E. rewrite IH by lia. cbn [undec_aux]. rewrite Hd, Hv. f_equal. lia.
Qed.
Lemma undec_dec n : undec (dec n) = Some n.
Proof.
  unfold undec, dec. destruct (dec_aux (S n) n []) as [|c t] eqn:E.
  - exfalso. revert E. cbn [dec_aux]. destruct (Nat.eqb (n / 10) 0); [discriminate|].
    apply dec_aux_nonempty. discriminate.
  - rewrite <- E. rewrite undec_dec_aux by lia. reflexivity.
Qed.
Lemma dec_no c n : N.ltb c 48 = true -> Bytes.memb c (dec n) = false.
Proof.
  intros Hc. pose proof (dec_aux_digits (S n) n [] (Forall_nil _)) as HF. fold (dec n) in HF.
  induction HF as [|d l Hd _ IH]; [reflexivity|]. simpl. rewrite IH, orb_false_r.
  unfold digitb in Hd. apply andb_true_iff in Hd. destruct Hd as [Hd _].
  apply N.leb_le in Hd. apply N.ltb_lt in Hc. apply N.eqb_neq. lia.
Qed.

Lemma key_okb_spec l : forallb key_okb l = true ->
  Forall (fun x => Bytes.memb SP x = false) l /\ Forall (fun x => Bytes.memb NL x = false) l.
Proof.
  rewrite forallb_forall. intros H. split; apply Forall_forall; intros x Hx; specialize (H x Hx);
    unfold key_okb in H; apply andb_true_iff in H; destruct H as [H1 H2];
    apply negb_true_iff in H1; apply negb_true_iff in H2; assumption.
Qed.

(* what the client serialises is what the server parses: same key sets (an empty
   set arrives as {b""}), same count *)
Theorem serialise_roundtrip start stop count :
  forallb key_okb start = true -> forallb key_okb stop = true ->
  parse_search_recipe (serialise_search_recipe start stop count)
  = Some (keys_or_empty start, keys_or_empty stop, count).
Proof.
  intros Hs Ht. destruct (key_okb_spec _ Hs) as [Hs1 Hs2]. destruct (key_okb_spec _ Ht) as [Ht1 Ht2].
  unfold parse_search_recipe, serialise_search_recipe.
  rewrite split_join.
  - rewrite undec_dec, !split_join_keys by assumption. reflexivity.
  - repeat constructor.
    + apply join_nomemb; [exact Hs2|reflexivity].
    + apply join_nomemb; [exact Ht2|reflexivity].
    + apply dec_no. reflexivity.
  - discriminate.
Qed.

(* the revision ids of the harness are legal keys, distinct, and b"" stands for EMPTYKEY *)
Lemma enc_key_ok n : key_okb (enc n) = true.
Proof.
  destruct n as [|[|n]]; [reflexivity|reflexivity|].
  unfold key_okb. change (enc (S (S n))) with ([114%N] ++ dec (S (S n))).
  rewrite !bmemb_app, !dec_no by reflexivity. reflexivity.
Qed.
Lemma enc_inj a b : enc a = enc b -> a = b.
Proof.
  destruct a as [|[|a]], b as [|[|b]]; intros H; try reflexivity; unfold enc in H; try congruence.
  injection H as H'. assert (E : undec (dec (S (S a))) = undec (dec (S (S b)))) by (rewrite H'; reflexivity).
  rewrite !undec_dec in E. inversion E. reflexivity.
Qed.
Lemma enc_parse_keys l : map enc (parse_keys l) = keys_or_empty (map enc l).
Proof. destruct l; reflexivity. Qed.

Theorem serialise_roundtrip_enc start stop count :
  parse_search_recipe (serialise_search_recipe (map enc start) (map enc stop) count)
  = Some (map enc (parse_keys start), map enc (parse_keys stop), count).
Proof.
  rewrite !enc_parse_keys. apply serialise_roundtrip; apply forallb_forall; intros x Hx;
    apply in_map_iff in Hx; destruct Hx as (n & <- & _); apply enc_key_ok.
Qed.

(* ---------- the hypotheses on the client state are necessary ---------- *)
(* a negatively cached key that the server has in the meantime (a filled ghost):
   the server walks past it and rejects the recipe *)
Theorem stale_missing_refuted :
  exists g pm missing,
    cache_okb g pm = true /\
    forallb (fun m => negb (memb m (keys pm))) missing = true /\
    server_replay g (search_result_from_parent_map pm missing) = NoSuchRevision.
Proof.
  exists [(1, []); (2, [1]); (3, [2])], [(3, [2])], [2]. repeat split; vm_compute; reflexivity.
Qed.
(* null: both cached and negatively cached: the NULL_REVISION rule over-counts *)
Theorem null_cached_and_missing_refuted :
  exists g pm missing,
    cache_okb g pm = true /\
    forallb (fun m => Nat.eqb m NULL || negb (in_dom g m)) missing = true /\
    server_replay g (search_result_from_parent_map pm missing) = NoSuchRevision.
Proof.
  exists [(1, []); (2, [1])], [(1, []); (2, [1])], [1]. repeat split; vm_compute; reflexivity.
Qed.
(* a cache that disagrees with the server (cycle-free but unfaithful): rejected as well *)
Theorem unfaithful_cache_refuted :
  exists g pm missing,
    missing_okb g pm missing = true /\
    server_replay g (search_result_from_parent_map pm missing) = NoSuchRevision.
Proof.
  exists [(1, []); (2, [1]); (3, [2]); (4, [3])], [(4, [2]); (2, [1])], []. split; vm_compute; reflexivity.
Qed.

(* ---------- the hypotheses are satisfiable by non-trivial values ---------- *)
Definition ex_g : graph := [(1, []); (3, [1]); (4, [3]); (5, [3]); (6, [4; 5]); (7, [6; 2])].  (* 2 is a ghost *)
Definition ex_pm : graph := [(4, [3]); (5, [3]); (6, [4; 5]); (7, [6; 2])].
Example ex_full :
  cache_okb ex_g ex_pm = true /\ missing_okb ex_g ex_pm [2] = true /\
  search_result_from_parent_map ex_pm [2] = ([7], [3], 4) /\
  server_replay ex_g ([7], [3], 4) = Walk [7] [3; 2] [4; 5; 6; 7].
Proof. vm_compute. repeat split. Qed.
Example ex_null_rule :
  cache_okb ex_g [(3, [1]); (4, [3])] = true /\ missing_okb ex_g [(3, [1]); (4, [3])] [1] = true /\
  search_result_from_parent_map [(3, [1]); (4, [3])] [1] = ([4], [], 3) /\
  server_replay ex_g ([4], [], 3) = Walk [4] [] [1; 3; 4].
Proof. vm_compute. repeat split. Qed.
Example ex_limited :
  limited_search_result_from_parent_map ex_pm [] [3] 1 = Some ([4; 5], [3], 2) /\
  limited_client_keys ex_pm [3] 1 = [4; 5] /\
  limited_search_result_from_parent_map ex_pm [] [3] 2 = Some ([6], [3], 3) /\
  server_replay ex_g ([6], [3], 3) = Walk [6] [3] [4; 5; 6].
Proof. vm_compute. repeat split. Qed.
Example ex_wire :
  serialise_search_recipe (map enc [7]) (map enc [3]) 4
  = [114; 55; 10; 114; 51; 10; 52]%N.
Proof. vm_compute. reflexivity. Qed.
