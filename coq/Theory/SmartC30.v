(* Theory/SmartC30.v -- the three decoders instantiated in the generic hint
   invariant / read loop theorems of Theory/SmartSeg.v (C30). *)
From Coq Require Import String ZArith NArith Bool List Lia.
From BV Require Import Lib.Bytes Model.Smart Theory.SmartNum Theory.SmartSeg Theory.SmartLP Theory.SmartCk
  Theory.SmartP3.
Import ListNotations.

Definition never_blocks {St} (finished : St -> bool) (r : rl_result St) (npol nmsg : nat) : Prop :=
  match r with
  | RlFinished s' left_over => left_over = [] /\ finished s' = true
  | RlWouldBlock _ _ _ => False
  | RlOutOfPolicy _ remaining => (npol < nmsg)%nat /\ remaining <> []
  end.

Section LP.
  Variable body : bytes.
  Let enc := encode_bulk_data body.
  Theorem lp_hint_le_remaining segs q : concat segs ++ q = enc -> q <> [] ->
    lp_finished (fold_left lp_accept segs lp_init) = false /\
    (0 < lp_hint (fold_left lp_accept segs lp_init) <= Z.of_nat (length q))%Z.
  Proof.
    exact (hint_any_segmentation _ lp_accept lp_accept_app lp_hint lp_finished lp_init enc
             (lp_prefix_ok body) (lp_init_ok body) segs q).
  Qed.
  Theorem lp_finished_iff_consumed segs q : concat segs ++ q = enc ->
    (lp_finished (fold_left lp_accept segs lp_init) = true <-> q = []).
  Proof.
    exact (finished_iff_consumed _ lp_accept lp_accept_app lp_hint lp_finished lp_init enc
             (lp_prefix_ok body) (lp_init_ok body) (lp_done_ok body) segs q).
  Qed.
  Theorem lp_read_loop_never_blocks pol :
    never_blocks lp_finished (read_loop _ lp_accept lp_hint lp_finished pol lp_init enc) (length pol) (length enc).
  Proof.
    exact (read_loop_never_blocks _ lp_accept lp_accept_app lp_hint lp_finished lp_init enc
             (lp_prefix_ok body) (lp_init_ok body) (lp_done_ok body) pol lp_init enc
             (or_introl (conj eq_refl eq_refl))).
  Qed.
End LP.

Section CK.
  Variable cs : list bytes.
  Variable err : option (list bytes).
  Let enc := encode_stream cs err.
  Theorem ck_hint_le_remaining segs q : concat segs ++ q = enc -> q <> [] ->
    ck_finished (fold_left ck_accept segs ck_init) = false /\
    (0 < ck_hint (fold_left ck_accept segs ck_init) <= Z.of_nat (length q))%Z.
  Proof.
    exact (hint_any_segmentation _ ck_accept ck_accept_app ck_hint ck_finished ck_init enc
             (ck_prefix_ok cs err) (ck_init_ok cs err) segs q).
  Qed.
  Theorem ck_finished_iff_consumed segs q : concat segs ++ q = enc ->
    (ck_finished (fold_left ck_accept segs ck_init) = true <-> q = []).
  Proof.
    exact (finished_iff_consumed _ ck_accept ck_accept_app ck_hint ck_finished ck_init enc
             (ck_prefix_ok cs err) (ck_init_ok cs err) (ck_done_ok cs err) segs q).
  Qed.
  Theorem ck_read_loop_never_blocks pol :
    never_blocks ck_finished (read_loop _ ck_accept ck_hint ck_finished pol ck_init enc) (length pol) (length enc).
  Proof.
    exact (read_loop_never_blocks _ ck_accept ck_accept_app ck_hint ck_finished ck_init enc
             (ck_prefix_ok cs err) (ck_init_ok cs err) (ck_done_ok cs err) pol ck_init enc
             (or_introl (conj eq_refl eq_refl))).
  Qed.
End CK.

Section P3.
  Variable h : bytes.
  Variable ps : list p3_part.
  Hypothesis Hh : fits32 h.
  Hypothesis Hps : Forall p3_part_ok ps.

  Theorem p3s_hint_le_remaining segs q : concat segs ++ q = p3_encode_body h ps -> q <> [] ->
    p3_stop (fold_left p3_accept segs p3_init_server) = false /\
    (0 < p3_hintZ (fold_left p3_accept segs p3_init_server) <= Z.of_nat (length q))%Z.
  Proof.
    exact (hint_any_segmentation _ p3_accept p3_accept_app p3_hintZ p3_stop p3_init_server _
             (fun p q => p3_prefix_ok_server h ps p q Hh Hps) (p3_init_ok_server h ps) segs q).
  Qed.
  Theorem p3s_finished_iff_consumed segs q : concat segs ++ q = p3_encode_body h ps ->
    (p3_stop (fold_left p3_accept segs p3_init_server) = true <-> q = []).
  Proof.
    exact (finished_iff_consumed _ p3_accept p3_accept_app p3_hintZ p3_stop p3_init_server _
             (fun p q => p3_prefix_ok_server h ps p q Hh Hps) (p3_init_ok_server h ps)
             (p3_done_ok_server h ps Hh Hps) segs q).
  Qed.
  Theorem p3s_read_loop_never_blocks pol :
    never_blocks p3_stop (read_loop _ p3_accept p3_hintZ p3_stop pol p3_init_server (p3_encode_body h ps))
                 (length pol) (length (p3_encode_body h ps)).
  Proof.
    exact (read_loop_never_blocks _ p3_accept p3_accept_app p3_hintZ p3_stop p3_init_server _
             (fun p q => p3_prefix_ok_server h ps p q Hh Hps) (p3_init_ok_server h ps)
             (p3_done_ok_server h ps Hh Hps) pol p3_init_server _ (or_introl (conj eq_refl eq_refl))).
  Qed.

  Theorem p3c_hint_le_remaining segs q : concat segs ++ q = p3_encode h ps -> q <> [] ->
    p3_stop (fold_left p3_accept segs p3_init_client) = false /\
    (0 < p3_hintZ (fold_left p3_accept segs p3_init_client) <= Z.of_nat (length q))%Z.
  Proof.
    exact (hint_any_segmentation _ p3_accept p3_accept_app p3_hintZ p3_stop p3_init_client _
             (fun p q => p3_prefix_ok_client h ps p q Hh Hps) (p3_init_ok_client h ps) segs q).
  Qed.
  Theorem p3c_finished_iff_consumed segs q : concat segs ++ q = p3_encode h ps ->
    (p3_stop (fold_left p3_accept segs p3_init_client) = true <-> q = []).
  Proof.
    exact (finished_iff_consumed _ p3_accept p3_accept_app p3_hintZ p3_stop p3_init_client _
             (fun p q => p3_prefix_ok_client h ps p q Hh Hps) (p3_init_ok_client h ps)
             (p3_done_ok_client h ps Hh Hps) segs q).
  Qed.
  Theorem p3c_read_loop_never_blocks pol :
    never_blocks p3_stop (read_loop _ p3_accept p3_hintZ p3_stop pol p3_init_client (p3_encode h ps))
                 (length pol) (length (p3_encode h ps)).
  Proof.
    exact (read_loop_never_blocks _ p3_accept p3_accept_app p3_hintZ p3_stop p3_init_client _
             (fun p q => p3_prefix_ok_client h ps p q Hh Hps) (p3_init_ok_client h ps)
             (p3_done_ok_client h ps Hh Hps) pol p3_init_client _ (or_introl (conj eq_refl eq_refl))).
  Qed.
End P3.

(* next_read_size() never reaches the AssertionError branch while the hint is positive *)
Lemma p3_hint_known s : (0 < p3_hintZ s)%Z -> p3_hint s <> None.
Proof. unfold p3_hintZ. destruct (p3_hint s); [discriminate|lia]. Qed.

(* ---- examples: the hypotheses are satisfiable by non-trivial values ---- *)
Example ex_lp_split :
  fold_left lp_accept [[51;10;97]; [98;99;100;111]; [110;101;10;88]] lp_init = LpDone [97;98;99] [88].
Proof. vm_compute. reflexivity. Qed.
Example ex_ck_error_midway :
  fold_left ck_accept (cut [3;9;1]%nat (encode_stream [[97];[98;99]] (Some [[101]]) ++ [7])) ck_init
  = (CkDone (Some [[101]]) [[97];[98;99]] [7], []).
Proof. vm_compute. reflexivity. Qed.
Example ex_p3_fits : fits32 [100;101] /\ Forall p3_part_ok [POne 83; PStruct [108;101]; PBytes [1;2;3]].
Proof. split; [unfold fits32; cbn; lia|repeat constructor; unfold fits32; cbn; lia]. Qed.
Example ex_read_loop :
  read_loop _ lp_accept lp_hint lp_finished [1;0;2;1;8;1;1;1;1;1;1;1]%N lp_init (encode_bulk_data [1;2;3])
  = RlFinished (LpDone [1;2;3] []) [].
Proof. vm_compute. reflexivity. Qed.
