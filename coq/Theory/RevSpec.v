(* Theory/RevSpec.v -- proofs for C22 over Model/RevSpec.v. *)
From Coq Require Import List Arith Bool Lia ZArith Permutation.
From BV Require Import Lib.Dag Theory.DagFacts Lib.DagMergeSort Theory.DagMergeSortFacts
                       Theory.DagMergeSortMainline Theory.DagMergeSortRevnos Model.RevSpec.
Import ListNotations.

(* ---- the left-hand history never repeats a revision ----------------------- *)

Lemma lefthand_NoDup g t : wf_dag g = true -> NoDup (lefthand g t).
Proof.
  intros W. apply (NoDup_nth_error (lefthand g t)). intros i j Li E.
  destruct (nth_error (lefthand g t) i) as [r|] eqn:Ei; [|apply nth_error_None in Ei; lia].
  symmetry in E.
  assert (Lj : j < length (lefthand g t)) by (apply nth_error_Some; congruence).
  pose proof (lefthand_skipn g W i t r Ei) as Si.
  pose proof (lefthand_skipn g W j t r E) as Sj.
  assert (X : length (skipn i (lefthand g t)) = length (skipn j (lefthand g t))) by congruence.
  rewrite !skipn_length in X. lia.
Qed.

Lemma lh_NoDup b : wf_dag (br_g b) = true -> NoDup (lh b).
Proof.
  intros W. unfold lh, lefthand_opt. destruct (br_tip b); [apply lefthand_NoDup; exact W | constructor].
Qed.

(* ---- list.index ----------------------------------------------------------- *)

Lemma index_of_nth x l i : index_of x l = Some i -> nth_error l i = Some x.
Proof.
  revert i. induction l as [|y l IH]; intros i; cbn; [discriminate|].
  destruct (y =? x) eqn:E.
  - intros H. injection H as <-. apply Nat.eqb_eq in E. subst. reflexivity.
  - destruct (index_of x l) as [j|]; cbn; [|discriminate].
    intros H. injection H as <-. cbn. apply IH. reflexivity.
Qed.

Lemma index_of_In x l : In x l -> exists i, index_of x l = Some i.
Proof.
  induction l as [|y l IH]; cbn; [contradiction|].
  intros H. destruct (y =? x) eqn:E; [eexists; reflexivity|].
  apply Nat.eqb_neq in E. destruct H as [H|H]; [contradiction|].
  destruct (IH H) as [i ->]. eexists; reflexivity.
Qed.

Lemma index_of_some_In x l i : index_of x l = Some i -> In x l.
Proof. intros H. apply index_of_nth in H. eapply nth_error_In; eassumption. Qed.

Lemma index_of_unique x l i : NoDup l -> nth_error l i = Some x -> index_of x l = Some i.
Proof.
  intros N H. destruct (index_of_In x l (nth_error_In l i H)) as [j E].
  pose proof (index_of_nth x l j E) as Hj.
  assert (i = j); [|subst; exact E].
  apply (proj1 (NoDup_nth_error l) N); [apply nth_error_Some; congruence | congruence].
Qed.

(* ---- revision number n = the n-th revision of the left-hand history ---------- *)

Lemma nth_error_rev {A} (l : list A) n : n < length l ->
  nth_error (rev l) n = nth_error l (length l - S n).
Proof.
  intros L. destruct (nth_error l (length l - S n)) as [x|] eqn:E.
  - rewrite <- (rev_length l) in L.
    rewrite (nth_error_nth' (rev l) x L). f_equal.
    rewrite rev_length in L. rewrite (rev_nth l x L).
    apply nth_error_nth. exact E.
  - apply nth_error_None in E. lia.
Qed.

Theorem get_rev_id_nth b n : n < last_revno b ->
  get_rev_id b (Z.of_nat (S n)) = match nth_error (history b) n with
                                  | Some r => Ok (Some r)
                                  | None => Err NoSuchRevision
                                  end.
Proof.
  intros L. unfold get_rev_id, history.
  assert (E0 : (Z.of_nat (S n) =? 0)%Z = false) by (apply Z.eqb_neq; lia).
  assert (E1 : (Z.of_nat (S n) <=? 0)%Z = false) by (apply Z.leb_gt; lia).
  assert (E2 : (Z.of_nat (last_revno b) <? Z.of_nat (S n))%Z = false) by (apply Z.ltb_ge; lia).
  rewrite E0, E1, E2. cbn [orb]. rewrite Nat2Z.id.
  unfold last_revno in *. rewrite (nth_error_rev (lh b) n L). reflexivity.
Qed.

Theorem get_rev_id_in_range b n : n < last_revno b ->
  exists r, nth_error (history b) n = Some r /\ get_rev_id b (Z.of_nat (S n)) = Ok (Some r).
Proof.
  intros L. rewrite (get_rev_id_nth b n L).
  destruct (nth_error (history b) n) as [r|] eqn:E; [exists r; split; reflexivity|].
  apply nth_error_None in E. unfold history in E. rewrite rev_length in E. unfold last_revno in L. lia.
Qed.

Theorem get_rev_id_zero b : get_rev_id b 0 = Ok None.
Proof. reflexivity. Qed.

Theorem get_rev_id_out_of_range b n : (n < 0 \/ Z.of_nat (last_revno b) < n)%Z ->
  get_rev_id b n = Err RevnoOutOfBounds.
Proof.
  intros H. unfold get_rev_id.
  assert (E0 : (n =? 0)%Z = false) by (apply Z.eqb_neq; lia). rewrite E0.
  destruct H as [H|H].
  - assert (E1 : (n <=? 0)%Z = true) by (apply Z.leb_le; lia). rewrite E1. reflexivity.
  - assert (E2 : (Z.of_nat (last_revno b) <? n)%Z = true) by (apply Z.ltb_lt; lia).
    rewrite E2, orb_true_r. reflexivity.
Qed.

(* revision_id_to_revno = position in the history *)
Theorem revision_id_to_revno_spec b r n : wf_dag (br_g b) = true ->
  (revision_id_to_revno b (Some r) = Ok (S n) <-> nth_error (history b) n = Some r).
Proof.
  intros W. unfold revision_id_to_revno, history. split.
  - destruct (index_of r (lh b)) as [i|] eqn:E; [|discriminate].
    intros H. injection H as H.
    pose proof (index_of_nth r (lh b) i E) as Hi.
    assert (Li : i < length (lh b)) by (apply nth_error_Some; congruence).
    unfold last_revno in H. rewrite nth_error_rev by lia.
    replace (length (lh b) - S n) with i by lia. exact Hi.
  - intros H.
    assert (Ln : n < length (lh b)).
    { rewrite <- rev_length. apply nth_error_Some. congruence. }
    rewrite nth_error_rev in H by exact Ln.
    rewrite (index_of_unique r (lh b) _ (lh_NoDup b W) H). unfold last_revno. f_equal. lia.
Qed.

Theorem revision_id_to_revno_not_mainline b r :
  ~ In r (lh b) -> revision_id_to_revno b (Some r) = Err NoSuchRevision.
Proof.
  intros H. unfold revision_id_to_revno. destruct (index_of r (lh b)) as [i|] eqn:E; [|reflexivity].
  exfalso. apply H. eapply index_of_some_In; eassumption.
Qed.

Theorem revision_id_to_revno_mainline b r : In r (lh b) ->
  exists n, revision_id_to_revno b (Some r) = Ok (S n) /\ n < last_revno b.
Proof.
  intros H. unfold revision_id_to_revno. destruct (index_of_In r (lh b) H) as [i E]. rewrite E.
  pose proof (index_of_nth r (lh b) i E) as Hi.
  assert (Li : i < length (lh b)) by (apply nth_error_Some; congruence).
  unfold last_revno. exists (length (lh b) - S i). split; [f_equal; lia | lia].
Qed.

(* number -> id -> number and id -> number -> id *)
Theorem revno_roundtrip_number b n : wf_dag (br_g b) = true -> n < last_revno b ->
  exists r, get_rev_id b (Z.of_nat (S n)) = Ok (Some r) /\ revision_id_to_revno b (Some r) = Ok (S n).
Proof.
  intros W L. destruct (get_rev_id_in_range b n L) as [r [E G]]. exists r. split; [exact G|].
  apply (revision_id_to_revno_spec b r n W). exact E.
Qed.

Theorem revno_roundtrip_id b r : wf_dag (br_g b) = true -> In r (lh b) ->
  exists n, revision_id_to_revno b (Some r) = Ok (S n) /\ get_rev_id b (Z.of_nat (S n)) = Ok (Some r).
Proof.
  intros W H. destruct (revision_id_to_revno_mainline b r H) as [n [E L]]. exists n. split; [exact E|].
  rewrite (get_rev_id_nth b n L). apply (revision_id_to_revno_spec b r n W) in E. rewrite E. reflexivity.
Qed.

(* ---- the dict comprehension (_gen_revno_map) and the list filter ------------- *)

Lemma revno_eqb_spec a b : revno_eqb a b = true <-> a = b.
Proof.
  revert b. induction a as [|x a IH]; destruct b as [|y b]; cbn; try (split; [discriminate|discriminate]).
  - split; reflexivity.
  - rewrite andb_true_iff, Nat.eqb_eq, IH. split; [intros [-> ->]; reflexivity | intros H; injection H; auto].
Qed.

Definition keys (m : list (revid * revno)) : list revid := map fst m.
Definition vals (m : list (revid * revno)) : list revno := map snd m.

Lemma dict_set_fresh k v m : ~ In k (keys m) -> dict_set k v m = m ++ [(k, v)].
Proof.
  induction m as [|[k' v'] m IH]; cbn; intros H; [reflexivity|].
  destruct (k' =? k) eqn:E; [apply Nat.eqb_eq in E; exfalso; apply H; left; exact E|].
  f_equal. apply IH. intros X. apply H. right. exact X.
Qed.

Definition entry_kv (e : ms4) : revid * revno := (m_id e, m_revno e).

Lemma revno_map_fold l : forall acc,
  NoDup (map m_id l) -> (forall e, In e l -> ~ In (m_id e) (keys acc)) ->
  fold_left (fun m e => dict_set (m_id e) (m_revno e) m) l acc = acc ++ map entry_kv l.
Proof.
  induction l as [|e l IH]; intros acc N H; cbn [fold_left map]; [rewrite app_nil_r; reflexivity|].
  inversion N as [|? ? Hn N']; subst.
  rewrite (dict_set_fresh _ _ acc (H e (or_introl eq_refl))).
  rewrite IH; [rewrite <- app_assoc; reflexivity | exact N' |].
  intros e' He'. unfold keys. rewrite map_app, in_app_iff. cbn. intros [X|[X|[]]].
  - apply (H e' (or_intror He')). exact X.
  - apply Hn. rewrite X. apply in_map. exact He'.
Qed.

Lemma revno_map_of_nodup l : NoDup (map m_id l) -> revno_map_of l = map entry_kv l.
Proof. intros N. unfold revno_map_of. rewrite (revno_map_fold l [] N); [reflexivity | intros e _ []]. Qed.

Lemma dict_get_In m k v : NoDup (keys m) -> (dict_get k m = Some v <-> In (k, v) m).
Proof.
  induction m as [|[k' v'] m IH]; cbn; intros N; [split; [discriminate | contradiction]|].
  inversion N as [|? ? Hn N']; subst. destruct (k' =? k) eqn:E.
  - apply Nat.eqb_eq in E. subst k'. split.
    + intros H. injection H as <-. left. reflexivity.
    + intros [H|H]; [injection H as <-; reflexivity|].
      exfalso. apply Hn. change k with (fst (k, v)). apply in_map. exact H.
  - apply Nat.eqb_neq in E. rewrite (IH N'). split; [intros H; right; exact H|].
    intros [H|H]; [injection H as -> _; contradiction | exact H].
Qed.

Lemma filter_unique_val m k d : NoDup (vals m) -> In (k, d) m ->
  filter (fun kv => revno_eqb d (snd kv)) m = [(k, d)].
Proof.
  induction m as [|[k' v'] m IH]; cbn; intros N H; [contradiction|].
  inversion N as [|? ? Hn N']; subst. destruct H as [H|H].
  - injection H as -> ->. rewrite (proj2 (revno_eqb_spec d d) eq_refl). f_equal.
    clear IH N. induction m as [|[k2 v2] m IHm]; cbn; [reflexivity|].
    destruct (revno_eqb d v2) eqn:E.
    + apply revno_eqb_spec in E. subst v2. exfalso. apply Hn. left. reflexivity.
    + apply IHm. intros X. apply Hn. right. exact X.
      inversion N' ; assumption.
  - destruct (revno_eqb d v') eqn:E.
    + apply revno_eqb_spec in E. subst v'. exfalso. apply Hn.
      change d with (snd (k, d)). apply in_map. exact H.
    + apply IH; assumption.
Qed.

Lemma lookup_dotted_In m k d : NoDup (vals m) -> In (k, d) m -> lookup_dotted m d = Ok k.
Proof.
  intros N H. unfold lookup_dotted, ids_with_revno. rewrite (filter_unique_val m k d N H). reflexivity.
Qed.

Lemma lookup_dotted_sound m d r : lookup_dotted m d = Ok r -> In (r, d) m.
Proof.
  unfold lookup_dotted, ids_with_revno.
  destruct (filter (fun kv => revno_eqb d (snd kv)) m) as [|[k v] [|? ?]] eqn:E; cbn; try discriminate.
  intros H. injection H as <-.
  assert (X : In (k, v) (filter (fun kv => revno_eqb d (snd kv)) m)) by (rewrite E; left; reflexivity).
  apply filter_In in X as [X Y]. cbn in Y. apply revno_eqb_spec in Y. subst v. exact X.
Qed.

(* The lookups the code performs over ANY merge-sorted list with distinct ids
   and distinct revnos are inverse bijections. *)
Theorem lookup_inverse (l : list ms4) :
  NoDup (map m_id l) -> NoDup (map m_revno l) ->
  let m := revno_map_of l in
  (forall e, In e l -> dict_get (m_id e) m = Some (m_revno e) /\ lookup_dotted m (m_revno e) = Ok (m_id e)) /\
  (forall r d, dict_get r m = Some d -> lookup_dotted m d = Ok r) /\
  (forall r d, lookup_dotted m d = Ok r -> dict_get r m = Some d) /\
  (forall r d, dict_get r m = Some d -> exists e, In e l /\ m_id e = r /\ m_revno e = d).
Proof.
  intros Ni Nr m. unfold m. rewrite (revno_map_of_nodup l Ni).
  assert (Nk : NoDup (keys (map entry_kv l))) by (unfold keys; rewrite map_map; exact Ni).
  assert (Nv : NoDup (vals (map entry_kv l))) by (unfold vals; rewrite map_map; exact Nr).
  repeat split.
  - apply (dict_get_In _ _ _ Nk). apply (in_map entry_kv l e H).
  - apply (lookup_dotted_In _ _ _ Nv). apply (in_map entry_kv l e H).
  - intros r d H. apply (dict_get_In _ _ _ Nk) in H. apply (lookup_dotted_In _ _ _ Nv H).
  - intros r d H. apply (dict_get_In _ _ _ Nk). apply lookup_dotted_sound. exact H.
  - intros r d H. apply (dict_get_In _ _ _ Nk) in H. apply in_map_iff in H as [e [E He]].
    exists e. unfold entry_kv in E. injection E as <- <-. repeat split. exact He.
Qed.

(* ---- dotted revnos of a branch ------------------------------------------------ *)

Lemma index_of_none_notin x l : index_of x l = None -> ~ In x l.
Proof. intros H X. destruct (index_of_In x l X) as [i E]. congruence. Qed.

Lemma with_eom_fst g l : map fst (with_eom g l) = l.
Proof. induction l as [|e l IH]; cbn [with_eom map]; [reflexivity | f_equal; exact IH]. Qed.

Lemma merge_sort_ids g tip : map m_id (merge_sort g tip) = ms_ids (merge_sorted g tip).
Proof.
  unfold merge_sort, ms_ids. rewrite <- (with_eom_fst g (merge_sorted g tip)) at 2.
  rewrite map_map. reflexivity.
Qed.
Lemma merge_sort_revnos g tip : map m_revno (merge_sort g tip) = ms_revnos (merge_sorted g tip).
Proof.
  unfold merge_sort, ms_revnos. rewrite <- (with_eom_fst g (merge_sorted g tip)) at 2.
  rewrite map_map. reflexivity.
Qed.

Lemma merge_sorted_head g (t : revid) : t < length g ->
  exists rv rest, merge_sorted g (Some t) = (t, 0, rv) :: rest.
Proof.
  intros L. unfold merge_sorted, present. rewrite (proj2 (Nat.ltb_lt t (length g)) L).
  rewrite ms_visit_S.
  destruct (pop_node_sched t 0 (left_parent g t) (is_first_child (left_parent g t) ms_init)
     (fold_left (ms_descend g t) (visit_plan (parents g t) 0) (claim (left_parent g t) ms_init))) as [rv E].
  rewrite E. eexists. eexists. reflexivity.
Qed.

(* iter_merge_sorted_revisions() without limits is the whole merge-sorted list *)
Lemma iter_all b :
  iter_merge_sorted_revisions b None None Exclude false = merge_sort (br_g b) (br_tip b).
Proof.
  unfold iter_merge_sorted_revisions, filter_merge_sorted, filter_start_non_ancestors.
  destruct (merge_sort (br_g b) (br_tip b)) as [|first rest] eqn:E; [reflexivity|].
  assert (D : m_depth first = 0); [|rewrite D; reflexivity].
  unfold merge_sort in E. destruct (br_tip b) as [t|]; [|discriminate].
  destruct (Nat.lt_ge_cases t (length (br_g b))) as [L|G].
  - destruct (merge_sorted_head (br_g b) t L) as [rv [rest' Eh]]. rewrite Eh in E.
    cbn [with_eom] in E. injection E as <- _. reflexivity.
  - unfold merge_sorted, present in E. rewrite (proj2 (Nat.ltb_ge t _) G) in E. discriminate.
Qed.

(* what the theorems need to know about the merge-sorted list of the branch: the
   revnos are distinct, and exactly the mainline revisions carry one-component revnos *)
Definition ms_good (b : branch) : Prop :=
  NoDup (ms_revnos (merge_sorted (br_g b) (br_tip b))) /\
  (forall e, In e (merge_sorted (br_g b) (br_tip b)) -> (In (e_id e) (lh b) <-> length (e_revno e) = 1)).

Section Dotted.
  Variable b : branch.
  Hypothesis W : wf_dag (br_g b) = true.
  Hypothesis Good : ms_good b.

  Let l := merge_sort (br_g b) (br_tip b).

  Lemma l_ids_nodup : NoDup (map m_id l).
  Proof. unfold l. rewrite merge_sort_ids. apply merge_sorted_NoDup. exact W. Qed.
  Lemma l_revnos_nodup : NoDup (map m_revno l).
  Proof. unfold l. rewrite merge_sort_revnos. exact (proj1 Good). Qed.

  Lemma l_shape e : In e l -> (In (m_id e) (lh b) <-> length (m_revno e) = 1).
  Proof.
    intros H. apply (proj2 Good (fst e)). unfold l, merge_sort in H.
    rewrite <- (with_eom_fst (br_g b) (merge_sorted (br_g b) (br_tip b))). apply in_map. exact H.
  Qed.

  Lemma revno_map_is : revno_map b = revno_map_of l.
  Proof. unfold revno_map. rewrite iter_all. reflexivity. Qed.

  (* id -> dotted revno -> id *)
  Theorem dotted_roundtrip_id r d :
    revision_id_to_dotted_revno b (Some r) = Ok d -> dotted_revno_to_revision_id b d = Ok (Some r).
  Proof.
    destruct (lookup_inverse l l_ids_nodup l_revnos_nodup) as [_ [A [_ B]]].
    unfold revision_id_to_dotted_revno.
    destruct (revision_id_to_revno b (Some r)) as [n|e] eqn:E.
    - intros H. injection H as <-. cbn [dotted_revno_to_revision_id].
      destruct n as [|n].
      + exfalso. unfold revision_id_to_revno in E. destruct (index_of r (lh b)) as [i|] eqn:Ei; [|discriminate].
        apply index_of_nth in Ei. assert (i < length (lh b)) by (apply nth_error_Some; congruence).
        injection E as E. unfold last_revno in E. lia.
      + pose proof (proj1 (revision_id_to_revno_spec b r n W) E) as Hn.
        assert (Ln : n < last_revno b).
        { unfold last_revno. rewrite <- (rev_length (lh b)). apply nth_error_Some. fold (history b). congruence. }
        rewrite (get_rev_id_nth b n Ln), Hn. reflexivity.
    - rewrite revno_map_is. destruct (dict_get r (revno_map_of l)) as [d'|] eqn:Ed; [|discriminate].
      intros H. injection H as <-.
      destruct (B r d' Ed) as [e0 [He0 [Ei Er]]].
      assert (Nm : ~ In r (lh b)).
      { unfold revision_id_to_revno in E. destruct (index_of r (lh b)) eqn:X; [discriminate|].
        apply index_of_none_notin. exact X. }
      assert (Ld : length d' <> 1).
      { intros X. apply Nm. rewrite <- Ei. apply (l_shape e0 He0). rewrite Er. exact X. }
      unfold dotted_revno_to_revision_id. rewrite revno_map_is, (A r d' Ed).
      destruct d' as [|x [|y d']]; cbn in *; try reflexivity. lia.
  Qed.

  (* dotted revno -> id -> dotted revno ((0) names the null revision and is excluded) *)
  Theorem dotted_roundtrip_revno d r :
    dotted_revno_to_revision_id b d = Ok (Some r) -> revision_id_to_dotted_revno b (Some r) = Ok d.
  Proof.
    destruct (lookup_inverse l l_ids_nodup l_revnos_nodup) as [_ [_ [A B]]].
    unfold dotted_revno_to_revision_id.
    assert (Hmap : forall d0, length d0 <> 1 ->
              bind (lookup_dotted (revno_map b) d0) (fun r0 => Ok (Some r0)) = Ok (Some r) ->
              revision_id_to_dotted_revno b (Some r) = Ok d0).
    { intros d0 Ld. rewrite revno_map_is.
      destruct (lookup_dotted (revno_map_of l) d0) as [r0|] eqn:El; cbn [bind]; [|discriminate].
      intros H. injection H as ->.
      pose proof (A r d0 El) as Hg. destruct (B r d0 Hg) as [e0 [He0 [Ei Er]]].
      assert (Nm : ~ In r (lh b)).
      { intros X. apply Ld. rewrite <- Er. apply (l_shape e0 He0). rewrite Ei. exact X. }
      unfold revision_id_to_dotted_revno. rewrite (revision_id_to_revno_not_mainline b r Nm).
      rewrite revno_map_is, Hg. reflexivity. }
    destruct d as [|n [|y d]]; [apply Hmap; cbn; lia | | apply Hmap; cbn; lia].
    intros H. destruct n as [|n]; [cbn in H; discriminate|].
    destruct (Nat.lt_ge_cases n (last_revno b)) as [L|G].
    - rewrite (get_rev_id_nth b n L) in H.
      destruct (nth_error (history b) n) as [r'|] eqn:En; [|discriminate]. injection H as ->.
      unfold revision_id_to_dotted_revno.
      rewrite (proj2 (revision_id_to_revno_spec b r n W) En). reflexivity.
    - rewrite get_rev_id_out_of_range in H by lia. discriminate.
  Qed.

  (* a revision has a dotted revno exactly when it is in the merge-sorted list *)
  Theorem dotted_revno_defined r : forallb (present (br_g b)) (lh b) = true ->
    ((exists d, revision_id_to_dotted_revno b (Some r) = Ok d) <->
     In r (ms_ids (merge_sorted (br_g b) (br_tip b)))).
  Proof.
    intros P. destruct (lookup_inverse l l_ids_nodup l_revnos_nodup) as [A [_ [_ B]]].
    rewrite <- merge_sort_ids. fold l. unfold revision_id_to_dotted_revno. split.
    - intros [d H]. destruct (revision_id_to_revno b (Some r)) as [n|e] eqn:E.
      + assert (Hin : In r (lh b)).
        { unfold revision_id_to_revno in E. destruct (index_of r (lh b)) eqn:X; [|discriminate].
          eapply index_of_some_In; eassumption. }
        unfold l. rewrite merge_sort_ids. unfold lh, lefthand_opt in *.
        destruct (br_tip b) as [t|]; [|contradiction].
        assert (Lr : r < length (br_g b)).
        { rewrite forallb_forall in P. specialize (P r Hin). unfold present in P. apply Nat.ltb_lt. exact P. }
        assert (Lt : t < length (br_g b)).
        { rewrite forallb_forall in P. specialize (P t (In_lefthand_self _ t)). apply Nat.ltb_lt. exact P. }
        apply (merge_sorted_ids (br_g b) t r W Lt). split; [apply lefthand_reach; exact Hin | exact Lr].
      + rewrite revno_map_is in H. destruct (dict_get r (revno_map_of l)) as [d'|] eqn:Ed; [|discriminate].
        destruct (B r d' Ed) as [e0 [He0 [Ei _]]]. rewrite <- Ei. apply in_map. exact He0.
    - intros H. apply in_map_iff in H as [e0 [Ei He0]].
      destruct (revision_id_to_revno b (Some r)) as [n|e]; [eexists; reflexivity|].
      rewrite revno_map_is. destruct (A e0 He0) as [X _]. rewrite Ei in X. rewrite X. eexists; reflexivity.
  Qed.
End Dotted.

(* ---- ancestor: -- the unique lowest common ancestor ------------------------------ *)

Lemma common_ancestors_spec g keys x : wf_dag g = true ->
  (In x (common_ancestors g keys) <->
   (exists k, In k keys /\ is_ancestor g x k = true) /\ forall k, In k keys -> is_ancestor g x k = true).
Proof.
  intros W. unfold common_ancestors. rewrite filter_In, forallb_forall, (ancestors_spec g keys x W).
  split; intros [[k [Hk R]] F]; (split; [exists k; split; [exact Hk|] | exact F]).
  - apply is_ancestor_spec; assumption.
  - apply is_ancestor_spec in R; assumption.
Qed.

Lemma find_lca_spec g keys x : wf_dag g = true -> In x (find_lca g keys) ->
  forall k, In k keys -> is_ancestor g x k = true.
Proof.
  intros W H. unfold find_lca in H. apply heads_spec in H as [H _].
  apply (common_ancestors_spec g keys x W) in H as [_ F]. exact F.
Qed.

(* whatever find_unique_lca returns is a common ancestor of the two tips *)
Lemma unique_lca_common g a o : wf_dag g = true -> forall fuel keys r,
  (forall x, (forall k, In k keys -> is_ancestor g x k = true) ->
             is_ancestor g x a = true /\ is_ancestor g x o = true) ->
  unique_lca_fuel g fuel keys = Some r ->
  is_ancestor g r a = true /\ is_ancestor g r o = true.
Proof.
  intros W. induction fuel as [|f IH]; intros keys r P; cbn [unique_lca_fuel]; [discriminate|].
  destruct (find_lca g keys) as [|x [|y l]] eqn:E; [discriminate | |].
  - intros H. injection H as <-. apply P. apply (find_lca_spec g keys x W). rewrite E. left. reflexivity.
  - apply IH. intros z Hz. apply P. intros k Hk.
    apply (is_ancestor_trans g z x k W); [apply Hz; left; reflexivity|].
    apply (find_lca_spec g keys x W); [rewrite E; left; reflexivity | exact Hk].
Qed.

Theorem find_unique_lca_common g a o r : wf_dag g = true ->
  find_unique_lca g a o = Some r -> is_ancestor g r a = true /\ is_ancestor g r o = true.
Proof.
  intros W. unfold find_unique_lca. apply (unique_lca_common g a o W).
  intros x H. split; apply H; [left | right; left]; reflexivity.
Qed.

Lemma NoDup_dedup l : NoDup (dedup l).
Proof.
  induction l as [|x l IH]; cbn; [constructor|].
  destruct (memb x l) eqn:E; [exact IH|].
  constructor; [rewrite In_dedup; apply memb_false; exact E | exact IH].
Qed.

Lemma NoDup_singleton (l : list revid) c : NoDup l -> (forall k, In k l <-> k = c) -> l = [c].
Proof.
  intros N H. destruct l as [|x l]; [exfalso; apply (proj2 (H c) eq_refl)|].
  assert (x = c) by (apply H; left; reflexivity). subst x. f_equal.
  destruct l as [|y l]; [reflexivity|]. exfalso.
  assert (y = c) by (apply H; right; left; reflexivity). subst y.
  inversion N as [|? ? Hn _]. apply Hn. left. reflexivity.
Qed.

(* ... and when the common ancestors have a greatest element it is the answer *)
Theorem find_unique_lca_greatest g a o c : wf_dag g = true ->
  is_ancestor g c a = true -> is_ancestor g c o = true ->
  (forall x, is_ancestor g x a = true -> is_ancestor g x o = true -> is_ancestor g x c = true) ->
  find_unique_lca g a o = Some c.
Proof.
  intros W Ca Co G. unfold find_unique_lca. cbn [unique_lca_fuel].
  assert (E : find_lca g [a; o] = [c]); [|rewrite E; reflexivity].
  apply NoDup_singleton.
  - unfold find_lca, heads. apply NoDup_filter, NoDup_dedup.
  - intros k. unfold find_lca. rewrite heads_spec. split.
    + intros [Hk Hd]. apply (common_ancestors_spec g [a; o] k W) in Hk as [_ F].
      destruct (Nat.eq_dec c k) as [e|Ne]; [symmetry; exact e|]. exfalso.
      assert (X : is_ancestor g k c = false).
      { apply Hd; [|exact Ne]. apply (common_ancestors_spec g [a; o] c W). split.
        - exists a. split; [left; reflexivity | exact Ca].
        - intros k' [<-|[<-|[]]]; assumption. }
      rewrite (G k (F a (or_introl eq_refl)) (F o (or_intror (or_introl eq_refl)))) in X. discriminate.
    + intros ->. split.
      * apply (common_ancestors_spec g [a; o] c W). split.
        -- exists a. split; [left; reflexivity | exact Ca].
        -- intros k' [<-|[<-|[]]]; assumption.
      * intros k' Hk' Ne. apply (common_ancestors_spec g [a; o] k' W) in Hk' as [_ F].
        destruct (is_ancestor g c k') eqn:X; [|reflexivity]. exfalso. apply Ne.
        apply (is_ancestor_antisym g k' c W); [|exact X].
        apply G; apply F; [left | right; left]; reflexivity.
Qed.

(* ---- mainline: -- the left-hand revision that merged a revision ---------------------- *)

Lemma merger_walk_spec g m : forall l last r, merger_walk g m l last = Some r ->
  (last = Some r /\ match l with [] => True | c :: _ => is_ancestor g m c = false end) \/
  exists pre post, l = pre ++ r :: post /\
    Forall (fun c => is_ancestor g m c = true) (pre ++ [r]) /\
    match post with [] => True | c :: _ => is_ancestor g m c = false end.
Proof.
  induction l as [|c l IH]; intros last r; cbn [merger_walk].
  - intros H. left. split; [exact H | exact I].
  - destruct (is_ancestor g m c) eqn:E.
    + intros H. right. destruct (IH (Some c) r H) as [[X Y]|[pre [post [E1 [F P]]]]].
      * injection X as <-. exists [], l. split; [reflexivity|]. split; [repeat constructor; exact E | exact Y].
      * exists (c :: pre), post. split; [rewrite E1; reflexivity|]. split; [constructor; assumption | exact P].
    + intros H. left. split; [exact H | reflexivity].
Qed.

Theorem find_lefthand_merger_spec g m t r : wf_dag g = true ->
  find_lefthand_merger g m (Some t) = Some r ->
  exists pre post, lefthand g t = pre ++ r :: post /\
    Forall (fun c => is_ancestor g m c = true) (pre ++ [r]) /\
    Forall (fun c => is_ancestor g m c = false) post.
Proof.
  intros W H. unfold find_lefthand_merger, lefthand_opt in H.
  destruct (merger_walk_spec g m _ _ _ H) as [[X _]|[pre [post [E [F P]]]]]; [discriminate|].
  exists pre, post. split; [exact E|]. split; [exact F|].
  destruct post as [|c0 post']; [constructor|].
  (* everything after c0 is a left-hand ancestor of c0 *)
  assert (Hn : nth_error (lefthand g t) (length pre + 1) = Some c0).
  { rewrite E. rewrite nth_error_app2 by lia. replace (length pre + 1 - length pre) with 1 by lia. reflexivity. }
  pose proof (lefthand_skipn g W _ t c0 Hn) as Sk.
  assert (Sk' : lefthand g c0 = c0 :: post').
  { rewrite Sk, E. replace (length pre + 1) with (length (pre ++ [r])) by (rewrite app_length; cbn; lia).
    replace (pre ++ r :: c0 :: post') with ((pre ++ [r]) ++ c0 :: post') by (rewrite <- app_assoc; reflexivity).
    rewrite skipn_app, skipn_all, Nat.sub_diag. reflexivity. }
  apply Forall_forall. intros c Hc.
  destruct (is_ancestor g m c) eqn:X; [|reflexivity]. exfalso.
  assert (R : is_ancestor g c c0 = true).
  { apply is_ancestor_spec; [exact W|]. apply lefthand_reach. rewrite Sk'. exact Hc. }
  rewrite (is_ancestor_trans g m c c0 W X R) in P. discriminate.
Qed.

Theorem find_lefthand_merger_none g m t : wf_dag g = true ->
  (find_lefthand_merger g m (Some t) = None <-> is_ancestor g m t = false).
Proof.
  intros W. unfold find_lefthand_merger, lefthand_opt.
  destruct (lefthand_head g t) as [l E]. rewrite E. cbn [merger_walk].
  destruct (is_ancestor g m t) eqn:X; [|split; reflexivity].
  split; [|discriminate]. intros H. exfalso.
  assert (G : forall l last, last <> None -> merger_walk g m l last <> None).
  { clear. induction l as [|c l IH]; intros last Hl; cbn; [exact Hl|].
    destruct (is_ancestor g m c); [apply IH; discriminate | exact Hl]. }
  apply (G l (Some t)); [discriminate | exact H].
Qed.

(* ---- specifier semantics ------------------------------------------------------------ *)

Definition lh_present (b : branch) : Prop := forallb (present (br_g b)) (lh b) = true.

Lemma history_present b n r : lh_present b -> nth_error (history b) n = Some r -> present (br_g b) r = true.
Proof.
  intros P H. unfold lh_present in P. rewrite forallb_forall in P. apply P.
  apply in_rev. fold (history b). eapply nth_error_In; eassumption.
Qed.

Lemma lookup_revno_pos b n r : n < last_revno b -> nth_error (history b) n = Some r ->
  lookup_revno b (Z.of_nat (S n)) = Ok (S n, Some r).
Proof.
  intros L H. unfold lookup_revno.
  assert (E : (Z.of_nat (S n) <? 0)%Z = false) by (apply Z.ltb_ge; lia). rewrite E.
  rewrite (get_rev_id_nth b n L), H. cbn [catch_invalid bind]. rewrite Nat2Z.id. reflexivity.
Qed.

(* "n" / "revno:n": the n-th revision of the left-hand history *)
Theorem spec_revno b n r : lh_present b -> nth_error (history b) n = Some r ->
  as_revision_id b (SRevno (Z.of_nat (S n))) = Ok (Some r) /\
  in_history b (SRevno (Z.of_nat (S n))) = Ok (Some (S n), Some r).
Proof.
  intros P H.
  assert (L : n < last_revno b).
  { unfold last_revno. rewrite <- (rev_length (lh b)). apply nth_error_Some. fold (history b). congruence. }
  unfold in_history. cbn [as_revision_id match_on]. rewrite (lookup_revno_pos b n r L H). cbn [bind fst snd].
  split; [reflexivity|]. unfold info_valid. cbn [snd]. rewrite (history_present b n r P H). reflexivity.
Qed.

(* "0" is the null revision *)
Theorem spec_revno_zero b :
  as_revision_id b (SRevno 0) = Ok None /\ in_history b (SRevno 0) = Ok (Some 0, None).
Proof. split; reflexivity. Qed.

(* beyond the end: invalid *)
Theorem spec_revno_too_big b n : (Z.of_nat (last_revno b) < n)%Z ->
  as_revision_id b (SRevno n) = Err InvalidRevisionSpec /\ in_history b (SRevno n) = Err InvalidRevisionSpec.
Proof.
  intros H. unfold in_history. cbn [as_revision_id match_on]. unfold lookup_revno.
  assert (E : (n <? 0)%Z = false) by (apply Z.ltb_ge; lia). rewrite E.
  rewrite get_rev_id_out_of_range by lia. split; reflexivity.
Qed.

(* "-k": the k-th revision from the end, the first revision when k is too large *)
Theorem spec_revno_negative b k : 1 <= k ->
  lookup_revno b (- Z.of_nat k) =
  lookup_revno b (Z.of_nat (if last_revno b <=? k then 1 else last_revno b + 1 - k)).
Proof.
  intros K. unfold lookup_revno at 1.
  assert (E : (- Z.of_nat k <? 0)%Z = true) by (apply Z.ltb_lt; lia). rewrite E.
  rewrite Z.opp_involutive. unfold lookup_revno.
  destruct (last_revno b <=? k) eqn:C.
  - apply Nat.leb_le in C. rewrite (proj2 (Z.leb_le _ _)) by lia. reflexivity.
  - apply Nat.leb_gt in C. rewrite (proj2 (Z.leb_gt _ _)) by lia.
    assert (E2 : (Z.of_nat (last_revno b + 1 - k) <? 0)%Z = false) by (apply Z.ltb_ge; lia). rewrite E2.
    replace (Z.of_nat (last_revno b) + - Z.of_nat k + 1)%Z with (Z.of_nat (last_revno b + 1 - k)) by lia.
    reflexivity.
Qed.

Theorem spec_revno_from_end b k r : lh_present b -> nth_error (lh b) k = Some r ->
  as_revision_id b (SRevno (- Z.of_nat (S k))) = Ok (Some r) /\
  in_history b (SRevno (- Z.of_nat (S k))) = Ok (Some (last_revno b - k), Some r).
Proof.
  intros P H.
  assert (L : k < last_revno b) by (unfold last_revno; apply nth_error_Some; congruence).
  assert (Hh : nth_error (history b) (last_revno b - S k) = Some r).
  { unfold history, last_revno in *. rewrite nth_error_rev by lia.
    replace (length (lh b) - S (length (lh b) - S k)) with k by lia. exact H. }
  unfold in_history. cbn [as_revision_id match_on].
  rewrite (spec_revno_negative b (S k)) by lia.
  replace (if last_revno b <=? S k then 1 else last_revno b + 1 - S k) with (S (last_revno b - S k))
    by (destruct (last_revno b <=? S k) eqn:C; [apply Nat.leb_le in C | apply Nat.leb_gt in C]; lia).
  destruct (spec_revno b (last_revno b - S k) r P Hh) as [A B].
  unfold in_history in B. cbn [as_revision_id match_on] in A, B.
  replace (last_revno b - k) with (S (last_revno b - S k)) by lia. split; assumption.
Qed.

(* "last:k" = "-k" while it stays inside the history; "last:" = the tip *)
Theorem spec_last b k : 1 <= k <= last_revno b ->
  lookup_last b (Some (Z.of_nat k)) = lookup_revno b (- Z.of_nat k).
Proof.
  intros [K1 K2]. rewrite (spec_revno_negative b k K1). unfold lookup_last, lookup_revno.
  rewrite (proj2 (Z.leb_gt _ _)) by lia.
  destruct (last_revno b <=? k) eqn:C.
  - apply Nat.leb_le in C. assert (k = last_revno b) by lia. subst k.
    replace (Z.of_nat (last_revno b) - Z.of_nat (last_revno b) + 1)%Z with 1%Z by lia. reflexivity.
  - replace (Z.of_nat (last_revno b) - Z.of_nat k + 1)%Z with (Z.of_nat (last_revno b + 1 - k)) by lia.
    rewrite (proj2 (Z.ltb_ge _ _)) by lia. reflexivity.
Qed.

Theorem spec_last_tip b : last_revno b <> 0 ->
  as_revision_id b (SLast None) = Ok (br_tip b).
Proof.
  intros H. cbn [as_revision_id]. unfold lookup_last. rewrite (proj2 (Nat.eqb_neq _ _) H). reflexivity.
Qed.

Theorem spec_last_invalid b k : (k <= 0 \/ Z.of_nat (last_revno b) + 1 < k)%Z ->
  as_revision_id b (SLast (Some k)) = Err InvalidRevisionSpec.
Proof.
  intros H. cbn [as_revision_id]. unfold lookup_last. destruct (k <=? 0)%Z eqn:C; [reflexivity|].
  apply Z.leb_gt in C. rewrite get_rev_id_out_of_range by lia. reflexivity.
Qed.

(* "revid:r" names r; in_history insists that r is in the repository *)
Theorem spec_revid b r :
  as_revision_id b (SRevid r) = Ok (Some r) /\
  (present (br_g b) r = true -> exists n, in_history b (SRevid r) = Ok (n, Some r)) /\
  (present (br_g b) r = false -> in_history b (SRevid r) = Err InvalidRevisionSpec).
Proof.
  split; [reflexivity|]. unfold in_history, info_valid. cbn [match_on bind snd].
  split; intros ->; [eexists; reflexivity | reflexivity].
Qed.

(* "tag:t" names the tagged revision *)
Theorem spec_tag b t :
  as_revision_id b (STag t) = match tag_lookup t (br_tags b) with Some r => Ok (Some r) | None => Err NoSuchTag end.
Proof. reflexivity. Qed.

(* "before:s" names the left-hand parent of what s names ("null:" for a root) *)
Theorem spec_before b s r : as_revision_id b s = Ok (Some r) -> present (br_g b) r = true ->
  as_revision_id b (SBefore s) = Ok (hd_error (parents (br_g b) r)).
Proof.
  intros H P. cbn [as_revision_id]. rewrite H. cbn [bind]. rewrite P.
  destruct (parents (br_g b) r); reflexivity.
Qed.

Theorem spec_before_null b s : as_revision_id b s = Ok None ->
  as_revision_id b (SBefore s) = Err InvalidRevisionSpec.
Proof. intros H. cbn [as_revision_id]. rewrite H. reflexivity. Qed.

(* "a.b.c" names the revision whose dotted revno it is *)
Theorem spec_dotted b d r : wf_dag (br_g b) = true -> ms_good b ->
  as_revision_id b (SDotted d) = Ok (Some r) -> revision_id_to_dotted_revno b (Some r) = Ok d.
Proof.
  intros W G H. cbn [as_revision_id] in H. apply (dotted_roundtrip_revno b W G).
  destruct (dotted_revno_to_revision_id b d) as [x|[]]; cbn in H; try discriminate. exact H.
Qed.

Theorem spec_dotted_complete b d r : wf_dag (br_g b) = true -> ms_good b ->
  revision_id_to_dotted_revno b (Some r) = Ok d -> as_revision_id b (SDotted d) = Ok (Some r).
Proof.
  intros W G H. cbn [as_revision_id]. rewrite (dotted_roundtrip_id b W G r d H). reflexivity.
Qed.

(* "ancestor:other" *)
Theorem spec_ancestor b a o r : wf_dag (br_g b) = true -> br_tip b = Some a ->
  as_revision_id b (SAncestor (Some o)) = Ok (Some r) ->
  is_ancestor (br_g b) r a = true /\ is_ancestor (br_g b) r o = true.
Proof.
  intros W T H. cbn [as_revision_id] in H. unfold lookup_ancestor in H. rewrite T in H.
  destruct (find_unique_lca (br_g b) a o) as [x|] eqn:E; cbn in H; [|discriminate].
  injection H as <-. apply (find_unique_lca_common _ _ _ _ W E).
Qed.

Theorem spec_ancestor_greatest b a o c : wf_dag (br_g b) = true -> br_tip b = Some a ->
  is_ancestor (br_g b) c a = true -> is_ancestor (br_g b) c o = true ->
  (forall x, is_ancestor (br_g b) x a = true -> is_ancestor (br_g b) x o = true -> is_ancestor (br_g b) x c = true) ->
  as_revision_id b (SAncestor (Some o)) = Ok (Some c).
Proof.
  intros W T Ca Co G. cbn [as_revision_id]. unfold lookup_ancestor. rewrite T.
  rewrite (find_unique_lca_greatest _ a o c W Ca Co G). reflexivity.
Qed.

(* "mainline:s": the oldest revision of the left-hand history that has the
   revision named by s in its ancestry *)
Theorem spec_mainline b s m t r : wf_dag (br_g b) = true -> br_tip b = Some t ->
  as_revision_id b s = Ok (Some m) ->
  as_revision_id b (SMainline s) = Ok (Some r) ->
  exists pre post, lefthand (br_g b) t = pre ++ r :: post /\
    Forall (fun c => is_ancestor (br_g b) m c = true) (pre ++ [r]) /\
    Forall (fun c => is_ancestor (br_g b) m c = false) post.
Proof.
  intros W T Hs H. cbn [as_revision_id] in H. rewrite Hs in H. cbn [bind] in H. rewrite T in H.
  destruct (find_lefthand_merger (br_g b) m (Some t)) as [x|] eqn:E; [|discriminate].
  injection H as <-. apply (find_lefthand_merger_spec _ _ _ _ W E).
Qed.

Theorem spec_mainline_invalid b s m t : wf_dag (br_g b) = true -> br_tip b = Some t ->
  as_revision_id b s = Ok (Some m) -> is_ancestor (br_g b) m t = false ->
  as_revision_id b (SMainline s) = Err InvalidRevisionSpec.
Proof.
  intros W T Hs N. cbn [as_revision_id]. rewrite Hs. cbn [bind]. rewrite T.
  rewrite (proj2 (find_lefthand_merger_none _ m t W) N). reflexivity.
Qed.

(* ---- an executable form of ms_good, and examples ------------------------------------------ *)

Fixpoint revno_mem (d : revno) (l : list revno) : bool :=
  match l with [] => false | x :: l' => revno_eqb d x || revno_mem d l' end.
Fixpoint revnos_distinct (l : list revno) : bool :=
  match l with [] => true | x :: l' => negb (revno_mem x l') && revnos_distinct l' end.

Lemma revno_mem_In d l : revno_mem d l = true <-> In d l.
Proof.
  induction l as [|x l IH]; cbn; [split; [discriminate | contradiction]|].
  rewrite orb_true_iff, revno_eqb_spec, IH. split; intros [H|H]; auto.
Qed.

Lemma revnos_distinct_NoDup l : revnos_distinct l = true -> NoDup l.
Proof.
  induction l as [|x l IH]; cbn; [constructor|]. intros H. apply andb_true_iff in H as [H1 H2].
  constructor; [|apply IH; exact H2]. intros X. apply revno_mem_In in X. rewrite X in H1. discriminate.
Qed.

Definition ms_goodb (b : branch) : bool :=
  let l := merge_sorted (br_g b) (br_tip b) in
  revnos_distinct (ms_revnos l) &&
  forallb (fun e => Bool.eqb (memb (e_id e) (lh b)) (length (e_revno e) =? 1)) l.

Lemma ms_goodb_spec b : ms_goodb b = true -> ms_good b.
Proof.
  unfold ms_goodb, ms_good. intros H. apply andb_true_iff in H as [H1 H2].
  split; [apply revnos_distinct_NoDup; exact H1|].
  intros e He. rewrite forallb_forall in H2. specialize (H2 e He). apply Bool.eqb_prop in H2.
  rewrite <- memb_In, H2, Nat.eqb_eq. reflexivity.
Qed.

(* r3 = 1.1.1 and r4 = 1.2.1 are branches off revision 1, merged by r5 = 4 and r6 = 5 *)
Definition ex_branch : branch := mkBr [[]; [0]; [1]; [0]; [0]; [2; 3]; [5; 4]] (Some 6) [(0, 3)].
(* a merge of a merge: 3, 4 a side branch; 5 a side branch of the side branch *)
Definition ex_nested : branch := mkBr [[]; [0]; [1]; [0]; [3]; [3]; [4; 5]; [2; 6]; [7]] (Some 8) [].

Example ex_wf : wf_dag (br_g ex_branch) = true /\ wf_dag (br_g ex_nested) = true.
Proof. split; reflexivity. Qed.
Example ex_good : ms_good ex_branch /\ ms_good ex_nested.
Proof. split; apply ms_goodb_spec; vm_compute; reflexivity. Qed.
Example ex_present : lh_present ex_branch /\ lh_present ex_nested.
Proof. split; reflexivity. Qed.
Example ex_dotted :
  revision_id_to_dotted_revno ex_nested (Some 5) = Ok [1; 2; 1] /\
  dotted_revno_to_revision_id ex_nested [1; 2; 1] = Ok (Some 5) /\
  as_revision_id ex_branch (SMainline (SDotted [1; 1; 1])) = Ok (Some 5) /\
  as_revision_id ex_branch (SBefore (SRevno (-1))) = Ok (Some 5) /\
  as_revision_id ex_branch (SAncestor (Some 3)) = Ok (Some 3) /\
  in_history ex_branch (STag 0) = Ok (None, Some 3).
Proof. vm_compute. repeat split. Qed.

(* ---- ms_good from distinct revnos alone (the numbering of the left-hand history is proved) ----- *)

Theorem ms_good_from_distinct b (t : revid) : wf_dag (br_g b) = true -> br_tip b = Some t ->
  t < length (br_g b) -> lefthand_present (br_g b) t = true ->
  NoDup (ms_revnos (merge_sorted (br_g b) (br_tip b))) -> ms_good b.
Proof.
  intros W T L P ND. split; [exact ND|]. intros e He. rewrite T in He.
  unfold lh. rewrite T. cbn [lefthand_opt].
  destruct (merge_sorted_shape (br_g b) t W L P e He) as [[Hin Er]|[Hout L3]].
  - split; [intros _; rewrite Er; reflexivity | intros _; exact Hin].
  - split; [intros X; contradiction | intros X; rewrite X in L3; discriminate].
Qed.

(* the one-component revnos of the merge-sorted list are the positions that
   revision_id_to_revno computes: the two numberings of the mainline agree *)
Theorem mainline_revno_agrees b (t : revid) e : wf_dag (br_g b) = true -> br_tip b = Some t ->
  t < length (br_g b) -> lefthand_present (br_g b) t = true ->
  In e (merge_sorted (br_g b) (br_tip b)) -> In (e_id e) (lh b) ->
  exists n, revision_id_to_revno b (Some (e_id e)) = Ok n /\ e_revno e = [n].
Proof.
  intros W T L P He Hm. rewrite T in He.
  destruct (merge_sorted_shape (br_g b) t W L P e He) as [[Hin Er]|[Hout _]].
  - unfold revision_id_to_revno. destruct (index_of_In (e_id e) (lh b) Hm) as [i Ei]. rewrite Ei.
    eexists. split; [reflexivity|]. rewrite Er. f_equal.
    pose proof (index_of_nth _ _ _ Ei) as Hn. unfold lh in Hn. rewrite T in Hn. cbn [lefthand_opt] in Hn.
    rewrite (lefthand_skipn (br_g b) W i t (e_id e) Hn), skipn_length.
    unfold last_revno, lh. rewrite T. reflexivity.
  - exfalso. apply Hout. unfold lh in Hm. rewrite T in Hm. exact Hm.
Qed.

(* ... and the revnos ARE distinct (Theory/DagMergeSortRevnos.v): ms_good holds for
   every consistent branch *)
Theorem ms_good_holds b (t : revid) : wf_dag (br_g b) = true -> br_tip b = Some t ->
  t < length (br_g b) -> lefthand_present (br_g b) t = true -> ms_good b.
Proof.
  intros W T L P. apply (ms_good_from_distinct b t W T L P). apply merge_sorted_revnos_NoDup.
Qed.

Theorem ms_good_empty b : br_tip b = None -> ms_good b.
Proof. intros T. unfold ms_good. rewrite T. cbn. split; [constructor | intros e []]. Qed.
