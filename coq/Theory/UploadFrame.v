(* Theory/UploadFrame.v -- C43, part 7: an upload (incremental or full, ending
   normally or with an exception, on any remote) changes nothing outside the
   sub-trees rooted at the paths its commands name; which paths the incremental
   upload names; the marker is written last. *)
From Coq Require Import NArith List Bool Arith Lia.
From BV Require Import Lib.Bytes Lib.FS43 Model.Upload
  Theory.UploadMoves Theory.UploadPhases Theory.UploadRenames Theory.UploadItems.
Import ListNotations.
Open Scope list_scope.

Definition cmd_roots (c : cmd) : list path :=
  match c with
  | UploadFile p _ _ | DeleteFile p | DeleteDir p | DeleteDirMaybe p | MakeDir p
  | UploadFileRobust p _ _ | SymlinkRobust p _ | MakeDirRobust p => [p]
  | Symlink _ link => [link]
  | RenameRemote o n => [o; n]
  | SetRevid _ => [[NMark]]
  | FinishDeletions | FinishRenames | Raise _ => []
  end.

(* p is neither a temporary nor below one of the roots *)
Definition outside (roots : list path) (p : path) : Prop :=
  tmp_hd p = false /\ forall r, In r roots -> prefixb r p = false.

(* ---------- frames of the transport operations ---------- *)
Lemma prefixb_false_neq r p : prefixb r p = false -> p <> r.
Proof. intros H ->. rewrite prefixb_refl in H. discriminate. Qed.

Lemma t_put_frame p c x f f' q : t_put p c x f = Ok f' -> prefixb p q = false -> look f' q = look f q.
Proof.
  unfold t_put. destruct (negb _); [destruct (look f (parent p)) as [[]|]; discriminate|].
  destruct (look f p) as [[]|]; intros H P; inversion H; subst;
    rewrite look_set, path_eqb_neq by (apply prefixb_false_neq; exact P); reflexivity.
Qed.
Lemma t_delete_frame p f f' q : t_delete p f = Ok f' -> prefixb p q = false -> look f' q = look f q.
Proof.
  unfold t_delete. destruct (look f p) as [[]|]; intros H P; inversion H; subst;
    rewrite look_del, path_eqb_neq by (apply prefixb_false_neq; exact P); reflexivity.
Qed.
Lemma t_rmdir_frame p f f' q : t_rmdir p f = Ok f' -> prefixb p q = false -> look f' q = look f q.
Proof.
  unfold t_rmdir. destruct (look f p) as [[]|]; try discriminate.
  destruct (has_child f p); intros H P; inversion H; subst.
  rewrite look_del, path_eqb_neq by (apply prefixb_false_neq; exact P); reflexivity.
Qed.
Lemma t_mkdir_frame p f f' q : t_mkdir p f = Ok f' -> prefixb p q = false -> look f' q = look f q.
Proof.
  unfold t_mkdir. destruct (negb _); [discriminate|].
  destruct (look f p); intros H P; inversion H; subst.
  rewrite look_set, path_eqb_neq by (apply prefixb_false_neq; exact P); reflexivity.
Qed.
Lemma t_symlink_frame s p f f' q : t_symlink s p f = Ok f' -> prefixb p q = false -> look f' q = look f q.
Proof.
  unfold t_symlink. destruct (under _ _) as [[|t [|]]|]; try discriminate.
  destruct (negb _); [discriminate|].
  destruct (look f p); intros H P; inversion H; subst.
  rewrite look_set, path_eqb_neq by (apply prefixb_false_neq; exact P); reflexivity.
Qed.
Lemma t_delete_tree_frame p f f' q :
  t_delete_tree p f = Ok f' -> prefixb p q = false -> look f' q = look f q.
Proof.
  unfold t_delete_tree. destruct (look f p) as [[]|]; intros H P; inversion H; subst; simpl.
  - rewrite P. reflexivity.
  - rewrite path_eqb_neq by (apply prefixb_false_neq; exact P); reflexivity.
Qed.
Lemma t_rename_frame a b f f' q :
  t_rename a b f = Ok f' -> prefixb a q = false -> prefixb b q = false -> look f' q = look f q.
Proof.
  unfold t_rename. destruct (look f a) as [na|]; [|discriminate].
  destruct (path_eqb a b); [intros H; inversion H; reflexivity|].
  destruct (negb _); [discriminate|]. destruct (prefixb a b); [discriminate|].
  intros H Pa Pb.
  assert (f' = fs_move a b f) as ->.
  { destruct na, (look f b) as [[]|]; try discriminate;
      try (destruct (has_child f b); try discriminate); inversion H; reflexivity. }
  rewrite look_move, (under_prefixb_false _ _ Pb), Pa. reflexivity.
Qed.

Lemma force_clear_frame fl p f f' e q :
  force_clear fl p f = (f', e) -> prefixb p q = false -> look f' q = look f q.
Proof.
  unfold force_clear, t_stat. intros H P.
  destruct (look f p) as [[]|] eqn:L; simpl in H.
  - destruct fl; [|inversion H; reflexivity].
    destruct (t_delete p f) as [f1|e1] eqn:E.
    + inversion H; subst. eapply t_delete_frame; eauto.
    + destruct (is_path_error e1); inversion H; reflexivity.
  - destruct (t_delete_tree p f) as [f1|e1] eqn:E.
    + inversion H; subst. eapply t_delete_tree_frame; eauto.
    + destruct (is_path_error e1); inversion H; reflexivity.
  - destruct (t_delete p f) as [f1|e1] eqn:E.
    + inversion H; subst. eapply t_delete_frame; eauto.
    + destruct (is_path_error e1); inversion H; reflexivity.
  - inversion H; reflexivity.
Qed.

Lemma rmdirs_frame l : forall f f' e q,
  rmdirs l f = (f', e) -> (forall d, In d l -> prefixb d q = false) -> look f' q = look f q.
Proof.
  induction l as [|d l IH]; intros f f' e q H P; simpl in H.
  - inversion H; reflexivity.
  - destruct (t_rmdir d f) as [f1|e1] eqn:E.
    + rewrite (IH _ _ _ _ H) by (intros d' I; apply P; right; exact I).
      eapply t_rmdir_frame; [exact E|apply P; left; reflexivity].
    + inversion H; reflexivity.
Qed.

Lemma renames_frame l : forall f f' e q,
  renames l f = (f', e) ->
  (forall ab, In ab l -> prefixb (fst ab) q = false /\ prefixb (snd ab) q = false) ->
  look f' q = look f q.
Proof.
  induction l as [|[a b] l IH]; intros f f' e q H P; simpl in H.
  - inversion H; reflexivity.
  - destruct (t_rename a b f) as [f1|e1] eqn:E.
    + rewrite (IH _ _ _ _ H) by (intros ab I; apply P; right; exact I).
      destruct (P (a, b) (or_introl eq_refl)) as [Pa Pb].
      eapply t_rename_frame; eauto.
    + inversion H; reflexivity.
Qed.

(* ---------- the uploader state keeps its pending work inside the roots ---------- *)
Definition inv (roots : list path) (u : ust) : Prop :=
  (forall d, In d (pdel u) -> In d roots) /\
  (forall ab, In ab (pren u) -> tmp_hd (fst ab) = true /\ In (snd ab) roots).

Lemma tmp_hd_prefix_false a q : tmp_hd a = true -> tmp_hd q = false -> prefixb a q = false.
Proof.
  destruct a as [|[] a]; simpl; try discriminate. intros _.
  destruct q as [|[] q]; simpl; try discriminate; reflexivity.
Qed.

Lemma with_fs_frame u r u' e q :
  with_fs u r = (u', e) ->
  (forall f', r = Ok f' -> look f' q = look (ufs u) q) ->
  look (ufs u') q = look (ufs u) q /\ pdel u' = pdel u /\ pren u' = pren u.
Proof.
  unfold with_fs. destruct r as [f'|e1]; intros H F; inversion H; subst; simpl; auto.
Qed.

Lemma with_fs_state u r u' e :
  with_fs u r = (u', e) -> pdel u' = pdel u /\ pren u' = pren u.
Proof. unfold with_fs. destruct r; intros H; inversion H; subst; simpl; auto. Qed.

Lemma exec_frame roots c u u' e :
  inv roots u -> incl (cmd_roots c) roots -> exec_cmd c u = (u', e) ->
  inv roots u' /\ forall q, outside roots q -> look (ufs u') q = look (ufs u) q.
Proof.
  intros [ID IR] IC H.
  assert (forall p, In p (cmd_roots c) -> forall q, outside roots q -> prefixb p q = false) as PO.
  { intros p I q [_ O]. apply O. apply IC. exact I. }
  destruct c; simpl in H, PO.
  - (* UploadFile *)
    split.
    + destruct (with_fs_state _ _ _ _ H) as (A & B).
      split; [rewrite A; exact ID|rewrite B; exact IR].
    + intros q O. apply (with_fs_frame u _ u' e q H). intros f' E.
      eapply t_put_frame; [exact E|apply PO; [left; reflexivity|exact O]].
  - (* DeleteFile *)
    split.
    + destruct (with_fs_state _ _ _ _ H) as (A & B).
      split; [rewrite A; exact ID|rewrite B; exact IR].
    + intros q O. apply (with_fs_frame u _ u' e q H). intros f' E.
      eapply t_delete_frame; [exact E|apply PO; [left; reflexivity|exact O]].
  - (* DeleteDir *)
    split.
    + destruct (with_fs_state _ _ _ _ H) as (A & B).
      split; [rewrite A; exact ID|rewrite B; exact IR].
    + intros q O. apply (with_fs_frame u _ u' e q H). intros f' E.
      eapply t_rmdir_frame; [exact E|apply PO; [left; reflexivity|exact O]].
  - (* DeleteDirMaybe *)
    destruct (t_rmdir p (ufs u)) as [f1|e1] eqn:E.
    + inversion H; subst; simpl. split; [split; assumption|].
      intros q O. eapply t_rmdir_frame; [exact E|apply PO; [left; reflexivity|exact O]].
    + destruct (is_path_error e1); inversion H; subst; simpl.
      * split; [|reflexivity]. split; [|exact IR].
        intros d I. apply in_app_or in I as [I|[<-|[]]]; [apply ID; exact I|].
        apply IC. left; reflexivity.
      * split; [split; assumption|reflexivity].
  - (* FinishDeletions *)
    destruct (rmdirs (rev (pdel u)) (ufs u)) as [f1 e1] eqn:E.
    assert (forall q, outside roots q -> look f1 q = look (ufs u) q) as F.
    { intros q [_ O]. eapply rmdirs_frame; [exact E|].
      intros d I. apply O. apply ID. apply in_rev. exact I. }
    destruct e1; inversion H; subst; simpl.
    + split; [split; assumption|exact F].
    + split; [|exact F]. split; [intros d []|exact IR].
  - (* RenameRemote *)
    destruct (t_rename o [Tmp (ntmp u)] (ufs u)) as [f1|e1] eqn:E.
    + inversion H; subst; simpl. split.
      * split; [exact ID|]. intros ab I. apply in_app_or in I as [I|[<-|[]]]; [apply IR; exact I|].
        simpl. split; [reflexivity|]. apply IC. right; left; reflexivity.
      * intros q O. eapply t_rename_frame; [exact E|apply PO; [left; reflexivity|exact O]|].
        destruct O as [T _]. apply tmp_hd_prefix_false; [reflexivity|exact T].
    + inversion H; subst. split; [split; assumption|reflexivity].
  - (* FinishRenames *)
    destruct (renames (pren u) (ufs u)) as [f1 e1] eqn:E.
    assert (forall q, outside roots q -> look f1 q = look (ufs u) q) as F.
    { intros q [T O]. eapply renames_frame; [exact E|].
      intros ab I. destruct (IR ab I) as [A B]. split.
      - apply tmp_hd_prefix_false; assumption.
      - apply O; exact B. }
    destruct e1; inversion H; subst; simpl.
    + split; [split; assumption|exact F].
    + split; [|exact F]. split; [exact ID|intros ab []].
  - (* MakeDir *)
    split.
    + destruct (with_fs_state _ _ _ _ H) as (A & B).
      split; [rewrite A; exact ID|rewrite B; exact IR].
    + intros q O. apply (with_fs_frame u _ u' e q H). intros f' E.
      eapply t_mkdir_frame; [exact E|apply PO; [left; reflexivity|exact O]].
  - (* Symlink *)
    split.
    + destruct (with_fs_state _ _ _ _ H) as (A & B).
      split; [rewrite A; exact ID|rewrite B; exact IR].
    + intros q O. apply (with_fs_frame u _ u' e q H). intros f' E.
      eapply t_symlink_frame; [exact E|apply PO; [left; reflexivity|exact O]].
  - (* UploadFileRobust *)
    destruct (force_clear false p (ufs u)) as [f1 e1] eqn:E.
    destruct e1.
    + inversion H; subst. split; [split; assumption|reflexivity].
    + set (u1 := mkust f1 (pdel u) (pren u) (ntmp u)) in H.
      split.
      * destruct (with_fs_state _ _ _ _ H) as (A & B).
        split; [rewrite A; exact ID|rewrite B; exact IR].
      * intros q O.
        assert (prefixb p q = false) as P by (apply PO; [left; reflexivity|exact O]).
        destruct (with_fs_frame u1 _ u' e q H) as (A & _).
        { intros f' E'. simpl. eapply t_put_frame; eauto. }
        rewrite A. simpl. eapply force_clear_frame; eauto.
  - (* SymlinkRobust *)
    destruct (force_clear true link (ufs u)) as [f1 e1] eqn:E.
    destruct e1.
    + inversion H; subst. split; [split; assumption|reflexivity].
    + set (u1 := mkust f1 (pdel u) (pren u) (ntmp u)) in H.
      split.
      * destruct (with_fs_state _ _ _ _ H) as (A & B).
        split; [rewrite A; exact ID|rewrite B; exact IR].
      * intros q O.
        assert (prefixb link q = false) as P by (apply PO; [left; reflexivity|exact O]).
        destruct (with_fs_frame u1 _ u' e q H) as (A & _).
        { intros f' E'. simpl. eapply t_symlink_frame; eauto. }
        rewrite A. simpl. eapply force_clear_frame; eauto.
  - (* MakeDirRobust *)
    assert (forall q, outside roots q -> prefixb p q = false) as P
      by (intros q O; apply PO; [left; reflexivity|exact O]).
    assert (forall (v : ust) u2 e2, with_fs v (t_mkdir p (ufs v)) = (u2, e2) ->
              pdel v = pdel u -> pren v = pren u ->
              (forall q, outside roots q -> look (ufs v) q = look (ufs u) q) ->
              inv roots u2 /\ forall q, outside roots q -> look (ufs u2) q = look (ufs u) q) as MK.
    { intros v u2 e2 Hv Ed Er Fv. split.
      - destruct (with_fs_state _ _ _ _ Hv) as (A & B).
        split; [rewrite A, Ed; exact ID|rewrite B, Er; exact IR].
      - intros q O. destruct (with_fs_frame v _ u2 e2 q Hv) as (A & _).
        { intros f' E'. eapply t_mkdir_frame; eauto. }
        rewrite A. apply Fv; exact O. }
    unfold t_stat in H. destruct (look (ufs u) p) as [[]|] eqn:L; simpl in H.
    + destruct (t_delete p (ufs u)) as [f1|e1] eqn:E.
      * apply (MK (mkust f1 (pdel u) (pren u) (ntmp u)) u' e H); try reflexivity.
        intros q O. simpl. eapply t_delete_frame; eauto.
      * destruct (is_path_error e1).
        -- apply (MK u u' e H); auto.
        -- inversion H; subst. split; [split; assumption|reflexivity].
    + inversion H; subst. split; [split; assumption|reflexivity].
    + destruct (t_delete p (ufs u)) as [f1|e1] eqn:E.
      * apply (MK (mkust f1 (pdel u) (pren u) (ntmp u)) u' e H); try reflexivity.
        intros q O. simpl. eapply t_delete_frame; eauto.
      * destruct (is_path_error e1).
        -- apply (MK u u' e H); auto.
        -- inversion H; subst. split; [split; assumption|reflexivity].
    + apply (MK u u' e H); auto.
  - (* SetRevid *)
    split.
    + destruct (with_fs_state _ _ _ _ H) as (A & B).
      split; [rewrite A; exact ID|rewrite B; exact IR].
    + intros q O. apply (with_fs_frame u _ u' e q H). intros f' E.
      eapply t_put_frame; [exact E|apply PO; [left; reflexivity|exact O]].
  - (* Raise *)
    inversion H; subst. split; [split; assumption|reflexivity].
Qed.

Lemma run_frame roots : forall cs u u' e,
  inv roots u -> incl (flat_map cmd_roots cs) roots -> run cs u = (u', e) ->
  forall q, outside roots q -> look (ufs u') q = look (ufs u) q.
Proof.
  induction cs as [|c cs IH]; intros u u' e I IC H q O; simpl in H.
  - inversion H; reflexivity.
  - simpl in IC. apply incl_app_inv in IC as [IC1 IC2].
    destruct (exec_cmd c u) as [u1 [e1|]] eqn:E.
    + inversion H; subst. apply (exec_frame roots c u u' (Some e1) I IC1 E); exact O.
    + destruct (exec_frame roots c u u1 None I IC1 E) as [I1 F1].
      rewrite (IH u1 u' e I1 IC2 H q O). apply F1; exact O.
Qed.

(* every upload program, any remote, whether or not it fails *)
Theorem upload_frame prog f u' e q :
  run prog (ust0 f) = (u', e) -> outside (flat_map cmd_roots prog) q ->
  look (ufs u') q = look f q.
Proof.
  intros H O. apply (run_frame (flat_map cmd_roots prog) prog (ust0 f) u' e); auto.
  - split; simpl; intros x [].
  - apply incl_refl.
Qed.

(* ---------- which paths the incremental upload names ---------- *)
Definition boundary (old new : tree) (r : path) : Prop :=
  exists c, In c (d_renamed old new) /\ (r = epath (c_old c) \/ r = epath (c_new c)) /\
            (is_ignored new (epath (c_old c)) && is_ignored new (epath (c_new c))) = false.

Lemma create_cmd_roots p n : cmd_roots (create_cmd p n) = [p].
Proof. destruct n; reflexivity. Qed.

Theorem incr_roots_spec old new k r :
  In r (flat_map cmd_roots (upload_incremental old new k)) ->
  r = [NMark] \/ is_ignored new r = false \/ boundary old new r.
Proof.
  unfold upload_incremental. rewrite !flat_map_app. intros I.
  apply in_app_or in I as [I|I];
    [|apply in_app_or in I as [I|I];
      [|apply in_app_or in I as [I|I];
        [|apply in_app_or in I as [I|I];
          [|apply in_app_or in I as [I|I];
            [|apply in_app_or in I as [I|I]]]]]].
  - (* removed *)
    unfold cmds_removed in I. apply in_flat_map in I as (c & I & Ir).
    apply in_flat_map in I as (e & Ie & Ic).
    destruct (is_ignored new (epath e)) eqn:G; [destruct Ic|].
    destruct (enode e); destruct Ic as [<-|[]]; destruct Ir as [<-|[]]; auto.
  - (* renamed *)
    unfold cmds_renamed in I. apply in_flat_map in I as (c & I & Ir).
    apply in_flat_map in I as (ch & Ie & Ic). unfold both_ignored in Ic.
    destruct (is_ignored new (epath (c_old ch)) && is_ignored new (epath (c_new ch))) eqn:G; [destruct Ic|].
    right; right. exists ch. split; [exact Ie|]. split; [|exact G].
    destruct (recreate ch).
    + destruct Ic as [<-|[]]. destruct (enode (c_old ch)); destruct Ir as [<-|[]]; auto.
    + apply in_app_or in Ic as [Ic|[<-|[]]].
      * destruct (reupload ch); [|destruct Ic]. destruct Ic as [<-|[]].
        destruct Ir as [<-|[]]. auto.
      * destruct Ir as [<-|[<-|[]]]; auto.
  - simpl in I. destruct I.
  - (* kind changed *)
    unfold cmds_kind_changed in I. apply in_flat_map in I as (c & I & Ir).
    apply in_flat_map in I as (ch & Ie & Ic).
    destruct (is_ignored new (epath (c_new ch))) eqn:G; [destruct Ic|].
    destruct Ic as [<-|[<-|[]]].
    + destruct (enode (c_old ch)); destruct Ir as [<-|[]]; auto.
    + rewrite create_cmd_roots in Ir. destruct Ir as [<-|[]]. auto.
  - (* added and re-created *)
    unfold cmds_added in I. apply in_flat_map in I as (c & I & Ir).
    apply in_flat_map in I as (e & Ie & Ic).
    destruct (is_ignored new (epath e)) eqn:G; [destruct Ic|].
    destruct Ic as [<-|[]]. rewrite create_cmd_roots in Ir. destruct Ir as [<-|[]]. auto.
  - (* modified *)
    unfold cmds_modified in I. apply in_flat_map in I as (c & I & Ir).
    apply in_flat_map in I as (ch & Ie & Ic).
    destruct (is_ignored new (epath (c_new ch))) eqn:G; [destruct Ic|].
    destruct Ic as [<-|[]].
    destruct (enode (c_new ch)); simpl in Ir;
      [destruct Ir as [<-|[]]; auto|destruct Ir|destruct Ir as [<-|[]]; auto].
  - simpl in I. destruct I as [<-|[]]. auto.
Qed.

(* ---------- the marker is written last ---------- *)
Lemma insert_by_In {A} (key : A -> path) x y l : In x (insert_by key y l) -> x = y \/ In x l.
Proof.
  induction l as [|z l IH]; simpl.
  - intros [<-|[]]; auto.
  - destruct (path_leb (key y) (key z)).
    + intros [<-|I]; auto.
    + intros [<-|I]; [right; left; reflexivity|].
      destruct (IH I) as [E|E]; [left; exact E|right; right; exact E].
Qed.

Lemma sort_by_In {A} (key : A -> path) x l : In x (sort_by key l) -> In x l.
Proof.
  induction l as [|y l IH]; simpl; [auto|].
  intros I. apply insert_by_In in I as [->|I]; auto.
Qed.

Lemma pairs_In old new c :
  In c (pairs old new) -> In (c_old c) (ents old) /\ In (c_new c) (ents new).
Proof.
  unfold pairs. intros I. apply in_flat_map in I as (e & Ie & I).
  unfold find_id in I. destruct (find _ (ents new)) as [e'|] eqn:F; [|destruct I].
  destruct I as [<-|[]]. simpl. split; [exact Ie|]. apply find_some in F as [F _]. exact F.
Qed.

Definition incr_body (old new : tree) : list cmd :=
  cmds_removed new (d_removed old new)
  ++ cmds_renamed new (d_renamed old new)
  ++ [FinishDeletions; FinishRenames]
  ++ cmds_kind_changed new (d_kind_changed old new)
  ++ cmds_added new (d_created old new)
  ++ cmds_modified new (d_modified old new).

Lemma upload_incremental_body old new k :
  upload_incremental old new k = incr_body old new ++ [SetRevid k].
Proof. unfold upload_incremental, incr_body. rewrite <- !app_assoc. reflexivity. Qed.

Lemma body_roots_tree old new r :
  In r (flat_map cmd_roots (incr_body old new)) ->
  In r (map epath (ents old)) \/ In r (map epath (ents new)).
Proof.
  unfold incr_body. rewrite !flat_map_app. intros I.
  assert (forall c, In c (d_renamed old new) \/ In c (d_kind_changed old new) \/ In c (d_modified old new) ->
                    In (epath (c_old c)) (map epath (ents old)) /\
                    In (epath (c_new c)) (map epath (ents new))) as CH.
  { intros c H.
    assert (In c (pairs old new)) as P.
    { destruct H as [H|[H|H]]; apply sort_by_In in H; apply filter_In in H as [H _]; exact H. }
    apply pairs_In in P as [A B]. split; apply in_map; assumption. }
  apply in_app_or in I as [I|I];
    [|apply in_app_or in I as [I|I];
      [|apply in_app_or in I as [I|I];
        [|apply in_app_or in I as [I|I];
          [|apply in_app_or in I as [I|I]]]]].
  - unfold cmds_removed in I. apply in_flat_map in I as (c & I & Ir).
    apply in_flat_map in I as (e & Ie & Ic).
    apply sort_by_In in Ie. apply filter_In in Ie as [Ie _].
    destruct (is_ignored new (epath e)); [destruct Ic|].
    left. destruct (enode e); destruct Ic as [<-|[]]; destruct Ir as [<-|[]]; apply in_map; exact Ie.
  - unfold cmds_renamed in I. apply in_flat_map in I as (c & I & Ir).
    apply in_flat_map in I as (ch & Ie & Ic).
    destruct (CH ch (or_introl Ie)) as [A B].
    destruct (both_ignored new ch); [destruct Ic|].
    destruct (recreate ch).
    + destruct Ic as [<-|[]]. destruct (enode (c_old ch)); destruct Ir as [<-|[]]; auto.
    + apply in_app_or in Ic as [Ic|[<-|[]]].
      * destruct (reupload ch); [|destruct Ic]. destruct Ic as [<-|[]].
        destruct Ir as [<-|[]]. auto.
      * destruct Ir as [<-|[<-|[]]]; auto.
  - simpl in I. destruct I.
  - unfold cmds_kind_changed in I. apply in_flat_map in I as (c & I & Ir).
    apply in_flat_map in I as (ch & Ie & Ic).
    destruct (CH ch (or_intror (or_introl Ie))) as [A B].
    destruct (is_ignored new (epath (c_new ch))); [destruct Ic|].
    destruct Ic as [<-|[<-|[]]].
    + destruct (enode (c_old ch)); destruct Ir as [<-|[]]; auto.
    + rewrite create_cmd_roots in Ir. destruct Ir as [<-|[]]. auto.
  - unfold cmds_added in I. apply in_flat_map in I as (c & I & Ir).
    apply in_flat_map in I as (e & Ie & Ic).
    apply sort_by_In in Ie.
    assert (In (epath e) (map epath (ents new))) as IN.
    { apply in_app_or in Ie as [Ie|Ie].
      - apply sort_by_In in Ie. apply filter_In in Ie as [Ie _]. apply in_map; exact Ie.
      - unfold recreated in Ie. apply in_map_iff in Ie as (ch & <- & Ich).
        apply filter_In in Ich as [Ich _]. apply (CH ch (or_introl Ich)). }
    destruct (is_ignored new (epath e)); [destruct Ic|].
    destruct Ic as [<-|[]]. rewrite create_cmd_roots in Ir. destruct Ir as [<-|[]].
    right. exact IN.
  - unfold cmds_modified in I. apply in_flat_map in I as (c & I & Ir).
    apply in_flat_map in I as (ch & Ie & Ic).
    destruct (CH ch (or_intror (or_intror Ie))) as [A B].
    destruct (is_ignored new (epath (c_new ch))); [destruct Ic|].
    destruct Ic as [<-|[]].
    destruct (enode (c_new ch)); simpl in Ir;
      [destruct Ir as [<-|[]]; auto|destruct Ir|destruct Ir as [<-|[]]; auto].
Qed.

Lemma clean_not_prefix_mark r : clean_hd r = true -> prefixb r [NMark] = false.
Proof. destruct r as [|[] r]; simpl; try discriminate; reflexivity. Qed.

(* if the incremental upload raises, the marker still names the old revision *)
Theorem marker_written_last old new k f u' e :
  forallb clean_hd (map epath (ents old)) = true ->
  forallb clean_hd (map epath (ents new)) = true ->
  run (upload_incremental old new k) (ust0 f) = (u', Some e) ->
  look (ufs u') [NMark] = look f [NMark].
Proof.
  intros CO CN H. rewrite upload_incremental_body, run_app in H.
  assert (outside (flat_map cmd_roots (incr_body old new)) [NMark]) as O.
  { split; [reflexivity|]. intros r I. apply clean_not_prefix_mark.
    rewrite forallb_forall in CO, CN.
    destruct (body_roots_tree _ _ _ I); auto. }
  destruct (run (incr_body old new) (ust0 f)) as [u1 [e1|]] eqn:E.
  - inversion H; subst. eapply upload_frame; eauto.
  - simpl in H. unfold with_fs in H.
    destruct (t_put [NMark] [k] false (ufs u1)); [discriminate|].
    inversion H; subst. eapply upload_frame; eauto.
Qed.

(* ... and when it ends normally the marker names the uploaded revision *)
Theorem marker_set_on_success old new k f u' :
  run (upload_incremental old new k) (ust0 f) = (u', None) ->
  look (ufs u') [NMark] = Some (File [k] false).
Proof.
  intros H. rewrite upload_incremental_body, run_app in H.
  destruct (run (incr_body old new) (ust0 f)) as [u1 [e1|]] eqn:E; [discriminate|].
  simpl in H. unfold with_fs, t_put in H. simpl in H.
  destruct (look (ufs u1) [NMark]) as [[]|]; inversion H; subst; reflexivity.
Qed.
