(* Theory/OsUtilsPath.v -- lemmas about the path part of Model/OsUtils.v (C47):
   lexicographic order, component-wise prefix, the sort / dedup / scan pipeline of
   minimum_path_selection, splitpath / joinpath. *)
From Coq Require Import String Ascii ZArith NArith List Bool Lia Permutation Sorted.
From BV Require Import Lib.Bytes Lib.Obs Model.OsUtils.
Import ListNotations.

(* ------------------------------------------------------------------ *)
(* 1. generic: a total order on elements lifts to lists; prefix        *)
(* ------------------------------------------------------------------ *)
Section Order.
Variable A : Type.
Variable leb eqb : A -> A -> bool.
Hypothesis leb_total : forall x y, leb x y = true \/ leb y x = true.
Hypothesis leb_trans : forall x y z, leb x y = true -> leb y z = true -> leb x z = true.
Hypothesis leb_antisym : forall x y, leb x y = true -> leb y x = true -> x = y.
Hypothesis eqb_spec : forall x y, eqb x y = true <-> x = y.

Lemma leb_refl x : leb x x = true.
Proof. destruct (leb_total x x); assumption. Qed.

Lemma eqb_refl x : eqb x x = true.
Proof. apply eqb_spec; reflexivity. Qed.

Lemma lex_refl a : lex_leb leb a a = true.
Proof.
  induction a as [|x a IH]; simpl; [reflexivity|].
  rewrite leb_refl. exact IH.
Qed.

Lemma lex_total a b : lex_leb leb a b = true \/ lex_leb leb b a = true.
Proof.
  revert b; induction a as [|x a IH]; intros [|y b]; simpl; auto.
  destruct (leb x y) eqn:E1, (leb y x) eqn:E2; auto.
  destruct (leb_total x y); congruence.
Qed.

Lemma lex_antisym a b : lex_leb leb a b = true -> lex_leb leb b a = true -> a = b.
Proof.
  revert b; induction a as [|x a IH]; intros [|y b]; simpl; try discriminate; auto.
  destruct (leb x y) eqn:E1, (leb y x) eqn:E2; try discriminate.
  intros H1 H2. f_equal; auto.
Qed.

Lemma lex_trans a b c :
  lex_leb leb a b = true -> lex_leb leb b c = true -> lex_leb leb a c = true.
Proof.
  revert b c; induction a as [|x a IH]; intros [|y b] [|z c]; simpl; auto; try discriminate.
  destruct (leb x y) eqn:Exy; [|discriminate].
  destruct (leb y z) eqn:Eyz; [|intros _ H; discriminate H].
  assert (Exz : leb x z = true) by (eapply leb_trans; eassumption).
  rewrite Exz.
  destruct (leb y x) eqn:Eyx; destruct (leb z y) eqn:Ezy; intros H1 H2.
  - assert (x = y) by auto. assert (y = z) by auto. subst.
    rewrite Exz. eapply IH; eassumption.
  - assert (x = y) by auto. subst. rewrite Ezy. reflexivity.
  - assert (y = z) by auto. subst. rewrite Eyx. reflexivity.
  - destruct (leb z x) eqn:Ezx; [|reflexivity].
    assert (leb z y = true) by (eapply leb_trans; eassumption). congruence.
Qed.

Lemma prefix_refl p : is_prefix eqb p p = true.
Proof. induction p as [|x p IH]; simpl; [reflexivity|]. rewrite eqb_refl. exact IH. Qed.

Lemma prefix_nil_r p : is_prefix eqb p [] = true -> p = [].
Proof. destruct p; simpl; [reflexivity|discriminate]. Qed.

Lemma prefix_trans p q r :
  is_prefix eqb p q = true -> is_prefix eqb q r = true -> is_prefix eqb p r = true.
Proof.
  revert q r; induction p as [|x p IH]; intros [|y q] [|z r]; simpl; auto; try discriminate.
  intros H1 H2. apply andb_true_iff in H1 as [E1 H1]. apply andb_true_iff in H2 as [E2 H2].
  apply eqb_spec in E1. apply eqb_spec in E2. subst.
  rewrite eqb_refl. simpl. eapply IH; eassumption.
Qed.

Lemma prefix_antisym p q :
  is_prefix eqb p q = true -> is_prefix eqb q p = true -> p = q.
Proof.
  revert q; induction p as [|x p IH]; intros [|y q]; simpl; auto; try discriminate.
  intros H1 H2. apply andb_true_iff in H1 as [E1 H1]. apply andb_true_iff in H2 as [E2 H2].
  apply eqb_spec in E1. subst. f_equal. auto.
Qed.

Lemma prefix_comparable a c p :
  is_prefix eqb a p = true -> is_prefix eqb c p = true ->
  is_prefix eqb a c = true \/ is_prefix eqb c a = true.
Proof.
  revert c p; induction a as [|x a IH]; intros [|y c] [|z p]; simpl; auto; try discriminate.
  intros H1 H2. apply andb_true_iff in H1 as [E1 H1]. apply andb_true_iff in H2 as [E2 H2].
  apply eqb_spec in E1. apply eqb_spec in E2. subst.
  rewrite eqb_refl. simpl. eapply IH; eassumption.
Qed.

Lemma prefix_lex p q : is_prefix eqb p q = true -> lex_leb leb p q = true.
Proof.
  revert q; induction p as [|x p IH]; intros [|y q]; simpl; auto; try discriminate.
  intros H. apply andb_true_iff in H as [E H]. apply eqb_spec in E. subst.
  rewrite leb_refl. auto.
Qed.

(* everything between a path and one of its extensions is itself an extension *)
Lemma lex_interval p q r :
  lex_leb leb p q = true -> lex_leb leb q r = true -> is_prefix eqb p r = true ->
  is_prefix eqb p q = true.
Proof.
  revert q r; induction p as [|x p IH]; intros [|y q] [|z r]; simpl; auto; try discriminate.
  intros H1 H2 H3. apply andb_true_iff in H3 as [E H3]. apply eqb_spec in E. subst z.
  destruct (leb x y) eqn:Exy; [|discriminate].
  destruct (leb y x) eqn:Eyx; [|discriminate].
  assert (x = y) by auto. subst y. rewrite eqb_refl. simpl.
  eapply IH; eassumption.
Qed.

(* ------------------------------------------------------------------ *)
(* 2. keyed lists: sort, dedup, scan                                   *)
(* ------------------------------------------------------------------ *)
Variable V : Type.
Notation K := (list A).
Notation kleb := (lex_leb leb).
Notation kprefix := (is_prefix eqb).
Variable keqb : K -> K -> bool.
Hypothesis keqb_spec : forall x y, keqb x y = true <-> x = y.

Definition kle (a c : K * V) : Prop := kleb (fst a) (fst c) = true.
Definition klt (a c : K * V) : Prop := kleb (fst a) (fst c) = true /\ fst a <> fst c.

Lemma insert_perm (x : K * V) l : Permutation (insert_by kleb x l) (x :: l).
Proof.
  induction l as [|y l IH]; simpl; [apply Permutation_refl|].
  destruct (kleb (fst x) (fst y)); [apply Permutation_refl|].
  eapply Permutation_trans; [apply perm_skip; exact IH|apply perm_swap].
Qed.

Lemma sort_perm (l : list (K * V)) : Permutation (sort_by kleb l) l.
Proof.
  induction l as [|x l IH]; simpl; [apply Permutation_refl|].
  eapply Permutation_trans; [apply insert_perm|apply perm_skip; exact IH].
Qed.

Lemma insert_sorted (x : K * V) l :
  StronglySorted kle l -> StronglySorted kle (insert_by kleb x l).
Proof.
  induction l as [|y l IH]; simpl; intros Hs.
  - constructor; constructor.
  - inversion Hs as [|? ? Hs' Hall]; subst.
    destruct (kleb (fst x) (fst y)) eqn:E.
    + constructor; [exact Hs|]. constructor; [exact E|].
      rewrite Forall_forall in *. intros z Hz. unfold kle in *.
      eapply lex_trans; [exact E|apply Hall; exact Hz].
    + constructor; [apply IH; exact Hs'|].
      rewrite Forall_forall in *. intros z Hz.
      apply (Permutation_in _ (insert_perm x l)) in Hz. destruct Hz as [<-|Hz].
      * unfold kle. destruct (lex_total (fst y) (fst x)) as [H|H]; [exact H|congruence].
      * apply Hall; exact Hz.
Qed.

Lemma sort_sorted (l : list (K * V)) : StronglySorted kle (sort_by kleb l).
Proof.
  induction l as [|x l IH]; simpl; [constructor|]. apply insert_sorted; exact IH.
Qed.

Lemma sorted_strict (l : list (K * V)) :
  StronglySorted kle l -> NoDup (map fst l) -> StronglySorted klt l.
Proof.
  induction l as [|a l IH]; intros Hs Hn; [constructor|].
  inversion Hs as [|? ? Hs' Hall]; subst. simpl in Hn. inversion Hn as [|? ? Hni Hn']; subst.
  constructor; [apply IH; assumption|].
  rewrite Forall_forall in *. intros c Hc. split; [apply Hall; exact Hc|].
  intros E. apply Hni. rewrite E. apply in_map. exact Hc.
Qed.

(* dedup *)
Lemma dedup_in (x : K * V) l : In x (dedup_by keqb l) -> In x l.
Proof.
  revert x; induction l as [|y l IH]; simpl; intros x H; [exact H|].
  destruct H as [H|H]; [left; exact H|].
  apply filter_In in H as [H _]. right. apply IH. exact H.
Qed.

Lemma dedup_keys (x : K * V) l :
  In x l -> exists y, In y (dedup_by keqb l) /\ fst y = fst x.
Proof.
  induction l as [|a l IH]; simpl; intros H; [contradiction|].
  destruct H as [<-|H]; [exists a; auto|].
  destruct (IH H) as [y [Hy E]].
  destruct (keqb (fst y) (fst a)) eqn:Ek.
  - apply keqb_spec in Ek. exists a. split; [left; reflexivity|congruence].
  - exists y. split; [|exact E]. right. apply filter_In. split; [exact Hy|]. rewrite Ek. reflexivity.
Qed.

Lemma dedup_nodup (l : list (K * V)) : NoDup (map fst (dedup_by keqb l)).
Proof.
  induction l as [|a l IH]; simpl; [constructor|].
  constructor.
  - intros H. apply in_map_iff in H as [y [E Hy]]. apply filter_In in Hy as [_ Hy].
    assert (keqb (fst y) (fst a) = true) by (apply keqb_spec; exact E).
    rewrite H in Hy. discriminate.
  - clear - IH. induction (dedup_by keqb l) as [|c d IHd]; simpl; [constructor|].
    simpl in IH. inversion IH as [|? ? Hn Hd]; subst.
    destruct (negb (keqb (fst c) (fst a))); simpl; [|apply IHd; exact Hd].
    constructor; [|apply IHd; exact Hd].
    intros H. apply Hn. apply in_map_iff in H as [y [E Hy]]. apply filter_In in Hy as [Hy _].
    apply in_map_iff. exists y. auto.
Qed.

(* scan *)
Lemma scan_from_in last (s : K * V) l : In s (scan_from kprefix last l) -> In s l.
Proof.
  revert last; induction l as [|p l IH]; simpl; intros last H; [exact H|].
  destruct (kprefix last (fst p)).
  - right. eapply IH; exact H.
  - destruct H as [H|H]; [left; exact H|right; eapply IH; exact H].
Qed.

Lemma scan_from_not_last last (s : K * V) l :
  StronglySorted kle l -> (forall q, In q l -> kleb last (fst q) = true) ->
  In s (scan_from kprefix last l) -> kprefix last (fst s) = false.
Proof.
  revert last; induction l as [|p l IH]; simpl; intros last Hs Hl H; [contradiction|].
  inversion Hs as [|? ? Hs' Hall]; subst. rewrite Forall_forall in Hall.
  destruct (kprefix last (fst p)) eqn:E.
  - apply (IH last); auto.
  - destruct H as [<-|H]; [exact E|].
    apply scan_from_in in H.
    destruct (kprefix last (fst s)) eqn:E2; [|reflexivity].
    rewrite (lex_interval last (fst p) (fst s)) in E; [discriminate| |apply Hall; exact H|exact E2].
    apply Hl. left; reflexivity.
Qed.

Definition incomparable (a c : K * V) : Prop :=
  kprefix (fst a) (fst c) = false /\ kprefix (fst c) (fst a) = false.

Lemma scan_from_antichain last l :
  StronglySorted klt l ->
  ForallOrdPairs incomparable (scan_from kprefix last l).
Proof.
  revert last; induction l as [|p l IH]; simpl; intros last Hs; [constructor|].
  inversion Hs as [|? ? Hs' Hall]; subst.
  destruct (kprefix last (fst p)); [apply IH; exact Hs'|].
  constructor; [|apply IH; exact Hs'].
  rewrite Forall_forall in *. intros t Ht. split.
  - eapply scan_from_not_last; [| |exact Ht].
    + clear - Hs'. induction Hs' as [|a l Hs' IHs Ha]; constructor; auto.
      eapply Forall_impl; [|exact Ha]. intros c [Hc _]. exact Hc.
    + intros q Hq. apply Hall. exact Hq.
  - apply scan_from_in in Ht. destruct (Hall t Ht) as [Hle Hne].
    destruct (kprefix (fst t) (fst p)) eqn:E; [|reflexivity].
    exfalso. apply Hne. apply lex_antisym; [exact Hle|]. apply prefix_lex. exact E.
Qed.

Lemma scan_from_cover last l (q : K * V) :
  In q l ->
  kprefix last (fst q) = true \/
  exists s, In s (scan_from kprefix last l) /\ kprefix (fst s) (fst q) = true.
Proof.
  revert last; induction l as [|p l IH]; simpl; intros last H; [contradiction|].
  destruct (kprefix last (fst p)) eqn:E.
  - destruct H as [<-|H]; [left; exact E|]. apply IH; exact H.
  - right. destruct H as [<-|H].
    + exists p. split; [left; reflexivity|apply prefix_refl].
    + destruct (IH (fst p) H) as [Hp|[s [Hs Hp]]].
      * exists p. split; [left; reflexivity|exact Hp].
      * exists s. split; [right; exact Hs|exact Hp].
Qed.

Lemma klt_kle_sorted (l : list (K * V)) : StronglySorted klt l -> StronglySorted kle l.
Proof.
  induction 1 as [|a l Hs IHs Ha]; constructor; auto.
  eapply Forall_impl; [|exact Ha]. intros c [Hc _]. exact Hc.
Qed.

Lemma scan_in (s : K * V) l : In s (scan kprefix l) -> In s l.
Proof.
  destruct l as [|x r]; simpl; [auto|].
  intros [H|H]; [left; exact H|right; eapply scan_from_in; exact H].
Qed.

Lemma scan_cover l (q : K * V) :
  In q l -> exists s, In s (scan kprefix l) /\ kprefix (fst s) (fst q) = true.
Proof.
  destruct l as [|x r]; simpl; [contradiction|].
  intros [<-|H].
  - exists x. split; [left; reflexivity|apply prefix_refl].
  - destruct (scan_from_cover (fst x) r q H) as [Hp|[s [Hs Hp]]].
    + exists x. split; [left; reflexivity|exact Hp].
    + exists s. split; [right; exact Hs|exact Hp].
Qed.

Lemma scan_antichain l :
  StronglySorted klt l -> ForallOrdPairs incomparable (scan kprefix l).
Proof.
  destruct l as [|x r]; simpl; intros Hs; [constructor|].
  inversion Hs as [|? ? Hs' Hall]; subst.
  constructor; [|apply scan_from_antichain; exact Hs'].
  rewrite Forall_forall in *. intros t Ht. split.
  - eapply scan_from_not_last; [apply klt_kle_sorted; exact Hs'| |exact Ht].
    intros q Hq. apply Hall. exact Hq.
  - apply scan_from_in in Ht. destruct (Hall t Ht) as [Hle Hne].
    destruct (kprefix (fst t) (fst x)) eqn:E; [|reflexivity].
    exfalso. apply Hne. apply lex_antisym; [exact Hle|]. apply prefix_lex. exact E.
Qed.

(* the whole pipeline on an arbitrary keyed list *)
Definition select (l : list (K * V)) : list (K * V) :=
  scan kprefix (sort_by kleb (dedup_by keqb l)).

Lemma select_in s l : In s (select l) -> In s l.
Proof.
  intros H. apply scan_in in H. apply (Permutation_in _ (sort_perm _)) in H.
  apply dedup_in in H. exact H.
Qed.

Lemma select_cover l q :
  In q l -> exists s, In s (select l) /\ kprefix (fst s) (fst q) = true.
Proof.
  intros H. destruct (dedup_keys q l H) as [y [Hy E]].
  apply (Permutation_in _ (Permutation_sym (sort_perm _))) in Hy.
  destruct (scan_cover _ y Hy) as [s [Hs Hp]].
  exists s. split; [exact Hs|]. rewrite <- E. exact Hp.
Qed.

Lemma select_antichain l s t :
  In s (select l) -> In t (select l) -> kprefix (fst s) (fst t) = true -> s = t.
Proof.
  intros Hs Ht Hp.
  assert (Ha : ForallOrdPairs incomparable (select l)).
  { apply scan_antichain. apply sorted_strict; [apply sort_sorted|].
    eapply Permutation_NoDup; [|apply dedup_nodup].
    apply Permutation_map. apply Permutation_sym. apply sort_perm. }
  destruct (ForallOrdPairs_In Ha s t Hs Ht) as [E|[[H1 H2]|[H1 H2]]]; [exact E| |]; congruence.
Qed.

Lemma select_small (l : list (K * V)) :
  (length (dedup_by keqb l) < 2)%nat -> select l = dedup_by keqb l.
Proof.
  unfold select. destruct (dedup_by keqb l) as [|x [|y d]]; simpl; intros H; try reflexivity; lia.
Qed.

End Order.

(* ------------------------------------------------------------------ *)
(* 3. the concrete orders: bytes, components                           *)
(* ------------------------------------------------------------------ *)
Lemma Nleb_total x y : N.leb x y = true \/ N.leb y x = true.
Proof. destruct (N.leb_spec x y); [left; reflexivity|right; apply N.leb_le; lia]. Qed.
Lemma Nleb_trans x y z : N.leb x y = true -> N.leb y z = true -> N.leb x z = true.
Proof. rewrite !N.leb_le. lia. Qed.
Lemma Nleb_antisym x y : N.leb x y = true -> N.leb y x = true -> x = y.
Proof. rewrite !N.leb_le. lia. Qed.

Lemma bytes_eqb_spec a c : bytes_eqb a c = true <-> a = c.
Proof.
  unfold bytes_eqb. revert c; induction a as [|x a IH]; intros [|y c]; simpl; split; intros H;
    try reflexivity; try discriminate.
  - apply andb_true_iff in H as [E H]. apply N.eqb_eq in E. apply IH in H. congruence.
  - injection H as -> ->. rewrite N.eqb_refl. simpl. apply IH. reflexivity.
Qed.

Lemma bytes_leb_total a c : bytes_leb a c = true \/ bytes_leb c a = true.
Proof. apply lex_total. exact Nleb_total. Qed.
Lemma bytes_leb_trans a c d : bytes_leb a c = true -> bytes_leb c d = true -> bytes_leb a d = true.
Proof. apply lex_trans; [exact Nleb_trans|exact Nleb_antisym]. Qed.
Lemma bytes_leb_antisym a c : bytes_leb a c = true -> bytes_leb c a = true -> a = c.
Proof. apply lex_antisym. exact Nleb_antisym. Qed.

Lemma comp_leb_total a c : comp_leb a c = true \/ comp_leb c a = true.
Proof.
  destruct a, c; simpl; try (left; reflexivity); try (right; reflexivity).
  apply bytes_leb_total.
Qed.
Lemma comp_leb_trans a c d : comp_leb a c = true -> comp_leb c d = true -> comp_leb a d = true.
Proof.
  destruct a, c, d; simpl; try reflexivity; try discriminate; auto.
  apply bytes_leb_trans.
Qed.
Lemma comp_leb_antisym a c : comp_leb a c = true -> comp_leb c a = true -> a = c.
Proof.
  destruct a, c; simpl; try reflexivity; try discriminate.
  intros H1 H2. f_equal. apply bytes_leb_antisym; assumption.
Qed.
Lemma comp_eqb_spec a c : comp_eqb a c = true <-> a = c.
Proof.
  destruct a, c; simpl; split; intros H; try reflexivity; try discriminate.
  - f_equal. apply bytes_eqb_spec. exact H.
  - injection H as ->. apply bytes_eqb_spec. reflexivity.
Qed.
Lemma path_eqb_spec a c : path_eqb a c = true <-> a = c.
Proof.
  unfold path_eqb. revert c; induction a as [|x a IH]; intros [|y c]; simpl; split; intros H;
    try reflexivity; try discriminate.
  - apply andb_true_iff in H as [E H]. apply comp_eqb_spec in E. apply IH in H. congruence.
  - injection H as -> ->. apply andb_true_iff. split; [apply comp_eqb_spec; reflexivity|apply IH; reflexivity].
Qed.

(* ------------------------------------------------------------------ *)
(* 4. minimum_path_selection / is_inside_any on strings                *)
(* ------------------------------------------------------------------ *)
Definition pselect := select comp comp_leb comp_eqb bytes path_eqb.

Lemma min_sel_keyed_select ps : min_sel_keyed ps = pselect (keyed ps).
Proof.
  unfold min_sel_keyed, pselect.
  destruct (Nat.ltb_spec (length (dedup_by path_eqb (keyed ps))) 2) as [H|H].
  - symmetry. apply select_small. exact H.
  - reflexivity.
Qed.

Lemma keyed_in k s ps : In (k, s) (keyed ps) <-> k = components s /\ In s ps.
Proof.
  unfold keyed. rewrite in_map_iff. split.
  - intros [x [E H]]. injection E as <- <-. auto.
  - intros [-> H]. exists s. auto.
Qed.

Lemma min_sel_in_keyed s ps :
  In s (minimum_path_selection ps) <-> In (components s, s) (min_sel_keyed ps).
Proof.
  unfold minimum_path_selection. rewrite in_map_iff. split.
  - intros [[k s'] [E H]]. simpl in E. subst s'.
    assert (Hk := H). rewrite min_sel_keyed_select in Hk. apply select_in in Hk.
    apply keyed_in in Hk as [-> _]. exact H.
  - intros H. exists (components s, s). auto.
Qed.

Lemma min_sel_subset ps s : In s (minimum_path_selection ps) -> In s ps.
Proof.
  intros H. apply min_sel_in_keyed in H. rewrite min_sel_keyed_select in H.
  apply select_in in H. apply keyed_in in H as [_ H]. exact H.
Qed.

Lemma min_sel_antichain ps s t :
  In s (minimum_path_selection ps) -> In t (minimum_path_selection ps) ->
  is_inside s t = true -> s = t.
Proof.
  intros Hs Ht Hi. apply min_sel_in_keyed in Hs, Ht. rewrite min_sel_keyed_select in Hs, Ht.
  assert (E : (components s, s) = (components t, t)).
  { eapply (select_antichain comp comp_leb comp_eqb comp_leb_total comp_leb_trans comp_leb_antisym
              comp_eqb_spec bytes path_eqb path_eqb_spec); eassumption. }
  congruence.
Qed.

Lemma min_sel_cover ps p :
  In p ps -> exists s, In s (minimum_path_selection ps) /\ is_inside s p = true.
Proof.
  intros H.
  assert (Hk : In (components p, p) (keyed ps)) by (apply keyed_in; auto).
  destruct (select_cover comp comp_leb comp_eqb comp_eqb_spec bytes path_eqb path_eqb_spec _ _ Hk)
    as [[k s] [Hs Hp]].
  assert (Hk2 := Hs). apply select_in in Hk2. apply keyed_in in Hk2 as [-> _].
  exists s. split; [|exact Hp].
  apply min_sel_in_keyed. rewrite min_sel_keyed_select. exact Hs.
Qed.

Lemma min_sel_exactly_one ps p :
  In p ps ->
  exists s, In s (minimum_path_selection ps) /\ is_inside s p = true /\
            forall s', In s' (minimum_path_selection ps) -> is_inside s' p = true -> s' = s.
Proof.
  intros H. destruct (min_sel_cover ps p H) as [s [Hs Hp]].
  exists s. split; [exact Hs|]. split; [exact Hp|].
  intros s' Hs' Hp'.
  destruct (prefix_comparable comp comp_eqb comp_eqb_spec _ _ _ Hp' Hp) as [Hc|Hc].
  - eapply min_sel_antichain; eassumption.
  - symmetry. eapply min_sel_antichain; eassumption.
Qed.

Lemma is_inside_any_spec ds f :
  is_inside_any ds f = true <-> exists d, In d ds /\ is_inside d f = true.
Proof.
  induction ds as [|d ds IH]; simpl.
  - split; [discriminate|intros [d [[] _]]].
  - destruct (is_inside d f) eqn:E.
    + split; [intros _; exists d; auto|reflexivity].
    + rewrite IH. split.
      * intros [d' [H1 H2]]. exists d'. auto.
      * intros [d' [[<-|H1] H2]]; [congruence|exists d'; auto].
Qed.

Lemma is_inside_or_parent_of_any_spec ds f :
  is_inside_or_parent_of_any ds f = true <->
  exists d, In d ds /\ (is_inside d f = true \/ is_inside f d = true).
Proof.
  induction ds as [|d ds IH]; simpl.
  - split; [discriminate|intros [d [[] _]]].
  - destruct (is_inside d f || is_inside f d) eqn:E.
    + split; [intros _; exists d; split; [auto|apply orb_true_iff; exact E]|reflexivity].
    + rewrite IH. split.
      * intros [d' [H1 H2]]. exists d'. auto.
      * intros [d' [[<-|H1] H2]]; [apply orb_true_iff in H2; congruence|exists d'; auto].
Qed.

Lemma is_inside_refl p : is_inside p p = true.
Proof. apply prefix_refl. exact comp_eqb_spec. Qed.

Lemma is_inside_trans p q r : is_inside p q = true -> is_inside q r = true -> is_inside p r = true.
Proof. apply prefix_trans. exact comp_eqb_spec. Qed.

(* the selection covers exactly the region the input covers *)
Lemma min_sel_same_region ps f :
  is_inside_any (minimum_path_selection ps) f = is_inside_any ps f.
Proof.
  apply eq_true_iff_eq. rewrite !is_inside_any_spec. split.
  - intros [s [Hs Hi]]. exists s. split; [apply min_sel_subset; exact Hs|exact Hi].
  - intros [p [Hp Hi]]. destruct (min_sel_cover ps p Hp) as [s [Hs Hsp]].
    exists s. split; [exact Hs|]. eapply is_inside_trans; eassumption.
Qed.

(* ------------------------------------------------------------------ *)
(* 5. splitpath / joinpath                                             *)
(* ------------------------------------------------------------------ *)
Open Scope N_scope.

Lemma split1_aux_nosep sep cur s :
  memb sep s = false -> split1_aux sep cur s = [rev cur ++ s].
Proof.
  revert cur; induction s as [|c s IH]; simpl; intros cur H.
  - rewrite app_nil_r. reflexivity.
  - unfold memb in H. simpl in H. apply orb_false_iff in H as [H1 H2].
    rewrite N.eqb_sym in H1. rewrite H1. rewrite IH by exact H2. simpl.
    rewrite <- app_assoc. reflexivity.
Qed.

Lemma split1_aux_app sep cur s t :
  memb sep s = false ->
  split1_aux sep cur (s ++ sep :: t) = (rev cur ++ s) :: split1_aux sep [] t.
Proof.
  revert cur; induction s as [|c s IH]; simpl; intros cur H.
  - rewrite N.eqb_refl, app_nil_r. reflexivity.
  - unfold memb in H. simpl in H. apply orb_false_iff in H as [H1 H2].
    rewrite N.eqb_sym in H1. rewrite H1. rewrite IH by exact H2. simpl.
    rewrite <- app_assoc. reflexivity.
Qed.

Definition sep1 : bytes := [SLASH].

(* split on '/' inverts join for separator-free pieces *)
Lemma split1_join segs :
  segs <> [] -> Forall (fun s => memb SLASH s = false) segs ->
  split1 SLASH (join sep1 segs) = segs.
Proof.
  unfold split1. induction segs as [|s segs IH]; intros Hne Hall; [congruence|].
  inversion Hall as [|? ? Hs Hall']; subst.
  destruct segs as [|s2 segs].
  - simpl. apply split1_aux_nosep. exact Hs.
  - change (join sep1 (s :: s2 :: segs)) with (s ++ sep1 ++ join sep1 (s2 :: segs)).
    unfold sep1 at 1. simpl app at 2.
    rewrite split1_aux_app by exact Hs. simpl rev. simpl app at 1.
    f_equal. apply IH; [discriminate|exact Hall'].
Qed.

(* join inverts split, for every string *)
Lemma join_split1_aux cur s :
  join sep1 (split1_aux SLASH cur s) = rev cur ++ s.
Proof.
  revert cur; induction s as [|c s IH]; intros cur; simpl.
  - rewrite app_nil_r. reflexivity.
  - destruct (c =? SLASH) eqn:E.
    + apply N.eqb_eq in E. subst c.
      assert (Hne : exists a l, split1_aux SLASH [] s = a :: l).
      { clear. generalize (@nil N). induction s as [|c s IH]; intros cur; simpl; eauto.
        destruct (c =? SLASH); eauto. }
      destruct Hne as [a [l Ha]]. specialize (IH []). rewrite Ha in *.
      change (join sep1 (rev cur :: a :: l)) with (rev cur ++ sep1 ++ join sep1 (a :: l)).
      rewrite IH. reflexivity.
    + rewrite IH. simpl. rewrite <- app_assoc. reflexivity.
Qed.

Lemma join_split1 s : join sep1 (split1 SLASH s) = s.
Proof. apply (join_split1_aux [] s). Qed.

Lemma memb_rev c (l : bytes) : memb c (rev l) = memb c l.
Proof.
  unfold memb. induction l as [|x l IH]; simpl; [reflexivity|].
  rewrite existsb_app, IH. simpl. rewrite orb_false_r. apply orb_comm.
Qed.

Lemma split1_pieces_nosep_aux cur s :
  memb SLASH cur = false -> Forall (fun p => memb SLASH p = false) (split1_aux SLASH cur s).
Proof.
  revert cur; induction s as [|c s IH]; intros cur H; simpl.
  - constructor; [|constructor]. rewrite memb_rev. exact H.
  - destruct (c =? SLASH) eqn:E.
    + constructor; [rewrite memb_rev; exact H|]. apply IH. reflexivity.
    + apply IH. unfold memb in *. cbn [existsb]. rewrite N.eqb_sym, E. exact H.
Qed.

Lemma split1_pieces_nosep s : Forall (fun p => memb SLASH p = false) (split1 SLASH s).
Proof. apply split1_pieces_nosep_aux. reflexivity. Qed.

(* a segment that splitpath keeps and joinpath accepts *)
Definition valid_seg (s : bytes) : bool :=
  negb (bytes_eqb s []) && negb (bytes_eqb s DOTS) && negb (bytes_eqb s DOTDOT) && negb (memb SLASH s).

(* a normalised relative path: empty, or non-empty segments other than "." and ".." joined by "/" *)
Definition normalised (p : bytes) : bool :=
  match p with [] => true | _ => forallb valid_seg (split1 SLASH p) end.

Lemma splitpath_go_valid segs :
  forallb valid_seg segs = true -> splitpath_go segs = Ok segs.
Proof.
  induction segs as [|s segs IH]; simpl; intros H; [reflexivity|].
  apply andb_true_iff in H as [Hs H]. rewrite IH by exact H.
  unfold valid_seg in Hs. repeat (apply andb_true_iff in Hs as [Hs ?]).
  apply negb_true_iff in Hs. rewrite Hs.
  repeat match goal with X : negb _ = true |- _ => apply negb_true_iff in X; rewrite ?X end.
  reflexivity.
Qed.

Lemma need_sep_nonempty_noslash s :
  s <> [] -> memb SLASH s = false -> need_sep s = true.
Proof.
  intros Hne H. unfold need_sep.
  destruct (rev s) as [|c r] eqn:E.
  - apply (f_equal (@rev N)) in E. rewrite rev_involutive in E. simpl in E. congruence.
  - assert (In c s) by (apply in_rev; rewrite E; left; reflexivity).
    destruct (c =? SLASH) eqn:Ec; [|reflexivity].
    apply N.eqb_eq in Ec. subst c. unfold memb in H.
    assert (existsb (N.eqb SLASH) s = true) by (apply existsb_exists; exists SLASH; split; [assumption|apply N.eqb_refl]).
    congruence.
Qed.

Lemma valid_seg_facts s :
  valid_seg s = true -> s <> [] /\ memb SLASH s = false /\ is_abs s = false /\ bad_seg s = false.
Proof.
  unfold valid_seg. intros H. repeat (apply andb_true_iff in H as [H ?]).
  repeat match goal with X : negb _ = true |- _ => apply negb_true_iff in X end.
  assert (Hne : s <> []) by (intros ->; discriminate).
  repeat split; try assumption.
  - destruct s as [|c s]; [reflexivity|]. simpl. unfold memb in *. simpl in *.
    apply orb_false_iff in H0 as [H0 _]. rewrite N.eqb_sym. exact H0.
  - unfold bad_seg. rewrite H. match goal with X : bytes_eqb s DOTDOT = false |- _ => rewrite X end. reflexivity.
Qed.

(* pathjoin of valid segments is join with "/" *)
Lemma pathjoin_valid_acc acc segs :
  (acc = [] \/ need_sep acc = true) ->
  forallb valid_seg segs = true ->
  fold_left push segs acc =
    match segs with
    | [] => acc
    | _ => match acc with [] => join sep1 segs | _ => acc ++ SLASH :: join sep1 segs end
    end.
Proof.
  revert acc; induction segs as [|s segs IH]; intros acc Hacc H; [reflexivity|].
  simpl in H. apply andb_true_iff in H as [Hs H].
  destruct (valid_seg_facts s Hs) as [Hne [Hns [Habs _]]].
  simpl fold_left. unfold push at 2. rewrite Habs.
  assert (Hnext : need_sep (if need_sep acc then acc ++ SLASH :: s else acc ++ s) = true).
  { destruct Hacc as [->|Hn].
    - simpl. apply need_sep_nonempty_noslash; assumption.
    - rewrite Hn. unfold need_sep. rewrite rev_app_distr. cbn [rev].
      pose proof (need_sep_nonempty_noslash s Hne Hns) as Hq. unfold need_sep in Hq.
      destruct (rev s) as [|c r]; [discriminate|]. cbn [app]. exact Hq. }
  rewrite IH; [|right; exact Hnext|exact H].
  destruct segs as [|s2 segs].
  - destruct Hacc as [->|Hn]; [reflexivity|]. rewrite Hn.
    destruct acc; [discriminate|reflexivity].
  - destruct Hacc as [->|Hn].
    + simpl need_sep. cbn iota. simpl app at 1.
      destruct s as [|c s]; [congruence|]. reflexivity.
    + rewrite Hn. destruct acc as [|a acc]; [discriminate|].
      change (join sep1 (s :: s2 :: segs)) with (s ++ sep1 ++ join sep1 (s2 :: segs)).
      unfold sep1 at 2. simpl. rewrite <- !app_assoc. simpl. reflexivity.
Qed.

Lemma pathjoin_valid segs :
  forallb valid_seg segs = true -> pathjoin segs = join sep1 segs.
Proof.
  intros H. unfold pathjoin. rewrite pathjoin_valid_acc; [|left; reflexivity|exact H].
  destruct segs; reflexivity.
Qed.

Lemma joinpath_valid segs :
  forallb valid_seg segs = true -> joinpath segs = Ok (join sep1 segs).
Proof.
  intros H. unfold joinpath.
  assert (Hf : find bad_seg segs = None).
  { clear - H. induction segs as [|s segs IH]; [reflexivity|]. simpl in *.
    apply andb_true_iff in H as [Hs H]. destruct (valid_seg_facts s Hs) as [_ [_ [_ Hb]]].
    rewrite Hb. apply IH. exact H. }
  rewrite Hf, pathjoin_valid by exact H. reflexivity.
Qed.

(* splitting then joining a normalised path is the identity *)
Lemma split_join p :
  normalised p = true ->
  exists segs, splitpath p = Ok segs /\ joinpath segs = Ok p.
Proof.
  unfold normalised. destruct p as [|c p].
  - intros _. exists []. split; reflexivity.
  - intros H. exists (split1 SLASH (c :: p)). split.
    + unfold splitpath. apply splitpath_go_valid. exact H.
    + rewrite joinpath_valid by exact H. rewrite join_split1. reflexivity.
Qed.

(* joining valid segments then splitting gives the segments back *)
Lemma join_split segs :
  forallb valid_seg segs = true ->
  exists p, joinpath segs = Ok p /\ splitpath p = Ok segs /\ normalised p = true.
Proof.
  intros H. exists (join sep1 segs). split; [apply joinpath_valid; exact H|].
  destruct segs as [|s segs]; [split; reflexivity|].
  assert (Hsp : split1 SLASH (join sep1 (s :: segs)) = s :: segs).
  { apply split1_join; [discriminate|].
    rewrite forallb_forall in H. apply Forall_forall. intros x Hx.
    destruct (valid_seg_facts x (H x Hx)) as [_ [Hn _]]. exact Hn. }
  split.
  - unfold splitpath. rewrite Hsp. apply splitpath_go_valid. exact H.
  - unfold normalised. rewrite Hsp.
    destruct (join sep1 (s :: segs)); [reflexivity|exact H].
Qed.

(* what splitpath returns is always a list of valid segments; it fails exactly on ".." *)
Lemma splitpath_go_result ps :
  Forall (fun p => memb SLASH p = false) ps ->
  match splitpath_go ps with
  | Ok l => forallb valid_seg l = true /\ ~ In DOTDOT ps
  | Err e => e = DOTDOT /\ In DOTDOT ps
  end.
Proof.
  induction ps as [|f r IH]; intros Hall; simpl.
  - split; [reflexivity|intros []].
  - inversion Hall as [|? ? Hf Hall']; subst. specialize (IH Hall').
    destruct (bytes_eqb f DOTDOT) eqn:Edd.
    + apply bytes_eqb_spec in Edd. subst. split; [reflexivity|left; reflexivity].
    + destruct (splitpath_go r) as [l|e].
      * destruct IH as [Hv Hn].
        assert (Hnn : ~ (f = DOTDOT \/ In DOTDOT r)).
        { intros [->|Hi]; [|exact (Hn Hi)]. discriminate Edd. }
        destruct (bytes_eqb f DOTS) eqn:Ed; simpl; [split; [exact Hv|intros [E|E]; apply Hnn; auto]|].
        destruct (bytes_eqb f []) eqn:Ee; simpl; [split; [exact Hv|intros [E|E]; apply Hnn; auto]|].
        split; [|intros [E|E]; apply Hnn; auto].
        unfold valid_seg. rewrite Ee, Ed, Edd, Hf. simpl. exact Hv.
      * destruct IH as [-> Hi]. split; [reflexivity|right; exact Hi].
Qed.

Lemma splitpath_result p :
  match splitpath p with
  | Ok l => forallb valid_seg l = true /\ ~ In DOTDOT (split1 SLASH p)
  | Err e => e = DOTDOT /\ In DOTDOT (split1 SLASH p)
  end.
Proof. apply splitpath_go_result. apply split1_pieces_nosep. Qed.

(* hence split . join . split = split *)
Lemma splitpath_idempotent p segs :
  splitpath p = Ok segs ->
  exists q, joinpath segs = Ok q /\ splitpath q = Ok segs.
Proof.
  intros H. pose proof (splitpath_result p) as R. rewrite H in R. destruct R as [Hv _].
  destruct (join_split segs Hv) as [q [Hj [Hs _]]]. exists q. auto.
Qed.
