(* Theory/PackFS.v -- proofs about Model/PackFS.v (property C04).

   Plan.  [ok_run]: every operation that is not the pack-names write touches no file a reader
   of the currently listed packs needs, and the pack-names write lists only complete packs.
   (1) ok_run  =>  every crash prefix is good and lists the old or a written name list;
   (2) the three programs of the code (commit, commit+autopack, pack) are ok_run from EVERY
       good state, whatever else lies around in upload/, obsolete_packs/, packs/, indices/;
   (3) the same for any sequence of such programs; (4) the wrong order is not. *)
From Coq Require Import List Bool Arith PeanoNat Lia.
From BV Require Import Model.PackFS.
Import ListNotations.
Open Scope nat_scope.

(* ---------- decidable equality of files ---------- *)
Lemma dir_eqb_eq a b : dir_eqb a b = true <-> a = b.
Proof. destruct a, b; cbn; split; intro H; try reflexivity; try discriminate. Qed.
Lemma ext_eqb_eq a b : ext_eqb a b = true <-> a = b.
Proof. destruct a, b; cbn; split; intro H; try reflexivity; try discriminate. Qed.
Lemma file_eqb_eq a b : file_eqb a b = true <-> a = b.
Proof.
  destruct a as [d n e], b as [d' n' e']; unfold file_eqb; cbn [fdir fname fext].
  rewrite !andb_true_iff, dir_eqb_eq, Nat.eqb_eq, ext_eqb_eq.
  split; [intros [[-> ->] ->]; reflexivity | intros H; injection H as -> -> ->; auto].
Qed.
Lemma file_eqb_refl a : file_eqb a a = true.
Proof. apply file_eqb_eq; reflexivity. Qed.
Lemma file_eqb_neq a b : a <> b -> file_eqb a b = false.
Proof. intro H; destruct (file_eqb a b) eqn:E; [apply file_eqb_eq in E; contradiction | reflexivity]. Qed.
Lemma file_eqb_sym a b : file_eqb a b = file_eqb b a.
Proof.
  destruct (file_eqb a b) eqn:E.
  - apply file_eqb_eq in E; subst; symmetry; apply file_eqb_refl.
  - destruct (file_eqb b a) eqn:E'; [|reflexivity].
    apply file_eqb_eq in E'; subst; rewrite file_eqb_refl in E; discriminate.
Qed.

(* ---------- the association list is a finite map ---------- *)
Lemma lookup_fremove f m g :
  lookup (fremove f m) g = if file_eqb f g then None else lookup m g.
Proof.
  induction m as [|[h v] m IH]; cbn [fremove filter lookup fst].
  - destruct (file_eqb f g); reflexivity.
  - fold (fremove f m). destruct (file_eqb f h) eqn:Efh; cbn [negb].
    + apply file_eqb_eq in Efh; subst h. rewrite IH.
      destruct (file_eqb f g); reflexivity.
    + cbn [lookup]. rewrite IH. destruct (file_eqb h g) eqn:Ehg; [|reflexivity].
      apply file_eqb_eq in Ehg; subst h. rewrite Efh; reflexivity.
Qed.
Lemma lookup_fset f v m g :
  lookup (fset f v m) g = if file_eqb f g then Some v else lookup m g.
Proof.
  unfold fset; cbn [lookup]. destruct (file_eqb f g) eqn:E; [reflexivity|].
  rewrite lookup_fremove, E; reflexivity.
Qed.

(* ---------- one step ---------- *)
Lemma names_step s o :
  names (step s o) = match o with OPutNames l => l | _ => names s end.
Proof.
  destruct o; cbn [step]; try reflexivity.
  - destruct (lookup (files s) f); reflexivity.
  - destruct (lookup (files s) f); reflexivity.
Qed.

Lemma lookup_step_other s o g :
  ~ In g (op_files o) -> lookup (files (step s o)) g = lookup (files s) g.
Proof.
  intro H. destruct o; cbn [step op_files In] in *; try reflexivity.
  - cbn [with_files files]. rewrite lookup_fset, file_eqb_neq; [reflexivity|]. intro; subst; tauto.
  - destruct (lookup (files s) f) eqn:E; [|reflexivity].
    cbn [with_files files]. rewrite lookup_fset, file_eqb_neq; [reflexivity|]. intro; subst; tauto.
  - destruct (lookup (files s) f) eqn:E; [|reflexivity].
    cbn [with_files files]. rewrite lookup_fset, file_eqb_neq by (intro; subst; tauto).
    rewrite lookup_fremove, file_eqb_neq by (intro; subst; tauto). reflexivity.
  - cbn [with_files files]. rewrite lookup_fremove, file_eqb_neq; [reflexivity|]. intro; subst; tauto.
Qed.

Lemma run_app p q s : run (p ++ q) s = run q (run p s).
Proof. unfold run; apply fold_left_app. Qed.
Lemma run_cons o p s : run (o :: p) s = run p (step s o).
Proof. reflexivity. Qed.

(* ---------- good, as a proposition ---------- *)
Definition complete_pack (ixs : list ext) (s : st) (n : name) : Prop :=
  lookup (files s) (F Packs n EPack) = Some Complete /\
  forall e, In e ixs -> lookup (files s) (F Indices n e) = Some Complete.
Definition good (ixs : list ext) (s : st) : Prop :=
  forall n, In n (names s) -> complete_pack ixs s n.

Lemma is_complete_spec s f : is_complete s f = true <-> lookup (files s) f = Some Complete.
Proof.
  unfold is_complete. destruct (lookup (files s) f) as [[|]|]; split; intro H; try reflexivity; discriminate.
Qed.
Lemma complete_packb_spec ixs s n : complete_packb ixs s n = true <-> complete_pack ixs s n.
Proof.
  unfold complete_packb, complete_pack. rewrite andb_true_iff, is_complete_spec, forallb_forall.
  split; intros [H1 H2]; split; auto; intros e He; apply is_complete_spec; auto.
Qed.
Lemma goodb_spec ixs s : goodb ixs s = true <-> good ixs s.
Proof.
  unfold goodb, good. rewrite forallb_forall.
  split; intros H n Hn; apply complete_packb_spec; auto.
Qed.

(* complete_pack depends only on the files a reader of n needs *)
Lemma complete_pack_ext ixs s s' n :
  (forall f, (fdir f = Packs \/ fdir f = Indices) -> fname f = n ->
             lookup (files s') f = lookup (files s) f) ->
  complete_pack ixs s n -> complete_pack ixs s' n.
Proof.
  intros H [H1 H2]; split.
  - rewrite H; auto.
  - intros e He. rewrite H; auto.
Qed.

(* ---------- the discipline ---------- *)
Definition protected (s : st) (f : file) : Prop :=
  (fdir f = Packs \/ fdir f = Indices) /\ In (fname f) (names s).
Definition step_ok (ixs : list ext) (s : st) (o : op) : Prop :=
  match o with
  | OPutNames l => forall n, In n l -> complete_pack ixs s n
  | _ => forall f, In f (op_files o) -> ~ protected s f
  end.
Fixpoint ok_run (ixs : list ext) (s : st) (p : list op) : Prop :=
  match p with
  | [] => True
  | o :: r => step_ok ixs s o /\ ok_run ixs (step s o) r
  end.

Lemma existsb_eqb_In x l : existsb (Nat.eqb x) l = true <-> In x l.
Proof.
  rewrite existsb_exists; split.
  - intros [y [Hy E]]; apply Nat.eqb_eq in E; subst; exact Hy.
  - intro H; exists x; split; [exact H | apply Nat.eqb_refl].
Qed.
Lemma protectedb_spec s f : protectedb s f = true <-> protected s f.
Proof.
  unfold protectedb, protected.
  rewrite andb_true_iff, orb_true_iff, !dir_eqb_eq, existsb_eqb_In. tauto.
Qed.
Lemma step_okb_spec ixs s o : step_okb ixs s o = true -> step_ok ixs s o.
Proof.
  assert (G : forall fs, forallb (fun f => negb (protectedb s f)) fs = true ->
                         forall f, In f fs -> ~ protected s f).
  { intros fs H f Hf Hp. rewrite forallb_forall in H. specialize (H f Hf).
    apply protectedb_spec in Hp. rewrite Hp in H; discriminate. }
  destruct o; cbn [step_okb step_ok]; try (apply G).
  intros H n Hn. rewrite forallb_forall in H. apply complete_packb_spec; auto.
Qed.
Lemma ok_runb_spec ixs p : forall s, ok_runb ixs s p = true -> ok_run ixs s p.
Proof.
  induction p as [|o p IH]; intros s H; cbn [ok_runb ok_run] in *; [exact I|].
  apply andb_true_iff in H as [H1 H2]. split; [apply step_okb_spec; exact H1 | apply IH; exact H2].
Qed.

Lemma ok_run_app ixs p q : forall s,
  ok_run ixs s (p ++ q) <-> ok_run ixs s p /\ ok_run ixs (run p s) q.
Proof.
  induction p as [|o p IH]; intro s; cbn [app ok_run].
  - cbn; tauto.
  - rewrite IH, run_cons; tauto.
Qed.
Lemma ok_run_firstn ixs p : forall k s, ok_run ixs s p -> ok_run ixs s (firstn k p).
Proof.
  induction p as [|o p IH]; intros [|k] s H; cbn [firstn ok_run] in *; auto.
  destruct H; split; auto.
Qed.

(* ---------- (1) ok_run keeps every prefix good ---------- *)
Lemma good_step ixs s o : good ixs s -> step_ok ixs s o -> good ixs (step s o).
Proof.
  intros G Hok.
  destruct o as [f|f|f g|f| | |l|r];
    try (intros n Hn; rewrite names_step in Hn;
         apply (complete_pack_ext ixs s); [|apply G; exact Hn];
         intros h Hd Hh; apply lookup_step_other; intro Hin;
         apply (Hok h Hin); split; [exact Hd | rewrite Hh; exact Hn]).
  (* OPutNames *)
  intros n Hn. rewrite names_step in Hn. apply (Hok n Hn).
Qed.
Lemma good_run ixs p : forall s, good ixs s -> ok_run ixs s p -> good ixs (run p s).
Proof.
  induction p as [|o p IH]; intros s G H; [exact G|].
  destruct H as [H1 H2]. rewrite run_cons. apply IH; [apply good_step; assumption | exact H2].
Qed.
Theorem good_every_prefix ixs p s k :
  good ixs s -> ok_run ixs s p -> good ixs (run (firstn k p) s).
Proof. intros G H. apply good_run; [exact G | apply ok_run_firstn; exact H]. Qed.

(* the listed names change only at a pack-names write *)
Definition puts (p : list op) : list (list name) :=
  flat_map (fun o => match o with OPutNames l => [l] | _ => [] end) p.
Lemma puts_app p q : puts (p ++ q) = puts p ++ puts q.
Proof. unfold puts; apply flat_map_app. Qed.
Lemma names_run_cases p : forall s, names (run p s) = names s \/ In (names (run p s)) (puts p).
Proof.
  induction p as [|o p IH]; intro s; [left; reflexivity|].
  rewrite run_cons. destruct (IH (step s o)) as [E|E].
  - rewrite E, names_step. destruct o; try (left; reflexivity). right; left; reflexivity.
  - right. change (puts (o :: p)) with ((match o with OPutNames l => [l] | _ => [] end) ++ puts p).
    apply in_or_app; right; exact E.
Qed.
Lemma puts_firstn p : forall k l, In l (puts (firstn k p)) -> In l (puts p).
Proof.
  intros k l H. rewrite <- (firstn_skipn k p) at 1. rewrite puts_app. apply in_or_app; left; exact H.
Qed.
Theorem names_every_prefix p s k l :
  puts p = [l] -> names (run (firstn k p) s) = names s \/ names (run (firstn k p) s) = l.
Proof.
  intro Hp. destruct (names_run_cases (firstn k p) s) as [E|E]; [left; exact E|].
  apply puts_firstn in E. rewrite Hp in E. destruct E as [E|[]]. right; symmetry; exact E.
Qed.
Lemma names_run_noputs p s : puts p = [] -> names (run p s) = names s.
Proof. intro Hp. destruct (names_run_cases p s) as [E|E]; [exact E | rewrite Hp in E; destruct E]. Qed.
Lemma names_run_oneput p s l : puts p = [l] -> names (run p s) = l.
Proof.
  revert s. induction p as [|o p IH]; intros s Hp; [discriminate|].
  rewrite run_cons. destruct o; try (apply IH; exact Hp).
  cbn in Hp. injection Hp as -> Hp. fold (puts p) in Hp.
  rewrite names_run_noputs by exact Hp. reflexivity.
Qed.

(* ---------- quiet programs: no pack-names write, pack/index files only of names in T ---------- *)
Definition quiet_op (T : list name) (o : op) : Prop :=
  (match o with OPutNames _ => False | _ => True end) /\
  forall f, In f (op_files o) -> (fdir f = Packs \/ fdir f = Indices) -> In (fname f) T.
Definition quiet (T : list name) (p : list op) : Prop := Forall (quiet_op T) p.

Lemma quiet_app T p q : quiet T p -> quiet T q -> quiet T (p ++ q).
Proof. intros; apply Forall_app; split; assumption. Qed.
Lemma quiet_mono T T' p : incl T T' -> quiet T p -> quiet T' p.
Proof.
  intros Hi H. eapply Forall_impl; [|exact H].
  intros o [H1 H2]; split; [exact H1 | intros f Hf Hd; apply Hi; auto].
Qed.
Lemma quiet_firstn T p : forall k, quiet T p -> quiet T (firstn k p).
Proof.
  induction p as [|o p IH]; intros [|k] H; cbn [firstn]; try apply Forall_nil.
  inversion H; subst. apply Forall_cons; [assumption | apply IH; assumption].
Qed.
Lemma quiet_puts T p : quiet T p -> puts p = [].
Proof.
  induction 1 as [|o p [H1 _] _ IH]; [reflexivity|].
  change (puts (o :: p)) with ((match o with OPutNames l => [l] | _ => [] end) ++ puts p).
  rewrite IH. destruct o; try reflexivity. destruct H1.
Qed.
Lemma quiet_names T p s : quiet T p -> names (run p s) = names s.
Proof. intro H; apply names_run_noputs; eapply quiet_puts; exact H. Qed.

Lemma quiet_frame T p : quiet T p -> forall s f,
  (fdir f = Packs \/ fdir f = Indices) -> ~ In (fname f) T ->
  lookup (files (run p s)) f = lookup (files s) f.
Proof.
  induction 1 as [|o p [_ H2] _ IH]; intros s f Hd Hn; [reflexivity|].
  rewrite run_cons, IH by assumption. apply lookup_step_other.
  intro Hin. apply Hn. apply H2; assumption.
Qed.
Lemma quiet_complete T p ixs s n :
  quiet T p -> ~ In n T -> complete_pack ixs s n -> complete_pack ixs (run p s) n.
Proof.
  intros Hq Hn. apply complete_pack_ext. intros f Hd Hf.
  apply (quiet_frame T p Hq); [exact Hd | rewrite Hf; exact Hn].
Qed.
Lemma quiet_ok T p ixs : quiet T p -> forall s,
  (forall n, In n T -> ~ In n (names s)) -> ok_run ixs s p.
Proof.
  induction 1 as [|o p [H1 H2] Hq IH]; intros s Hd; [exact I|].
  split.
  - destruct o; cbn [step_ok];
      try (intros f0 Hf [Hp Hin]; apply (Hd (fname f0)); [apply H2; assumption | exact Hin]).
    destruct H1.
  - apply IH. intros n Hn. rewrite names_step. destruct o; try (apply Hd; exact Hn). destruct H1.
Qed.

(* the building blocks are quiet *)
Lemma quiet_new_pack ixs n : quiet [n] (new_pack ixs n).
Proof.
  unfold new_pack, finish_pack. apply Forall_cons.
  - split; [exact I|]. intros f [<-|[]] [Hd|Hd]; discriminate.
  - apply Forall_app; split.
    + apply Forall_forall. intros o Ho. apply in_flat_map in Ho as [e [_ Ho]].
      destruct Ho as [<-|[<-|[]]]; (split; [exact I|]); intros f [<-|[]] _; left; reflexivity.
    + repeat apply Forall_cons; try apply Forall_nil; (split; [exact I|]).
      * intros f [<-|[]] [Hd|Hd]; discriminate.
      * intros f [<-|[<-|[]]] Hd; [destruct Hd; discriminate | left; reflexivity].
Qed.
Lemma quiet_abort_pack n : quiet [] (abort_pack n).
Proof.
  unfold abort_pack. repeat apply Forall_cons; try apply Forall_nil;
    (split; [exact I|]); intros f [<-|[]] [Hd|Hd]; discriminate.
Qed.
Lemma quiet_obsolete oixs plan : quiet plan (flat_map (obsolete_pack oixs) plan).
Proof.
  apply Forall_forall. intros o Ho. apply in_flat_map in Ho as [p [Hp Ho]].
  unfold obsolete_pack in Ho. destruct Ho as [<-|Ho].
  - split; [exact I|]. intros f [<-|[<-|[]]] Hd; [exact Hp | destruct Hd; discriminate].
  - apply in_map_iff in Ho as [e [<- _]]. split; [exact I|].
    intros f [<-|[<-|[]]] Hd; [exact Hp | destruct Hd; discriminate].
Qed.
Lemma quiet_clear clear :
  Forall (fun f => fdir f = Obsolete) clear -> quiet [] (map ODelete clear).
Proof.
  intro H. apply Forall_forall. intros o Ho. apply in_map_iff in Ho as [f [<- Hf]].
  rewrite Forall_forall in H. split; [exact I|].
  intros g [<-|[]] [Hd|Hd]; rewrite (H _ Hf) in Hd; discriminate.
Qed.
Lemma quiet_tip T t : quiet T (tip_ops t).
Proof.
  destruct t; cbn; [|apply Forall_nil]. apply Forall_cons; [|apply Forall_nil].
  split; [exact I | intros f []].
Qed.
Lemma quiet_lock T : quiet T [OLock].
Proof. apply Forall_cons; [split; [exact I | intros f []] | apply Forall_nil]. Qed.
Lemma quiet_unlock T : quiet T [OUnlock].
Proof. apply Forall_cons; [split; [exact I | intros f []] | apply Forall_nil]. Qed.

Lemma step_close_present s f v :
  lookup (files s) f = Some v -> step s (OClose f) = with_files s (fset f Complete (files s)).
Proof. intro H; cbn [step]; rewrite H; reflexivity. Qed.
Lemma step_move_present s f g v :
  lookup (files s) f = Some v -> step s (OMove f g) = with_files s (fset g v (fremove f (files s))).
Proof. intro H; cbn [step]; rewrite H; reflexivity. Qed.

(* NewPack.finish leaves the pack complete, whatever was there before *)
Lemma run_write_indices n l : forall s f,
  lookup (files (run (flat_map (write_index n) l) s)) f =
  if existsb (fun e => file_eqb (F Indices n e) f) l then Some Complete else lookup (files s) f.
Proof.
  induction l as [|e l IH]; intros s f; [reflexivity|].
  cbn [flat_map]. rewrite run_app, IH. cbn [existsb].
  destruct (existsb (fun e0 => file_eqb (F Indices n e0) f) l); [rewrite orb_true_r; reflexivity|].
  rewrite orb_false_r. unfold write_index, run; cbn [fold_left step with_files files].
  rewrite lookup_fset, file_eqb_refl. cbn [with_files files names lock tip].
  rewrite lookup_fset. destruct (file_eqb (F Indices n e) f) eqn:E; [reflexivity|].
  rewrite lookup_fset, E. reflexivity.
Qed.
Lemma new_pack_complete ixs n s : complete_pack ixs (run (new_pack ixs n) s) n.
Proof.
  unfold new_pack, finish_pack. rewrite run_cons, run_app.
  set (s1 := step s (OOpen (F Upload n EPack))).
  set (s2 := run (flat_map (write_index n) ixs) s1).
  assert (Hup : lookup (files s2) (F Upload n EPack) = Some Partial).
  { unfold s2. rewrite run_write_indices.
    replace (existsb (fun e => file_eqb (F Indices n e) (F Upload n EPack)) ixs) with false.
    - unfold s1; cbn [step with_files files]. rewrite lookup_fset, file_eqb_refl; reflexivity.
    - symmetry. apply not_true_iff_false. intro H. apply existsb_exists in H as [e [_ H]].
      apply file_eqb_eq in H; discriminate. }
  assert (Hix : forall e, In e ixs -> lookup (files s2) (F Indices n e) = Some Complete).
  { intros e He. unfold s2. rewrite run_write_indices.
    replace (existsb (fun e0 => file_eqb (F Indices n e0) (F Indices n e)) ixs) with true; [reflexivity|].
    symmetry. apply existsb_exists. exists e; split; [exact He | apply file_eqb_refl]. }
  change (run [OClose (F Upload n EPack); OMove (F Upload n EPack) (F Packs n EPack)] s2)
    with (step (step s2 (OClose (F Upload n EPack))) (OMove (F Upload n EPack) (F Packs n EPack))).
  rewrite (step_close_present _ _ _ Hup).
  set (s3 := with_files s2 (fset (F Upload n EPack) Complete (files s2))).
  assert (H3 : lookup (files s3) (F Upload n EPack) = Some Complete).
  { unfold s3; cbn [with_files files]. rewrite lookup_fset, file_eqb_refl; reflexivity. }
  rewrite (step_move_present _ _ _ _ H3).
  unfold complete_pack, s3; cbn [with_files files].
  split.
  - rewrite lookup_fset, file_eqb_refl; reflexivity.
  - intros e He. rewrite lookup_fset, file_eqb_neq by discriminate.
    rewrite lookup_fremove, file_eqb_neq by discriminate.
    rewrite lookup_fset, file_eqb_neq by discriminate. apply Hix; exact He.
Qed.

(* ---------- (2) the transaction shape shared by commit, autopack and pack ---------- *)
Definition txn (pre : list op) (l : list name) (clear : list file) (post : list op) : list op :=
  pre ++ save_names l clear ++ post.

Lemma puts_txn Tn To pre l clear post :
  quiet Tn pre -> quiet To post -> puts (txn pre l clear post) = [l].
Proof.
  intros Hpre Hpost. unfold txn, save_names. rewrite !puts_app.
  rewrite (quiet_puts _ _ Hpre), (quiet_puts _ _ Hpost).
  replace (puts (map ODelete clear)) with (@nil (list name)); [reflexivity|].
  induction clear as [|f c IH]; [reflexivity | exact IH].
Qed.

Lemma txn_ok ixs s Tn To pre l clear post :
  good ixs s ->
  quiet Tn pre -> (forall n, In n Tn -> ~ In n (names s)) ->
  (forall n, In n l -> In n (names s) \/ complete_pack ixs (run pre s) n) ->
  Forall (fun f => fdir f = Obsolete) clear ->
  quiet To post -> (forall n, In n To -> ~ In n l) ->
  ok_run ixs s (txn pre l clear post).
Proof.
  intros G Hpre Hfresh Hl Hclear Hpost Hold.
  unfold txn, save_names.
  apply ok_run_app; split; [apply (quiet_ok Tn); assumption|].
  set (s1 := run pre s).
  change ([OLock; OPutNames l] ++ map ODelete clear ++ [OUnlock])
    with (OLock :: OPutNames l :: (map ODelete clear ++ [OUnlock])).
  cbn [app ok_run]. split; [intros f []|]. split.
  - (* the pack-names write lists complete packs only *)
    intros n Hn. apply (complete_pack_ext ixs s1); [intros; reflexivity|].
    destruct (Hl n Hn) as [Hin|Hc]; [|exact Hc].
    unfold s1. apply (quiet_complete Tn); [exact Hpre | intro HT; exact (Hfresh n HT Hin) | apply G; exact Hin].
  - set (s2 := step (step s1 OLock) (OPutNames l)).
    assert (Hn2 : names s2 = l) by reflexivity.
    apply ok_run_app; split.
    + apply (quiet_ok []).
      * apply quiet_app; [apply quiet_clear; exact Hclear | apply quiet_unlock].
      * intros n [].
    + apply (quiet_ok To); [exact Hpost|].
      intros n Hn. rewrite (quiet_names []).
      * rewrite Hn2. apply Hold; exact Hn.
      * apply quiet_app; [apply quiet_clear; exact Hclear | apply quiet_unlock].
Qed.

Theorem txn_every_prefix ixs s Tn To pre l clear post k :
  good ixs s ->
  quiet Tn pre -> (forall n, In n Tn -> ~ In n (names s)) ->
  (forall n, In n l -> In n (names s) \/ complete_pack ixs (run pre s) n) ->
  Forall (fun f => fdir f = Obsolete) clear ->
  quiet To post -> (forall n, In n To -> ~ In n l) ->
  let s' := run (firstn k (txn pre l clear post)) s in
  good ixs s' /\ (names s' = names s \/ names s' = l).
Proof.
  intros G Hpre Hfresh Hl Hclear Hpost Hold. split.
  - apply good_every_prefix; [exact G | eapply txn_ok; eassumption].
  - apply names_every_prefix. eapply puts_txn; eassumption.
Qed.

Lemma remove_all_In plan l n : In n (remove_all plan l) <-> In n l /\ ~ In n plan.
Proof.
  unfold remove_all. rewrite filter_In, negb_true_iff, <- not_true_iff_false, existsb_eqb_In. tauto.
Qed.

(* the three programs are transactions *)
Lemma commit_prog_txn ixs x listed t :
  commit_prog ixs x listed t = txn (new_pack ixs x) (listed ++ [x]) [] (tip_ops t).
Proof. reflexivity. Qed.
Lemma autopack_prog_txn ixs oixs x y listed plan clear t :
  autopack_prog ixs oixs x y listed plan clear t =
  txn (new_pack ixs x ++ new_pack ixs y) (remove_all plan (listed ++ [x; y])) clear
      (flat_map (obsolete_pack oixs) plan ++ tip_ops t).
Proof. unfold autopack_prog, txn. rewrite <- !app_assoc. reflexivity. Qed.
Lemma pack_prog_txn ixs oixs y listed plan clear :
  pack_prog ixs oixs y listed plan clear =
  txn (new_pack ixs y) (remove_all plan (listed ++ [y])) clear (flat_map (obsolete_pack oixs) plan).
Proof. reflexivity. Qed.

Section Programs.
  Variables ixs oixs : list ext.

  Theorem commit_every_prefix s x t k :
    good ixs s -> ~ In x (names s) ->
    let s' := run (firstn k (commit_prog ixs x (names s) t)) s in
    good ixs s' /\ (names s' = names s \/ names s' = names s ++ [x]).
  Proof.
    intros G Hx. rewrite commit_prog_txn.
    apply (txn_every_prefix ixs s [x] []); try assumption.
    - apply quiet_new_pack.
    - intros n [<-|[]]; exact Hx.
    - intros n Hn. apply in_app_or in Hn as [Hn|[<-|[]]]; [left; exact Hn | right; apply new_pack_complete].
    - apply Forall_nil.
    - apply quiet_tip.
    - intros n [].
  Qed.

  Theorem autopack_every_prefix s x y plan clear t k :
    good ixs s -> ~ In x (names s) -> ~ In y (names s) -> x <> y -> ~ In y plan ->
    Forall (fun f => fdir f = Obsolete) clear ->
    let l := remove_all plan (names s ++ [x; y]) in
    let s' := run (firstn k (autopack_prog ixs oixs x y (names s) plan clear t)) s in
    good ixs s' /\ (names s' = names s \/ names s' = l).
  Proof.
    intros G Hx Hy Hxy Hyp Hclear. rewrite autopack_prog_txn.
    apply (txn_every_prefix ixs s [x; y] plan); try assumption.
    - apply quiet_app; [apply (quiet_mono [x]) | apply (quiet_mono [y])];
        try apply quiet_new_pack; intros n [<-|[]]; cbn; auto.
    - intros n [<-|[<-|[]]]; assumption.
    - intros n Hn. apply remove_all_In in Hn as [Hn _].
      apply in_app_or in Hn as [Hn|[<-|[<-|[]]]]; [left; exact Hn | right | right].
      + rewrite run_app. apply (quiet_complete [y]); [apply quiet_new_pack | | apply new_pack_complete].
        intros [E|[]]; apply Hxy; symmetry; exact E.
      + rewrite run_app. apply new_pack_complete.
    - apply quiet_app; [apply quiet_obsolete | apply quiet_tip].
    - intros n Hn Hl. apply remove_all_In in Hl as [_ Hl]. exact (Hl Hn).
  Qed.

  Theorem pack_every_prefix s y plan clear k :
    good ixs s -> ~ In y (names s) -> ~ In y plan ->
    Forall (fun f => fdir f = Obsolete) clear ->
    let l := remove_all plan (names s ++ [y]) in
    let s' := run (firstn k (pack_prog ixs oixs y (names s) plan clear)) s in
    good ixs s' /\ (names s' = names s \/ names s' = l).
  Proof.
    intros G Hy Hyp Hclear. rewrite pack_prog_txn.
    apply (txn_every_prefix ixs s [y] plan); try assumption.
    - apply quiet_new_pack.
    - intros n [<-|[]]; exact Hy.
    - intros n Hn. apply remove_all_In in Hn as [Hn _].
      apply in_app_or in Hn as [Hn|[<-|[]]]; [left; exact Hn | right; apply new_pack_complete].
    - apply quiet_obsolete.
    - intros n Hn Hl. apply remove_all_In in Hl as [_ Hl]. exact (Hl Hn).
  Qed.

  (* a write group without data / an aborted packer changes nothing a reader sees *)
  Theorem abort_every_prefix s n k :
    good ixs s ->
    let s' := run (firstn k (abort_pack n)) s in good ixs s' /\ names s' = names s.
  Proof.
    intro G. split.
    - apply good_every_prefix; [exact G|]. apply (quiet_ok []); [apply quiet_abort_pack | intros m []].
    - apply (quiet_names []). apply quiet_firstn. apply quiet_abort_pack.
  Qed.
End Programs.

(* ---------- what "new" means: the revisions a reader lists ---------- *)
Section Visible.
  Variable content : name -> list nat.

  Lemma visible_names s s' : names s = names s' -> visible content s = visible content s'.
  Proof. unfold visible; intros ->; reflexivity. Qed.

  (* commit: old revisions plus the write group's *)
  Lemma visible_commit l x : flat_map content (l ++ [x]) = flat_map content l ++ content x.
  Proof. rewrite flat_map_app; cbn; rewrite app_nil_r; reflexivity. Qed.

  (* repacking [plan] into [y] (content y = union of the plan's content) neither loses nor invents a revision *)
  Lemma visible_repack all plan y :
    incl plan all -> ~ In y plan ->
    (forall r, In r (content y) <-> exists p, In p plan /\ In r (content p)) ->
    forall r, In r (flat_map content (remove_all plan (all ++ [y]))) <-> In r (flat_map content all).
  Proof.
    intros Hincl Hy Hc r. rewrite !in_flat_map. split.
    - intros [n [Hn Hr]]. apply remove_all_In in Hn as [Hn Hnp].
      apply in_app_or in Hn as [Hn|[<-|[]]]; [exists n; auto|].
      apply Hc in Hr as [p [Hp Hr]]. exists p; split; [apply Hincl; exact Hp | exact Hr].
    - intros [n [Hn Hr]].
      destruct (in_dec Nat.eq_dec n plan) as [Hp|Hp].
      + exists y; split.
        * apply remove_all_In; split; [apply in_or_app; right; left; reflexivity | exact Hy].
        * apply Hc. exists n; auto.
      + exists n; split; [|exact Hr]. apply remove_all_In; split; [apply in_or_app; left; exact Hn | exact Hp].
  Qed.
End Visible.

(* ---------- leftovers are harmless ---------- *)
Theorem leftovers_harmless ixs content s s' :
  names s' = names s ->
  (forall f, protected s f -> lookup (files s') f = lookup (files s) f) ->
  (good ixs s <-> good ixs s') /\ visible content s' = visible content s.
Proof.
  intros Hn Hf. split; [|unfold visible; rewrite Hn; reflexivity].
  split; intros G n Hin.
  - rewrite Hn in Hin. apply (complete_pack_ext ixs s); [|apply G; exact Hin].
    intros f Hd Hname. apply Hf. split; [exact Hd | rewrite Hname; exact Hin].
  - apply (complete_pack_ext ixs s'); [|apply G; rewrite Hn; exact Hin].
    intros f Hd Hname. symmetry. apply Hf. split; [exact Hd | rewrite Hname; exact Hin].
Qed.

(* in particular: any file in upload/ or obsolete_packs/, any file of an unlisted pack, the lock *)
Corollary junk_harmless ixs content s f v b :
  ~ protected s f ->
  let s' := St (fset f v (files s)) (names s) b (tip s) in
  (good ixs s <-> good ixs s') /\ visible content s' = visible content s.
Proof.
  intros Hp s'. apply leftovers_harmless; [reflexivity|].
  intros g Hg. unfold s'; cbn [files]. rewrite lookup_fset, file_eqb_neq; [reflexivity|].
  intro E; subst; exact (Hp Hg).
Qed.
Corollary junk_removed_harmless ixs content s f b :
  ~ protected s f ->
  let s' := St (fremove f (files s)) (names s) b (tip s) in
  (good ixs s <-> good ixs s') /\ visible content s' = visible content s.
Proof.
  intros Hp s'. apply leftovers_harmless; [reflexivity|].
  intros g Hg. unfold s'; cbn [files]. rewrite lookup_fremove, file_eqb_neq; [reflexivity|].
  intro E; subst; exact (Hp Hg).
Qed.

(* ---------- (3) sequences of operations, crash anywhere ---------- *)
(* a sequence of programs, each ok from the state its predecessors leave and each writing
   pack-names at most once: a crash anywhere leaves a good state that lists exactly what
   is listed after some whole number j of the operations *)
Fixpoint ok_seq (ixs : list ext) (s : st) (ps : list (list op)) : Prop :=
  match ps with
  | [] => True
  | p :: r => ok_run ixs s p /\ (List.length (puts p) <= 1) /\ ok_seq ixs (run p s) r
  end.

Lemma names_prefix_le1 p s k :
  List.length (puts p) <= 1 ->
  names (run (firstn k p) s) = names s \/ names (run (firstn k p) s) = names (run p s).
Proof.
  intro H. destruct (puts p) as [|l [|l' r]] eqn:Hp.
  - left. apply names_run_noputs.
    destruct (puts (firstn k p)) as [|l r] eqn:E; [reflexivity|].
    assert (In l (puts p)) by (apply (puts_firstn p k); rewrite E; left; reflexivity).
    rewrite Hp in H0; destruct H0.
  - destruct (names_every_prefix p s k l Hp) as [E|E]; [left; exact E|].
    right. rewrite E. symmetry. apply names_run_oneput; exact Hp.
  - cbn in H; lia.
Qed.

Theorem seq_every_prefix ixs ps : forall s k,
  good ixs s -> ok_seq ixs s ps ->
  let s' := run (firstn k (concat ps)) s in
  good ixs s' /\ exists j, j <= List.length ps /\ names s' = names (run (concat (firstn j ps)) s).
Proof.
  induction ps as [|p ps IH]; intros s k G H.
  - cbn. rewrite firstn_nil. split; [exact G | exists 0; split; [lia | reflexivity]].
  - destruct H as [Hp [H1 Hr]]. cbn [concat].
    rewrite firstn_app. rewrite run_app.
    destruct (Nat.le_gt_cases (List.length p) k) as [Hk|Hk].
    + (* the crash is after p *)
      rewrite (@firstn_all2 _ k p Hk).
      destruct (IH (run p s) (k - List.length p)) as [G' [j [Hj E]]];
        [apply good_run; assumption | exact Hr |].
      split; [exact G'|]. exists (S j). split; [cbn; lia|].
      cbn [firstn concat]. rewrite run_app. exact E.
    + (* the crash is inside p *)
      replace (k - List.length p) with 0 by lia. cbn [firstn]. cbn [run fold_left].
      change (fold_left step [] ?x) with x.
      split; [apply good_every_prefix; assumption|].
      destruct (names_prefix_le1 p s k H1) as [E|E].
      * exists 0. split; [lia|]. exact E.
      * exists 1. split; [cbn; lia|]. cbn [firstn concat]. rewrite app_nil_r. exact E.
Qed.

(* ---------- the branch tip is set after pack-names lists the new revision ---------- *)
Definition notip (o : op) : Prop := match o with OSetTip _ => False | _ => True end.
Lemma tip_run_notip p : forall s, Forall notip p -> tip (run p s) = tip s.
Proof.
  induction p as [|o p IH]; intros s H; [reflexivity|].
  inversion H as [|? ? Ho Hr]; subst. rewrite run_cons, IH by exact Hr.
  destruct o; cbn [step]; try reflexivity.
  - destruct (lookup (files s) f); reflexivity.
  - destruct (lookup (files s) f); reflexivity.
  - destruct Ho.
Qed.
Lemma notip_firstn p : forall k, Forall notip p -> Forall notip (firstn k p).
Proof.
  induction p as [|o p IH]; intros [|k] H; cbn [firstn]; try apply Forall_nil.
  inversion H; subst. apply Forall_cons; [assumption | apply IH; assumption].
Qed.
Lemma notip_new_pack ixs n : Forall notip (new_pack ixs n).
Proof.
  unfold new_pack, finish_pack. apply Forall_cons; [exact I|]. apply Forall_app; split.
  - apply Forall_forall. intros o Ho. apply in_flat_map in Ho as [e [_ [<-|[<-|[]]]]]; exact I.
  - repeat apply Forall_cons; try apply Forall_nil; exact I.
Qed.
Lemma notip_save_names l clear : Forall notip (save_names l clear).
Proof.
  unfold save_names. apply Forall_app; split; [repeat apply Forall_cons; try apply Forall_nil; exact I|].
  apply Forall_app; split; [|repeat apply Forall_cons; try apply Forall_nil; exact I].
  apply Forall_forall. intros o Ho. apply in_map_iff in Ho as [f [<- _]]. exact I.
Qed.
Lemma notip_obsolete oixs plan : Forall notip (flat_map (obsolete_pack oixs) plan).
Proof.
  apply Forall_forall. intros o Ho. apply in_flat_map in Ho as [p [_ [<-|Ho]]]; [exact I|].
  apply in_map_iff in Ho as [e [<- _]]. exact I.
Qed.

Lemma tip_after_names A t l s k :
  Forall notip A -> puts A = [l] ->
  let s' := run (firstn k (A ++ tip_ops t)) s in
  tip s' = tip s \/ (tip s' = t /\ names s' = l).
Proof.
  intros HA Hp. cbn zeta. rewrite firstn_app, run_app.
  destruct (Nat.le_gt_cases k (List.length A)) as [Hk|Hk].
  - replace (k - List.length A) with 0 by lia. cbn [firstn]. change (run [] ?x) with x.
    left. apply tip_run_notip. apply notip_firstn; exact HA.
  - rewrite (@firstn_all2 _ k A) by lia.
    destruct t as [r|]; cbn [tip_ops].
    + right. destruct (k - List.length A) as [|d] eqn:E; [lia|]. cbn [firstn].
      rewrite firstn_nil. cbn [run fold_left step tip names]. split; [reflexivity|].
      apply names_run_oneput; exact Hp.
    + left. rewrite firstn_nil. change (run [] ?x) with x. apply tip_run_notip; exact HA.
Qed.

Lemma puts_save_names l clear : puts (save_names l clear) = [l].
Proof.
  unfold save_names. rewrite !puts_app.
  replace (puts (map ODelete clear)) with (@nil (list name)); [reflexivity|].
  induction clear as [|f c IH]; [reflexivity | exact IH].
Qed.
Lemma app4 {A} (a b c d e : list A) : a ++ b ++ c ++ d ++ e = (a ++ b ++ c ++ d) ++ e.
Proof. rewrite <- !app_assoc. reflexivity. Qed.

Section Tip.
  Variables ixs oixs : list ext.

  Theorem commit_tip_after_names s x t k :
    let s' := run (firstn k (commit_prog ixs x (names s) t)) s in
    tip s' = tip s \/ (tip s' = t /\ names s' = names s ++ [x]).
  Proof.
    unfold commit_prog. rewrite app_assoc. apply tip_after_names.
    - apply Forall_app; split; [apply notip_new_pack | apply notip_save_names].
    - rewrite puts_app, puts_save_names, (quiet_puts [x]) by apply quiet_new_pack. reflexivity.
  Qed.

  Theorem autopack_tip_after_names s x y plan clear t k :
    let s' := run (firstn k (autopack_prog ixs oixs x y (names s) plan clear t)) s in
    tip s' = tip s \/ (tip s' = t /\ names s' = remove_all plan (names s ++ [x; y])).
  Proof.
    unfold autopack_prog. rewrite app4. apply tip_after_names.
    - apply Forall_app; split; [apply notip_new_pack|].
      apply Forall_app; split; [apply notip_new_pack|].
      apply Forall_app; split; [apply notip_save_names | apply notip_obsolete].
    - rewrite (puts_app (new_pack ixs x)), (puts_app (new_pack ixs y)), (puts_app (save_names _ _)).
      rewrite puts_save_names, (quiet_puts [x]), (quiet_puts [y]), (quiet_puts plan);
        try apply quiet_new_pack; try apply quiet_obsolete. reflexivity.
  Qed.
End Tip.

(* the tip stays inside the listed revisions across a crash of a commit *)
Definition tip_ok (content : name -> list nat) (s : st) : Prop :=
  match tip s with None => True | Some r => In r (visible content s) end.

Theorem commit_tip_ok ixs content s x r k :
  tip_ok content s -> In r (content x) ->
  let s' := run (firstn k (commit_prog ixs x (names s) (Some r))) s in
  (names s' = names s \/ names s' = names s ++ [x]) -> tip_ok content s'.
Proof.
  intros Hok Hr s' Hn.
  destruct (commit_tip_after_names ixs s x (Some r) k) as [E|[E En]]; fold s' in E; unfold tip_ok.
  - rewrite E. unfold tip_ok in Hok. destruct (tip s) as [r0|]; [|exact I].
    unfold visible in *. destruct Hn as [->| ->]; [exact Hok|].
    rewrite flat_map_app. apply in_or_app; left; exact Hok.
  - fold s' in En. rewrite E. unfold visible. rewrite En, flat_map_app.
    apply in_or_app; right. cbn. rewrite app_nil_r. exact Hr.
Qed.

(* ---------- (4) the other order is wrong ---------- *)
Lemma obsolete_first_breaks ixs s p :
  In p (names s) -> lookup (files s) (F Packs p EPack) <> None ->
  ~ good ixs (step s (OMove (F Packs p EPack) (F Obsolete p EPack))).
Proof.
  intros Hin Hpres G.
  assert (Hn : In p (names (step s (OMove (F Packs p EPack) (F Obsolete p EPack)))))
    by (rewrite names_step; exact Hin).
  destruct (G p Hn) as [H _]. revert H.
  cbn [step]. destruct (lookup (files s) (F Packs p EPack)) eqn:E; [|contradiction].
  cbn [with_files files]. rewrite lookup_fset, file_eqb_neq by discriminate.
  rewrite lookup_fremove, file_eqb_refl. discriminate.
Qed.

Theorem reorder_breaks ixs oixs s y p rest :
  good ixs s -> In p (names s) -> ~ In y (names s) ->
  exists k, ~ good ixs (run (firstn k (bad_pack_prog ixs oixs y (names s) (p :: rest))) s).
Proof.
  intros G Hp Hy.
  exists (List.length (new_pack ixs y) + 1).
  unfold bad_pack_prog. rewrite firstn_app.
  rewrite firstn_all2 by lia.
  replace (List.length (new_pack ixs y) + 1 - List.length (new_pack ixs y)) with 1 by lia.
  rewrite run_app. cbn [flat_map obsolete_pack app firstn]. rewrite run_cons.
  change (run [] ?x) with x.
  set (s1 := run (new_pack ixs y) s).
  assert (Hn1 : names s1 = names s) by (apply (quiet_names [y]); apply quiet_new_pack).
  apply obsolete_first_breaks.
  - rewrite Hn1; exact Hp.
  - assert (C : complete_pack ixs s1 p).
    { apply (quiet_complete [y]); [apply quiet_new_pack | | apply G; exact Hp].
      intros [E|[]]; subst; exact (Hy Hp). }
    destruct C as [C _]. rewrite C; discriminate.
Qed.

(* listing a pack before it is moved into packs/ is wrong as well *)
Theorem list_before_move_breaks ixs s x :
  good ixs s -> lookup (files s) (F Packs x EPack) = None ->
  ~ good ixs (step s (OPutNames (names s ++ [x]))).
Proof.
  intros _ Habs G.
  destruct (G x) as [H _]; [cbn; apply in_or_app; right; left; reflexivity|].
  cbn in H. rewrite Habs in H; discriminate.
Qed.

(* a truncating write of pack-names has a crash point that lists neither the old nor the new packs *)
Theorem nonatomic_names_write_breaks s l :
  names s <> [] -> l <> [] ->
  exists k, let s' := run (firstn k (nonatomic_save_names l)) s in
            names s' <> names s /\ names s' <> l.
Proof.
  intros Hs Hl. exists 2. cbn. split; intro E; [apply Hs | apply Hl]; symmetry; exact E.
Qed.

(* ---------- the statements in the form "old or new" ---------- *)
Lemma txn_names_final Tn To pre l clear post s :
  quiet Tn pre -> quiet To post -> names (run (txn pre l clear post) s) = l.
Proof. intros H1 H2. apply names_run_oneput. eapply puts_txn; eassumption. Qed.

Section OldOrNew.
  Variables ixs oixs : list ext.
  Variable content : name -> list nat.

  Theorem commit_old_or_new s x t k :
    good ixs s -> ~ In x (names s) ->
    let p := commit_prog ixs x (names s) t in
    let s' := run (firstn k p) s in
    good ixs s' /\
    (visible content s' = visible content s \/ visible content s' = visible content (run p s)) /\
    visible content (run p s) = visible content s ++ content x.
  Proof.
    intros G Hx p s'.
    assert (Hf : names (run p s) = names s ++ [x]).
    { unfold p. rewrite commit_prog_txn. apply (txn_names_final [x] []); [apply quiet_new_pack | apply quiet_tip]. }
    destruct (commit_every_prefix ixs s x t k G Hx) as [G' Hn]. fold p in G', Hn. fold s' in G', Hn.
    split; [exact G'|]. split.
    - destruct Hn as [E|E]; [left | right]; apply visible_names; rewrite E; [reflexivity | symmetry; exact Hf].
    - unfold visible. rewrite Hf. apply visible_commit.
  Qed.

  Theorem autopack_old_or_new s x y plan clear t k :
    good ixs s -> ~ In x (names s) -> ~ In y (names s) -> x <> y -> ~ In y plan ->
    Forall (fun f => fdir f = Obsolete) clear ->
    incl plan (names s ++ [x]) ->
    (forall r, In r (content y) <-> exists p, In p plan /\ In r (content p)) ->
    let p := autopack_prog ixs oixs x y (names s) plan clear t in
    let s' := run (firstn k p) s in
    good ixs s' /\
    (visible content s' = visible content s \/ visible content s' = visible content (run p s)) /\
    (forall r, In r (visible content (run p s)) <-> In r (visible content s ++ content x)).
  Proof.
    intros G Hx Hy Hxy Hyp Hclear Hincl Hc p s'.
    assert (Hf : names (run p s) = remove_all plan (names s ++ [x; y])).
    { unfold p. rewrite autopack_prog_txn. apply (txn_names_final [x; y] plan).
      - apply quiet_app; [apply (quiet_mono [x]) | apply (quiet_mono [y])];
          try apply quiet_new_pack; intros n [<-|[]]; cbn; auto.
      - apply quiet_app; [apply quiet_obsolete | apply quiet_tip]. }
    destruct (autopack_every_prefix ixs oixs s x y plan clear t k G Hx Hy Hxy Hyp Hclear) as [G' Hn].
    fold p in G', Hn. fold s' in G', Hn.
    split; [exact G'|]. split.
    - destruct Hn as [E|E]; [left | right]; apply visible_names; rewrite E; [reflexivity | symmetry; exact Hf].
    - intro r. unfold visible. rewrite Hf.
      replace (names s ++ [x; y]) with ((names s ++ [x]) ++ [y]) by (rewrite <- app_assoc; reflexivity).
      rewrite (visible_repack content (names s ++ [x]) plan y Hincl Hyp Hc r).
      rewrite visible_commit. tauto.
  Qed.

  Theorem pack_old_or_new s y plan clear k :
    good ixs s -> ~ In y (names s) -> ~ In y plan ->
    Forall (fun f => fdir f = Obsolete) clear ->
    incl plan (names s) ->
    (forall r, In r (content y) <-> exists p, In p plan /\ In r (content p)) ->
    let p := pack_prog ixs oixs y (names s) plan clear in
    let s' := run (firstn k p) s in
    good ixs s' /\
    (visible content s' = visible content s \/ visible content s' = visible content (run p s)) /\
    (forall r, In r (visible content (run p s)) <-> In r (visible content s)).
  Proof.
    intros G Hy Hyp Hclear Hincl Hc p s'.
    assert (Hf : names (run p s) = remove_all plan (names s ++ [y])).
    { unfold p. rewrite pack_prog_txn. apply (txn_names_final [y] plan); [apply quiet_new_pack | apply quiet_obsolete]. }
    destruct (pack_every_prefix ixs oixs s y plan clear k G Hy Hyp Hclear) as [G' Hn].
    fold p in G', Hn. fold s' in G', Hn.
    split; [exact G'|]. split.
    - destruct Hn as [E|E]; [left | right]; apply visible_names; rewrite E; [reflexivity | symmetry; exact Hf].
    - intro r. unfold visible. rewrite Hf. apply (visible_repack content (names s) plan y Hincl Hyp Hc r).
  Qed.
End OldOrNew.

(* ---------- non-vacuity: a concrete history, every crash prefix evaluated ---------- *)
Definition demo_ixs := ixs_of true.
Definition demo_s1 : st := run (commit_prog demo_ixs 0 [] None) empty_st.
Definition demo_s2 : st := run (commit_prog demo_ixs 1 [0] (Some 1)) demo_s1.
Definition demo_autopack : list op :=
  autopack_prog demo_ixs (oixs_of true) 2 3 [0; 1] [0; 1; 2] [] (Some 2).
Lemma demo_names : names demo_s2 = [0; 1].
Proof. vm_compute. reflexivity. Qed.
Example demo_good : good demo_ixs demo_s2.
Proof. apply goodb_spec. vm_compute. reflexivity. Qed.
Example demo_autopack_hyps :
  ~ In 2 (names demo_s2) /\ ~ In 3 (names demo_s2) /\ 2 <> 3 /\ ~ In 3 [0; 1; 2] /\
  incl [0; 1; 2] (names demo_s2 ++ [2]) /\ ok_run demo_ixs demo_s2 demo_autopack /\
  List.length demo_autopack = 48.
Proof.
  rewrite demo_names.
  split; [intros [H|[H|[]]]; discriminate|].
  split; [intros [H|[H|[]]]; discriminate|].
  split; [discriminate|].
  split; [intros [H|[H|[H|[]]]]; discriminate|].
  split; [intros n [<-|[<-|[<-|[]]]]; cbn; auto|].
  split; [apply ok_runb_spec; vm_compute; reflexivity | vm_compute; reflexivity].
Qed.
Example demo_bad_order_detected :
  ok_runb demo_ixs demo_s2 (bad_pack_prog demo_ixs (oixs_of true) 2 [0; 1] [0; 1]) = false.
Proof. vm_compute. reflexivity. Qed.
