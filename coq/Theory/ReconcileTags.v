(* Theory/ReconcileTags.v -- facts about Gen.ReconcileTags.reconcile_tags, the
   Gallina function regenerated on every run from breezy/tag.py:_reconcile_tags.

   Only [body_spec] looks inside the generated term: it shows that one loop
   iteration is the decision table [step_spec].  Everything else is proved
   from that table by induction over the (unbounded) source dict. *)
From Coq Require Import List Bool Permutation.
From BV Require Import Lib.PyDict Gen.ReconcileTags Theory.PyDictFacts.
Import ListNotations.

Section Reconcile.
Variables K V : Type.
Variable K_eqb : K -> K -> bool.
Variable V_eqb : V -> V -> bool.
Hypothesis K_eqb_spec : forall x y, K_eqb x y = true <-> x = y.
Hypothesis V_eqb_spec : forall x y, V_eqb x y = true <-> x = y.

Notation get := (dict_get K_eqb).
Notation set := (dict_set K_eqb).

Definition sel_ok (sel : option (K -> bool)) (n : K) : bool :=
  match sel with None => true | Some f => f n end.

Definition state : Type := (dict K V * dict K V * list (K * V * option V))%type.
Definition res (st : state) : dict K V := fst (fst st).
Definition upd (st : state) : dict K V := snd (fst st).
Definition cfl (st : state) : list (K * V * option V) := snd st.

(* one iteration as a decision table *)
Definition step_spec (ov : bool) (sel : option (K -> bool)) (st : state) (kv : K * V) : state :=
  let '(r, u, c) := st in
  let '(k, v) := kv in
  if sel_ok sel k then
    match get r k with
    | None => (set r k v, set u k v, c)
    | Some w => if V_eqb w v then (r, u, c)
                else if ov then (set r k v, set u k v, c)
                else (r, u, c ++ [(k, v, Some w)])
    end
  else (r, u, c).

(* THE link to the generated code *)
Lemma body_spec dd ov sel st kv :
  reconcile_tags_body K V K_eqb V_eqb dd ov sel st kv = step_spec ov sel st kv.
Proof.
  destruct st as [[r u] c], kv as [k v], sel as [f|];
    cbv beta iota zeta delta [reconcile_tags_body step_spec sel_ok dict_mem];
    try destruct (f k);
    destruct (get r k) as [w|];
    cbv beta iota zeta delta [opt_eqb negb orb andb];
    try destruct (V_eqb w v); destruct ov; reflexivity.
Qed.

Lemma fold_body_spec dd ov sel l st :
  fold_left (reconcile_tags_body K V K_eqb V_eqb dd ov sel) l st = fold_left (step_spec ov sel) l st.
Proof.
  revert st; induction l as [|kv l IH]; intros st; cbn [fold_left]; [reflexivity|].
  rewrite body_spec. apply IH.
Qed.

(* ---- what the table does to one key --------------------------------- *)
Definition point (ov : bool) (v : V) (old : option V) : option V :=
  match old with
  | None => Some v
  | Some w => if V_eqb w v then Some w else if ov then Some v else Some w
  end.
Definition changes (ov : bool) (v : V) (old : option V) : bool :=
  match old with None => true | Some w => negb (V_eqb w v) && ov end.
Definition conflicting (ov : bool) (v : V) (old : option V) : bool :=
  match old with None => false | Some w => negb (V_eqb w v) && negb ov end.
Definition cfl_of (ov : bool) (sel : option (K -> bool)) (r : dict K V) (kv : K * V) : list (K * V * option V) :=
  if sel_ok sel (fst kv) && conflicting ov (snd kv) (get r (fst kv))
  then [(fst kv, snd kv, get r (fst kv))] else [].

Section Step.
Variable ov : bool.
Variable sel : option (K -> bool).

Lemma step_res_other st k v n : n <> k -> get (res (step_spec ov sel st (k, v))) n = get (res st) n.
Proof.
  intros Hn. destruct st as [[r u] c]. unfold step_spec, res. cbn [fst snd].
  destruct (sel_ok sel k); [|reflexivity].
  destruct (get r k) as [w|]; [destruct (V_eqb w v); [reflexivity|destruct ov; [|reflexivity]]|];
    cbn [fst snd]; apply (get_set_other K V K_eqb K_eqb_spec); exact Hn.
Qed.

Lemma step_upd_other st k v n : n <> k -> get (upd (step_spec ov sel st (k, v))) n = get (upd st) n.
Proof.
  intros Hn. destruct st as [[r u] c]. unfold step_spec, upd. cbn [fst snd].
  destruct (sel_ok sel k); [|reflexivity].
  destruct (get r k) as [w|]; [destruct (V_eqb w v); [reflexivity|destruct ov; [|reflexivity]]|];
    cbn [fst snd]; apply (get_set_other K V K_eqb K_eqb_spec); exact Hn.
Qed.

Lemma step_res_same st k v :
  get (res (step_spec ov sel st (k, v))) k
  = if sel_ok sel k then point ov v (get (res st) k) else get (res st) k.
Proof.
  destruct st as [[r u] c]. unfold step_spec, res, point. cbn [fst snd].
  destruct (sel_ok sel k); [|reflexivity].
  destruct (get r k) as [w|] eqn:G;
    [destruct (V_eqb w v); [exact G|destruct ov; [|exact G]]|];
    cbn [fst snd]; apply (get_set_same K V K_eqb K_eqb_spec).
Qed.

Lemma step_upd_same st k v :
  get (upd (step_spec ov sel st (k, v))) k
  = if sel_ok sel k && changes ov v (get (res st) k) then Some v else get (upd st) k.
Proof.
  destruct st as [[r u] c]. unfold step_spec, res, upd, changes. cbn [fst snd].
  destruct (sel_ok sel k); [|reflexivity]. cbn [andb].
  destruct (get r k) as [w|];
    [destruct (V_eqb w v); [reflexivity|destruct ov; [|reflexivity]]|];
    cbn [fst snd negb andb]; apply (get_set_same K V K_eqb K_eqb_spec).
Qed.

Lemma step_cfl st kv : cfl (step_spec ov sel st kv) = cfl st ++ cfl_of ov sel (res st) kv.
Proof.
  destruct st as [[r u] c], kv as [k v]. unfold step_spec, cfl_of, cfl, res, conflicting. cbn [fst snd].
  destruct (sel_ok sel k); cbn [andb]; [|rewrite app_nil_r; reflexivity].
  destruct (get r k) as [w|]; [|rewrite app_nil_r; reflexivity].
  destruct (V_eqb w v); cbn [negb andb]; [rewrite app_nil_r; reflexivity|].
  destruct ov; cbn [negb]; [rewrite app_nil_r; reflexivity|reflexivity].
Qed.

Lemma step_nodup st kv :
  NoDup (map fst (res st)) -> NoDup (map fst (upd st)) ->
  NoDup (map fst (res (step_spec ov sel st kv))) /\ NoDup (map fst (upd (step_spec ov sel st kv))).
Proof.
  destruct st as [[r u] c], kv as [k v]. unfold step_spec, res, upd. cbn [fst snd]. intros Hr Hu.
  destruct (sel_ok sel k); [|split; assumption].
  destruct (get r k) as [w|]; [destruct (V_eqb w v); [split; assumption|destruct ov; [|split; assumption]]|];
    cbn [fst snd]; split; apply (NoDup_set K V K_eqb K_eqb_spec); assumption.
Qed.

(* ---- the whole loop: any source dict with pairwise different keys ---- *)
Notation F := (fold_left (step_spec ov sel)).

Lemma fold_res l : forall st n, NoDup (map fst l) ->
  get (res (F l st)) n =
  match get l n with
  | Some v => if sel_ok sel n then point ov v (get (res st) n) else get (res st) n
  | None => get (res st) n
  end.
Proof.
  induction l as [|[k v] l IH]; intros st n Hnd; cbn [fold_left dict_get]; [reflexivity|].
  cbn [map fst] in Hnd. inversion Hnd as [|? ? Hk Hnd']; subst.
  rewrite (IH _ _ Hnd').
  destruct (K_eqb n k) eqn:E.
  - apply K_eqb_spec in E; subst n.
    assert (G : get l k = None) by (apply (get_none_keys K V K_eqb K_eqb_spec); exact Hk).
    rewrite G. apply step_res_same.
  - assert (Hn : n <> k) by (intros ->; rewrite (K_eqb_refl K K_eqb K_eqb_spec) in E; discriminate).
    rewrite (step_res_other st k v n Hn). reflexivity.
Qed.

Lemma fold_upd l : forall st n, NoDup (map fst l) ->
  get (upd (F l st)) n =
  match get l n with
  | Some v => if sel_ok sel n && changes ov v (get (res st) n) then Some v else get (upd st) n
  | None => get (upd st) n
  end.
Proof.
  induction l as [|[k v] l IH]; intros st n Hnd; cbn [fold_left dict_get]; [reflexivity|].
  cbn [map fst] in Hnd. inversion Hnd as [|? ? Hk Hnd']; subst.
  rewrite (IH _ _ Hnd').
  destruct (K_eqb n k) eqn:E.
  - apply K_eqb_spec in E; subst n.
    assert (G : get l k = None) by (apply (get_none_keys K V K_eqb K_eqb_spec); exact Hk).
    rewrite G. apply step_upd_same.
  - assert (Hn : n <> k) by (intros ->; rewrite (K_eqb_refl K K_eqb K_eqb_spec) in E; discriminate).
    rewrite (step_res_other st k v n Hn), (step_upd_other st k v n Hn). reflexivity.
Qed.

Lemma cfl_of_ext r r' l :
  (forall kv, In kv l -> get r' (fst kv) = get r (fst kv)) ->
  flat_map (cfl_of ov sel r') l = flat_map (cfl_of ov sel r) l.
Proof.
  induction l as [|kv l IH]; intros H; cbn [flat_map]; [reflexivity|].
  rewrite IH by (intros kv' Hin; apply H; right; exact Hin).
  unfold cfl_of. rewrite (H kv (or_introl eq_refl)). reflexivity.
Qed.

Lemma fold_cfl l : forall st, NoDup (map fst l) ->
  cfl (F l st) = cfl st ++ flat_map (cfl_of ov sel (res st)) l.
Proof.
  induction l as [|[k v] l IH]; intros st Hnd; cbn [fold_left flat_map]; [rewrite app_nil_r; reflexivity|].
  cbn [map fst] in Hnd. inversion Hnd as [|? ? Hk Hnd']; subst.
  rewrite (IH _ Hnd'), step_cfl, <- app_assoc. f_equal. f_equal.
  apply cfl_of_ext. intros [k' v'] Hin. cbn [fst]. apply step_res_other.
  intros ->. apply Hk. apply in_map_iff. exists (k, v'); split; [reflexivity|exact Hin].
Qed.

Lemma fold_nodup l : forall st,
  NoDup (map fst (res st)) -> NoDup (map fst (upd st)) ->
  NoDup (map fst (res (F l st))) /\ NoDup (map fst (upd (F l st))).
Proof.
  induction l as [|kv l IH]; intros st Hr Hu; cbn [fold_left]; [split; assumption|].
  destruct (step_nodup st kv Hr Hu) as [Hr' Hu']. apply IH; assumption.
Qed.
End Step.

(* ====================================================================== *)
(* the generated function itself                                           *)
(* ====================================================================== *)
Section Main.
Variables src dst : dict K V.
Variable ov : bool.
Variable sel : option (K -> bool).
Hypothesis src_nodup : NoDup (map fst src).

Notation out := (reconcile_tags K V K_eqb V_eqb src dst ov sel).

Lemma out_fold : out = fold_left (step_spec ov sel) src (dst, [], []).
Proof. unfold reconcile_tags. apply fold_body_spec. Qed.

Theorem reconcile_result_spec n :
  get (res out) n =
  match get src n with
  | Some v => if sel_ok sel n then point ov v (get dst n) else get dst n
  | None => get dst n
  end.
Proof. rewrite out_fold, (fold_res ov sel src _ n src_nodup). reflexivity. Qed.

Theorem reconcile_updates_spec n :
  get (upd out) n =
  match get src n with
  | Some v => if sel_ok sel n && changes ov v (get dst n) then Some v else None
  | None => None
  end.
Proof. rewrite out_fold, (fold_upd ov sel src _ n src_nodup). reflexivity. Qed.

Theorem reconcile_conflicts_spec : cfl out = flat_map (cfl_of ov sel dst) src.
Proof. rewrite out_fold, (fold_cfl ov sel src _ src_nodup). reflexivity. Qed.

Theorem reconcile_nodup :
  NoDup (map fst dst) -> NoDup (map fst (res out)) /\ NoDup (map fst (upd out)).
Proof. intros Hd. rewrite out_fold. apply fold_nodup; [exact Hd|constructor]. Qed.

Lemma V_eqb_refl v : V_eqb v v = true.
Proof. apply V_eqb_spec; reflexivity. Qed.
Lemma V_eqb_neq x y : x <> y -> V_eqb x y = false.
Proof. intros H. destruct (V_eqb x y) eqn:E; [apply V_eqb_spec in E; contradiction|reflexivity]. Qed.

(* membership in the conflict list, exactly *)
Theorem conflicts_exact n v o :
  In (n, v, o) (cfl out) <->
  get src n = Some v /\ sel_ok sel n = true /\ ov = false /\
  exists w, o = Some w /\ get dst n = Some w /\ w <> v.
Proof.
  rewrite reconcile_conflicts_spec, in_flat_map. split.
  - intros [[k v'] [Hin Hc]]. unfold cfl_of in Hc. cbn [fst snd] in Hc.
    destruct (sel_ok sel k) eqn:Es; cbn [andb] in Hc; [|contradiction].
    unfold conflicting in Hc. destruct (get dst k) as [w|] eqn:G; [|contradiction].
    destruct (V_eqb w v') eqn:Ev; cbn [negb andb] in Hc; [contradiction|].
    destruct ov; cbn [negb] in Hc; [contradiction|].
    destruct Hc as [Hc|[]]. inversion Hc; subst.
    split; [apply (in_get K V K_eqb K_eqb_spec); assumption|].
    split; [exact Es|]. split; [reflexivity|].
    exists w. split; [reflexivity|]. split; [exact G|].
    intros ->. rewrite V_eqb_refl in Ev; discriminate.
  - intros [Hs [Es [Ho [w [-> [G Hne]]]]]].
    exists (n, v). split; [apply (get_some_in K V K_eqb K_eqb_spec); exact Hs|].
    unfold cfl_of. cbn [fst snd]. rewrite Es, G. unfold conflicting.
    rewrite (V_eqb_neq _ _ Hne), Ho. cbn [negb andb]. left; reflexivity.
Qed.

Theorem updates_exact n v :
  get (upd out) n = Some v <->
  get src n = Some v /\ sel_ok sel n = true /\ get dst n <> Some v /\ (get dst n = None \/ ov = true).
Proof.
  rewrite reconcile_updates_spec. split.
  - destruct (get src n) as [v'|]; [|discriminate].
    destruct (sel_ok sel n); cbn [andb]; [|discriminate].
    unfold changes. destruct (get dst n) as [w|].
    + destruct (V_eqb w v') eqn:Ev; cbn [negb andb]; [discriminate|].
      destruct ov; [|discriminate]. intros H; inversion H; subst.
      repeat split; [|right; reflexivity].
      intros Hw; inversion Hw; subst. rewrite V_eqb_refl in Ev; discriminate.
    + intros H; inversion H; subst. repeat split; [discriminate|left; reflexivity].
  - intros [-> [-> [Hne Hor]]]. cbn [andb]. unfold changes.
    destruct (get dst n) as [w|].
    + destruct Hor as [Hor | ->]; [discriminate|].
      rewrite V_eqb_neq by (intros ->; apply Hne; reflexivity). reflexivity.
    + reflexivity.
Qed.

End Main.
End Reconcile.
