(* Theory/DirectiveRio.v -- the RIO-patch layer of the merge-directive codec (C40):
   read_patch_stanza (to_patch_lines st ++ blank line :: rest) = (st, rest) under the
   executable guard stanza_ok. *)
From Coq Require Import String Ascii ZArith NArith List Bool Lia.
From BV Require Import Lib.Bytes Lib.Obs Model.OsUtils Model.Directive.
Import ListNotations.
Open Scope N_scope.

(* ------------------------------------------------------------------ *)
(* 0. small list facts                                                 *)
(* ------------------------------------------------------------------ *)
Lemma memb_app c (a b : bytes) : memb c (a ++ b) = memb c a || memb c b.
Proof. unfold memb. apply existsb_app. Qed.
Lemma memb_cons c x (l : bytes) : memb c (x :: l) = (c =? x) || memb c l.
Proof. reflexivity. Qed.

Lemma ends_with_app_last c (s : bytes) x : ends_with c (s ++ [x]) = (x =? c).
Proof. unfold ends_with. rewrite rev_app_distr. reflexivity. Qed.

Lemma ends_with_absent c (s : bytes) : memb c s = false -> ends_with c s = false.
Proof.
  unfold ends_with. intros H.
  destruct (rev s) as [|x r] eqn:E; [reflexivity|].
  assert (Hin : In x s) by (apply in_rev; rewrite E; left; reflexivity).
  destruct (x =? c) eqn:Ex; [|reflexivity].
  apply N.eqb_eq in Ex. subst x.
  exfalso. unfold memb in H.
  assert (existsb (N.eqb c) s = true) by (apply existsb_exists; exists c; split; [exact Hin|apply N.eqb_refl]).
  congruence.
Qed.

(* ------------------------------------------------------------------ *)
(* 1. escaping                                                         *)
(* ------------------------------------------------------------------ *)
Lemma esc_cr_app a b : esc_cr (a ++ b) = esc_cr a ++ esc_cr b.
Proof. unfold esc_cr. apply flat_map_app. Qed.
Lemma esc_bs_app a b : esc_bs (a ++ b) = esc_bs a ++ esc_bs b.
Proof. unfold esc_bs. apply flat_map_app. Qed.

Lemma esc_bs_id s : memb BSL s = false -> esc_bs s = s.
Proof.
  induction s as [|c s IH]; [reflexivity|].
  rewrite memb_cons. intros H. apply orb_false_iff in H. destruct H as [Hc Hs].
  change (esc_bs (c :: s)) with ((if c =? BSL then [BSL; BSL] else [c]) ++ esc_bs s).
  rewrite N.eqb_sym in Hc. rewrite Hc. cbn [app]. f_equal. apply IH. exact Hs.
Qed.

Lemma esc_cr_no_cr s : memb CR (esc_cr s) = false.
Proof.
  induction s as [|c s IH]; [reflexivity|].
  change (esc_cr (c :: s)) with ((if c =? CR then [BSL; LOWER_R] else [c]) ++ esc_cr s).
  rewrite memb_app, IH, orb_false_r.
  destruct (c =? CR) eqn:E; [reflexivity|].
  rewrite memb_cons, N.eqb_sym, E. reflexivity.
Qed.

Lemma esc_cr_lf s : memb LF (esc_cr s) = memb LF s.
Proof.
  induction s as [|c s IH]; [reflexivity|].
  change (esc_cr (c :: s)) with ((if c =? CR then [BSL; LOWER_R] else [c]) ++ esc_cr s).
  rewrite memb_app, IH, memb_cons.
  destruct (c =? CR) eqn:E.
  - apply N.eqb_eq in E. subst c. reflexivity.
  - rewrite memb_cons. change (memb LF []) with false. rewrite orb_false_r. reflexivity.
Qed.

Lemma esc_cr_ends_sp s : ends_with SP (esc_cr s) = ends_with SP s.
Proof.
  destruct s as [|c s] using rev_ind; [reflexivity|].
  rewrite esc_cr_app, ends_with_app_last.
  change (esc_cr [c]) with ((if c =? CR then [BSL; LOWER_R] else [c]) ++ []).
  rewrite app_nil_r.
  destruct (c =? CR) eqn:E.
  - apply N.eqb_eq in E. subst c.
    change (esc_cr s ++ [BSL; LOWER_R]) with (esc_cr s ++ [BSL] ++ [LOWER_R]).
    rewrite app_assoc, ends_with_app_last. reflexivity.
  - rewrite ends_with_app_last. reflexivity.
Qed.

(* the reader's unescape undoes both escapes, whatever follows *)
Lemma unescape_esc x : forall tail,
  unescape (esc_cr (esc_bs x) ++ tail) = x ++ unescape tail.
Proof.
  induction x as [|c x IH]; intros tail; [reflexivity|].
  change (esc_bs (c :: x)) with ((if c =? BSL then [BSL; BSL] else [c]) ++ esc_bs x).
  rewrite esc_cr_app, <- app_assoc.
  destruct (c =? BSL) eqn:Eb.
  - apply N.eqb_eq in Eb. subst c.
    change (esc_cr [BSL; BSL]) with [BSL; BSL]. cbn [app].
    cbn [unescape]. change (BSL =? BSL) with true. cbn iota. rewrite IH. reflexivity.
  - destruct (c =? CR) eqn:Ec.
    + apply N.eqb_eq in Ec. subst c.
      change (esc_cr [CR]) with [BSL; LOWER_R]. cbn [app].
      cbn [unescape]. change (BSL =? BSL) with true. cbn iota.
      change (LOWER_R =? BSL) with false. change (LOWER_R =? LOWER_R) with true. cbn iota.
      rewrite IH. reflexivity.
    + assert (He : esc_cr [c] = [c]).
      { unfold esc_cr. cbn [flat_map]. rewrite Ec. reflexivity. }
      rewrite He. cbn [app]. cbn [unescape]. rewrite Eb. rewrite IH. reflexivity.
Qed.

Lemma unescape_nobs p tail : memb BSL p = false ->
  unescape (esc_cr p ++ tail) = p ++ unescape tail.
Proof. intros H. rewrite <- (esc_bs_id p H) at 1. apply unescape_esc. Qed.

(* ------------------------------------------------------------------ *)
(* 2. one physical line                                                *)
(* ------------------------------------------------------------------ *)
Lemma crlf_end_bsl_lf x : crlf_end (x ++ [BSL; LF]) = x ++ [BSL; LF].
Proof.
  unfold crlf_end. rewrite rev_app_distr. cbn [rev app].
  change ((LF =? LF) && (BSL =? CR)) with false. reflexivity.
Qed.

Lemma crlf_end_lf x : memb CR x = false -> crlf_end (x ++ [LF]) = x ++ [LF].
Proof.
  intros H. unfold crlf_end. rewrite rev_app_distr. cbn [rev app].
  destruct (rev x) as [|b r] eqn:E; [reflexivity|].
  assert (Hb : ends_with CR x = false) by (apply ends_with_absent; exact H).
  unfold ends_with in Hb. rewrite E in Hb. rewrite N.eqb_refl, Hb. reflexivity.
Qed.

(* a continued physical line gives back its piece *)
Lemma decode_cont_first p :
  decode_phys false (HASH :: SP :: esc_cr (esc_bs p) ++ [BSL; LF]) = Some p.
Proof.
  unfold decode_phys. cbn [strip_hash]. change (HASH =? HASH) with true. change (SP =? SP) with true.
  cbn iota. cbn [andb]. rewrite crlf_end_bsl_lf, unescape_esc.
  change (unescape [BSL; LF]) with (@nil N). rewrite app_nil_r. reflexivity.
Qed.

Lemma decode_last_first p :
  decode_phys false (HASH :: SP :: esc_cr (esc_bs p) ++ [LF]) = Some (p ++ [LF]).
Proof.
  unfold decode_phys. cbn [strip_hash]. change (HASH =? HASH) with true. change (SP =? SP) with true.
  cbn iota. cbn [andb]. rewrite crlf_end_lf by apply esc_cr_no_cr. rewrite unescape_esc. reflexivity.
Qed.

Lemma length_ge3 {A} (a b : A) (l s : list A) : s <> [] -> (2 <? length (a :: b :: l ++ s))%nat = true.
Proof.
  intros H. apply Nat.ltb_lt. cbn [length]. rewrite app_length.
  destruct s; [congruence|]. cbn [length]. lia.
Qed.

Lemma decode_cont_cont p : memb BSL p = false ->
  decode_phys true (HASH :: SP :: esc_cr (SP :: SP :: p) ++ [BSL; LF]) = Some p.
Proof.
  intros H. unfold decode_phys. cbn [strip_hash]. change (HASH =? HASH) with true. change (SP =? SP) with true.
  cbn iota. change (esc_cr (SP :: SP :: p)) with (SP :: SP :: esc_cr p). cbn [app].
  rewrite length_ge3 by discriminate. cbn [andb skipn].
  rewrite crlf_end_bsl_lf, unescape_nobs by exact H.
  change (unescape [BSL; LF]) with (@nil N). rewrite app_nil_r. reflexivity.
Qed.

Lemma decode_last_cont p : memb BSL p = false ->
  decode_phys true (HASH :: SP :: esc_cr (SP :: SP :: p) ++ [LF]) = Some (p ++ [LF]).
Proof.
  intros H. unfold decode_phys. cbn [strip_hash]. change (HASH =? HASH) with true. change (SP =? SP) with true.
  cbn iota. change (esc_cr (SP :: SP :: p)) with (SP :: SP :: esc_cr p). cbn [app].
  rewrite length_ge3 by discriminate. cbn [andb skipn].
  rewrite crlf_end_lf by apply esc_cr_no_cr. rewrite unescape_nobs by exact H. reflexivity.
Qed.

Lemma decode_blank : decode_phys true BLANK_CONT = Some [LF].
Proof. reflexivity. Qed.

(* ------------------------------------------------------------------ *)
(* 3. split_piece                                                      *)
(* ------------------------------------------------------------------ *)
Lemma split_piece_spec line part rest :
  split_piece line = (part, rest) ->
  part ++ rest = line /\
  (rest <> [] -> (3 <= length part)%nat) /\
  (rest = [] -> part = line).
Proof.
  unfold split_piece.
  assert (Hpr : firstn MAX_RIO_WIDTH line ++ skipn MAX_RIO_WIDTH line = line) by apply firstn_skipn.
  assert (Hlen : skipn MAX_RIO_WIDTH line <> [] -> length (firstn MAX_RIO_WIDTH line) = MAX_RIO_WIDTH).
  { intros Hs. apply firstn_length_le.
    destruct (le_lt_dec MAX_RIO_WIDTH (length line)) as [Hl|Hl]; [exact Hl|].
    rewrite skipn_all2 in Hs by lia. congruence. }
  set (part0 := firstn MAX_RIO_WIDTH line) in *. set (rest0 := skipn MAX_RIO_WIDTH line) in *.
  clearbody part0 rest0. intros H.
  destruct rest0 as [|r0 rs].
  - assert (part = part0 /\ rest = []) as [-> ->] by (split; congruence).
    rewrite app_nil_r in *. subst part0. split; [reflexivity|]. split; [congruence|reflexivity].
  - assert (Hl : length part0 = MAX_RIO_WIDTH) by (apply Hlen; discriminate).
    destruct (3 <=? break_index part0)%Z eqn:Eb.
    + assert (part = firstn (Z.to_nat (break_index part0)) part0 /\
              rest = skipn (Z.to_nat (break_index part0)) part0 ++ r0 :: rs) as [-> ->] by (split; congruence).
      apply Z.leb_le in Eb. split; [|split].
      * rewrite app_assoc, firstn_skipn. exact Hpr.
      * intros _. rewrite firstn_length, Hl. unfold MAX_RIO_WIDTH. lia.
      * intros Hn. apply app_eq_nil in Hn. destruct Hn; discriminate.
    + assert (part = part0 /\ rest = r0 :: rs) as [-> ->] by (split; congruence).
      split; [exact Hpr|]. split; [|discriminate].
      intros _. rewrite Hl. unfold MAX_RIO_WIDTH. lia.
Qed.

(* ------------------------------------------------------------------ *)
(* 4. the wrap loop read back                                          *)
(* ------------------------------------------------------------------ *)
Definition last_ok (last : option bytes) (line : bytes) : Prop :=
  match last with
  | Some acc => memb LF acc = false /\ exists r, line = SP :: SP :: r
  | None => True
  end.
Definition rebuilt (last : option bytes) (line : bytes) : bytes :=
  match last with Some acc => acc ++ skipn 2 line | None => line end.

Lemma prefix_two_sp (part rest r : bytes) :
  part ++ rest = SP :: SP :: r -> (2 <= length part)%nat ->
  exists p', part = SP :: SP :: p' /\ r = p' ++ rest.
Proof.
  intros H Hl. destruct part as [|a [|b p']]; cbn [length] in Hl; try lia.
  cbn [app] in H. injection H as -> -> <-. exists p'. split; reflexivity.
Qed.

Lemma wrap_loop_read : forall fuel line last more,
  (length line < fuel)%nat -> line <> [] ->
  memb LF line = false -> memb BSL line = false -> last_ok last line ->
  patch_next last (wrap_loop fuel line ++ more) = Some (ROk (rebuilt last line ++ [LF]), more).
Proof.
  induction fuel as [|f IH]; intros line last more Hfuel Hne Hlf Hbs Hlast; [lia|].
  destruct line as [|c0 l0] eqn:El; [congruence|]. rewrite <- El in *. clear Hne.
  assert (Hw : wrap_loop (S f) line =
               let (part, rest) := split_piece line in
               let p := esc_cr part in
               match rest with
               | _ :: _ => (HASH :: SP :: p ++ [BSL; LF]) :: wrap_loop f (SP :: SP :: rest)
               | [] => if ends_with SP p
                       then [HASH :: SP :: p ++ [BSL; LF]; BLANK_CONT]
                       else [HASH :: SP :: p ++ [LF]]
               end) by (rewrite El; reflexivity).
  rewrite Hw. clear Hw.
  destruct (split_piece line) as [part rest] eqn:Esp.
  destruct (split_piece_spec _ _ _ Esp) as [Happ [Hlen3 Hall]].
  assert (Hlf_part : memb LF part = false /\ memb LF rest = false).
  { rewrite <- Happ, memb_app in Hlf. apply orb_false_iff in Hlf. exact Hlf. }
  assert (Hbs_part : memb BSL part = false /\ memb BSL rest = false).
  { rewrite <- Happ, memb_app in Hbs. apply orb_false_iff in Hbs. exact Hbs. }
  destruct Hlf_part as [Hlfp Hlfr]. destruct Hbs_part as [Hbsp Hbsr].
  cbv zeta.
  destruct last as [acc|].
  - (* a continuation line: line = "  " ++ r *)
    destruct Hlast as [Hacc [r Hr]].
    assert (Hl2 : (2 <= length part)%nat).
    { destruct rest as [|r0 rs].
      - rewrite (Hall eq_refl), Hr. cbn [length]. lia.
      - assert (3 <= length part)%nat by (apply Hlen3; discriminate). lia. }
    rewrite Hr in Happ.
    destruct (prefix_two_sp _ _ _ Happ Hl2) as [p' [Hp' Hrr]]. subst part.
    assert (Hbsp' : memb BSL p' = false).
    { rewrite !memb_cons in Hbsp. apply orb_false_iff in Hbsp. destruct Hbsp as [_ Hbsp].
      apply orb_false_iff in Hbsp. apply Hbsp. }
    assert (Hlfp' : memb LF p' = false).
    { rewrite !memb_cons in Hlfp. apply orb_false_iff in Hlfp. destruct Hlfp as [_ Hlfp].
      apply orb_false_iff in Hlfp. apply Hlfp. }
    unfold rebuilt. rewrite Hr. cbn [skipn]. rewrite Hrr.
    destruct rest as [|r0 rs].
    + (* last piece *)
      rewrite app_nil_r.
      destruct (ends_with SP (esc_cr (SP :: SP :: p'))) eqn:Esp2.
      * cbn [app patch_next]. rewrite decode_cont_cont by exact Hbsp'.
        rewrite ends_with_absent by (rewrite memb_app, Hacc, Hlfp'; reflexivity).
        rewrite decode_blank. rewrite ends_with_app_last. rewrite N.eqb_refl.
        rewrite <- app_assoc. reflexivity.
      * cbn [app patch_next]. rewrite decode_last_cont by exact Hbsp'.
        rewrite app_assoc, ends_with_app_last, N.eqb_refl. reflexivity.
    + cbn [app patch_next]. rewrite decode_cont_cont by exact Hbsp'.
      rewrite ends_with_absent by (rewrite memb_app, Hacc, Hlfp'; reflexivity).
      etransitivity.
      { apply (IH (SP :: SP :: r0 :: rs) (Some (acc ++ p')) more).
        - assert (length ((SP :: SP :: p') ++ r0 :: rs) = length line) by (rewrite Happ, Hr; reflexivity).
          assert (3 <= length (SP :: SP :: p'))%nat by (apply Hlen3; discriminate).
          rewrite app_length in H. cbn [length] in *. lia.
        - discriminate.
        - rewrite !memb_cons. change (LF =? SP) with false. cbn [orb]. exact Hlfr.
        - rewrite !memb_cons. change (BSL =? SP) with false. cbn [orb]. exact Hbsr.
        - split; [rewrite memb_app, Hacc, Hlfp'; reflexivity|]. eexists. reflexivity. }
      unfold rebuilt. cbn [skipn]. rewrite <- !app_assoc. reflexivity.
  - (* the first physical line of a logical line *)
    unfold rebuilt. rewrite <- Happ.
    assert (He : esc_cr part = esc_cr (esc_bs part)) by (rewrite (esc_bs_id part Hbsp); reflexivity).
    rewrite He. clear He.
    destruct rest as [|r0 rs].
    + rewrite app_nil_r.
      destruct (ends_with SP (esc_cr (esc_bs part))) eqn:Esp2.
      * cbn [app patch_next]. rewrite decode_cont_first.
        rewrite ends_with_absent by exact Hlfp.
        rewrite decode_blank. rewrite ends_with_app_last. rewrite N.eqb_refl. reflexivity.
      * cbn [app patch_next]. rewrite decode_last_first.
        rewrite ends_with_app_last, N.eqb_refl. reflexivity.
    + cbn [app patch_next]. rewrite decode_cont_first.
      rewrite ends_with_absent by exact Hlfp.
      etransitivity.
      { apply (IH (SP :: SP :: r0 :: rs) (Some part) more).
        - assert (3 <= length part)%nat by (apply Hlen3; discriminate).
          assert (length (part ++ r0 :: rs) = length line) by (rewrite Happ; reflexivity).
          rewrite app_length in H0. cbn [length] in *. lia.
        - discriminate.
        - rewrite !memb_cons. change (LF =? SP) with false. cbn [orb]. exact Hlfr.
        - rewrite !memb_cons. change (BSL =? SP) with false. cbn [orb]. exact Hbsr.
        - split; [exact Hlfp|]. eexists. reflexivity. }
      unfold rebuilt. cbn [skipn]. rewrite <- app_assoc. reflexivity.
Qed.

(* a body that fits one physical line may contain backslashes *)
Lemma wrap_single_read x more :
  x <> [] -> memb LF x = false -> (length (esc_bs x) <= MAX_RIO_WIDTH)%nat ->
  patch_next None (wrap_body x ++ more) = Some (ROk (x ++ [LF]), more).
Proof.
  intros Hne Hlf Hlen. unfold wrap_body.
  assert (Hne' : esc_bs x <> []).
  { destruct x as [|c x]; [congruence|].
    change (esc_bs (c :: x)) with ((if c =? BSL then [BSL; BSL] else [c]) ++ esc_bs x).
    destruct (c =? BSL); discriminate. }
  destruct (esc_bs x) as [|e0 es] eqn:Ee; [congruence|]. rewrite <- Ee in *.
  assert (Hw : wrap_loop (S (length (esc_bs x))) (esc_bs x) =
               let (part, rest) := split_piece (esc_bs x) in
               let p := esc_cr part in
               match rest with
               | _ :: _ => (HASH :: SP :: p ++ [BSL; LF]) :: wrap_loop (length (esc_bs x)) (SP :: SP :: rest)
               | [] => if ends_with SP p
                       then [HASH :: SP :: p ++ [BSL; LF]; BLANK_CONT]
                       else [HASH :: SP :: p ++ [LF]]
               end) by (rewrite Ee; reflexivity).
  rewrite Hw. clear Hw.
  assert (Hsp : split_piece (esc_bs x) = (esc_bs x, [])).
  { unfold split_piece. rewrite skipn_all2 by exact Hlen. rewrite firstn_all2 by exact Hlen. reflexivity. }
  rewrite Hsp. cbv zeta.
  destruct (ends_with SP (esc_cr (esc_bs x))) eqn:Esp2.
  - cbn [app patch_next]. rewrite decode_cont_first.
    rewrite ends_with_absent by exact Hlf.
    rewrite decode_blank. rewrite ends_with_app_last, N.eqb_refl. reflexivity.
  - cbn [app patch_next]. rewrite decode_last_first.
    rewrite ends_with_app_last, N.eqb_refl. reflexivity.
Qed.

(* the executable guard on one RIO line body *)
Definition body_ok (b : bytes) : bool :=
  negb (memb LF b) && negb (ends_with CR b)
  && (negb (memb BSL b) || (length (esc_bs b) <=? MAX_RIO_WIDTH)%nat)
  && match b with [] => false | _ => true end.

Lemma wrap_body_read b more : body_ok b = true ->
  patch_next None (wrap_body b ++ more) = Some (ROk (b ++ [LF]), more).
Proof.
  unfold body_ok. intros H.
  apply andb_true_iff in H. destruct H as [H Hne].
  apply andb_true_iff in H. destruct H as [H Hcase].
  apply andb_true_iff in H. destruct H as [Hlf _].
  apply negb_true_iff in Hlf.
  assert (Hne' : b <> []) by (destruct b; [discriminate|discriminate]).
  apply orb_true_iff in Hcase. destruct Hcase as [Hbs|Hlen].
  - apply negb_true_iff in Hbs. unfold wrap_body. rewrite (esc_bs_id b Hbs).
    apply (wrap_loop_read (S (length b)) b None more); auto. exact I.
  - apply Nat.leb_le in Hlen. apply wrap_single_read; assumption.
Qed.
