(* Theory/PatchMore.v -- C39: mismatching old texts, statistics, serialise/parse of hunks. *)
From Coq Require Import ZArith NArith Bool Arith Lia List.
From BV Require Import Lib.Bytes Model.Patch Theory.Patch.
Import ListNotations.
Open Scope nat_scope.
Open Scope list_scope.

(* the old-text range [g_i1, g_i2) a group's hunk reads: the numbers of its header *)
Definition g_i1 (g : list opcode) : nat := oi1 (first_op g).
Definition g_i2 (g : list opcode) : nat := oi2 (last_op g).

Lemma skipn_app_exact {A} (l r : list A) : skipn (length l) (l ++ r) = r.
Proof. induction l; simpl; auto. Qed.
Lemma firstn_app_exact {A} (l r : list A) : firstn (length l) (l ++ r) = l.
Proof. induction l; simpl; congruence. Qed.

Section Mismatch.
Variables a b : list line.

Lemma chain_first g i0 j0 i' j' : chain a b g i0 j0 i' j' -> g <> [] -> g_i1 g = i0.
Proof. destruct g as [|o r]; [congruence|]. simpl. unfold g_i1, first_op. simpl. tauto. Qed.

Lemma chain_last g : forall i0 j0 i' j', chain a b g i0 j0 i' j' -> g <> [] -> g_i2 g = i'.
Proof.
  induction g as [|o r IH]; intros i0 j0 i' j' C Hne; [congruence|].
  destruct r as [|o2 r].
  - simpl in C. unfold g_i2, last_op. simpl. tauto.
  - change (chain a b (o :: o2 :: r) i0 j0 i' j') with
      (oi1 o = i0 /\ oj1 o = j0 /\ i0 <= oi2 o /\ oi2 o <= length a /\ j0 <= oj2 o /\ oj2 o <= length b
       /\ tag_ok a b o = true /\ chain a b (o2 :: r) (oi2 o) (oj2 o) i' j') in C.
    destruct C as (_ & _ & _ & _ & _ & _ & _ & C).
    apply IH in C; [|discriminate]. unfold g_i2, last_op in *. exact C.
Qed.

(* one step of apply_hunks on the hunk of a checked group, for an arbitrary old text a2 *)
Lemma apply_group_step g r p a2 i0 j0 i' j' :
  chain a b g i0 j0 i' j' -> g <> [] -> p <= i0 ->
  apply_hunks (group_hunk a b g :: r) (skipn p a2) (S p) =
    if length (skipn p a2) <? i0 - p then inl (AConflict (S p + length (skipn p a2))) else
    match apply_lines (flat_map (op_hlines a b) g) (skipn i0 a2) (S i0) with
    | inl e => inl e
    | inr (out, rest1, ln1) =>
        match apply_hunks r rest1 ln1 with
        | inl e => inl e
        | inr (out2, rest2, ln2) => inr (slice a2 p i0 ++ out ++ out2, rest2, ln2)
        end
    end.
Proof.
  intros C Hne Hp.
  assert (OP : orig_pos (group_hunk a b g) = S i0).
  { unfold group_hunk. cbn [orig_pos]. f_equal. apply (chain_first g i0 j0 i' j' C Hne). }
  assert (HL : hlines (group_hunk a b g) = flat_map (op_hlines a b) g) by reflexivity.
  cbn [apply_hunks]. rewrite OP, HL.
  replace (S i0 - S p) with (i0 - p) by lia.
  rewrite <- skipn_add. replace (p + (i0 - p)) with i0 by lia.
  replace (S p + (i0 - p)) with (S i0) by lia. reflexivity.
Qed.

(* OK => the text agrees with a on every range a hunk reads *)
Lemma apply_ok_agree gs : forall p q a2 out rest ln,
  gchain a b gs p q -> p <= length a ->
  apply_hunks (map (group_hunk a b) gs) (skipn p a2) (S p) = inr (out, rest, ln) ->
  Forall (fun g => slice a2 (g_i1 g) (g_i2 g) = slice a (g_i1 g) (g_i2 g)) gs.
Proof.
  induction gs as [|g r IH]; intros p q a2 out rest ln H Hp A; [constructor|].
  simpl in H. destruct H as (i0 & j0 & i' & j' & Hne & G & C & R).
  destruct G as (G1 & G2 & G3 & G4 & G5 & G6).
  pose proof (chain_mono _ _ _ _ _ _ _ C) as [M1 M2].
  destruct (chain_bound _ _ _ _ _ _ _ C) as [B1 B2]; try lia.
  destruct (chain_sides _ _ _ _ _ _ _ C) as [O N].
  cbn [map] in A. rewrite (apply_group_step g _ p a2 i0 j0 i' j' C Hne G1) in A.
  destruct (length (skipn p a2) <? i0 - p); [discriminate|].
  destruct (apply_lines (flat_map (op_hlines a b) g) (skipn i0 a2) (S i0)) as [e|[[o1 r1] l1]] eqn:AL; [discriminate|].
  apply apply_lines_inv in AL as (K1 & K2 & K3). rewrite O in K1, K3.
  assert (LS : length (slice a i0 i') = i' - i0) by (apply slice_length; lia).
  assert (R1 : r1 = skipn i' a2).
  { replace i' with (i0 + (i' - i0)) by lia. rewrite skipn_add, K1, <- LS. symmetry. apply skipn_app_exact. }
  assert (AG : slice a2 i0 i' = slice a i0 i').
  { unfold slice at 1. rewrite K1, <- LS. apply firstn_app_exact. }
  rewrite LS in K3. replace (S i0 + (i' - i0)) with (S i') in K3 by lia. subst r1 l1.
  destruct (apply_hunks (map (group_hunk a b) r) (skipn i' a2) (S i')) as [e|[[o2 r2] l2]] eqn:A2; [discriminate|].
  constructor.
  - rewrite (chain_first g i0 j0 i' j' C Hne), (chain_last g i0 j0 i' j' C Hne). exact AG.
  - eapply IH; eauto.
Qed.

(* every error is a conflict *)
Lemma apply_err_conflict gs : forall p q a2 e,
  gchain a b gs p q -> p <= length a ->
  apply_hunks (map (group_hunk a b) gs) (skipn p a2) (S p) = inl e -> exists k, e = AConflict k.
Proof.
  induction gs as [|g r IH]; intros p q a2 e H Hp A; [discriminate|].
  simpl in H. destruct H as (i0 & j0 & i' & j' & Hne & G & C & R).
  destruct G as (G1 & G2 & G3 & G4 & G5 & G6).
  pose proof (chain_mono _ _ _ _ _ _ _ C) as [M1 M2].
  destruct (chain_bound _ _ _ _ _ _ _ C) as [B1 B2]; try lia.
  destruct (chain_sides _ _ _ _ _ _ _ C) as [O N].
  cbn [map] in A. rewrite (apply_group_step g _ p a2 i0 j0 i' j' C Hne G1) in A.
  assert (LS : length (slice a i0 i') = i' - i0) by (apply slice_length; lia).
  destruct (length (skipn p a2) <? i0 - p) eqn:LT.
  { inversion A; eauto. }
  destruct (apply_lines (flat_map (op_hlines a b) g) (skipn i0 a2) (S i0)) as [e1|[[o1 r1] l1]] eqn:AL.
  - inversion A; subst e1. eapply apply_lines_err; exact AL.
  - apply apply_lines_inv in AL as (K1 & K2 & K3). rewrite O in K1, K3.
    assert (R1 : r1 = skipn i' a2).
    { replace i' with (i0 + (i' - i0)) by lia. rewrite skipn_add, K1, <- LS. symmetry. apply skipn_app_exact. }
    rewrite LS in K3. replace (S i0 + (i' - i0)) with (S i') in K3 by lia. subst r1 l1.
    destruct (apply_hunks (map (group_hunk a b) r) (skipn i' a2) (S i')) as [e2|[[o2 r2] l2]] eqn:A2; [|discriminate].
    inversion A; subst e2. eapply IH; eauto.
Qed.
End Mismatch.

Lemma apply_mk_hunks a b ops n a2 :
  apply_hunks (mk_hunks a b ops n) a2 1 = apply_hunks (map (group_hunk a b) (group_opcodes n ops)) a2 1.
Proof.
  unfold mk_hunks. destruct (map (group_hunk a b) (group_opcodes n ops)); [reflexivity|apply apply_hunks_fix_hdr].
Qed.

(* no silent wrong output: if the patch applies to a2, then a2 agrees with a on every line range a hunk reads *)
Theorem apply_ok_agrees a b ops n a2 x :
  valid_opcodes a b ops = true -> apply a2 (mk_hunks a b ops n) = inr x ->
  Forall (fun g => slice a2 (g_i1 g) (g_i2 g) = slice a (g_i1 g) (g_i2 g)) (group_opcodes n ops).
Proof.
  intros V A. unfold apply in A. rewrite apply_mk_hunks in A.
  destruct (apply_hunks (map (group_hunk a b) (group_opcodes n ops)) a2 1) as [e|[[o r] l]] eqn:E; [discriminate|].
  eapply (apply_ok_agree a b _ 0 0 a2); [apply groups_valid; exact V|lia|exact E].
Qed.

Theorem mismatch_not_ok a b ops n a2 g :
  valid_opcodes a b ops = true -> In g (group_opcodes n ops) ->
  slice a2 (g_i1 g) (g_i2 g) <> slice a (g_i1 g) (g_i2 g) ->
  forall x, apply a2 (mk_hunks a b ops n) <> inr x.
Proof.
  intros V I D x A. apply (apply_ok_agrees a b ops n a2 x V) in A.
  rewrite Forall_forall in A. exact (D (A g I)).
Qed.

(* ... and the outcome is a PatchConflict, whatever the length of the text *)
Theorem mismatch_is_conflict a b ops n a2 g :
  valid_opcodes a b ops = true -> In g (group_opcodes n ops) ->
  slice a2 (g_i1 g) (g_i2 g) <> slice a (g_i1 g) (g_i2 g) ->
  exists k, apply a2 (mk_hunks a b ops n) = inl (AConflict k).
Proof.
  intros V I D.
  destruct (apply a2 (mk_hunks a b ops n)) as [e|x] eqn:A.
  - unfold apply in A. rewrite apply_mk_hunks in A.
    destruct (apply_hunks (map (group_hunk a b) (group_opcodes n ops)) a2 1) as [e1|[[o r] l]] eqn:E; [|discriminate].
    inversion A; subst e1.
    destruct (apply_err_conflict a b _ 0 0 a2 e (groups_valid a b n ops V)) as [k ->]; auto; try lia.
    eauto.
  - exfalso. eapply mismatch_not_ok; eauto.
Qed.

Definition la : line := [97; 10]%N.
Definition lb : line := [98; 10]%N.

(* ------------------------------------------------------------------ statistics *)
Definition ins_len (o : opcode) : nat :=
  match otag o with TReplace | TInsert => oj2 o - oj1 o | _ => 0 end.
Definition rem_len (o : opcode) : nat :=
  match otag o with TReplace | TDelete => oi2 o - oi1 o | _ => 0 end.
Definition total (f : opcode -> nat) (ops : list opcode) : nat := fold_right (fun o s => f o + s) 0 ops.

Lemma total_app f x y : total f (x ++ y) = total f x + total f y.
Proof. induction x; simpl; lia. Qed.
Lemma total_rev f x : total f (rev x) = total f x.
Proof. induction x; simpl; [reflexivity|]. rewrite total_app. simpl. lia. Qed.

Section Sums.
Variable f : opcode -> nat.
Hypothesis f_equal0 : forall o, is_equal o = true -> f o = 0.

Definition gtotal (gs : list (list opcode)) : nat := fold_right (fun g s => total f g + s) 0 gs.

Lemma emit_group_total cur : gtotal (emit_group cur) = total f cur.
Proof.
  destruct cur as [|o [|o2 r]]; [reflexivity| |].
  - simpl. destruct (is_equal o) eqn:E; simpl; [rewrite f_equal0 by exact E|]; lia.
  - unfold emit_group. cbn [gtotal fold_right]. rewrite total_rev. lia.
Qed.

Lemma group_loop_total n codes : forall cur,
  gtotal (group_loop n codes cur) = total f cur + total f codes.
Proof.
  induction codes as [|o r IH]; intros cur; cbn [group_loop].
  - rewrite emit_group_total. simpl. lia.
  - destruct (is_equal o && (n + n <? oi2 o - oi1 o)) eqn:E.
    + apply andb_true_iff in E as [E _]. cbn [gtotal fold_right]. fold (gtotal (group_loop n r
        [Op TEqual (Nat.max (oi1 o) (oi2 o - n)) (oi2 o) (Nat.max (oj1 o) (oj2 o - n)) (oj2 o)])).
      rewrite IH, total_rev. simpl. rewrite !(f_equal0 (Op TEqual _ _ _ _)) by reflexivity.
      rewrite (f_equal0 o E). lia.
    + rewrite IH. simpl. lia.
Qed.

Lemma fix_first_total n codes : total f (fix_first n codes) = total f codes.
Proof.
  destruct codes as [|o r]; [reflexivity|]. unfold fix_first. destruct (is_equal o) eqn:E; [|reflexivity].
  simpl. rewrite (f_equal0 o E), (f_equal0 (Op TEqual _ _ _ _)) by reflexivity. reflexivity.
Qed.

Lemma fix_last_total n codes : total f (fix_last n codes) = total f codes.
Proof.
  induction codes as [|o r IH]; [reflexivity|]. destruct r as [|o2 r].
  - cbn [fix_last]. destruct (is_equal o) eqn:E; [|reflexivity].
    simpl. rewrite (f_equal0 o E), (f_equal0 (Op TEqual _ _ _ _)) by reflexivity. reflexivity.
  - rewrite fix_last_cons.
    change (total f (o :: fix_last n (o2 :: r))) with (f o + total f (fix_last n (o2 :: r))).
    rewrite IH. reflexivity.
Qed.

Lemma group_opcodes_total n ops : gtotal (group_opcodes n ops) = total f ops.
Proof.
  unfold group_opcodes. rewrite group_loop_total, fix_last_total, fix_first_total.
  destruct ops; [|reflexivity]. simpl. rewrite f_equal0 by reflexivity. reflexivity.
Qed.
End Sums.

Lemma count_ins_app x y : count_ins (x ++ y) = count_ins x + count_ins y.
Proof. unfold count_ins. rewrite filter_app, app_length. reflexivity. Qed.
Lemma count_rem_app x y : count_rem (x ++ y) = count_rem x + count_rem y.
Proof. unfold count_rem. rewrite filter_app, app_length. reflexivity. Qed.
Lemma count_ins_map_ins (s : list line) : count_ins (map Ins s) = length s.
Proof. unfold count_ins. induction s; simpl; auto. Qed.
Lemma count_ins_map_rem (s : list line) : count_ins (map Rem s) = 0.
Proof. unfold count_ins. induction s; simpl; auto. Qed.
Lemma count_ins_map_ctx (s : list line) : count_ins (map Ctx s) = 0.
Proof. unfold count_ins. induction s; simpl; auto. Qed.
Lemma count_rem_map_ins (s : list line) : count_rem (map Ins s) = 0.
Proof. unfold count_rem. induction s; simpl; auto. Qed.
Lemma count_rem_map_rem (s : list line) : count_rem (map Rem s) = length s.
Proof. unfold count_rem. induction s; simpl; auto. Qed.
Lemma count_rem_map_ctx (s : list line) : count_rem (map Ctx s) = 0.
Proof. unfold count_rem. induction s; simpl; auto. Qed.

Section Stats.
Variables a b : list line.

Lemma op_counts o : oi1 o <= oi2 o -> oi2 o <= length a -> oj1 o <= oj2 o -> oj2 o <= length b ->
  count_ins (op_hlines a b o) = ins_len o /\ count_rem (op_hlines a b o) = rem_len o.
Proof.
  intros H1 H2 H3 H4. unfold op_hlines, ins_len, rem_len.
  destruct (otag o); rewrite ?count_ins_app, ?count_rem_app, ?count_ins_map_ins, ?count_ins_map_rem,
    ?count_ins_map_ctx, ?count_rem_map_ins, ?count_rem_map_rem, ?count_rem_map_ctx, ?slice_length by lia; lia.
Qed.

Lemma chain_counts g : forall i j i' j', chain a b g i j i' j' ->
  count_ins (flat_map (op_hlines a b) g) = total ins_len g /\
  count_rem (flat_map (op_hlines a b) g) = total rem_len g.
Proof.
  induction g as [|o r IH]; intros i j i' j' C; [split; reflexivity|].
  simpl in C. destruct C as (Hi & Hj & H1 & H2 & H3 & H4 & _ & C).
  destruct (IH _ _ _ _ C) as [I1 I2]. destruct (op_counts o) as [O1 O2]; try lia.
  simpl. rewrite count_ins_app, count_rem_app, I1, I2, O1, O2. auto.
Qed.

Lemma gchain_stats gs : forall p q, gchain a b gs p q ->
  stats (map (group_hunk a b) gs) = (gtotal ins_len gs, gtotal rem_len gs, length gs).
Proof.
  induction gs as [|g r IH]; intros p q H; [reflexivity|].
  simpl in H. destruct H as (i0 & j0 & i' & j' & _ & _ & C & R).
  specialize (IH _ _ R). destruct (chain_counts g _ _ _ _ C) as [I1 I2].
  unfold stats in *. cbn [map fold_right length gtotal]. inversion IH as [[E1 E2 E3]].
  rewrite E1, E2, E3. change (hlines (group_hunk a b g)) with (flat_map (op_hlines a b) g).
  rewrite I1, I2. reflexivity.
Qed.
End Stats.

Lemma stats_mk_hunks a b ops n :
  stats (mk_hunks a b ops n) = stats (map (group_hunk a b) (group_opcodes n ops)).
Proof.
  unfold mk_hunks. destruct (map (group_hunk a b) (group_opcodes n ops)) as [|h r]; [reflexivity|].
  unfold stats. cbn [fold_right length]. replace (hlines (fix_hdr a b h)) with (hlines h); [reflexivity|].
  unfold fix_hdr. destruct a; [destruct (_ && _); reflexivity|]. destruct b; [|reflexivity].
  destruct (_ && _); reflexivity.
Qed.

(* the statistics of breezy's diff are the opcode totals: lines inserted, lines removed, number of groups *)
Theorem stats_generated a b ops n :
  valid_opcodes a b ops = true ->
  stats (mk_hunks a b ops n) = (total ins_len ops, total rem_len ops, length (group_opcodes n ops)).
Proof.
  intros V. rewrite stats_mk_hunks, (gchain_stats a b _ 0 0 (groups_valid a b n ops V)).
  rewrite !group_opcodes_total; [reflexivity| |].
  - intros o E. unfold rem_len. unfold is_equal in E. destruct (otag o); try discriminate; reflexivity.
  - intros o E. unfold ins_len. unfold is_equal in E. destruct (otag o); try discriminate; reflexivity.
Qed.

(* ------------------------------------------------------------------ serialise / parse of hunks *)
(* the line of a hunk as iter_hunks sees it (after iter_lines_handle_nl has undone the
   "\ No newline at end of file" marker): lead character + contents *)
Definition hline_logical (h : hline) : bytes :=
  match h with Ctx c => cSP :: c | Ins c => cPLUS :: c | Rem c => cMINUS :: c end.
Definition hunk_logical (h : hunk) : list bytes := hunk_header h :: map hline_logical (hlines h).

Definition counts_ok (h : hunk) : bool :=
  Nat.eqb (orig_range h) (length (old_side (hlines h))) && Nat.eqb (mod_range h) (length (new_side (hlines h))).
(* executable guard: the header line parses back to the header (evaluated by vm_compute on every
   correspondence case; NOT proved for all numbers -- see notes/C39.md) *)
Definition hdr_ok (h : hunk) : bool :=
  match hunk_from_header (hunk_header h) with
  | inr h' => Nat.eqb (orig_pos h') (orig_pos h) && Nat.eqb (orig_range h') (orig_range h)
              && Nat.eqb (mod_pos h') (mod_pos h) && Nat.eqb (mod_range h') (mod_range h)
              && match htail h', htail h with
                 | None, None => true | Some x, Some y => bytes_eqb x y | _, _ => false end
              && match hlines h' with [] => true | _ => false end
  | inl _ => false
  end.

Lemma parse_line_logical l : parse_line (hline_logical l) = inr l.
Proof. destruct l; reflexivity. Qed.

Lemma with_lines_id h : with_lines h (hlines h) = h.
Proof. destruct h; reflexivity. Qed.

Lemma hdr_ok_inv h : hdr_ok h = true ->
  hunk_from_header (hunk_header h) = inr (with_lines h []) /\ bytes_eqb (hunk_header h) [cNL] = false.
Proof.
  unfold hdr_ok. intros H.
  destruct (bytes_eqb (hunk_header h) [cNL]) eqn:B.
  { apply bytes_eqb_eq in B. rewrite B in H. discriminate. }
  split; [|reflexivity].
  destruct (hunk_from_header (hunk_header h)) as [e|h']; [discriminate|].
  destruct h' as [p1 r1 p2 r2 t ls], h as [q1 s1 q2 s2 u ms]. cbn [orig_pos orig_range mod_pos mod_range htail hlines] in H.
  apply andb_true_iff in H as [H H6]. apply andb_true_iff in H as [H H5].
  apply andb_true_iff in H as [H H4]. apply andb_true_iff in H as [H H3].
  apply andb_true_iff in H as [H1 H2].
  apply Nat.eqb_eq in H1, H2, H3, H4. subst.
  destruct ls; [|discriminate]. unfold with_lines. cbn [orig_pos orig_range mod_pos mod_range htail].
  destruct t, u; try discriminate; [|reflexivity].
  apply bytes_eqb_eq in H5. subst. reflexivity.
Qed.

(* the while loop of iter_hunks over the lines of one hunk *)
Lemma after_line_S_l h ro rm : after_line h (S ro) rm = PRead h (S ro) rm.
Proof. reflexivity. Qed.
Lemma after_line_S_r h ro rm : after_line h ro (S rm) = PRead h ro (S rm).
Proof. unfold after_line. cbn [Nat.eqb]. rewrite andb_false_r. reflexivity. Qed.

Lemma read_step l ls h ro rm :
  hunks_loop (hline_logical l :: ls) (PRead h ro rm) =
  hunks_loop ls (after_line (with_lines h (l :: hlines h))
                            (match l with Ins _ => ro | _ => pred ro end)
                            (match l with Rem _ => rm | _ => pred rm end)).
Proof. cbn [hunks_loop]. rewrite parse_line_logical. destruct l; reflexivity. Qed.

Lemma read_hunk_lines suffix : forall h acc rest,
  hunks_loop (map hline_logical suffix ++ rest)
             (after_line (with_lines h acc) (length (old_side suffix)) (length (new_side suffix)))
  = hunks_loop rest (PHead (Some (with_lines h (rev acc ++ suffix)))).
Proof.
  induction suffix as [|l s IH]; intros h acc rest.
  - simpl. unfold after_line. simpl. rewrite app_nil_r. destruct h; reflexivity.
  - assert (W : forall ls, with_lines (with_lines h acc) ls = with_lines h ls) by (intros; destruct h; reflexivity).
    assert (HLW : hlines (with_lines h acc) = acc) by (destruct h; reflexivity).
    assert (R : rev acc ++ l :: s = rev (l :: acc) ++ s) by (simpl; rewrite <- app_assoc; reflexivity).
    rewrite R, <- IH. cbn [map app].
    destruct l as [c|c|c].
    + change (length (old_side (Ctx c :: s))) with (S (length (old_side s))).
      change (length (new_side (Ctx c :: s))) with (S (length (new_side s))).
      rewrite after_line_S_l, read_step, HLW, W. reflexivity.
    + change (length (old_side (Ins c :: s))) with (length (old_side s)).
      change (length (new_side (Ins c :: s))) with (S (length (new_side s))).
      rewrite after_line_S_r, read_step, HLW, W. reflexivity.
    + change (length (old_side (Rem c :: s))) with (S (length (old_side s))).
      change (length (new_side (Rem c :: s))) with (length (new_side s)).
      rewrite after_line_S_l, read_step, HLW, W. reflexivity.
Qed.

(* serialise-then-parse at the level of logical lines: iter_hunks returns exactly the hunks *)
Lemma hunks_loop_logical hs : forall pending,
  forallb counts_ok hs = true -> forallb hdr_ok hs = true ->
  hunks_loop (flat_map hunk_logical hs) (PHead pending)
  = (match pending with Some p => [p] | None => [] end ++ hs, None).
Proof.
  induction hs as [|h r IH]; intros pending HC HH.
  - simpl. destruct pending; reflexivity.
  - simpl in HC, HH. apply andb_true_iff in HC as [C1 C2]. apply andb_true_iff in HH as [H1 H2].
    destruct (hdr_ok_inv h H1) as [P NB].
    unfold counts_ok in C1. apply andb_true_iff in C1 as [K1 K2]. apply Nat.eqb_eq in K1, K2.
    cbn [flat_map]. unfold hunk_logical at 1. cbn [app hunks_loop]. rewrite NB, P.
    cbn [orig_range mod_range with_lines]. rewrite K1, K2.
    change (Hunk (orig_pos h) (length (old_side (hlines h))) (mod_pos h) (length (new_side (hlines h))) (htail h) [])
      with (with_lines (Hunk (orig_pos h) (length (old_side (hlines h))) (mod_pos h)
                             (length (new_side (hlines h))) (htail h) []) []).
    rewrite read_hunk_lines. simpl rev. cbn [app].
    rewrite IH by assumption. rewrite with_lines_id.
    destruct pending; reflexivity.
Qed.

(* the hunks of breezy's own diffs have consistent counts *)
Section Counts.
Variables a b : list line.

Lemma chain_first_j g i0 j0 i' j' : chain a b g i0 j0 i' j' -> g <> [] -> oj1 (first_op g) = j0.
Proof. destruct g as [|o r]; [congruence|]. simpl. unfold first_op. simpl. tauto. Qed.

Lemma chain_last_j g : forall i0 j0 i' j', chain a b g i0 j0 i' j' -> g <> [] -> oj2 (last_op g) = j'.
Proof.
  induction g as [|o r IH]; intros i0 j0 i' j' C Hne; [congruence|].
  destruct r as [|o2 r].
  - simpl in C. unfold last_op. simpl. tauto.
  - change (chain a b (o :: o2 :: r) i0 j0 i' j') with
      (oi1 o = i0 /\ oj1 o = j0 /\ i0 <= oi2 o /\ oi2 o <= length a /\ j0 <= oj2 o /\ oj2 o <= length b
       /\ tag_ok a b o = true /\ chain a b (o2 :: r) (oi2 o) (oj2 o) i' j') in C.
    destruct C as (_ & _ & _ & _ & _ & _ & _ & C).
    apply IH in C; [|discriminate]. unfold last_op in *. exact C.
Qed.

Lemma gchain_counts_ok gs : forall p q, gchain a b gs p q -> p <= length a -> q <= length b ->
  forallb counts_ok (map (group_hunk a b) gs) = true.
Proof.
  induction gs as [|g r IH]; intros p q H Hp Hq; [reflexivity|].
  simpl in H. destruct H as (i0 & j0 & i' & j' & Hne & G & C & R).
  destruct G as (G1 & G2 & G3 & G4 & G5 & G6).
  pose proof (chain_mono _ _ _ _ _ _ _ C) as [M1 M2].
  destruct (chain_bound _ _ _ _ _ _ _ C) as [B1 B2]; try lia.
  destruct (chain_sides _ _ _ _ _ _ _ C) as [O N].
  cbn [map forallb]. rewrite (IH _ _ R B1 B2), andb_true_r.
  unfold counts_ok, group_hunk. cbn [orig_range mod_range hlines].
  rewrite O, N, !slice_length by lia.
  pose proof (chain_first a b g i0 j0 i' j' C Hne) as F1. pose proof (chain_last a b g i0 j0 i' j' C Hne) as F2.
  unfold g_i1, g_i2 in F1, F2.
  rewrite F1, F2, (chain_first_j g i0 j0 i' j' C Hne), (chain_last_j g i0 j0 i' j' C Hne), !Nat.eqb_refl.
  reflexivity.
Qed.
End Counts.

Lemma counts_ok_fix_hdr a b h : counts_ok (fix_hdr a b h) = counts_ok h.
Proof.
  unfold fix_hdr. destruct a; [destruct (_ && _); reflexivity|]. destruct b; [|reflexivity].
  destruct (_ && _); reflexivity.
Qed.

Lemma mk_hunks_counts_ok a b ops n :
  valid_opcodes a b ops = true -> forallb counts_ok (mk_hunks a b ops n) = true.
Proof.
  intros V. pose proof (gchain_counts_ok a b _ 0 0 (groups_valid a b n ops V)) as H.
  unfold mk_hunks. destruct (map (group_hunk a b) (group_opcodes n ops)) as [|h r]; [reflexivity|].
  cbn [forallb] in *. rewrite counts_ok_fix_hdr. apply H; lia.
Qed.

(* re-parse of the generated hunks (logical-line level; header round trip as executable guard) *)
Theorem generated_reparse a b ops n :
  valid_opcodes a b ops = true -> forallb hdr_ok (mk_hunks a b ops n) = true ->
  iter_hunks (flat_map hunk_logical (mk_hunks a b ops n)) = (mk_hunks a b ops n, None).
Proof.
  intros V H. unfold iter_hunks. rewrite hunks_loop_logical; auto. apply mk_hunks_counts_ok. exact V.
Qed.
