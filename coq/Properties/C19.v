(* Properties/C19.v -- Text conflicts are reported exactly when conflict markers are written.
   Statements only; model in Model/TextMerge.v, proofs in Theory/TextMerge.v.

   b t ot         : the BASE, THIS, OTHER line lists (any byte lists: missing trailing newlines,
                    marker look-alikes, ...);
   rs             : the region list of merge3 (environment; ANY list of regions with ANY indices);
   o              : reprocess / show_base (cherrypick only influences rs);
   merge_file o b t ot rs (wt0 t) = Some w : the merge ran; w = file, .BASE/.THIS/.OTHER, conflict record
                    (None = CantReprocessAndShowBase, see C19_merge_raises_iff);
   reached b t ot : the three texts are pairwise different, i.e. text_merge is consulted at all
                    (otherwise THIS or OTHER wins as a whole, C19_whole_file_winner);
   has_conflict rs: merge3 reports a conflicting region;
   marked_lines   : merge3's rendering of rs with ordinary "<<<<<<< TREE" markers;
   clean_lines    : the cleanly merged text (no conflict region);
   guard b t ot   : executable; no line of b, t, ot starts with the sentinel start marker. *)
From Coq Require Import NArith List Bool.
From BV Require Import Lib.Bytes Model.TextMerge Theory.TextMerge.
Import ListNotations.

(* a conflicting region is ALWAYS reported (no guard) *)
Theorem C19_conflict_region_always_recorded :
  forall o b t ot rs w,
    merge_file o b t ot rs (wt0 t) = Some w -> reached b t ot = true -> has_conflict rs = true ->
    conflicted w = true.
Proof. exact conflict_region_always_recorded. Qed.
Print Assumptions C19_conflict_region_always_recorded.

(* a text conflict is recorded EXACTLY when the merge has conflicting regions -- guarded *)
Theorem C19_flag_iff_conflict_guarded :
  forall o b t ot rs w,
    guard b t ot = true -> merge_file o b t ot rs (wt0 t) = Some w ->
    conflicted w = (reached b t ot && has_conflict rs).
Proof. exact conflict_recorded_iff_guarded. Qed.
Print Assumptions C19_flag_iff_conflict_guarded.

(* the file holds the regions between ordinary markers; without conflict regions that is the
   cleanly merged text, verbatim -- guarded *)
Theorem C19_clean_text_verbatim_guarded :
  forall o b t ot rs w,
    guard b t ot = true -> merge_file o b t ot rs (wt0 t) = Some w -> reached b t ot = true ->
    f_main w = Some (text (marked_lines o b t ot rs))
    /\ (has_conflict rs = false -> f_main w = Some (text (clean_lines b t ot rs))).
Proof. exact file_text_guarded. Qed.
Print Assumptions C19_clean_text_verbatim_guarded.

(* the three-way shortcut: THIS or OTHER wins as a whole, nothing is recorded (no guard) *)
Theorem C19_whole_file_winner :
  forall o b t ot rs,
    reached b t ot = false ->
    merge_file o b t ot rs (wt0 t)
    = Some {| f_main := Some (if negb (bytes_eqb (text b) (text ot)) && negb (bytes_eqb (text t) (text ot))
                              then text ot else text t);
              f_base := None; f_this := None; f_other := None; f_alike := None; conflicted := false |}.
Proof. exact merge_file_shortcut. Qed.
Print Assumptions C19_whole_file_winner.

(* helper files exist exactly when the conflict is recorded and hold exactly BASE, THIS, OTHER (no guard) *)
Theorem C19_helpers_exact :
  forall o b t ot rs w,
    merge_file o b t ot rs (wt0 t) = Some w ->
    (conflicted w = true ->
       f_base w = Some (text b) /\ f_this w = Some (text t) /\ f_other w = Some (text ot))
    /\ (conflicted w = false -> f_base w = None /\ f_this w = None /\ f_other w = None).
Proof. exact helpers_exact. Qed.
Print Assumptions C19_helpers_exact.

(* resolve (done / take-this / take-other) on ANY tree state with a recorded conflict, i.e. whatever
   subset of .BASE/.THIS/.OTHER is still present: if it succeeds NO helper file remains, the record
   is gone, an unrelated look-alike (<name>.BASE.orig) is untouched and the file holds what the
   action says (no guard) *)
Theorem C19_resolve_removes_all_helpers :
  forall act w w',
    conflicted w = true -> act <> ANone -> resolve act w = Some w' ->
    f_base w' = None /\ f_this w' = None /\ f_other w' = None /\ conflicted w' = false
    /\ f_alike w' = f_alike w
    /\ f_main w' = match act with TakeThis => f_this w | TakeOther => f_other w | _ => f_main w end.
Proof. exact resolve_removes_all_helpers. Qed.
Print Assumptions C19_resolve_removes_all_helpers.

(* Conflict.cleanup alone: every present helper is removed for every subset of present helpers *)
Theorem C19_cleanup_removes_every_helper :
  forall w,
    f_base (cleanup w) = None /\ f_this (cleanup w) = None /\ f_other (cleanup w) = None
    /\ f_main (cleanup w) = f_main w /\ f_alike (cleanup w) = f_alike w
    /\ conflicted (cleanup w) = conflicted w.
Proof. exact cleanup_all. Qed.
Print Assumptions C19_cleanup_removes_every_helper.

(* resolve fails (MalformedTransform, nothing changed) exactly when the winner helper is gone *)
Theorem C19_resolve_fails_iff :
  forall act w, conflicted w = true ->
    (resolve act w = None <-> (act = TakeThis /\ f_this w = None) \/ (act = TakeOther /\ f_other w = None)).
Proof. exact resolve_fails_iff. Qed.
Print Assumptions C19_resolve_fails_iff.

(* after a merge that recorded a conflict, whatever helpers the user removed by hand (rb rt ro) and
   whether or not a look-alike was created: take-this / take-other / done leave exactly THIS / OTHER /
   the marked text, no helper file, no conflict record (take-X needs its own helper) (no guard) *)
Theorem C19_resolve_take_this_other :
  forall o b t ot rs w rb rt ro alike,
    merge_file o b t ot rs (wt0 t) = Some w -> conflicted w = true ->
    (rt = false ->
     resolve TakeThis (user_edit rb rt ro alike w)
     = Some {| f_main := Some (text t); f_base := None; f_this := None; f_other := None; f_alike := alike;
               conflicted := false |})
    /\ (ro = false ->
     resolve TakeOther (user_edit rb rt ro alike w)
     = Some {| f_main := Some (text ot); f_base := None; f_this := None; f_other := None; f_alike := alike;
               conflicted := false |})
    /\ resolve ADone (user_edit rb rt ro alike w)
     = Some {| f_main := f_main w; f_base := None; f_this := None; f_other := None; f_alike := alike;
               conflicted := false |}.
Proof. exact resolve_take. Qed.
Print Assumptions C19_resolve_take_this_other.

(* moves and renames: the file ends up where the side that moved it put it (directory and name are
   resolved separately); the merged file, its helpers and the conflict record all hang on that one
   path ([p_at]: text_merge dumps the helpers under final_parent/final_name) *)
Theorem C19_final_place :
  forall o pb po pt b t ot rs pl,
    merge_placed o pb po pt b t ot rs = Some pl ->
    merge_file o b t ot rs (wt0 t) = Some (p_wt pl)
    /\ p_at pl = final_place pb po pt
    /\ (in_dst pb = in_dst po -> in_dst (p_at pl) = in_dst pt)
    /\ (in_dst pb = in_dst pt -> in_dst (p_at pl) = in_dst po)
    /\ (renamed pb = renamed po -> renamed (p_at pl) = renamed pt)
    /\ (renamed pb = renamed pt -> renamed (p_at pl) = renamed po).
Proof.
  intros o pb po pt b t ot rs pl H. destruct (merge_placed_spec _ _ _ _ _ _ _ _ _ H) as [A B].
  split; [exact A|]. split; [exact B|]. rewrite B. apply final_place_spec.
Qed.
Print Assumptions C19_final_place.

(* merge3 is run as a cherrypick unless BASE is an ancestor of both THIS and OTHER *)
Theorem C19_cherrypick_flag :
  forall a b, cherrypick_flag a b = false <-> a = true /\ b = true.
Proof. exact cherrypick_flag_spec. Qed.
Print Assumptions C19_cherrypick_flag.

(* the merge raises exactly for reprocess + show_base when text_merge is consulted *)
Theorem C19_merge_raises_iff :
  forall o b t ot rs,
    merge_file o b t ot rs (wt0 t) = None
    <-> reached b t ot = true /\ o_show_base o && o_reprocess o = true.
Proof. exact merge_file_none. Qed.
Print Assumptions C19_merge_raises_iff.

(* the unguarded "exactly when" is FALSE: a line that starts with the sentinel in a cleanly
   merging text is reported as a conflict and the file is not the merged text
   (witness W_base/W_this/W_other with merge3's real region list W_regions) *)
Theorem C19_sentinel_refuted :
  exists o b t ot rs w,
    has_conflict rs = false /\ reached b t ot = true
    /\ merge_file o b t ot rs (wt0 t) = Some w
    /\ conflicted w = true
    /\ f_main w <> Some (text (clean_lines b t ot rs)).
Proof. exact sentinel_refuted. Qed.
Print Assumptions C19_sentinel_refuted.
