(* Properties/C44.v -- placeholder while the correspondence is being set up *)
From Coq Require Import ZArith NArith List Bool String.
From BV Require Import Lib.Bytes Lib.Obs Model.FastIO Model.FastHist.
Import ListNotations.

Theorem C44_placeholder : True. Proof. exact I. Qed.
Print Assumptions C44_placeholder.
