(* Properties/C44.v -- fast-export followed by fast-import preserves history.

   FULL STATEMENT (properties.jsonl): for every history h, import (export h) is isomorphic to h
   (same number of revisions, same parent structure, equal trees, messages, committers/authors,
   timestamps and time zones, tags), in particular
     C44_filecmds_sound:  the file commands emitted between the first parent and a revision,
                          applied with the importer's semantics to the imported parent, yield the
                          revision's tree.
   Both are FALSE of the faithful model and of the code.  This file holds
     * the refutations (witnesses replayed on the real exporter+importer by harness/props/c44.py corpus()),
     * what does hold for all inputs: the exporter's half of soundness (_partial), the history
       shape and metadata (_partial / _guarded with executable guards).
   Not proved: that the file commands reproduce the tree under the guard
   harness/props/_c44_mirror.py:tree_guard_reason -- that half rests on the correspondence runs. *)
From Coq Require Import ZArith NArith List Bool String.
From BV Require Import Lib.Bytes Lib.Obs Model.FastIO Model.FastHist Theory.FastIO Theory.FastIORD Theory.FastHist.
Import ListNotations.

(* ---- C44_filecmds_sound ---------------------------------------------------------------- *)

(* swap, rename onto a vacated path (both orders), directory rename with a modified child, symlink
   replaced by a directory with two files, directory replaced by a file while its child moves out,
   symlink turned into an empty directory: in each case both trees are well formed, the old tree is
   imported exactly, and the emitted commands do NOT produce the new tree on it *)
Theorem C44_filecmds_sound_refuted :
  refutes true wit_swap /\ refutes true wit_clobber /\ refutes true wit_chain /\
  refutes true wit_dirrename /\ refutes true wit_link_to_dir2 /\ refutes true wit_dir_to_file /\
  refutes true wit_link_to_emptydir.
Proof.
  exact (conj swap_refutes (conj clobber_refutes (conj chain_refutes (conj dirrename_refutes
        (conj link_to_dir2_refutes (conj dir_to_file_refutes link_to_emptydir_refutes)))))).
Qed.
Print Assumptions C44_filecmds_sound_refuted.

(* the exporter's half, for all trees, both stream formats and every order of the M commands: every file
   or symlink of the new tree that is new, or whose kind, content, target or executable bit changed, gets
   an M command with its new mode and content at its NEW path (except the case the code skips: a renamed
   entry whose old path was an empty directory).  Missing for full soundness: the importer's application
   and the interplay with the R/D commands (see _refuted). *)
Theorem C44_filecmds_sound_partial :
  forall (plain : bool) (old new : inv) (mpaths : list path) (e : entry),
    nodup_N (map e_id new) = true ->
    In e new ->
    kind_eqb (e_kind e) KDir = false ->
    needs_M old e = true ->
    (forall o, find_entry old (e_id e) = Some o -> renamed_b o e = true ->
               is_empty_dir old (opath old (e_id o)) = false) ->
    In (CM (opath new (e_id e)) (mode_of e) (e_data e)) (snd (filecmds plain old new mpaths)).
Proof. exact filecmds_emit_changed_content. Qed.
Print Assumptions C44_filecmds_sound_partial.

(* ... every renamed file or symlink (rich streams: every renamed entry) whose old path is not an empty
   directory gets `R old new` ... *)
Theorem C44_filecmds_renames_partial :
  forall (plain : bool) (old new : inv) (mpaths : list path) (o e : entry),
    In o old -> find_entry new (e_id o) = Some e -> renamed_b o e = true ->
    negb (kind_eqb (e_kind e) KDir) || negb plain = true ->
    is_empty_dir old (opath old (e_id o)) = false ->
    In (CR (opath old (e_id o)) (opath new (e_id o))) (fst (filecmds plain old new mpaths)).
Proof. exact exporter_emits_renames. Qed.
Print Assumptions C44_filecmds_renames_partial.

(* ... and every removed file or symlink (rich: every removed entry) gets `D old-path`, provided no
   directory is renamed in plain mode (a directory renamed onto a removed path swallows the D) *)
Theorem C44_filecmds_deletes_partial :
  forall (plain : bool) (old new : inv) (mpaths : list path) (o : entry),
    In o old -> has_id new (e_id o) = false ->
    negb (kind_eqb (e_kind o) KDir) || negb plain = true ->
    (forall c, In c (d_renamed old new) -> emits plain c = true) ->
    In (CD (opath old (e_id o))) (fst (filecmds plain old new mpaths)).
Proof. exact exporter_emits_deletes. Qed.
Print Assumptions C44_filecmds_deletes_partial.

Theorem C44_empty_directory_refuted :
  wf_inv (fst wit_emptydir) = true /\
  exists b fr, image true (fst wit_emptydir) = Ok (b, fr) /\ tree_of b <> tree_of (fst wit_emptydir).
Proof. exact empty_directory_lost. Qed.
Print Assumptions C44_empty_directory_refuted.

(* ---- C44_import_export_iso ------------------------------------------------------------- *)

(* for every stream the importer accepts: as many revisions as commit commands, in mark order, each with
   the committer, authors, timestamp, time zone and message of its command *)
Theorem C44_import_export_iso_partial :
  forall (xs : list xcommit) (tags : list (bytes * nat)) (s : ist),
    import_stream false xs tags = Ok s ->
    map fst (i_revs s) = map x_mark xs /\ Forall2 meta_rel xs (map snd (i_revs s)).
Proof. exact import_preserves_count_and_meta. Qed.
Print Assumptions C44_import_export_iso_partial.

(* parent structure: a commit with at least one parent, all of them exported before it, is imported
   with exactly the marks of its parents, left-hand parent first, merge parents in order *)
Theorem C44_parents_preserved_guarded :
  forall plain h order r sr s s' ms,
    Forall2 (fun p k => mark_of order p = Some k) (s_parents sr) ms ->
    ms <> [] ->
    import_one false s (export_commit plain h order r sr) = Ok s' ->
    exists d, i_revs s' = i_revs s ++ [(x_mark (export_commit plain h order r sr), d)] /\ d_parents d = ms.
Proof. exact commit_parents_preserved. Qed.
Print Assumptions C44_parents_preserved_guarded.

(* ... but a parentless commit that is not the first one is given the previous commit as parent *)
Theorem C44_multiple_roots_refuted :
  (forall plain h order r sr s s' l,
      s_parents sr = [] ->
      aget bytes_eqb (last_ids (i_rt s)) MASTER = Some l ->
      import_one false s (export_commit plain h order r sr) = Ok s' ->
      exists d, i_revs s' = i_revs s ++ [(x_mark (export_commit plain h order r sr), d)] /\ d_parents d = [l])
  /\ (exists l, imported h_two_roots 2 = Ok l /\
                ~ (exists t1 t2 t3, l = [([], t1); ([], t2); ([1%nat; 2%nat], t3)] \/
                                    l = [([], t1); ([], t2); ([2%nat; 1%nat], t3)])).
Proof. exact (conj root_commit_reparented two_roots_not_preserved). Qed.
Print Assumptions C44_multiple_roots_refuted.

(* a rich stream whose revisions carry properties (every normally committed revision does) is rejected *)
Theorem C44_rich_properties_refuted :
  forall (x : xcommit) (xs : list xcommit) (tags : list (bytes * nat)),
    import_stream true (x :: xs) tags = Fail "ValueError".
Proof. exact rich_properties_rejected. Qed.
Print Assumptions C44_rich_properties_refuted.

(* ---- metadata -------------------------------------------------------------------------- *)

Theorem C44_timestamp_guarded : forall ts4 : Z, (ts4 mod 4 = 0)%Z -> (4 * stream_secs ts4 = ts4)%Z.
Proof. exact timestamp_roundtrip. Qed.
Print Assumptions C44_timestamp_guarded.

Theorem C44_timestamp_refuted : (4 * stream_secs 4003 <> 4003)%Z.
Proof. exact timestamp_subsecond_lost. Qed.
Print Assumptions C44_timestamp_refuted.

Theorem C44_timezone_guarded : forall tz : Z, (tz mod 60 = 0)%Z -> stream_tz tz = tz.
Proof. exact timezone_roundtrip. Qed.
Print Assumptions C44_timezone_guarded.

Theorem C44_timezone_refuted : stream_tz (-90) <> (-90)%Z.
Proof. exact timezone_seconds_lost. Qed.
Print Assumptions C44_timezone_refuted.

Theorem C44_ident_guarded :
  forall (u : ident) (parsed : nm_em),
    ident_canonical u parsed = true -> format_name_email (name_email u parsed) = u.
Proof. exact ident_roundtrip. Qed.
Print Assumptions C44_ident_guarded.

Theorem C44_ident_refuted :
  format_name_email (name_email ([60] ++ JOE ++ [62])%list ([], JOE)) <> ([60] ++ JOE ++ [62])%list.
Proof. exact ident_empty_name_changed. Qed.
Print Assumptions C44_ident_refuted.

(* ---- tags -------------------------------------------------------------------------------- *)

Theorem C44_tags_guarded :
  (forall plain rewrite order t r k,
      check_ref_format (REFS_TAGS ++ t) = true ->
      mark_of order r = Some k ->
      export_tags plain rewrite false order [(t, Some r)] = [(REFS_TAGS ++ t, k)])
  /\ (forall s t k, i_tags (import_tag s (REFS_TAGS ++ t, k)) = aset bytes_eqb (i_tags s) t k).
Proof. exact (conj valid_tag_exported tag_reset_imported). Qed.
Print Assumptions C44_tags_guarded.

Theorem C44_tag_dropped_refuted :
  forall order r, export_tags true false false order [(HID, Some r)] = [].
Proof. exact invalid_tag_dropped. Qed.
Print Assumptions C44_tag_dropped_refuted.

Theorem C44_rewritten_tag_moves_tip_refuted :
  prefixb REFS_TAGS (sanitize_ref (REFS_TAGS ++ HID)) = false /\
  match import_stream false (export_commits true h_two 1)
                      (export_tags true true false (export_order h_two 1) [(HID, Some 0%nat)]) with
  | Ok s => final_tip s = Some 1%nat
  | Fail _ => False
  end.
Proof. exact (conj rewritten_tag_leaves_refs_tags rewritten_tag_moves_tip). Qed.
Print Assumptions C44_rewritten_tag_moves_tip_refuted.
