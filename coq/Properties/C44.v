(* Properties/C44.v -- fast-export followed by fast-import preserves history.

   FULL STATEMENT (properties.jsonl): for every history h, import (export h) is isomorphic to h
   (same number of revisions, same parent structure, equal trees, messages, committers/authors,
   timestamps and time zones, tags), in particular
     C44_filecmds_sound:  the file commands emitted between the first parent and a revision,
                          applied with the importer's semantics to the imported parent, yield the
                          revision's tree.
   State after the repair round (fix commits 8f7ca2e 139a868 bbc24e3 08f41a9 62f284f ff45d1e): the parent
   structure, rich streams, rewritten tag names, directory renames in plain streams and file->directory kind
   changes are repaired and their statements are now unguarded / positive.  Still FALSE of the faithful model
   and of the code: the tree-level statement for rename orders and for a directory replaced by a file
   (_refuted, witnesses replayed on the real code by harness/props/c44.py corpus()), empty directories, and
   the format limits of the stream (sub-second timestamps, odd UTC offsets, normalised idents, invalid tag
   names).  Not proved: that the file commands reproduce the tree under the guard
   harness/props/_c44_mirror.py:tree_guard_reason -- that half rests on the correspondence runs. *)
From Coq Require Import ZArith NArith List Bool String.
From BV Require Import Lib.Bytes Lib.Obs Model.FastIO Model.FastHist Theory.FastIO Theory.FastIORD Theory.FastHist.
Import ListNotations.

(* ---- C44_filecmds_sound ---------------------------------------------------------------- *)

(* swap, rename onto a vacated path (both orders), directory replaced by a file while its child moves out:
   in each case both trees are well formed, the old tree is imported exactly, and the emitted commands do NOT
   produce the new tree on it *)
Theorem C44_filecmds_sound_refuted :
  refutes true wit_swap /\ refutes true wit_clobber /\ refutes true wit_chain /\ refutes true wit_dir_to_file.
Proof. exact (conj swap_refutes (conj clobber_refutes (conj chain_refutes dir_to_file_refutes))). Qed.
Print Assumptions C44_filecmds_sound_refuted.

(* the former witnesses "directory rename with a modified child" (ff45d1e) and "symlink replaced by a
   directory with two files" (62f284f) are exact now *)
Theorem C44_filecmds_sound_repaired_witnesses :
  exact_on true wit_dirrename /\ exact_on true wit_link_to_dir2.
Proof. exact (conj dirrename_exact link_to_dir2_exact). Qed.
Print Assumptions C44_filecmds_sound_repaired_witnesses.

(* the exporter's half, for all trees, both stream formats and every order of the M commands: every file
   or symlink of the new tree that is new, or whose kind, content, target or executable bit changed, gets
   an M command with its new mode and content at its NEW path (except the case the code skips: a renamed
   entry whose old path was an empty directory).  Missing for full soundness: the importer's application
   and the interplay with the R/D commands (see _refuted). *)
Theorem C44_filecmds_sound_partial :
  forall (plain : bool) (old new : inv) (mpaths dpaths : list path) (e : entry),
    nodup_N (map e_id new) = true ->
    In e new ->
    kind_eqb (e_kind e) KDir = false ->
    needs_M old e = true ->
    (forall o, find_entry old (e_id e) = Some o -> renamed_b o e = true ->
               is_empty_dir old (opath old (e_id o)) = false) ->
    In (CM (opath new (e_id e)) (mode_of e) (e_data e)) (snd (filecmds plain old new mpaths dpaths)).
Proof. exact filecmds_emit_changed_content. Qed.
Print Assumptions C44_filecmds_sound_partial.

(* ... every renamed file or symlink (rich streams: every renamed entry) whose old path is not an empty
   directory gets `R old new` ... *)
Theorem C44_filecmds_renames_partial :
  forall (plain : bool) (old new : inv) (mpaths dpaths : list path) (o e : entry),
    In o old -> find_entry new (e_id o) = Some e -> renamed_b o e = true ->
    negb (kind_eqb (e_kind e) KDir) || negb plain = true ->
    is_empty_dir old (opath old (e_id o)) = false ->
    In (CR (opath old (e_id o)) (opath new (e_id o))) (fst (filecmds plain old new mpaths dpaths)).
Proof. exact exporter_emits_renames. Qed.
Print Assumptions C44_filecmds_renames_partial.

(* ... and every removed file or symlink (rich: every removed entry) gets `D old-path`, provided no
   directory is renamed in plain mode (a directory renamed onto a removed path swallows the D) *)
Theorem C44_filecmds_deletes_partial :
  forall (plain : bool) (old new : inv) (mpaths dpaths : list path) (o : entry),
    In o old -> has_id new (e_id o) = false ->
    negb (kind_eqb (e_kind o) KDir) || negb plain = true ->
    (forall c, In c (d_renamed old new) -> emits plain c = true) ->
    In (CD (opath old (e_id o))) (fst (filecmds plain old new mpaths dpaths)).
Proof. exact exporter_emits_deletes. Qed.
Print Assumptions C44_filecmds_deletes_partial.

(* ... and a file or symlink that becomes a directory is deleted by a leading `D path` (62f284f) *)
Theorem C44_filecmds_kind_change_partial :
  forall (plain : bool) (old new : inv) (mpaths dpaths : list path) (o e : entry),
    In o old -> find_entry new (e_id o) = Some e -> renamed_b o e = false ->
    kind_eqb (e_kind o) KDir = false -> kind_eqb (e_kind e) KDir = true ->
    In (CD (opath old (e_id o))) (fst (filecmds plain old new mpaths dpaths)).
Proof. exact exporter_deletes_before_kind_change. Qed.
Print Assumptions C44_filecmds_kind_change_partial.

(* empty directories: not imported by a plain stream; a symlink that becomes an empty directory is deleted
   (no stale link any more) but the directory does not arrive *)
Theorem C44_empty_directory_refuted :
  (wf_inv (fst wit_emptydir) = true /\
   exists b fr, image true (fst wit_emptydir) = Ok (b, fr) /\ tree_of b <> tree_of (fst wit_emptydir)) /\
  step_tree true (fst wit_link_to_emptydir) (snd wit_link_to_emptydir) = Ok (tree_of [F 2 0 bB tA]).
Proof. exact (conj empty_directory_lost link_to_emptydir_leaf). Qed.
Print Assumptions C44_empty_directory_refuted.

(* ---- C44_import_export_iso ------------------------------------------------------------- *)

(* for every stream the importer accepts: as many revisions as commit commands, in mark order, each with
   the committer, authors, timestamp, time zone and message of its command *)
Theorem C44_import_export_iso_partial :
  forall (xs : list xcommit) (tags : list (bytes * nat)) (s : ist),
    import_stream xs tags = Ok s ->
    map fst (i_revs s) = map x_mark xs /\ Forall2 meta_rel xs (map snd (i_revs s)).
Proof. exact import_preserves_count_and_meta. Qed.
Print Assumptions C44_import_export_iso_partial.

(* parent structure (unguarded since 139a868): every commit whose parents were exported before it -- a
   parentless one included -- is imported with exactly the marks of its parents, left-hand parent first,
   merge parents in order *)
Theorem C44_parents_preserved :
  forall plain h order r sr s s' ms,
    Forall2 (fun p k => mark_of order p = Some k) (s_parents sr) ms ->
    import_one s (export_commit plain h order r sr) = Ok s' ->
    exists d, i_revs s' = i_revs s ++ [(x_mark (export_commit plain h order r sr), d)] /\ d_parents d = ms.
Proof. exact commit_parents_preserved. Qed.
Print Assumptions C44_parents_preserved.

(* the former witness of C44-multiple-roots: two unrelated roots and their merge come back as they were *)
Theorem C44_two_roots_preserved :
  imported h_two_roots 2 = Ok [([], tree_of [F 1 0 bA tA]); ([], tree_of [F 2 0 bB tB]);
                               ([1%nat; 2%nat], tree_of [F 1 0 bA tA; F 2 0 bB tB])].
Proof. exact two_roots_preserved. Qed.
Print Assumptions C44_two_roots_preserved.

(* ---- metadata -------------------------------------------------------------------------- *)

Theorem C44_timestamp_guarded : forall ts4 : Z, (ts4 mod 4 = 0)%Z -> (4 * stream_secs ts4 = ts4)%Z.
Proof. exact timestamp_roundtrip. Qed.
Print Assumptions C44_timestamp_guarded.

Theorem C44_timestamp_refuted : (4 * stream_secs 4003 <> 4003)%Z.
Proof. exact timestamp_subsecond_lost. Qed.
Print Assumptions C44_timestamp_refuted.

Theorem C44_timezone_guarded : forall tz : Z, (tz mod 60 = 0)%Z -> stream_tz tz = tz.
Proof. exact timezone_roundtrip. Qed.
Print Assumptions C44_timezone_guarded.

Theorem C44_timezone_refuted : stream_tz (-90) <> (-90)%Z.
Proof. exact timezone_seconds_lost. Qed.
Print Assumptions C44_timezone_refuted.

Theorem C44_ident_guarded :
  forall (u : ident) (parsed : nm_em),
    ident_canonical u parsed = true -> format_name_email (name_email u parsed) = u.
Proof. exact ident_roundtrip. Qed.
Print Assumptions C44_ident_guarded.

(* repaired (08f41a9): "<joe@x.org>" is canonical now *)
Theorem C44_ident_empty_name_roundtrip :
  format_name_email (name_email ([60] ++ JOE ++ [62])%list ([], JOE)) = ([60] ++ JOE ++ [62])%list.
Proof. exact ident_empty_name_roundtrip. Qed.
Print Assumptions C44_ident_empty_name_roundtrip.

(* residue: "Joe <>" comes back as "Joe" (and whatever parseaddr normalises) *)
Theorem C44_ident_refuted :
  format_name_email (name_email [74; 111; 101; 32; 60; 62]%N ([74; 111; 101]%N, [])) <> [74; 111; 101; 32; 60; 62]%N.
Proof. exact ident_empty_email_changed. Qed.
Print Assumptions C44_ident_refuted.

(* ---- tags -------------------------------------------------------------------------------- *)

Theorem C44_tags_guarded :
  (forall plain rewrite order t r k,
      check_ref_format (REFS_TAGS ++ t) = true ->
      mark_of order r = Some k ->
      export_tags plain rewrite false order [(t, Some r)] = [(REFS_TAGS ++ t, k)])
  /\ (forall s t k, i_tags (import_tag s (REFS_TAGS ++ t, k)) = aset bytes_eqb (i_tags s) t k).
Proof. exact (conj valid_tag_exported tag_reset_imported). Qed.
Print Assumptions C44_tags_guarded.

Theorem C44_tag_dropped_refuted :
  forall order r, export_tags true false false order [(HID, Some r)] = [].
Proof. exact invalid_tag_dropped. Qed.
Print Assumptions C44_tag_dropped_refuted.

(* unguarded since bbc24e3: whatever the tag names and flags, every tag reset in the stream is below
   refs/tags/ (so the importer never takes a rewritten tag for a branch head); ".hid" becomes "_hid" and the
   imported branch keeps its real tip *)
Theorem C44_rewritten_tag_stays_tag :
  (forall plain rewrite notags order tags t,
      In t (export_tags plain rewrite notags order tags) -> prefixb REFS_TAGS (fst t) = true) /\
  (forall order r k, mark_of order r = Some k ->
      export_tags true true false order [(HID, Some r)] = [(REFS_TAGS ++ [95; 104; 105; 100]%N, k)]) /\
  match import_stream (export_commits true h_two 1)
                      (export_tags true true false (export_order h_two 1) [(HID, Some 0%nat)]) with
  | Ok s => final_tip s = Some 2%nat /\ i_tags s = [([95; 104; 105; 100]%N, 1%nat)]
  | Fail _ => False
  end.
Proof.
  split; [exact exported_tags_are_tags|]. split; [exact invalid_tag_rewritten|].
  vm_compute. split; reflexivity.
Qed.
Print Assumptions C44_rewritten_tag_stays_tag.
