(* Properties/C41.v -- Testaments are deterministic and sensitive to every attested field.
   Statements only; proofs in Theory/Testament.v (+ Theory/TestamentLib.v), model in
   Model/Testament.v.

   testament v r es : res bytes   models  <variant v>(rev, tree).as_text()  where es is what
   tree.list_files(include_root=...) yields; strings are code-point lists, the result is UTF-8.
   attested_equal v r1 es1 r2 es2 :=
     same revision id, committer, timestamp VALUE (m1/2^e1 = m2/2^e2), timezone (None = 0),
     parents as a multiset, message, properties as a multiset of items, and per entry the same
     (kind, path, file id, sha1 | symlink target, [strict: last-changed revision, executable]).
   Storage format and insertion order are not inputs of [testament]. *)
From Coq Require Import String.
From Coq Require Import ZArith NArith List Bool Permutation.
From BV Require Import Lib.Bytes Model.Testament Theory.TestamentLib Theory.Testament.
Import ListNotations.

(* determinism: attested-equal data (parents / properties in any order) give the same
   outcome -- the same bytes or the same exception *)
Theorem C41_deterministic :
  forall v r1 es1 r2 es2,
    attested_equal v r1 es1 r2 es2 -> testament v r1 es1 = testament v r2 es2.
Proof. exact testament_deterministic. Qed.
Print Assumptions C41_deterministic.

(* ... and so does the short form (header, revision id, hash of the text), for any hash *)
Theorem C41_short_text_deterministic :
  forall (sha : bytes -> bytes) v r1 es1 r2 es2,
    attested_equal v r1 es1 r2 es2 -> short_text sha v r1 es1 = short_text sha v r2 es2.
Proof. exact short_text_deterministic. Qed.
Print Assumptions C41_short_text_deterministic.

(* injectivity: equal texts imply attested-equal data, under the executable guard
     guard v r es = message and every property value are "\n".join(x.splitlines()),
                    the timestamp is integral, no path / symlink target contains a
                    backslash (nor is "." under StrictTestament3), sha1s and last-changed
                    revisions contain no space / LF *)
Theorem C41_injective_guarded :
  forall v r1 es1 r2 es2 t,
    testament v r1 es1 = Ok t -> testament v r2 es2 = Ok t ->
    guard v r1 es1 = true -> guard v r2 es2 = true ->
    attested_equal v r1 es1 r2 es2.
Proof. exact testament_injective. Qed.
Print Assumptions C41_injective_guarded.

(* sensitivity: any change of attested data changes the text (same guard) *)
Theorem C41_sensitive_guarded :
  forall v r1 es1 r2 es2 t1 t2,
    testament v r1 es1 = Ok t1 -> testament v r2 es2 = Ok t2 ->
    guard v r1 es1 = true -> guard v r2 es2 = true ->
    ~ attested_equal v r1 es1 r2 es2 -> t1 <> t2.
Proof. exact testament_sensitive. Qed.
Print Assumptions C41_sensitive_guarded.

(* the guard is satisfiable by a non-trivial value (root + file with a space in its
   name + symlink, two parents, one property, two-line message) *)
Example C41_guard_satisfiable :
  guard Strict3 (set_message rev0 (s2l "two" ++ [LF] ++ s2l "lines")) es0 = true /\
  exists t, testament Strict3 (set_message rev0 (s2l "two" ++ [LF] ++ s2l "lines")) es0 = Ok t.
Proof. exact guard_example. Qed.
Print Assumptions C41_guard_satisfiable.

(* the unguarded statement is FALSE of the faithful model: one witness per class *)
Theorem C41_message_trailing_newline_refuted :
  exists v r1 r2 es t,
    r2 = set_message r1 (r_message r1 ++ [LF]) /\
    testament v r1 es = Ok t /\ testament v r2 es = Ok t /\
    ~ attested_equal v r1 es r2 es.
Proof. exact message_trailing_newline_refuted. Qed.
Print Assumptions C41_message_trailing_newline_refuted.

Theorem C41_subsecond_timestamp_refuted :
  exists v r1 r2 es t,
    r2 = set_timestamp r1 43 2 /\ r_ts_m r1 = 10%Z /\ r_ts_e r1 = 0%N /\
    testament v r1 es = Ok t /\ testament v r2 es = Ok t /\
    ~ attested_equal v r1 es r2 es.
Proof. exact subsecond_timestamp_refuted. Qed.
Print Assumptions C41_subsecond_timestamp_refuted.

Theorem C41_backslash_path_refuted :
  exists v r e1 e2 t,
    e2 = set_path e1 (s2l "a/b") /\ e_path e1 = [97; BSL; 98]%N /\
    testament v r [e1] = Ok t /\ testament v r [e2] = Ok t /\
    ~ attested_equal v r [e1] r [e2].
Proof. exact backslash_path_refuted. Qed.
Print Assumptions C41_backslash_path_refuted.

Theorem C41_revprop_trailing_newline_refuted :
  exists v r1 r2 es t,
    r_props r1 = [(s2l "k", s2l "v")] /\ r2 = set_props r1 [(s2l "k", s2l "v" ++ [LF])] /\
    testament v r1 es = Ok t /\ testament v r2 es = Ok t /\
    ~ attested_equal v r1 es r2 es.
Proof. exact revprop_trailing_newline_refuted. Qed.
Print Assumptions C41_revprop_trailing_newline_refuted.

(* the plain Testament (the one revisions are signed with) does not attest the
   executable bit although the property lists it; both sides satisfy the guard *)
Theorem C41_plain_exec_bit_refuted :
  exists r e1 e2 t,
    e2 = set_exec e1 (negb (e_exec e1)) /\
    testament Plain r [e1] = Ok t /\ testament Plain r [e2] = Ok t /\
    guard Plain r [e1] = true /\ guard Plain r [e2] = true.
Proof. exact plain_exec_bit_refuted. Qed.
Print Assumptions C41_plain_exec_bit_refuted.

(* ... the strict variants do attest it *)
Theorem C41_strict_exec_bit_attested :
  forall v r es1 es2 e t1 t2,
    v <> Plain ->
    testament v r (es1 ++ e :: es2) = Ok t1 ->
    testament v r (es1 ++ set_exec e (negb (e_exec e)) :: es2) = Ok t2 ->
    guard v r (es1 ++ e :: es2) = true ->
    guard v r (es1 ++ set_exec e (negb (e_exec e)) :: es2) = true ->
    t1 <> t2.
Proof. exact strict_exec_bit_attested. Qed.
Print Assumptions C41_strict_exec_bit_attested.

(* environment facts proved rather than assumed *)
Theorem C41_utf8_injective : forall s1 s2, utf8 s1 = utf8 s2 -> s1 = s2.
Proof. exact utf8_inj. Qed.
Print Assumptions C41_utf8_injective.
