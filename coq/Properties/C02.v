(* Properties/C02.v -- stub while the proofs are being written *)
From Coq Require Import List Arith Bool.
From BV Require Import Lib.Dag Model.FileGraph Theory.FileGraph.
Import ListNotations.

Theorem C02_decision_table_total : forall d, In d all_decs.
Proof. exact all_decs_complete. Qed.
Print Assumptions C02_decision_table_total.
