(* Properties/C02.v -- Per-file history and last-changed revisions are recorded correctly.
   Statements only; the model is Model/FileGraph.v (record_iter_changes, _heads,
   _do_generate_text_key_index), the proofs are in Theory/FileGraph.v.

   Vocabulary.  [now rich] is the configuration of the current code: every commit builder
   (PackCommitBuilder; VersionedFileCommitBuilder since fix 2c4765b, used by the knit formats and
   by RemoteRepository) takes heads in the per-file graph; rich = supports_rich_root().
   [old_global_heads rich] is VersionedFileCommitBuilder._heads BEFORE 2c4765b (heads in the
   revision graph); it appears only in the C02_old_* statements at the end.  A history is
   [run c ops]: ops is ANY list of operations (parents, tree) -- initial commit, commit,
   merge with any number of parents, ghost parents -- subject only to [ops_ok] (parents are
   earlier revisions or ghosts whose id is never reused).  [entry_at h r f] is the
   inventory entry of file f in revision r, [e_rev] its last-changed revision,
   [text_parents h f r] the parents stored for the text key (f, r), [parent_versions h f r]
   the last-changed revisions of f in the parents of r (in parent order),
   [file_dag (h_texts h) f] the per-file graph of f (the graph in which heads are taken),
   [checker c h] what _do_generate_text_key_index computes, [inconsistent c h] the
   number of entries of check's inconsistent_parents.  [versioned c e] is false only for
   the tree root of formats without rich roots (it has no per-file graph). *)
From Coq Require Import List Arith Bool.
From BV Require Import Lib.Dag Theory.DagFacts Model.FileGraph Theory.FileGraph.
Import ListNotations.

(* ---- the decision table of record_iter_changes (finite: 2^10 * 3 rows, all checked) ---- *)

Theorem C02_decision_table :
  forall d : dec,
    (* carried over only with exactly one head, its entry at hand, and nothing changed against it *)
    (decide d = Carry ->
       d_one_head d = true /\ d_found d = true /\ d_kind_same d = true /\ d_parent_same d = true
       /\ d_name_same d = true
       /\ (d_kind d = KFile -> d_exec_same d = true /\ d_content_same d = true)
       /\ (d_kind d = KLink -> d_content_same d = true))
    (* the basis entry is kept untouched iff nothing changed and no other parent differs *)
    /\ (decide d = Skip <-> d_changed d = false /\ d_has_merged d = false)
    (* several heads, no head, or a head whose entry is not at hand force a new version *)
    /\ ((d_changed d = true \/ d_has_merged d = true) -> (d_one_head d = false \/ d_found d = false) -> decide d = New)
    (* the result does not depend on whether the file is in the basis *)
    /\ decide (mkDec (negb (d_in_basis d)) (d_changed d) (d_has_merged d) (d_one_head d) (d_found d) (d_kind_same d)
                     (d_parent_same d) (d_name_same d) (d_exec_same d) (d_content_same d) (d_kind d)) = decide d.
Proof. exact decision_table_props. Qed.
Print Assumptions C02_decision_table.

(* ---- per-file parents are exactly the heads among the versions in the revision's parents ---- *)

Theorem C02_text_parents_are_heads :
  forall rich ops, ops_ok (now rich) ops = true ->
  let h := run (now rich) ops in
  forall f r ps, text_parents h f r = Some ps ->
    ps = oheads (file_dag (h_texts h) f) (parent_versions h f r)
    /\ (forall p, In p ps <-> In p (heads (file_dag (h_texts h) f) (parent_versions h f r))).
Proof. intros rich ops. exact (text_parents_are_heads (now rich) ops). Qed.
Print Assumptions C02_text_parents_are_heads.

(* [heads] is the set of maximal keys (Theory.DagFacts.heads_spec), spelled out for the stored parents *)
Theorem C02_text_parents_maximal :
  forall rich ops, ops_ok (now rich) ops = true ->
  let h := run (now rich) ops in
  forall f r ps, text_parents h f r = Some ps ->
  forall p, In p ps <->
    In p (parent_versions h f r)
    /\ forall p', In p' (parent_versions h f r) -> p' <> p -> is_ancestor (file_dag (h_texts h) f) p p' = false.
Proof.
  intros rich ops OK h f r ps T p.
  destruct (text_parents_are_heads (now rich) ops OK f r ps T) as [_ H]. fold h in H. rewrite H. apply heads_spec.
Qed.
Print Assumptions C02_text_parents_maximal.

(* ---- last-changed revisions ------------------------------------------------------------------ *)

Theorem C02_last_changed_is_latest_change :
  forall rich ops, ops_ok (now rich) ops = true ->
  let c := now rich in
  let h := run c ops in
  forall r f e, entry_at h r f = Some e ->
    (* the named revision is r or an ancestor of r and holds the identical entry
       (same content, name, parent directory, kind, executable bit, same last-changed) *)
    (e_rev e <= r /\ reach (h_g h) (e_rev e) r /\ entry_at h (e_rev e) f = Some e)
    /\ (versioned c e = false -> e_rev e = r)
    /\ (versioned c e = true ->
        (* (f, last-changed) is a stored text key *)
        text_parents h f (e_rev e) <> None
        (* r is named only if the file is not identical to the one head among the parents' versions
           (it changed against it, or there are several heads, or none) *)
        /\ (e_rev e = r -> forall pe, In pe (parent_entries_at (h_g h) (h_trees h) f r) ->
              oheads (file_dag (h_texts h) f) (parent_versions h f r) = [e_rev pe] -> e_attrs pe <> e_attrs e)
        (* otherwise the entry is the parent entry holding the unique head: nothing changed since *)
        /\ (e_rev e <> r -> In e (parent_entries_at (h_g h) (h_trees h) f r)
                            /\ oheads (file_dag (h_texts h) f) (parent_versions h f r) = [e_rev e])).
Proof. intros rich ops. exact (last_changed_is_latest_change (now rich) ops). Qed.
Print Assumptions C02_last_changed_is_latest_change.

(* plain commits: last-changed = this revision iff the entry differs from the parent's (or is new) *)
Theorem C02_linear_commit :
  forall rich ops, ops_ok (now rich) ops = true ->
  let c := now rich in
  let h := run c ops in
  forall r p f e, parents (h_g h) r = [p] -> entry_at h r f = Some e -> versioned c e = true ->
    (e_rev e = r <-> forall pe, entry_at h p f = Some pe -> e_attrs pe <> e_attrs e).
Proof. intros rich ops. exact (linear_commit (now rich) ops). Qed.
Print Assumptions C02_linear_commit.

(* The literal reading of the property ("the most recent revision in which the file actually
   changed") is false of per-file merge nodes: after identical parallel changes the merge records
   a new version (parents [1; 2]) although the file is identical in every parent.  This is bzr's
   documented design (record_iter_changes: "the per-file graph will reflect a merge"), not a defect;
   C02_last_changed_is_latest_change is the exact statement. *)
Theorem C02_last_changed_literal_refuted :
  let c := now true in
  exists ops r f e, ops_ok c ops = true /\ entry_at (run c ops) r f = Some e /\ e_rev e = r
    /\ parents (h_g (run c ops)) r <> []
    /\ (forall p, In p (parents (h_g (run c ops)) r) ->
          exists pe, entry_at (run c ops) p f = Some pe /\ e_attrs pe = e_attrs e)
    /\ text_parents (run c ops) f r = Some [1; 2].
Proof. exact last_changed_literal_refuted. Qed.
Print Assumptions C02_last_changed_literal_refuted.

(* ---- the consistency check ---------------------------------------------------------------------- *)

(* every builder of the current code, every format flavour: for every history the checker's
   expected parents are the stored parents, for every text key; check reports no inconsistent
   parents (unguarded since fix 2c4765b; before it this needed the guard [heads_agree] for
   VersionedFileCommitBuilder, see C02_old_* below) *)
Theorem C02_checker_agrees :
  forall rich ops, ops_ok (now rich) ops = true ->
    checker (now rich) (run (now rich) ops) = h_texts (run (now rich) ops)
    /\ inconsistent (now rich) (run (now rich) ops) = 0.
Proof. intros rich ops. exact (checker_agrees (now rich) ops eq_refl). Qed.
Print Assumptions C02_checker_agrees.

(* the regression input of the repaired finding (delete, re-add with the same file id, merge with a
   branch that kept the old version) now records both heads *)
Theorem C02_readd_records_both_heads :
  forall rich,
  let c := now rich in
  ops_ok c readd_ops = true
  /\ text_parents (run c readd_ops) 3 5 = Some [3; 1] /\ text_parents (run c readd_ops) 3 6 = Some [1; 3]
  /\ inconsistent c (run c readd_ops) = 0.
Proof. intros rich. destruct rich; vm_compute; repeat split. Qed.
Print Assumptions C02_readd_records_both_heads.

(* ---- the code's merged_ids / parent_entries / carry-over logic computes the specification --------- *)

(* [spec_entry G new P a]: P = the entries of the file in the parents; if their versions have exactly
   one head and the entry holding it has attributes a, keep that entry, else record a new version
   whose parents are the heads.  record_iter_changes (commit_entry) computes exactly this whenever
   equal versions in the parents are equal entries (an invariant of every history). *)
Theorem C02_commit_entry_refines_spec :
  forall c g texts new ptrees f a,
    rich_root c || negb (is_root a) = true ->
    same_rev_same_entry (entries_of f ptrees) ->
    commit_entry c g texts new ptrees f a
    = spec_entry (heads_graph c g texts f) new (entries_of f ptrees) a.
Proof. exact commit_entry_spec. Qed.
Print Assumptions C02_commit_entry_refines_spec.

(* ---- the OLD behaviour (VersionedFileCommitBuilder._heads before fix 2c4765b) ---------------------- *)
(* These three statements are about [old_global_heads], heads taken in the revision graph; they
   document the repaired finding C02-global-heads-readd and say nothing about the current code. *)

(* Witness: delete a file, re-add it with the same file id, merge with a branch that kept the old
   version.  Stored parents [3], the checker expects [1; 3]. *)
Theorem C02_old_global_heads_checker_refuted :
  forall rich,
  let c := old_global_heads rich in
  exists ops, ops_ok c ops = true /\ heads_agree c ops = false
              /\ inconsistent c (run c ops) <> 0
              /\ text_parents (run c ops) 3 6 = Some [3]
              /\ text_parents_in (checker c (run c ops)) 3 6 = Some [1; 3].
Proof. exact checker_global_refuted. Qed.
Print Assumptions C02_old_global_heads_checker_refuted.

(* the old code was right exactly under the executable guard "at every commit the revision-graph
   heads of the candidates are their per-file heads" *)
Theorem C02_old_global_heads_checker_guarded :
  forall rich ops,
  let c := old_global_heads rich in
  ops_ok c ops = true -> heads_agree c ops = true ->
    checker c (run c ops) = h_texts (run c ops) /\ inconsistent c (run c ops) = 0.
Proof. exact checker_agrees_global_guarded. Qed.
Print Assumptions C02_old_global_heads_checker_guarded.

(* in every history, whatever the builder: a head in the revision graph is a head in the per-file
   graph, so the old revision-graph heads could only drop per-file parents, never add a wrong one *)
Theorem C02_old_global_heads_subset_file_heads :
  forall c ops, ops_ok c ops = true ->
  let h := run c ops in
  forall f cands x, In x (oheads (h_g h) cands) -> In x (oheads (file_dag (h_texts h) f) cands).
Proof. exact global_heads_subset_file_heads. Qed.
Print Assumptions C02_old_global_heads_subset_file_heads.

(* non-vacuity: criss-cross, revert after merge, identical parallel change, kind change/rename,
   delete + re-add (Theory/FileGraph.v: ex_crisscross, ex_revert_after_merge, parallel_ops,
   ex_kind_change, readd_ops) are histories satisfying ops_ok on which the statements above
   speak about carried-over entries, per-file merge nodes and new versions. *)
Example C02_nonvacuous :
  ops_ok (now true) crisscross_ops = true /\ ops_ok (now true) revert_ops = true
  /\ ops_ok (now true) kind_ops = true /\ ops_ok (now false) readd_ops = true
  /\ text_parents (run (now true) crisscross_ops) 3 5 = Some [3; 4]
  /\ option_map e_rev (entry_at (run (now true) revert_ops) 4 3) = Some 2.
Proof. vm_compute. repeat split. Qed.
Print Assumptions C02_nonvacuous.
