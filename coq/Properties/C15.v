(* Properties/C15.v -- Shelving and unshelving restore exactly the shelved changes.
   Statements only; models in Model/Shelf{Ids,Lines,Tree}.v, proofs in Theory/Shelf{Ids,Lines,Tree}.v.
   Three layers: (1) shelf id allocation, (2) line-level hunk selection, (3) tree level. *)
From Coq Require Import NArith ZArith List Bool.
From BV Require Import Lib.Bytes Lib.Obs Lib.DecBytes Model.Patch Theory.Patch
  Model.ShelfIds Theory.ShelfIds Model.ShelfLines Theory.ShelfLines Model.ShelfTree Theory.ShelfTree.
Import ListNotations.
Local Open Scope nat_scope.

(* ================================================================== (1) shelf ids *)

(* the file-name pattern reads back exactly the ids that "shelf-%d" wrote, for all ids >= 1 *)
Theorem C15_get_shelf_ids_of_names :
  forall ids, Forall (fun n => (1 <= n)%N) ids -> get_shelf_ids (map shelf_name ids) = ids.
Proof. exact get_shelf_ids_names. Qed.
Print Assumptions C15_get_shelf_ids_of_names.

(* only whole names are shelves (fullmatch, since 56cc459): an accepted name is "shelf-" followed by a
   digit string without leading zero whose value is the id; nothing may follow *)
Theorem C15_match_shelf_exact :
  forall fn n, match_shelf fn = Some n ->
    exists c d, fn = PREFIX ++ c :: d /\ (49 <= c <= 57)%N /\ forallb is_dec_char d = true
                /\ parse_dec (c :: d) = Some n.
Proof. exact match_shelf_exact. Qed.
Print Assumptions C15_match_shelf_exact.

(* the OLD start-anchored pattern counted stray files such as shelf-1x as shelf 1 *)
Example C15_old_match_shelf_stray :
  match_shelf_old (PREFIX ++ [49; 120]%N) = Some 1%N /\ match_shelf (PREFIX ++ [49; 120]%N) = None.
Proof. exact match_shelf_old_stray. Qed.

(* new_shelf returns 1 + max existing (1 if none), at any point of any operation sequence, and
   that is strictly above every id live at that point (so never equal to one of them) *)
Theorem C15_ids_new_is_succ_max :
  forall ops1 ops2 ids mid rs1,
    arun ids ops1 = (mid, rs1) ->
    exists fin rs2,
      arun ids (ops1 ++ ONew :: ops2) = (fin, rs1 ++ RNew (list_max mid + 1) :: rs2)
      /\ (forall m, In m mid -> (m < list_max mid + 1)%N)
      /\ (mid = [] -> (list_max mid + 1 = 1)%N).
Proof. exact alloc_above_live. Qed.
Print Assumptions C15_ids_new_is_succ_max.

(* shelves are numbered uniquely: the live ids stay duplicate-free (and >= 1) under every
   sequence of new / delete / read operations *)
Theorem C15_ids_unique_monotone :
  forall ops ids ids' rs, NoDup ids /\ Forall (fun n => (1 <= n)%N) ids ->
    arun ids ops = (ids', rs) -> NoDup ids' /\ Forall (fun n => (1 <= n)%N) ids'.
Proof. intros ops ids ids' rs G E. exact (arun_good ops ids ids' rs G E). Qed.
Print Assumptions C15_ids_unique_monotone.

(* deleting removes exactly that id and renumbers nothing *)
Theorem C15_ids_delete_exact :
  forall ids n ids' r, astep ids (ODelete n) = (ids', r) ->
    (In n ids -> r = ROk /\ ids' = filter (fun m => negb (n =? m)%N) ids
                 /\ forall m, In m ids' <-> In m ids /\ m <> n)
    /\ (~ In n ids -> r = RNoSuchFile /\ ids' = ids).
Proof. exact delete_exact. Qed.
Print Assumptions C15_ids_delete_exact.

(* shelves survive until deleted *)
Theorem C15_ids_survive :
  forall ops ids m, In m ids -> ~ In (ODelete m) ops -> In m (fst (arun ids ops)).
Proof. exact survives. Qed.
Print Assumptions C15_ids_survive.

(* the directory-level machine (file names, the regular expression, "%d") refines the id machine *)
Theorem C15_ids_directory_refines :
  forall ops dir ids, canon dir ids ->
    run dir ops = (map shelf_name (fst (arun ids ops)), snd (arun ids ops))
    /\ get_shelf_ids (fst (run dir ops)) = fst (arun ids ops).
Proof. exact run_refines. Qed.
Print Assumptions C15_ids_directory_refines.

(* ids ARE reused once every higher-or-equal one is gone (not a violation: unique among live shelves) *)
Example C15_ids_reuse_example :
  snd (arun [] [ONew; ODelete 1%N; ONew; ONew; ODelete 1%N; ONew])
  = [RNew 1%N; ROk; RNew 1%N; RNew 2%N; ROk; RNew 3%N].
Proof. vm_compute. reflexivity. Qed.
Example C15_ids_names_example :
  get_shelf_ids (map shelf_name [3; 10; 1]%N) = [3; 10; 1]%N /\ canon (map shelf_name [3; 10; 1]%N) [3; 10; 1]%N.
Proof.
  split; [vm_compute; reflexivity|]. split; [reflexivity|]. split.
  - repeat constructor; cbn; intuition discriminate.
  - repeat constructor; discriminate.
Qed.

(* ================================================================== (2) hunk selection *)

(* shelve: for every target text, work text, accepted matcher opcodes, context size and every
   answer sequence, _select_hunks never raises PatchConflict and leaves the target text with exactly
   the hunks NOT chosen for shelving; change_count = number of chosen hunks *)
Theorem C15_select_hunks_shelve :
  forall a b ops n answers, valid_opcodes a b ops = true ->
    let hs := mk_hunks a b ops n in
    select_hunks false a hs answers = inr (tree_text a hs answers)
    /\ change_count false hs answers = length (filter (fun x => x) (pad (length hs) answers)).
Proof. exact select_hunks_shelve. Qed.
Print Assumptions C15_select_hunks_shelve.

(* the inverted diff of merge -i / ApplyReporter: selected hunks are applied to the work text *)
Theorem C15_select_hunks_apply :
  forall a b ops n answers, valid_opcodes b a ops = true ->
    let hs := mk_hunks b a ops n in
    select_hunks true b hs answers
    = inr (render (fst (segs_of hs b 0)) (pad (length hs) answers) (snd (segs_of hs b 0)))
    /\ change_count true hs answers = length (filter (fun x => x) (pad (length hs) answers)).
Proof. exact select_hunks_apply. Qed.
Print Assumptions C15_select_hunks_apply.

(* all hunks shelved: tree = target, shelf = work; none: tree = work, shelf = target; the text
   expected after unshelving is the work text *)
Theorem C15_select_hunks_extremes :
  forall a b ops n, valid_opcodes a b ops = true ->
    let hs := mk_hunks a b ops n in
    tree_text a hs (repeat true (length hs)) = a
    /\ shelf_text a hs (repeat true (length hs)) = b
    /\ tree_text a hs (repeat false (length hs)) = b
    /\ shelf_text a hs (repeat false (length hs)) = a
    /\ unshelved_text a hs = b.
Proof. exact select_hunks_extremes. Qed.
Print Assumptions C15_select_hunks_extremes.

(* PARTIAL: the line-level round trip, conditional on merge3 merging edits of disjoint segments of this
   text cleanly ([seg_correct], a statement about merge3 + patiencediff = environment, compared with
   the real Merge3 on every correspondence case): _inverse_lines shelves exactly the chosen hunks, and
   merging the shelf text back into the tree text gives the work text *)
Theorem C15_hunk_roundtrip_partial :
  forall (merge3 : list line -> list line -> list line -> option (list line)) a b ops n answers,
    valid_opcodes a b ops = true ->
    let hs := mk_hunks a b ops n in
    seg_correct merge3 (fst (segs_of hs a 0)) (snd (segs_of hs a 0)) ->
    merge3 (tree_text a hs answers) a b = Some (shelf_text a hs answers)
    /\ merge3 a (tree_text a hs answers) (shelf_text a hs answers) = Some b.
Proof. exact hunk_roundtrip. Qed.
Print Assumptions C15_hunk_roundtrip_partial.

(* a two-hunk example: lines 1..9, first and last changed, context 1; shelve only the second hunk *)
Definition ex_l (c : N) : line := [c; 10%N].
Definition ex_a : list line := map ex_l [49; 50; 51; 52; 53; 54; 55; 56; 57]%N.
Definition ex_b : list line := map ex_l [88; 50; 51; 52; 53; 54; 55; 56; 89]%N.
Definition ex_ops : list opcode :=
  [Op TReplace 0 1 0 1; Op TEqual 1 8 1 8; Op TReplace 8 9 8 9].
Example C15_select_hunks_example :
  valid_opcodes ex_a ex_b ex_ops = true
  /\ length (mk_hunks ex_a ex_b ex_ops 1) = 2
  /\ select_hunks false ex_a (mk_hunks ex_a ex_b ex_ops 1) [false; true]
     = inr (map ex_l [88; 50; 51; 52; 53; 54; 55; 56; 57]%N)
  /\ shelf_text ex_a (mk_hunks ex_a ex_b ex_ops 1) [false; true]
     = map ex_l [49; 50; 51; 52; 53; 54; 55; 56; 89]%N.
Proof. vm_compute. repeat split; reflexivity. Qed.

(* ================================================================== (3) tree level *)

(* ids without a selected change are untouched, in the tree and in the shelf *)
Theorem C15_shelve_frame :
  forall basis wt (s : selection) i, (forall t, s t i = false) ->
    work_of basis wt s i = wt i /\ shelf_of basis wt s i = basis i.
Proof. exact work_frame. Qed.
Print Assumptions C15_shelve_frame.

(* "removes exactly those changes and keeps all others" is FALSE of the faithful model (and of
   breezy): shelving the deletion of an executable file brings it back non-executable *)
Theorem C15_shelve_removes_exactly_refuted :
  exists b w s, (forall t, s t = true -> In t (offered_at b w)) /\
    delta_at b (fst (shelve_at b w s)) <> filter (fun f => negb (covers b w s f)) (delta_at b w).
Proof. exact shelve_at_exact_refuted. Qed.
Print Assumptions C15_shelve_removes_exactly_refuted.

(* ... and holds, for every id of every pair of trees and every selection, under the executable
   guard [exec_safe]: the differences to the basis after shelving are the differences before minus
   the fields covered by the selected changes *)
Theorem C15_shelve_removes_exactly_guarded :
  forall basis wt (s : selection) i,
    exec_safe (basis i) (wt i) (fun t => s t i) = true ->
    delta_at (basis i) (work_of basis wt s i)
    = filter (fun f => negb (covers (basis i) (wt i) (fun t => s t i) f)) (delta_at (basis i) (wt i)).
Proof. intros basis wt s i G. unfold work_of. apply shelve_at_exact. exact G. Qed.
Print Assumptions C15_shelve_removes_exactly_guarded.

(* PARTIAL (executable bits of touched files are outside the model, see notes): unshelving onto the
   unchanged result of shelving restores location, kind and content of every id, without
   conflicts, when the tree and the shelf preview are well-formed *)
Theorem C15_unshelve_inverts_partial :
  forall dom basis wt s,
    wfb dom wt = true -> wfb dom (shelf_of basis wt s) = true ->
    exists t', unshelve dom basis (shelf_of basis wt s) (work_of basis wt s) = UOk t'
               /\ forall i, strip_exec (t' i) = strip_exec (wt i).
Proof. exact unshelve_inverts. Qed.
Print Assumptions C15_unshelve_inverts_partial.

(* example: basis {1: file x, 2: dir d}; work tree renames x into d and changes it, adds 3.
   Shelving only the rename is well-formed and round-trips. *)
Definition ex_basis : list (N * entry) :=
  [(1, Entry 0 [120] (KFile [97; 10]) false); (2, Entry 0 [100] KDir false)]%N.
Definition ex_wt : list (N * entry) :=
  [(1, Entry 2 [121] (KFile [98; 10]) true); (2, Entry 0 [100] KDir false);
   (3, Entry 2 [110] (KLink [116]) false)]%N.
Example C15_tree_example :
  let s := sel_of [(CRen, 1%N)] in
  let dom := [1; 2; 3]%N in
  wfb dom (of_list ex_wt) = true
  /\ wfb dom (shelf_of (of_list ex_basis) (of_list ex_wt) s) = true
  /\ work_of (of_list ex_basis) (of_list ex_wt) s 1%N = Some (Entry 0 [120] (KFile [98; 10]) true)%N
  /\ exec_safe (of_list ex_basis 1%N) (of_list ex_wt 1%N) (fun t => s t 1%N) = true.
Proof. vm_compute. repeat split; reflexivity. Qed.
