(* Properties/C51.v -- Rebase plans replay exactly the branch's own revisions
   onto the new base.  Statements only; the models are Model/Rebase.v (on
   Lib/Dag.v, Lib/DagTopo.v) and Model/RebaseCodec.v, the proofs are in
   Theory/Rebase.v, Theory/RebaseCodec.v, Theory/DagTopoFacts.v.

   g is ANY well-formed revision graph (any size and shape: merges, criss-cross,
   ghosts, several roots).  [simple_plan g gen todo_set order start stop onto skip]
   models generate_simple_plan; [order] is what topo_sort returned for the
   parent map of todo_set -- an environment value, constrained only by
   [topo_sortedb] / [topo_order_of] (no revision precedes one of its parents);
   [gen] is generate_revid.  A plan is the replace map {old: (new, new parents)}
   as an association list in insertion (= replay) order.

   The command (cmd_rebase) calls it with
   todo_set = find_difference(tip, onto)[0] = ancestry(tip) \ ancestry(onto). *)
From Coq Require Import NArith List Arith Bool.
From BV Require Import Lib.Bytes Lib.Dag Lib.DagTopo Theory.DagFacts Theory.DagTopoFacts
  Model.Rebase Theory.Rebase Theory.RebaseReplay Model.RebaseCodec Theory.RebaseCodec
  Lib.PyDict Model.RebaseTranspose Theory.RebaseTranspose.
Import ListNotations.
Close Scope N_scope.

(* ---- clause 1: the plan rewrites exactly the branch's own revisions ------------ *)

(* the command's call without a start revision and without skip_full_merged:
   the plan's keys are, in replay order, the whole topological order, i.e.
   exactly the present revisions in tip's ancestry that are not in onto's *)
Theorem C51_domain :
  forall g gen, wf_dag g = true ->
  forall todo_set order tip onto,
  topo_order_of g todo_set order = true ->
  (forall x, In x todo_set <-> In x (find_unique_ancestors g tip [onto])) ->
  present g tip = true -> ~ reach g tip onto ->
  forall stop m, stop = Some tip \/ stop = None ->
  simple_plan g gen todo_set order None stop onto false = Ok m ->
  map fst m = order /\
  forall r, In r (map fst m) <-> (present g r = true /\ reach g r tip /\ ~ reach g r onto).
Proof. exact plan_domain_cmd. Qed.
Print Assumptions C51_domain.

(* that call cannot fail except with UnrelatedBranches (generate_revid never
   returns the old id) *)
Theorem C51_plan_succeeds :
  forall g gen, wf_dag g = true ->
  forall todo_set order tip onto,
  topo_order_of g todo_set order = true ->
  (forall x, In x todo_set <-> In x (find_unique_ancestors g tip [onto])) ->
  present g tip = true -> ~ reach g tip onto ->
  (forall r ps, gen r ps <> r) ->
  forall stop skip, stop = Some tip \/ stop = None ->
  (lca_is_null g tip onto = true /\
   simple_plan g gen todo_set order None stop onto skip = Err UnrelatedBranches) \/
  exists m, simple_plan g gen todo_set order None stop onto skip = Ok m.
Proof. exact plan_succeeds_cmd. Qed.
Print Assumptions C51_plan_succeeds.

(* any todo_set, start, stop: the keys are the slice order[index(start) : index(stop)+1]
   ([replayed]), in that order *)
Theorem C51_domain_slice :
  forall g gen, wf_dag g = true ->
  forall todo_set order start stop onto m,
  topo_sortedb g order = true ->
  simple_plan g gen todo_set order start stop onto false = Ok m ->
  replayed order start stop (map fst m).
Proof. exact plan_domain_slice. Qed.
Print Assumptions C51_domain_slice.

(* with skip_full_merged ("modulo skip_full_merged"): a subsequence of the
   slice; only merge revisions are dropped *)
Theorem C51_domain_skip_full_merged :
  forall g gen, wf_dag g = true ->
  forall todo_set order start stop onto skip m,
  topo_sortedb g order = true ->
  simple_plan g gen todo_set order start stop onto skip = Ok m ->
  exists todo f, replayed order start stop todo /\ map fst m = filter f todo /\
    forall r, In r todo -> f r = false -> skip = true /\ 1 < length (parents g r).
Proof. exact plan_domain_skip. Qed.
Print Assumptions C51_domain_skip_full_merged.

(* ---- clause 2: new parents are the new base or revisions rewritten earlier ------ *)

(* (after the repair be02b0d of C51-skipped-merge-child this holds with and
   without skip_full_merged.)  Every entry has new = gen old ps <> old and at
   least one parent, and every new parent is
     - the new base, or
     - the new id of an EARLIER entry o' that rewrites an old parent of the
       revision -- or, new disjunct, a parent of a merge that skip_full_merged
       dropped among those old parents, and so on through dropped merges:
       [linked (dropped todo m) o' old]  (for a dropped merge it is the rewritten
       left parent, or the rewritten merged parent when the left one is in onto's
       ancestry), or
     - an old parent outside the replayed slice (a ghost, a revision before start) *)
Theorem C51_parents_ordered :
  forall g gen, wf_dag g = true ->
  forall todo_set order start stop onto skip m,
  topo_sortedb g order = true ->
  simple_plan g gen todo_set order start stop onto skip = Ok m ->
  exists todo, replayed order start stop todo /\
  forall m1 old new ps m2, m = m1 ++ (old, (new, ps)) :: m2 ->
    new = gen old ps /\ new <> old /\ ps <> [] /\
    forall p, In p ps ->
      p = onto \/
      (exists o' ps', linked g (dropped g todo m) o' old /\ In (o', (p, ps')) m1) \/
      (In p (parents g old) /\ ~ In p todo).
Proof. exact plan_parents. Qed.
Print Assumptions C51_parents_ordered.

(* what [linked] means: a strict ancestor in the old graph, reached through
   dropped merges only; with nothing dropped it is an old parent *)
Theorem C51_linked_is_strict_ancestor :
  forall g, wf_dag g = true -> forall D o r, linked g D o r -> reach g o r /\ o <> r.
Proof. exact linked_reach. Qed.
Print Assumptions C51_linked_is_strict_ancestor.

(* without skip_full_merged: the entry rewrites an old parent itself, and an
   untouched old parent is not a key of the plan at all *)
Theorem C51_parents_ordered_noskip :
  forall g gen, wf_dag g = true ->
  forall todo_set order start stop onto m m1 old new ps m2,
  topo_sortedb g order = true ->
  simple_plan g gen todo_set order start stop onto false = Ok m ->
  m = m1 ++ (old, (new, ps)) :: m2 ->
  new = gen old ps /\ new <> old /\ ps <> [] /\
  forall p, In p ps ->
    p = onto \/
    (exists o' ps', In o' (parents g old) /\ In (o', (p, ps')) m1) \/
    (In p (parents g old) /\ ~ In p (map fst m)).
Proof. exact plan_parents_noskip. Qed.
Print Assumptions C51_parents_ordered_noskip.

(* rebase_todo yields the entries whose new revision does not exist yet, in
   plan order: every new parent that is the new id of a plan entry is either in
   the repository already or that entry is listed earlier *)
Theorem C51_rebase_todo_dependencies_first :
  forall g gen, wf_dag g = true ->
  forall todo_set order start stop onto skip m has m1 old new ps m2,
  topo_sortedb g order = true ->
  simple_plan g gen todo_set order start stop onto skip = Ok m ->
  m = m1 ++ (old, (new, ps)) :: m2 ->
  rebase_todo has m = rebase_todo has m1 ++ (if has new then [] else [old]) ++ rebase_todo has m2 /\
  forall p, In p ps ->
    p = onto \/ In p (parents g old) \/
    exists o' ps', In (o', (p, ps')) m1 /\ (has p = true \/ In o' (rebase_todo has m1)).
Proof. exact todo_deps_first. Qed.
Print Assumptions C51_rebase_todo_dependencies_first.

(* rebase() (since 7ede022) replays in topo_sort(dependencies) with
   dependencies[old] = old parents + the entries whose new id is a new parent of old.
   [l] is ANY list that topo_sort may return for that map ([dep_sortedb]: no
   duplicates, no key followed by one of its dependencies).  Then, for ANY replace
   map with pairwise different keys and new ids (simple or transpose plan, loaded
   from a plan file, ...): the entry that a new parent refers to comes strictly
   before the entry that uses it *)
Theorem C51_replay_order_dependencies_first :
  forall g (m : rmap) l old new ps p o' ps' i j,
  NoDup (map fst m) -> NoDup (map (fun e => fst (snd e)) m) ->
  dep_sortedb (plan_deps g m) l = true ->
  In (old, (new, ps)) m -> In p ps -> In (o', (p, ps')) m -> o' <> old ->
  index_of o' l = Some i -> index_of old l = Some j -> i < j.
Proof. exact replay_deps_first. Qed.
Print Assumptions C51_replay_order_dependencies_first.

(* ... and the order of the old graph is kept as well *)
Theorem C51_replay_order_parents_first :
  forall g (m : rmap) l old q i j,
  wf_dag g = true -> dep_sortedb (plan_deps g m) l = true ->
  rm_get m old <> None -> In q (parents g old) ->
  index_of q l = Some i -> index_of old l = Some j -> i < j.
Proof. exact replay_parents_first. Qed.
Print Assumptions C51_replay_order_parents_first.

(* such an order exists for every plan of generate_simple_plan (with and without
   skip_full_merged): the plan's own order is one, so the dependency relation has
   no cycle and topo_sort cannot fail.  generate_revid injective and fresh (its ids
   are neither onto nor a parent id of the graph). *)
Theorem C51_replay_order_exists :
  forall g gen todo_set order start stop onto skip m,
  wf_dag g = true ->
  (forall r r' ps ps', gen r ps = gen r' ps' -> r = r') ->
  (forall r ps x, (x = onto \/ exists c, In x (parents g c)) -> gen r ps <> x) ->
  topo_sortedb g order = true ->
  simple_plan g gen todo_set order start stop onto skip = Ok m ->
  dep_sortedb (plan_deps g m) (map fst m) = true.
Proof. exact plan_order_dep_sorted. Qed.
Print Assumptions C51_replay_order_exists.

(* about the OLD behaviour (before 7ede022 rebase() replayed in
   graph.iter_topo_order(replace_map.keys()), a topological order of the old graph
   restricted to the keys): that was not enough with skip_full_merged -- [5; 3] is
   such an order for the plan {3 -> 103, 5 -> 105 on 103} *)
Theorem C51_old_any_topological_order_refuted :
  exists g todo_set order tip onto m l old new ps p o' ps' i j,
    wf_dag g = true /\ topo_order_of g todo_set order = true /\
    todo_set = find_unique_ancestors g tip [onto] /\
    simple_plan g (gen_canon None) todo_set order None (Some tip) onto true = Ok m /\
    topo_order_of g (map fst m) l = true /\
    In (old, (new, ps)) m /\ In p ps /\ In (o', (p, ps')) m /\
    index_of o' l = Some i /\ index_of old l = Some j /\ j < i.
Proof. exact any_topo_refuted. Qed.
Print Assumptions C51_old_any_topological_order_refuted.

(* the old order [5; 3] is not admissible any more *)
Example C51_old_order_rejected :
  dep_sortedb (plan_deps g_witness [(3, (103, [2])); (5, (105, [103]))]) [5; 3] = false /\
  dep_sortedb (plan_deps g_witness [(3, (103, [2])); (5, (105, [103]))]) [3; 5] = true.
Proof. split; reflexivity. Qed.

(* an injective generate_revid gives pairwise different new ids (and the old
   ids are pairwise different too) *)
Theorem C51_new_ids_distinct :
  forall g gen, wf_dag g = true ->
  forall todo_set order start stop onto skip m,
  (forall r r' ps ps', gen r ps = gen r' ps' -> r = r') ->
  topo_sortedb g order = true ->
  simple_plan g gen todo_set order start stop onto skip = Ok m ->
  NoDup (map fst m) /\ NoDup (map (fun e => fst (snd e)) m).
Proof. exact new_ids_distinct. Qed.
Print Assumptions C51_new_ids_distinct.

(* the environment hypothesis is satisfiable for every graph and key set *)
Theorem C51_topological_order_exists :
  forall g keys, wf_dag g = true -> topo_order_of g keys (asc_order g keys) = true.
Proof. exact asc_order_topo. Qed.
Print Assumptions C51_topological_order_exists.

(* the hypotheses are satisfiable by a non-trivial value: the history of
   rewrite/tests/test_rebase.py test_plan_with_already_merged plus a child
       0 - 1 - 2          rebase 5 onto 2:  3 -> 103 on 2,  4 -> 104 on 103 (its merged
        \   \             parent 1 is in 2 already),  5 -> 105 on 104
         3 - 4 - 5  *)
Example C51_example :
  wf_dag g_witness = true /\
  topo_order_of g_witness (find_unique_ancestors g_witness 5 [2]) [3; 4; 5] = true /\
  simple_plan g_witness (gen_canon None) (find_unique_ancestors g_witness 5 [2]) [3; 4; 5]
              None (Some 5) 2 false
  = Ok [(3, (103, [2])); (4, (104, [103])); (5, (105, [104]))] /\
  rebase_todo (fun r => r =? 103) [(3, (103, [2])); (4, (104, [103])); (5, (105, [104]))] = [4; 5] /\
  (* with skip_full_merged the merge 4 is dropped and 5 is replayed on the rewritten 3 *)
  simple_plan g_witness (gen_canon None) (find_unique_ancestors g_witness 5 [2]) [3; 4; 5]
              None (Some 5) 2 true
  = Ok [(3, (103, [2])); (5, (105, [103]))].
Proof. repeat split; reflexivity. Qed.

(* generate_transpose_plan (modelled in Model/RebaseTranspose.v and tied by the
   correspondence run): PARTIAL -- only this is proved: the renamed revisions are
   replaced, never rewritten.  Missing: characterisation of the plan's domain
   (descendants of the renamed revisions) and of the substituted parents. *)
Theorem C51_transpose_renamed_not_rewritten_partial :
  forall g gen ancestry renames rm,
  transpose_plan g gen ancestry renames = TOk rm ->
  forall r, dict_mem Nat.eqb renames r = true -> ~ In r (map fst rm).
Proof. exact transpose_renamed_not_keys. Qed.
Print Assumptions C51_transpose_renamed_not_rewritten_partial.

(* ---- clause 3: the plan survives being saved and loaded ---------------------------- *)

(* guard: no blank/newline in the ids (bzr revision ids never contain
   whitespace), distinct keys (it is a dict).  Any size; entry order kept. *)
Theorem C51_marshall_roundtrip_guarded :
  forall revno revid m,
  Bytes.memb NL revid = false -> plan_ids_ok m = true -> NoDup (map fst m) ->
  unmarshall (marshall revno revid m) = COk ((revno, revid), m).
Proof. exact roundtrip. Qed.
Print Assumptions C51_marshall_roundtrip_guarded.

Theorem C51_marshall_roundtrip_refuted :
  exists revno revid m, plan_ids_ok m = false /\ NoDup (map fst m) /\
    unmarshall (marshall revno revid m) <> COk ((revno, revid), m).
Proof. exact roundtrip_needs_legal_ids. Qed.
Print Assumptions C51_marshall_roundtrip_refuted.

Example C51_marshall_example :
  plan_ids_ok [([111; 49]%N, ([110; 49]%N, [[98]%N])); ([111; 50]%N, ([110; 50]%N, [[110; 49]%N; [120]%N]))] = true /\
  marshall 3%N [116]%N [([111; 49]%N, ([110; 49]%N, [[98]%N])); ([111; 50]%N, ([110; 50]%N, [[110; 49]%N; [120]%N]))]
  = (HEADER ++ [10; 51; 32; 116; 10; 111; 49; 32; 110; 49; 32; 98; 10;
                111; 50; 32; 110; 50; 32; 110; 49; 32; 120; 10])%N.
Proof. split; reflexivity. Qed.
