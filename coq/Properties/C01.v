(* Properties/C01.v -- A commit records exactly the selected working-tree state.

   Model: Model/CommitSel.v (commit.py filter_excluded / _filter_iter_changes / pipeline order and
   abort handler, vf_repository.record_iter_changes as change list -> inventory delta; environment
   models of dirstate iter_changes(specific_files) and CHKInventory apply_delta).
   Trees are compared id by id ([lookup]); [subst_lookup basis wt sel i] is the basis entry of i,
   or -- when [sel i] -- what a commit records for the working-tree entry of i.              *)
From Coq Require Import List NArith Bool String.
From BV Require Import Lib.Obs Lib.Tree01 Model.CommitSel Theory.CommitSel Theory.CommitSelMore.
Import ListNotations.
Open Scope list_scope.

(* ---- the data half ------------------------------------------------------------------------ *)

(* Full statement, under the executable guard [selection_closed] (no entry whose path differs
   between the trees has one end inside and one end outside specific_files / exclude, and the
   parent directories of the selected changed paths need nothing unselected): the new revision
   tree is the basis with the working-tree state substituted for exactly the ids whose old or new
   path is inside specific_files and outside exclude. *)
Theorem C01_commit_tree_eq_substitute : forall basis wt S excl t wt',
  rev_normal basis = true ->
  selection_closed basis wt S excl = true ->
  commit basis wt S excl = COk t wt' ->
  forall i, lookup t i = subst_lookup basis wt (selected basis wt S excl) i.
Proof. exact commit_eq_substitute. Qed.

Example C01_commit_tree_eq_substitute_nontrivial :
  rev_normal ex_basis = true /\ selection_closed ex_basis ex_wt_plain (Some [[97%N]]) [] = true /\
  (exists t wt', commit ex_basis ex_wt_plain (Some [[97%N]]) [] = COk t wt' /\
     lookup t 5%N <> lookup ex_basis 5%N /\ lookup t 8%N <> None /\ lookup t 7%N = lookup ex_basis 7%N /\
     changed t wt' 7%N = true).
Proof.
  split; [vm_compute; reflexivity|]. split; [vm_compute; reflexivity|].
  destruct (commit ex_basis ex_wt_plain (Some [[97%N]]) []) as [t wt'|e] eqn:E; [|vm_compute in E; discriminate].
  exists t, wt'. split; [reflexivity|]. vm_compute in E. injection E as <- <-.
  repeat split; try (intro H; vm_compute in H; discriminate); vm_compute; reflexivity.
Qed.

(* Without any guard: the new tree is the basis with the working-tree state substituted for
   exactly the ids of the changes that reach the commit builder (delta construction and delta
   application are exact), and the working tree afterwards has lost exactly the 'missing' ids
   among them. *)
Theorem C01_commit_tree_eq_substitute_emitted : forall basis wt S excl t wt',
  commit basis wt S excl = COk t wt' ->
  exists cs, selected_changes basis wt (option_map min_sel S) (min_sel excl) = Some cs /\
    (forall i, lookup t i = subst_lookup basis wt (fun j => has_cid j cs) i) /\
    (forall i, lookup wt' i = if memN i (deleted_ids cs) then None else lookup wt i).
Proof. exact commit_lookup. Qed.

(* Without any guard: every changed id with a path inside specific_files and no path inside
   exclude reaches the builder (so it is committed, by the previous theorem).  Partial: it is the
   "every selected path is substituted" half of the statement only. *)
Theorem C01_selected_are_committed_partial : forall basis wt S excl t wt',
  commit basis wt S excl = COk t wt' ->
  exists cs, selected_changes basis wt (option_map min_sel S) (min_sel excl) = Some cs /\
  forall i, changed basis wt i = true -> selected basis wt S excl i = true -> has_cid i cs = true.
Proof. exact selected_are_committed_partial. Qed.

(* The unguarded "and nothing else" is FALSE: a directory renamed across the selection boundary
   pulls its other end into the search, so an unselected rename (a/d/y -> c/y, specific_files=[b])
   is committed as well. *)
Theorem C01_commit_tree_unguarded_refuted :
  exists basis wt S excl t wt' i,
    valid_rev_tree basis = true /\ valid_tree wt = true /\
    commit basis wt S excl = COk t wt' /\
    selected basis wt S excl i = false /\
    lookup t i <> subst_lookup basis wt (selected basis wt S excl) i.
Proof.
  exists ex_basis, ex_wt_closure, (Some [[98%N]]), [].
  destruct (commit ex_basis ex_wt_closure (Some [[98%N]]) []) as [t wt'|e] eqn:E; [|vm_compute in E; discriminate].
  exists t, wt', 6%N. vm_compute in E. injection E as <- <-.
  repeat split; try (vm_compute; reflexivity). intro H; vm_compute in H; discriminate.
Qed.

(* The code drops a rename that crosses the exclude boundary (both `continue`s of
   filter_excluded): the new path b/z is inside the selection and NOT excluded, yet the revision
   keeps the file at c/z and the working tree still reports the rename. *)
Theorem C01_exclude_crossing_refuted :
  exists basis wt S excl t wt' i p,
    valid_rev_tree basis = true /\ valid_tree wt = true /\
    commit basis wt S excl = COk t wt' /\
    changed basis wt i = true /\
    tpath wt i = Some p /\ is_inside_any (sel_paths S) p = true /\ is_inside_any excl p = false /\
    lookup t i = lookup basis i /\ changed t wt' i = true.
Proof.
  exists ex_basis, ex_wt_cross, None, [[99%N]].
  destruct (commit ex_basis ex_wt_cross None [[99%N]]) as [t wt'|e] eqn:E; [|vm_compute in E; discriminate].
  exists t, wt', 7%N, [98%N; 122%N]. vm_compute in E. injection E as <- <-.
  repeat split; vm_compute; reflexivity.
Qed.

(* A successful commit yields a valid revision tree (unique ids and paths, parents are
   directories of the tree, no cycles, nothing missing) that has a root. *)
Theorem C01_result_valid : forall basis wt S excl t wt',
  commit basis wt S excl = COk t wt' -> valid_rev_tree t = true /\ fresh t root_id = false.
Proof. exact commit_result_valid. Qed.

(* Afterwards (new basis t, working tree wt'): under the guard, selected ids report no change
   and every unselected id reports exactly the change it reported before. *)
Theorem C01_selected_clean_unselected_pending : forall basis wt S excl t wt',
  selection_closed basis wt S excl = true ->
  commit basis wt S excl = COk t wt' ->
  forall i, (selected basis wt S excl i = true -> changed t wt' i = false) /\
            (selected basis wt S excl i = false -> changed t wt' i = changed basis wt i).
Proof. exact commit_post_guarded. Qed.

(* ... and without the guard, the same split along the ids that reached the builder. *)
Theorem C01_committed_clean_others_pending : forall basis wt S excl t wt',
  commit basis wt S excl = COk t wt' ->
  exists cs, selected_changes basis wt (option_map min_sel S) (min_sel excl) = Some cs /\
    forall i, (has_cid i cs = true -> changed t wt' i = false) /\
              (has_cid i cs = false -> changed t wt' i = changed basis wt i).
Proof. exact commit_post. Qed.

(* minimum_path_selection (applied to specific_files and exclude by Commit.commit) does not
   change which paths are inside the selection *)
Theorem C01_min_sel_same_inside : forall l p, is_inside_any (min_sel l) p = is_inside_any l p.
Proof. exact min_sel_inside. Qed.

(* ---- the failure half ---------------------------------------------------------------------- *)

(* An exception raised by any step up to and including builder.commit (k is the index of the
   failing step in the pipeline, for bound and unbound branches, from any state): the abort
   handler runs; the revisions, both tips and the working-tree basis are unchanged and no write
   group stays open. *)
Theorem C01_raise_before_builder_commit_invisible : forall bound new k s,
  (k <= index_of PBuilderCommit bound)%nat ->
  raised_and (run_fault new k (pipeline bound) s)
    (fun s' => p_revs s' = p_revs s /\ p_tip s' = p_tip s /\ p_master_tip s' = p_master_tip s /\
               p_wbasis s' = p_wbasis s /\ (k <> 0%nat -> p_wg s' = false) /\ (k = 0%nat -> p_wg s' = p_wg s)).
Proof. exact fault_before_commit_invisible. Qed.

Example C01_raise_before_example :
  run_fault_case false (index_of PMessage false) =
  OL [obool true; obool false; obool false; obool false; obool false; obool false].
Proof. reflexivity. Qed.

(* "A commit that raises leaves ... the set of revisions visible in the repository unchanged" is
   FALSE after builder.commit: a pre_commit hook that raises (index 7) leaves the new revision in
   the repository while the tip is unchanged. *)
Theorem C01_raise_after_builder_commit_refuted :
  exists bound new k s,
    ~ In new (p_revs s) /\
    raised_and (run_fault new k (pipeline bound) s)
      (fun s' => In new (p_revs s') /\ p_tip s' = p_tip s /\ p_wbasis s' = p_wbasis s).
Proof.
  exists false, 2%N, (index_of PPreCommitHook false), p_init. split.
  - simpl. intros [H|[]]. discriminate.
  - unfold raised_and. simpl. repeat split; try reflexivity. left; reflexivity.
Qed.

(* exactly which failures do that: every step after builder.commit up to and including the local
   tip update (pre_commit hooks, the master update of a bound branch, a pre_change_branch_tip veto) *)
Theorem C01_raise_after_builder_commit_characterised : forall bound new k s,
  (index_of PBuilderCommit bound < k <= index_of PSetTip bound)%nat ->
  raised_and (run_fault new k (pipeline bound) s)
    (fun s' => p_revs s' = new :: p_revs s /\ p_tip s' = p_tip s /\ p_wbasis s' = p_wbasis s /\ p_wg s' = false).
Proof. exact fault_after_commit_visible. Qed.

(* "... leaves the branch tip ... unchanged" is FALSE for a failure after the tip update
   (post_change_branch_tip hook, unversion, update_basis_by_delta, post_commit hook) *)
Theorem C01_raise_after_tip_update_refuted : forall bound new k s,
  (index_of PSetTip bound < k < List.length (pipeline bound))%nat ->
  raised_and (run_fault new k (pipeline bound) s)
    (fun s' => p_revs s' = new :: p_revs s /\ p_tip s' = new /\ p_wg s' = false).
Proof. exact fault_after_tip_visible. Qed.

Example C01_raise_after_tip_update_example :
  run_fault_case false (index_of PUpdateBasis false) =
  OL [obool true; obool true; obool true; obool false; obool false; obool false].
Proof. reflexivity. Qed.

(* no failure: revision, tip(s) and working-tree basis all advance *)
Theorem C01_no_fault_complete : forall bound new k s,
  (List.length (pipeline bound) <= k)%nat ->
  run_fault new k (pipeline bound) s =
    (mkP (new :: p_revs s) new (if bound then new else p_master_tip s) new false [], false).
Proof. exact no_fault_complete. Qed.

Print Assumptions C01_commit_tree_eq_substitute.
Print Assumptions C01_commit_tree_eq_substitute_emitted.
Print Assumptions C01_selected_are_committed_partial.
Print Assumptions C01_commit_tree_unguarded_refuted.
Print Assumptions C01_exclude_crossing_refuted.
Print Assumptions C01_result_valid.
Print Assumptions C01_selected_clean_unselected_pending.
Print Assumptions C01_committed_clean_others_pending.
Print Assumptions C01_min_sel_same_inside.
Print Assumptions C01_raise_before_builder_commit_invisible.
Print Assumptions C01_raise_after_builder_commit_refuted.
Print Assumptions C01_raise_after_builder_commit_characterised.
Print Assumptions C01_raise_after_tip_update_refuted.
Print Assumptions C01_no_fault_complete.
