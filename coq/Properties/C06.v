(* Properties/C06.v -- Aborted and suspended write groups have no visible effect until committed.
   Statements only; proofs are in Theory/WriteGroup.v, the model in Model/WriteGroup.v.

   C = any catalog (description of the records being inserted), is_gc = true for 2a
   (groupcompress + CHK inventories, _check_new_inventories), false for pack-0.92 (knit,
   missing-compression-parent check).  [Inv] is the state invariant; it holds in every state
   reachable from the empty repository by ANY operation sequence (C06_invariant_reachable). *)
From Coq Require Import List Bool NArith.
From BV Require Import Lib.Obs Model.WriteGroup Theory.WriteGroup.
Import ListNotations.
Open Scope N_scope.

Theorem C06_invariant_reachable :
  forall C is_gc ops, Inv C is_gc (run C is_gc ops init).
Proof. intros C is_gc ops. apply Inv_run. apply Inv_init. Qed.
Print Assumptions C06_invariant_reachable.

(* ---- clause 1: abort.  For every state outside a write group and EVERY insertion sequence:
   pack-names, upload/ and the visible keys are exactly as before. *)
Theorem C06_abort_invisible :
  forall C is_gc s ks, wg s = None -> broken s = false ->
    let s' := run C is_gc (Start :: map Ins ks ++ [Abort]) s in
    listed s' = listed s /\ upload s' = upload s /\ visible s' = visible s /\
    wg s' = None /\ broken s' = false.
Proof. exact abort_invisible. Qed.
Print Assumptions C06_abort_invisible.

Example C06_abort_invisible_ex :
  let s := run cat_2a true [Start; Ins 41; Commit; Start; Ins 42; Suspend] init in
  wg s = None /\ broken s = false /\ visible s = [41] /\ upload s = [[42]] /\
  visible (run cat_2a true (Start :: map Ins [1; 11; 43] ++ [Abort]) s) = [41].
Proof. vm_compute. repeat split; reflexivity. Qed.

(* ---- clause 1 under FAULTS: every delete on upload/ fails while abort_write_group runs (upload/
   gone, transport error), with or without suppress_errors.  For every state outside a write group
   and EVERY insertion sequence: nothing of the group is visible on disk or to the object, the
   object can start its next write group, and the state is exactly that of the non-faulting abort. *)
Theorem C06_abort_fault_invisible :
  forall C is_gc s ks sup, wg s = None -> broken s = false ->
    let s' := run C is_gc (Start :: map Ins ks ++ [AbortF sup]) s in
    listed s' = listed s /\ upload s' = upload s /\ visible s' = visible s /\ view s' = view s /\
    wg s' = None /\ broken s' = false /\
    snd (step C is_gc Start s') = ROk /\
    s' = run C is_gc (Start :: map Ins ks ++ [Abort]) s.
Proof. exact abort_fault_invisible. Qed.
Print Assumptions C06_abort_fault_invisible.

Example C06_abort_fault_ex :
  let s := run cat_knit false [Start; Ins 41; Commit] init in
  view (run cat_knit false (Start :: map Ins [42; 1] ++ [AbortF true]) s) = [41] /\
  snd (step cat_knit false (AbortF false) (run cat_knit false [Start; Ins 42] s)) = RErr ETransport.
Proof. vm_compute. split; reflexivity. Qed.

(* ... and for ANY write group, resumed or not (since /repo 8028393; was the partial statement
   C06_abort_fault_resumed_partial / finding C06-abort-fault-skips-resumed-packs): pack-names, upload/
   and the visible keys unchanged, the object sees exactly what is committed, no revision stays
   registered as new, and the object can start its next write group.  (The resumed packs could not be
   deleted: they are still suspended in upload/.) *)
Theorem C06_abort_fault_any_group :
  forall C is_gc s w sup, wg s = Some w -> broken s = false ->
    let s' := fst (step C is_gc (AbortF sup) s) in
    listed s' = listed s /\ upload s' = upload s /\ visible s' = visible s /\
    view s' = visible s /\ wg s' = None /\ broken s' = false /\ newrevs s' = [] /\
    snd (step C is_gc Start s') = ROk.
Proof. exact abort_fault_any. Qed.
Print Assumptions C06_abort_fault_any_group.

Example C06_abort_fault_resumed_ex :
  let s := run cat_2a true [Start; Ins 51; Suspend; Resume [TName [51]]; Ins 41] init in
  (exists w, wg s = Some w /\ wres w <> []) /\ view s = [51; 41] /\
  view (fst (step cat_2a true (AbortF true) s)) = [] /\
  visible (run cat_2a true [AbortF true; Start; Ins 52; Commit] s) = [52].
Proof. vm_compute. repeat split. eexists. split; [reflexivity|intro H; discriminate H]. Qed.

(* abort of a RESUMED write group: pack-names unchanged; exactly the resumed packs leave upload/ *)
Theorem C06_abort_resumed :
  forall C is_gc s ts r ks, wg s = None -> broken s = false ->
    resume_toks (upload s) [] ts = RsOk r ->
    let s' := run C is_gc (Resume ts :: map Ins ks ++ [Abort]) s in
    listed s' = listed s /\ upload s' = nremove_all r (upload s) /\ wg s' = None /\ broken s' = false.
Proof. exact abort_resumed. Qed.
Print Assumptions C06_abort_resumed.

(* 2a: abort restores the COMPLETE state of the writer object, not only the disk *)
Theorem C06_abort_restores_state_2a :
  forall C s ks, wg s = None -> broken s = false -> mcp s = [] -> newrevs s = [] ->
    run C true (Start :: map Ins ks ++ [Abort]) s = s.
Proof. intros C s ks. apply abort_restores_state_gc. reflexivity. Qed.
Print Assumptions C06_abort_restores_state_2a.

(* ... which is FALSE for knit repositories: the aborted group's missing compression parents stay
   in the object's memory and the next, valid write group is refused
   (candidate finding C06-knit-stale-missing-parents; replayed on the real code) *)
Theorem C06_abort_restores_state_knit_refuted :
  exists ks k,
    snd (step cat_knit false Commit (run cat_knit false (Start :: map Ins ks ++ [Abort; Start; Ins k]) init))
      = RErr ECheck /\
    snd (step cat_knit false Commit (run cat_knit false [Start; Ins k] init)) = ROk.
Proof. exact abort_stale_refuted. Qed.
Print Assumptions C06_abort_restores_state_knit_refuted.

(* ---- clause 2: suspend ; reopen ; resume(all tokens) ; commit = commit.
   2a, every reachable state inside a write group (new pack not byte-identical to a suspended one):
   same outcome, same visible keys; when accepted also the same upload/ and write-group state. *)
Theorem C06_suspend_resume_commit_eq_commit_2a :
  forall C s w, Inv C true s -> broken s = false -> wg s = Some w -> ~ In (wnew w) (upload s) ->
    let a := step C true Commit (suspend_resume C true true s) in
    let b := step C true Commit s in
    snd a = snd b /\
    (forall k, In k (visible (fst a)) <-> In k (visible (fst b))) /\
    (snd b = ROk -> upload (fst a) = upload (fst b) /\ wg (fst a) = wg (fst b)).
Proof.
  intros C s w HI Hb Hw Hf. apply (suspend_resume_commit C true true s w HI Hb Hw Hf).
  destruct (HI Hb) as [Hm _]. split; intros _; [reflexivity|apply Hm; reflexivity].
Qed.
Print Assumptions C06_suspend_resume_commit_eq_commit_2a.

Example C06_suspend_resume_commit_ex :
  let s := run cat_2a true [Start; Ins 1; Ins 11; Ins 21; Ins 30; Ins 40; Ins 41] init in
  (exists w, wg s = Some w /\ ~ In (wnew w) (upload s)) /\ broken s = false /\
  snd (step cat_2a true Commit s) = RErr ECheck /\
  snd (step cat_2a true Commit (run cat_2a true [Ins 42] s)) = ROk /\
  snd (step cat_2a true Commit (suspend_resume cat_2a true true (run cat_2a true [Ins 42] s))) = ROk.
Proof. vm_compute. repeat split; try reflexivity. eexists. split; [reflexivity|intros []]. Qed.

(* any format (knit included), across a reopen, NO guard on the write group: a group built by
   Start + ANY insertion sequence on an object whose missing-compression-parent memory was empty
   (a fresh object; any 2a object; a knit object that never aborted/suspended a group with a
   dangling delta).  This is the statement the repair 3775d0a makes true for knit. *)
Theorem C06_suspend_resume_commit_eq_commit_fresh :
  forall C is_gc s0 ks, Inv C is_gc s0 -> wg s0 = None -> broken s0 = false -> mcp s0 = [] ->
    ~ In ks (upload s0) ->
    let s := run C is_gc (Start :: map Ins ks) s0 in
    let a := step C is_gc Commit (suspend_resume C is_gc true s) in
    let b := step C is_gc Commit s in
    snd a = snd b /\
    (forall k, In k (visible (fst a)) <-> In k (visible (fst b))) /\
    (snd b = ROk -> upload (fst a) = upload (fst b) /\ wg (fst a) = wg (fst b)).
Proof.
  intros C is_gc s0 ks HI Hw Hb Hm Hf s.
  destruct (mcp_agrees_fresh C is_gc s0 ks Hw Hb Hm) as (Hb' & Hw' & Hg). fold s in Hb', Hw', Hg.
  assert (Hup : upload s = upload s0).
  { unfold s. simpl. rewrite (step_start C is_gc s0 Hw Hb). simpl.
    destruct (run_inserts_shape C is_gc ks
                (St (listed s0) (upload s0) (Some (WG [] [])) (mcp s0) (newrevs s0) false)
                (WG [] []) eq_refl eq_refl) as (_ & H2 & _). exact H2. }
  apply (suspend_resume_commit C is_gc true s (WG ks [])).
  - apply Inv_run. exact HI.
  - exact Hb'.
  - exact Hw'.
  - simpl. rewrite Hup. exact Hf.
  - exact Hg.
Qed.
Print Assumptions C06_suspend_resume_commit_eq_commit_fresh.

Example C06_suspend_resume_commit_fresh_knit_ex :
  let s := run cat_knit false (Start :: map Ins [43; 12]) init in
  snd (step cat_knit false Commit s) = RErr ECheck /\
  snd (step cat_knit false Commit (suspend_resume cat_knit false true s)) = RErr ECheck /\
  snd (step cat_knit false Commit (suspend_resume cat_knit false true (run cat_knit false [Ins 41; Ins 11] s))) = ROk.
Proof. vm_compute. repeat split; reflexivity. Qed.

(* the general form: with or without a reopen (also on the SAME object, also for a group that was
   itself resumed -- since /repo 8028393), any format, any reachable state, under the single guard
   "the object's missing-compression-parent memory is empty exactly when the group lacks none"
   (executable: both sides are lists) *)
Theorem C06_suspend_resume_commit_eq_commit_guarded :
  forall C is_gc (reopen : bool) s w,
    Inv C is_gc s -> broken s = false -> wg s = Some w -> ~ In (wnew w) (upload s) ->
    (mcp s = [] <-> missing_comp C is_gc (view s) (wg_items w) = []) ->
    let a := step C is_gc Commit (suspend_resume C is_gc reopen s) in
    let b := step C is_gc Commit s in
    snd a = snd b /\
    (forall k, In k (visible (fst a)) <-> In k (visible (fst b))) /\
    (snd b = ROk -> upload (fst a) = upload (fst b) /\ wg (fst a) = wg (fst b)).
Proof. exact suspend_resume_commit. Qed.
Print Assumptions C06_suspend_resume_commit_eq_commit_guarded.

(* what remains false without the guard (knit): the stale memory of finding
   C06-knit-stale-missing-parents makes the DIRECT commit of a complete group fail while the
   suspended + resumed-by-a-fresh-object one is accepted *)
Theorem C06_suspend_resume_commit_stale_refuted :
  exists ops,
    let s := run cat_knit false ops init in
    snd (step cat_knit false Commit s) = RErr ECheck /\
    snd (step cat_knit false Commit (suspend_resume cat_knit false true s)) = ROk.
Proof. exact suspend_reopen_resume_commit_stale_refuted. Qed.
Print Assumptions C06_suspend_resume_commit_stale_refuted.

(* repaired by /repo 3775d0a (was C06_suspend_resume_commit_knit_refuted, finding
   C06-knit-resume-forgets-missing-parents): a fresh object resuming a knit group with a pending
   missing compression parent now refuses the commit cleanly, state unchanged *)
Theorem C06_resumed_missing_parent_is_refused :
  let s := run cat_knit false [Start; Ins 43] init in
  step cat_knit false Commit (suspend_resume cat_knit false true s) =
    (suspend_resume cat_knit false true s, RErr ECheck).
Proof. exact resumed_missing_parent_is_refused. Qed.
Print Assumptions C06_resumed_missing_parent_is_refused.

(* repaired by /repo 8028393 (was C06_resume_again_same_object_refuted, finding
   C06-resume-again-on-same-object): a resumed group can be suspended and resumed again by the same
   object; the general statement is C06_suspend_resume_commit_eq_commit_guarded with reopen = false *)
Theorem C06_resume_again_same_object_works :
  let s := run cat_2a true [Start; Ins 41; Suspend; Resume [TName [41]]] init in
  broken (suspend_resume cat_2a true false s) = false /\
  snd (step cat_2a true Commit (suspend_resume cat_2a true false s)) = ROk.
Proof. exact resume_again_same_object_works. Qed.
Print Assumptions C06_resume_again_same_object_works.

(* ---- clause 3: a commit that raises changes nothing on disk; a refusal
   (BzrCheckError from the checks, BzrError) changes nothing at all *)
Theorem C06_refused_unchanged :
  forall C is_gc s s' e, step C is_gc Commit s = (s', RErr e) ->
    listed s' = listed s /\ upload s' = upload s /\ visible s' = visible s /\
    (e <> ECheckFinish -> s' = s).
Proof. exact commit_error_disk_unchanged. Qed.
Print Assumptions C06_refused_unchanged.

Theorem C06_refused_state_unchanged_guarded :
  forall C is_gc s s' e, finish_safe C is_gc s = true -> step C is_gc Commit s = (s', RErr e) -> s' = s.
Proof. exact commit_error_state_unchanged_guarded. Qed.
Print Assumptions C06_refused_state_unchanged_guarded.

Example C06_refused_ex :
  let s := run cat_2a true [Start; Ins 1; Ins 11] init in
  step cat_2a true Commit s = (s, RErr ECheck) /\ finish_safe cat_2a true s = true.
Proof. vm_compute. split; reflexivity. Qed.

(* ---- clause 3': an accepted commit yields a complete repository ----
   knit: the visible records stay closed under "compression parent" *)
Theorem C06_accepts_only_complete_knit :
  forall C s s', comp_closed C (visible s) -> step C false Commit s = (s', ROk) ->
    comp_closed C (visible s').
Proof. intros C s s'. apply commit_ok_comp_closed. reflexivity. Qed.
Print Assumptions C06_accepts_only_complete_knit.

(* 2a: every revision of the write group has its inventory, both chk roots and every text named by
   its inventory, except entries shared with a present inventory whose revision is not in the group *)
Theorem C06_accepts_only_complete_2a :
  forall C s s', step C true Commit s = (s', ROk) ->
    forall r, In r (newrevs s) ->
      let i := inv_of_rev C r in
      In i (visible s') /\ In (ie_root C i) (visible s') /\ In (pid_root C i) (visible s') /\
      forall t, In t (chk_entries C (ie_root C i)) ->
        In t (visible s') \/
        exists q, In q (visible s') /\ ~ In q (map (inv_of_rev C) (newrevs s)) /\
                  In t (chk_entries C (ie_root C q)).
Proof. intros C s s'. apply commit_ok_new_revisions_complete. reflexivity. Qed.
Print Assumptions C06_accepts_only_complete_2a.

(* [newrevs] really is "the revisions of the write group" in every reachable state *)
Theorem C06_newrevs_are_the_group_revisions :
  forall C is_gc ops, let s := run C is_gc ops init in
    broken s = false -> forall w, wg s = Some w ->
    newrevs s = revs_of C (List.concat (wres w)) ++ revs_of C (wnew w).
Proof.
  intros C is_gc ops s Hb w Hw. destruct (C06_invariant_reachable C is_gc ops Hb) as [_ H].
  fold s in H. rewrite Hw in H. apply H.
Qed.
Print Assumptions C06_newrevs_are_the_group_revisions.

Example C06_accepts_ex :
  let s := run cat_2a true [Start; Ins 2; Ins 12; Ins 22; Ins 30; Ins 43; Ins 11; Ins 21] init in
  snd (step cat_2a true Commit s) = ROk /\ newrevs s = [2] /\
  ~ In 42 (visible (fst (step cat_2a true Commit s))).
Proof. vm_compute. repeat split; try reflexivity. intros H. repeat (destruct H as [H|H]; [discriminate H|]). exact H. Qed.
