(* Properties/C48.v -- Ignore patterns match according to their documented semantics.
   Statements only.  Model: Model/Globbing.v (hand model of breezy/globbing.py, textual tie);
   proofs: Theory/GlobbingRe.v (regex layer), Theory/GlobbingTr.v (translators),
   Theory/GlobbingSet.v (Globster, ExceptionGlobster, _OrderedGlobster).

   Vocabulary
     M r s w w'          regex r, started on input suffix w, can stop at suffix w' (s: inside (?s:...))
     hit pre a name      the single-pattern regex  pre(?:(a))\Z  matches name (re.match)
     translate k toks    what the translator of kind k emits for the glob tokens toks
     gm / ref_match / glob_match   the REFERENCE semantics written from `brz help patterns`
     globster normalize engine k ps name   Globster(ps).match(name) with batch size k (99 in the code)
   NOT covered (no Coq semantics; correspondence/oracle only): RE: patterns and POSIX named
   classes ([:digit:] ...) -- [wf_pat] is false for them.  For token lists outside [wf_tok]
   the theorems still hold of the model, but the printed regex is not the model's AST, so
   the tie does not cover them (the real code raises InvalidPattern or mis-parses there). *)
From Coq Require Import NArith List Bool Arith.
From BV Require Import Model.Globbing Theory.GlobbingRe Theory.GlobbingTr Theory.GlobbingSet.
Import ListNotations.

(* (2) the executable matcher used in the correspondence run computes exactly the
   denotational semantics (the fuel of the star loop suffices) *)
Theorem C48_matcher_correct : forall r s w w', In w' (run r s w) <-> M r s w w'.
Proof. exact run_correct. Qed.
Print Assumptions C48_matcher_correct.

(* (3) every translator, behind its prefix and before '\Z', matches exactly what the
   documented semantics says: whole path for fullpath patterns, last component for basename
   patterns, last component against  *.<rest>  for extension patterns.  All token lists
   (literal, backslash escape, *, ?, **/, classes with negation and ranges), ALL names
   (since the repair 37b5ed8 also names containing newlines). *)
Theorem C48_translate_correct : forall k toks name,
  hit (prefix_re k) (translate k toks) name <-> ref_match k toks name = true.
Proof. exact translate_correct. Qed.
Print Assumptions C48_translate_correct.

(* ... and for whole (normalized, non-RE:) patterns, including that the "extension"
   optimisation agrees with reading the pattern as an ordinary basename pattern *)
Theorem C48_pattern_correct : forall p name,
  wf_pat p = true -> (pat_hit p name <-> glob_match p name = true).
Proof. intros p name Hw. apply pattern_correct. apply wf_pat_not_re; exact Hw. Qed.
Print Assumptions C48_pattern_correct.

(* regression instance of the repaired finding C48-newline *)
Example C48_newline_names :
  hit (prefix_re KBase) (translate KBase [TStar]) [120; 10; 121]%N /\
  ~ hit (prefix_re KBase) (translate KBase [TLit 102; TLit 111; TLit 111]%N) [102; 111; 111; 10]%N.
Proof. exact newline_names_now_right. Qed.

(* (4) the alternation contract is satisfiable: the model's backtracking engine has it *)
Theorem C48_engine_contract_instance :
  (forall k pats name li, bt_engine k pats name = Some li ->
      exists p, nth_error pats (li - 1) = Some p /\ re_hits k p name) /\
  (forall k pats name, bt_engine k pats name = None -> forall p, In p pats -> ~ re_hits k p name).
Proof. split; [exact bt_engine_some|exact bt_engine_none]. Qed.
Print Assumptions C48_engine_contract_instance.

(* "the reported group is the FIRST pattern that matches" is false (extension prefix) *)
Theorem C48_first_alternative_refuted :
  exists pats name p1,
    nth_error pats 0 = Some p1 /\ re_hits KExt p1 name /\ bt_engine KExt pats name = Some 2%nat.
Proof. exact first_alternative_refuted. Qed.
Print Assumptions C48_first_alternative_refuted.

Section Contract.
  Variable normalize : str -> str.                       (* bzrformats normalize_pattern: any function *)
  Variable engine : kind -> list str -> str -> option nat.   (* regex.match(name).lastindex *)

  Section AnyTranslator.
    (* hits k p name: "the regex built from the single pattern p of kind k matches name";
       abstract, so this part also covers RE: patterns and named classes *)
    Variable hits : kind -> str -> str -> Prop.
    Hypothesis eng_some : forall k pats name li,
      engine k pats name = Some li -> exists p, nth_error pats (li - 1) = Some p /\ hits k p name.
    Hypothesis eng_none : forall k pats name,
      engine k pats name = None -> forall p, In p pats -> ~ hits k p name.

    (* ignored-ness does not depend on the batch size (99 vs anything else, hence not on how
       many patterns there are or how they are grouped); every answer is a matching pattern *)
    Theorem C48_batch_independent : forall k k' ps name, (0 < k)%nat -> (0 < k')%nat ->
      (globster normalize engine k ps name = None <-> globster normalize engine k' ps name = None) /\
      (forall p, globster normalize engine k ps name = Some p ->
                 In p (map normalize ps) /\ hits (identify p) p name) /\
      (globster normalize engine k ps name = None <->
       forall p, In p (map normalize ps) -> ~ hits (identify p) p name).
    Proof.
      intros k k' ps name Hk Hk'. split; [|split].
      - exact (batch_independent normalize engine hits eng_some eng_none k k' ps name Hk Hk').
      - intros p. exact (globster_sound normalize engine hits eng_some eng_none k ps name p).
      - exact (globster_none normalize engine hits eng_some eng_none k ps name Hk).
    Qed.

    (* ExceptionGlobster: '!!' wins, else '!' vetoes, else the plain patterns decide *)
    Theorem C48_exceptions_guarded : forall k ps name, (0 < k)%nat ->
      let '(i0, i1, i2) := split_exc ps in
      nonempty_all (map normalize i1) = true -> nonempty_all (map normalize i2) = true ->
      (some_hit normalize hits i2 name ->
         exists p, exc_match normalize engine k ps name = Some ([cBang; cBang] ++ p)
                   /\ In p (map normalize i2) /\ hits (identify p) p name) /\
      (~ some_hit normalize hits i2 name -> some_hit normalize hits i1 name ->
         exc_match normalize engine k ps name = None) /\
      (~ some_hit normalize hits i2 name -> ~ some_hit normalize hits i1 name ->
         exc_match normalize engine k ps name = globster normalize engine k i0 name).
    Proof. exact (exceptions normalize engine hits eng_some eng_none). Qed.

    (* _OrderedGlobster returns the first pattern, in list order, that matches *)
    Theorem C48_ordered_first : forall ps name,
      (forall p, ordered_globster normalize engine ps name = Some p ->
         exists l1 l2, map normalize ps = l1 ++ p :: l2 /\ hits (identify p) p name /\
                       forall q, In q l1 -> ~ hits (identify q) q name) /\
      (ordered_globster normalize engine ps name = None <->
       forall p, In p (map normalize ps) -> ~ hits (identify p) p name).
    Proof.
      intros ps name. split.
      - intros p. exact (ordered_first normalize engine hits eng_some eng_none ps name p).
      - exact (ordered_none normalize engine hits eng_some eng_none ps name).
    Qed.
  End AnyTranslator.

  (* the same against the documented semantics, for the modelled translators *)
  Hypothesis eng_some : forall k pats name li,
    engine k pats name = Some li -> exists p, nth_error pats (li - 1) = Some p /\ re_hits k p name.
  Hypothesis eng_none : forall k pats name,
    engine k pats name = None -> forall p, In p pats -> ~ re_hits k p name.

  Theorem C48_match_sound_complete : forall k ps name, (0 < k)%nat ->
    forallb wf_pat (map normalize ps) = true ->
    (forall p, globster normalize engine k ps name = Some p ->
               In p (map normalize ps) /\ glob_match p name = true) /\
    (globster normalize engine k ps name = None <->
     forall p, In p (map normalize ps) -> glob_match p name = false).
  Proof. exact (match_sound_complete normalize engine eng_some eng_none). Qed.

  Theorem C48_exceptions_doc_guarded : forall k ps name, (0 < k)%nat ->
    let '(i0, i1, i2) := split_exc ps in
    forallb wf_pat (map normalize i1) = true -> forallb wf_pat (map normalize i2) = true ->
    nonempty_all (map normalize i1) = true -> nonempty_all (map normalize i2) = true ->
    (some_glob normalize i2 name ->
       exists p, exc_match normalize engine k ps name = Some ([cBang; cBang] ++ p)
                 /\ In p (map normalize i2) /\ glob_match p name = true) /\
    (~ some_glob normalize i2 name -> some_glob normalize i1 name ->
       exc_match normalize engine k ps name = None) /\
    (~ some_glob normalize i2 name -> ~ some_glob normalize i1 name ->
       exc_match normalize engine k ps name = globster normalize engine k i0 name).
  Proof. exact (exceptions_doc normalize engine eng_some eng_none). Qed.
End Contract.
Print Assumptions C48_batch_independent.
Print Assumptions C48_exceptions_guarded.
Print Assumptions C48_ordered_first.
Print Assumptions C48_match_sound_complete.
Print Assumptions C48_exceptions_doc_guarded.

(* without the guard the exception rule is false: the pattern "!" (empty after the mark)
   matches the empty name, but '' is falsy in Python and the veto is skipped *)
Theorem C48_exceptions_refuted :
  exists ps name,
    let '(i0, i1, i2) := split_exc ps in
    (exists p, In p (map normalize_pattern i1) /\ re_hits (identify p) p name) /\
    globster normalize_pattern bt_engine 99 i2 name = None /\
    exc_match normalize_pattern bt_engine 99 ps name <> None.
Proof. exact exceptions_unguarded_refuted. Qed.
Print Assumptions C48_exceptions_refuted.

(* the hypotheses above are satisfiable by non-trivial values *)
Example C48_example :
  let ps := [[42; 46; 111]; [102; 111; 111]; [97; 47; 42; 42; 47; 98]; [42; 46; 112; 121; 91; 99; 111; 93]; [63; 120]]%N in
  globster normalize_pattern bt_engine 2 ps [97; 47; 120; 47; 121; 47; 98]%N = Some [97; 47; 42; 42; 47; 98]%N /\
  globster normalize_pattern bt_engine 99 ps [97; 47; 120; 47; 121; 47; 98]%N = Some [97; 47; 42; 42; 47; 98]%N /\
  globster normalize_pattern bt_engine 2 ps [100; 47; 109; 46; 112; 121; 99]%N = Some [42; 46; 112; 121; 91; 99; 111; 93]%N /\
  globster normalize_pattern bt_engine 2 ps [100; 47; 109; 46; 112; 121]%N = None /\
  forallb wf_pat (map normalize_pattern ps) = true.
Proof. exact globster_example. Qed.
