(* Properties/C34.v -- Importing then exporting a git commit reproduces it byte for byte.
   Statements only; proofs are in Theory/GitCommit.v, the model in Model/GitCommit.v.

   commit      = dulwich.objects.Commit as a record of byte fields; [serialise] is
                 Commit._serialize (None = the serialiser raises).
   import_commit / export_commit = BzrGitMappingv1.import_commit(strict=True) /
                 export_commit(lossy=True) (what breezy itself passes for the default mapping).
   env         = Python's codec registry: encoding name -> UTF-8 | Latin-1 | other | unknown.
   accepted    = import_commit does not raise.
   rt_guard    = executable, field-local guard: parents are 40 bytes and timezones whole minutes
                 (what dulwich requires to serialise), no encoding header or an ASCII one that is
                 "false" or names UTF-8 (then the texts are valid UTF-8) or Latin-1, both person
                 identifiers are fixed points of fix_person_identifier and not cut by the
                 several-authors rule, every extra header is HG:rename-source or a known HG:extra
                 whose value contains no "\n".
                 (After the repair round -- /repo commits bd50aba, 5f2eb02, e6f8bec -- the guard no
                 longer asks for a message, for an encoding other than "false", or for the absence
                 of the other str.splitlines() boundaries.)
   norm        = the same commit with a falsy gpgsig (b"") turned into None (not serialised). *)
From Coq Require Import ZArith NArith List Bool String.
From BV Require Import Lib.Bytes Model.GitCommit Theory.GitCommit.
Import ListNotations.

(* FULL STATEMENT (false, see the _refuted theorems):
     forall env c, accepted env c = true ->
       exists r, import_commit env c = Ok r /\ export_commit env r (c_tree c) = Ok (norm c). *)

(* field by field *)
Theorem C34_export_import_id_guarded :
  forall env c, rt_guard env c = true ->
    exists r, import_commit env c = Ok r /\ export_commit env r (c_tree c) = Ok (norm c).
Proof. exact export_import_id. Qed.
Print Assumptions C34_export_import_id_guarded.

Theorem C34_norm_same_bytes : forall c, serialise (norm c) = serialise c.
Proof. exact serialise_norm. Qed.
Print Assumptions C34_norm_same_bytes.

(* identical bytes, hence identical SHA-1 *)
Theorem C34_bytes_identical_guarded :
  forall env c, rt_guard env c = true ->
    exists r c' s, import_commit env c = Ok r /\ export_commit env r (c_tree c) = Ok c'
                   /\ serialise c = Some s /\ serialise c' = Some s.
Proof. exact export_import_bytes. Qed.
Print Assumptions C34_bytes_identical_guarded.

(* the guard is not vacuous: every ordinary "name <email>" identifier passes its identifier
   clause, and a commit using every optional feature satisfies all of it *)
Theorem C34_ident_canonical :
  forall u e, memb LT u = false -> memb GT u = false -> memb LT e = false -> memb GT e = false ->
    ident_ok (u ++ bs " <" ++ e ++ [GT]) = true.
Proof. exact ident_ok_canonical. Qed.
Print Assumptions C34_ident_canonical.

Theorem C34_fix_person_canonical :
  forall u e, memb LT u = false -> memb LT e = false -> memb GT e = false ->
    fix_person (u ++ bs " <" ++ e ++ [GT]) = Ok (u ++ bs " <" ++ e ++ [GT]).
Proof. exact fix_person_canonical. Qed.
Print Assumptions C34_fix_person_canonical.

Example C34_guard_satisfiable : rt_guard ex_env ex_commit = true.
Proof. exact ex_commit_guard. Qed.
Example C34_guard_satisfiable_implicit_latin1 :
  rt_guard (fun _ => CUnknown) (wit (bs "A <a>") (bs "C <c>") None [] (Some [233%N])) = true.
Proof. exact ex_commit_implicit_latin1_guard. Qed.

(* ---- commits the mapping accepts but does not reproduce (each replayed on the real code) ---- *)
(* not_roundtrip env c = true  ->  accepted env c = true and export(import c) raises or
   serialises to different bytes *)
Theorem C34_not_roundtrip_meaning :
  forall env c, not_roundtrip env c = true ->
    accepted env c = true
    /\ forall r c', import_commit env c = Ok r -> export_commit env r (c_tree c) = Ok c' ->
                    serialise c' <> serialise c.
Proof. exact not_roundtrip_sound. Qed.
Print Assumptions C34_not_roundtrip_meaning.

Theorem C34_export_import_id_refuted :
  exists c, forall env, accepted env c = true /\ not_roundtrip env c = true.
Proof.
  exists w_ident_nospace. intros env. split; [|apply ident_nospace_refuted].
  apply not_roundtrip_sound. apply ident_nospace_refuted.
Qed.
Print Assumptions C34_export_import_id_refuted.

(* repaired: a commit without message, a commit with "encoding false", an HG:extra value
   containing "\r" -- the old witnesses now satisfy the guard, so the guarded theorem applies *)
Theorem C34_missing_message_roundtrips :
  forall env, exists r, import_commit env w_missing_message = Ok r
    /\ export_commit env r (c_tree w_missing_message) = Ok (norm w_missing_message).
Proof. intros env. apply export_import_id. apply missing_message_guard. Qed.
Print Assumptions C34_missing_message_roundtrips.

Theorem C34_encoding_false_roundtrips :
  forall env, exists r, import_commit env w_encoding_false = Ok r
    /\ export_commit env r (c_tree w_encoding_false) = Ok (norm w_encoding_false).
Proof. intros env. apply export_import_id. apply encoding_false_guard. Qed.
Print Assumptions C34_encoding_false_roundtrips.

Theorem C34_extra_cr_roundtrips :
  forall env, exists r, import_commit env w_extra_cr = Ok r
    /\ export_commit env r (c_tree w_extra_cr) = Ok (norm w_extra_cr).
Proof. intros env. apply export_import_id. apply extra_cr_guard. Qed.
Print Assumptions C34_extra_cr_roundtrips.

(* author "A<a>" comes back as "A <a>" *)
Theorem C34_ident_rewritten_refuted :
  forall env, not_roundtrip env w_ident_nospace = true /\ export_error env w_ident_nospace = None.
Proof. exact ident_nospace_refuted. Qed.
Print Assumptions C34_ident_rewritten_refuted.

(* author "A <a>, B <b>" comes back as "A <a>" *)
Theorem C34_two_authors_refuted :
  forall env, not_roundtrip env w_two_authors = true /\ export_error env w_two_authors = None.
Proof. exact two_authors_refuted. Qed.
Print Assumptions C34_two_authors_refuted.

(* author "Joe>": export raises ValueError *)
Theorem C34_ident_without_lt_refuted :
  forall env, not_roundtrip env w_ident_no_lt = true
              /\ export_error env w_ident_no_lt = Some "ValueError"%string.
Proof. exact ident_no_lt_refuted. Qed.
Print Assumptions C34_ident_without_lt_refuted.

(* still open: an HG:extra value containing "\n" (a multi-line header value): git-extra is
   split at "\n" again on export *)
Theorem C34_extra_linebreak_refuted :
  forall env, not_roundtrip env w_extra_nl = true
              /\ export_error env w_extra_nl = Some "ValueError"%string.
Proof. exact extra_nl_refuted. Qed.
Print Assumptions C34_extra_linebreak_refuted.

(* ---- commits the mapping rejects ---- *)
Theorem C34_unknown_extra_rejected :
  forall env c, existsb (fun kv => negb (extra_key_known kv)) (c_extra c) = true ->
    accepted env c = false.
Proof. exact unknown_extra_rejected. Qed.
Print Assumptions C34_unknown_extra_rejected.

Theorem C34_unknown_encoding_rejected :
  forall env c e, c_encoding c = Some e -> bytes_eqb e (bs "false") = false ->
    lookup env e = CUnknown -> c_committer c <> [] -> accepted env c = false.
Proof. exact unknown_encoding_rejected. Qed.
Print Assumptions C34_unknown_encoding_rejected.

Theorem C34_undecodable_utf8_rejected :
  forall env c e, c_encoding c = Some e -> bytes_eqb e (bs "false") = false ->
    lookup env e = CUtf8 -> texts_valid c = false -> accepted env c = false.
Proof. exact undecodable_utf8_rejected. Qed.
Print Assumptions C34_undecodable_utf8_rejected.

(* ---- revision ids ---- *)
(* the revision id is a function of the commit's bytes alone ... *)
Theorem C34_revid_stable :
  forall (sha : bytes -> bytes) c1 c2,
    serialise c1 = serialise c2 -> revid_of sha c1 = revid_of sha c2.
Proof. exact revid_stable. Qed.
Print Assumptions C34_revid_stable.

(* ... the exported commit has the same one, and it maps back to the SHA *)
Theorem C34_revid_roundtrip_guarded :
  forall (sha : bytes -> bytes) env c, rt_guard env c = true ->
    exists r c' id, import_commit env c = Ok r /\ export_commit env r (c_tree c) = Ok c'
                    /\ revid_of sha c = Some id /\ revid_of sha c' = Some id
                    /\ parent_lookup id
                       = Ok (sha match serialise c with Some s => s | None => [] end).
Proof. exact revid_roundtrip. Qed.
Print Assumptions C34_revid_roundtrip_guarded.

Theorem C34_revid_injective :
  forall a b, revid_foreign_to_bzr a = revid_foreign_to_bzr b -> a = b.
Proof. exact revid_injective. Qed.
Print Assumptions C34_revid_injective.

(* ---- partial: codecs other than UTF-8 / Latin-1 are outside the model
        (the correspondence run and the byte-exact oracle cover them) ---- *)
Theorem C34_other_codecs_partial :
  forall env c e, c_encoding c = Some e -> is_ascii e = true -> bytes_eqb e (bs "false") = false ->
    lookup env e = COther -> import_commit env c = Unmodelled.
Proof. exact other_codec_unmodelled. Qed.
Print Assumptions C34_other_codecs_partial.

(* ---- roundtrip.py: a commit message without the "\n--BZR--\n" marker goes through
        extract_bzr_metadata unchanged and yields no metadata ---- *)
Theorem C34_no_marker_transparent :
  forall m, containsb BZR_MARK m = false -> extract_msg m = (m, false).
Proof. exact no_marker_transparent. Qed.
Print Assumptions C34_no_marker_transparent.
