(* placeholder while the model is being tied; replaced below *)
From Coq Require Import NArith List Bool.
From BV Require Import Lib.Bytes Model.GitCommit.
Theorem C34_placeholder : forall c, norm (norm c) = norm c.
Proof. intros c; unfold norm; simpl. destruct (c_gpgsig c) as [[|x l]|]; reflexivity. Qed.
Print Assumptions C34_placeholder.
