(* Properties/C32.v -- Operations through a smart server match local operations (P-spec).

   The theorem content is modest by design: ONE deterministic specification
   machine (Model/BranchRepoSpec.v); two implementations that both refine it on
   an operation sequence produce equal observations; laws of the specification
   that every refining implementation inherits.  That breezy's local code path
   and its smart-server code path DO refine the machine is validated per
   generated operation sequence by harness/props/c32.py (translation validation),
   not proved. *)
From Coq Require Import String List Arith Bool ZArith.
From BV Require Import Lib.Obs Lib.Dag Theory.DagFacts Model.BranchRepoSpec Theory.BranchRepoSpec.
Import ListNotations.

(* an implementation is any transition system labelled with the operations and producing observations *)
Definition implementation := impl op obs.
Definition spec (c : cfg) : implementation := spec_impl op obs st (spec_step c).
Definition refines_spec (c : cfg) (A : implementation) (a0 : istate A) (x0 : st) (ops : list op) : Prop :=
  refines (spec_step c) A a0 x0 ops.

(* the specification has exactly one trace on every operation sequence: the one [run] computes *)
Theorem C32_spec_deterministic : forall c x ops tr1 tr2,
  itrace (spec c) x ops tr1 -> itrace (spec c) x ops tr2 -> tr1 = tr2 /\ tr1 = run c x ops.
Proof.
  intros c x ops tr1 tr2 H1 H2. split.
  - exact (spec_deterministic op obs st (spec_step c) x ops tr1 tr2 H1 H2).
  - rewrite run_is_srun.
    exact (spec_deterministic op obs st (spec_step c) x ops tr1 _ H1 (spec_trace_exists op obs st (spec_step c) x ops)).
Qed.
Print Assumptions C32_spec_deterministic.

Theorem C32_spec_total : forall c x ops, itrace (spec c) x ops (run c x ops).
Proof. intros c x ops. rewrite run_is_srun. apply spec_trace_exists. Qed.
Print Assumptions C32_spec_total.

(* two implementations (think: the local path and the smart-server path) that both refine the
   specification on an operation sequence are observationally equal on it *)
Theorem C32_two_refinements_agree : forall c (A B : implementation) a0 b0 x0 ops,
  refines_spec c A a0 x0 ops -> refines_spec c B b0 x0 ops ->
  forall ta tb, itrace A a0 ops ta -> itrace B b0 ops tb -> ta = tb.
Proof. intros c A B a0 b0 x0 ops. exact (two_refinements_agree op obs st (spec_step c) A B a0 b0 x0 ops). Qed.
Print Assumptions C32_two_refinements_agree.

(* a forward simulation establishes refinement for every operation sequence *)
Theorem C32_simulation_refines : forall c (A : implementation) (R : istate A -> st -> Prop),
  (forall i x o ob i', R i x -> istep A i o ob i' ->
     ob = fst (spec_step c x o) /\ R i' (snd (spec_step c x o))) ->
  forall a0 x0, R a0 x0 -> forall ops, refines_spec c A a0 x0 ops.
Proof. intros c A R. exact (simulation_refines op obs st (spec_step c) A R). Qed.
Print Assumptions C32_simulation_refines.

(* the hypotheses are satisfiable: the specification refines itself and has a trace *)
Example C32_refinement_inhabited : forall c x ops,
  refines_spec c (spec c) x x ops /\ itrace (spec c) x ops (run c x ops).
Proof.
  intros c x ops. split; [apply spec_refines_itself | apply C32_spec_total].
Qed.

(* ---- laws of the specification, inherited by every refining implementation ---- *)

Theorem C32_tags_set_are_tags_read : forall c x t r ob x',
  locked x = false -> step c x (SetTag t r) = (ob, x') ->
  ob = ON /\ aget t (tags x') = Some r /\ (forall t0, t0 <> t -> aget t0 (tags x') = aget t0 (tags x)) /\
  g x' = g x /\ have x' = have x /\ tip x' = tip x /\ revno x' = revno x /\ conf x' = conf x.
Proof. exact set_tag_read. Qed.
Print Assumptions C32_tags_set_are_tags_read.

Theorem C32_config_set_is_config_read : forall c x o v old ob x',
  locked x = false -> step c x (SetConf o v old) = (ob, x') ->
  ob = ON /\ aget o (conf x') = Some v /\ (forall o0, o0 <> o -> aget o0 (conf x') = aget o0 (conf x)) /\
  tags x' = tags x /\ tip x' = tip x /\ have x' = have x.
Proof. exact set_conf_read. Qed.
Print Assumptions C32_config_set_is_config_read.

Theorem C32_tip_after_commit : forall c x ob x',
  locked x = false -> (remote c = false \/ vfs c = true) -> fresh_next (g x) = true ->
  step c x Commit = (ob, x') ->
  ob = onat (length (g x)) /\ tip x' = Some (length (g x)) /\ revno x' = S (revno x) /\
  parents (g x') (length (g x)) = match tip x with None => [] | Some t => [t] end /\
  memb (length (g x)) (have x') = true /\ tags x' = tags x /\ conf x' = conf x.
Proof. exact tip_after_commit. Qed.
Print Assumptions C32_tip_after_commit.

(* after ANY operation sequence in ANY mode the recorded revno is the length of the tip's
   left-hand history (and that history contains no ghost) *)
Theorem C32_revno_is_lefthand_length : forall c ops x,
  consistent x ->
  revno (final c x ops) = length (lefthand_opt (g (final c x ops)) (tip (final c x ops))).
Proof.
  intros c ops x C. apply consistent_revno_is_lefthand_length. apply run_consistent. exact C.
Qed.
Print Assumptions C32_revno_is_lefthand_length.

Example C32_consistent_inhabited :
  consistent (init_state [[]; [0]; [1]; [0]; [2; 3]] (Some 4) false) /\ consistent (init_state [[]; [0]] None true).
Proof. split; split; reflexivity. Qed.

Theorem C32_push_then_pull_is_noop : forall c x s ow r x1,
  wf_dag (g x) = true -> (remote c = false \/ vfs c = true) ->
  step c x (Push s ow) = (r, x1) -> (forall e, r <> OE e) ->
  step c x1 (Pull s false) = (update_result x1 x1, x1).
Proof. exact push_then_pull_is_noop. Qed.
Print Assumptions C32_push_then_pull_is_noop.

Example C32_push_then_pull_nontrivial :
  let x := init_state [[]; [0]; [1]; [0]; [2; 3]] (Some 1) false in
  exists r x1, step cfg_vfs x (Push 4 false) = (r, x1) /\ (forall e, r <> OE e) /\ tip x1 = Some 4 /\ x1 <> x.
Proof.
  eexists. eexists. split; [vm_compute; reflexivity|]. split; [intros e; discriminate|].
  split; [reflexivity | discriminate].
Qed.

(* a refused call leaves the store unchanged, except that a diverged push/pull has already
   fetched the revisions, and that a failing Sign on a knit-family repository keeps the
   signatures made before the failure (what the code does on all paths) *)
Theorem C32_refused_changes_nothing : forall c x o e x',
  step c x o = (OE e, x') ->
  x' = x \/ (exists s ow, (o = Push s ow \/ o = Pull s ow) /\ x' = fetched x s)
  \/ (exists rs, o = Sign rs /\ knit x = true /\
                 x' = with_signed x (merge_have (g x) (signed x) (present_prefix (have x) rs))).
Proof. exact refused_changes_nothing. Qed.
Print Assumptions C32_refused_changes_nothing.

Theorem C32_locked_refuses : forall c x o,
  locked x = true -> mutating o = true -> step c x o = (OE "LockContention"%string, x).
Proof. exact locked_refuses. Qed.
Print Assumptions C32_locked_refuses.

(* a failed write attempt against a branch lock that was left behind (repository free) leaves the
   repository free -- in particular a failed Lock does not lock the repository *)
Theorem C32_stale_lock_refusals_leave_repository_free : forall c x o r x1 ob x2,
  locked x = false -> mine x = false ->
  step c x StaleLock = (r, x1) -> mutating o = true -> step c x1 o = (ob, x2) ->
  ob = OE "LockContention"%string /\ x2 = x1 /\ rlocked x2 = false /\ locked x2 = true.
Proof. exact stale_lock_refusals_leave_repository_free. Qed.
Print Assumptions C32_stale_lock_refusals_leave_repository_free.

(* every revision signed inside one write group ends up with a stored signature *)
Theorem C32_sign_stores_all : forall c x rs ob x',
  rlocked x = false -> (knit x = false \/ remote c = false \/ vfs c = true) ->
  all_present (have x) rs = true ->
  step c x (Sign rs) = (ob, x') ->
  ob = OT "ok"%string /\
  (forall r, r < length (g x) -> memb r (signed x') = memb r (signed x) || memb r rs) /\
  have x' = have x /\ tip x' = tip x /\ locked x' = locked x /\ rlocked x' = false.
Proof. exact sign_stores_all. Qed.
Print Assumptions C32_sign_stores_all.

Example C32_sign_nontrivial :
  let x := init_state [[]; [0]; [1]; [0]; [2; 3]] (Some 4) false in
  all_present (have x) [1; 3; 2] = true /\ signed (snd (step cfg_novfs x (Sign [1; 3; 2]))) = [1; 2; 3].
Proof. split; reflexivity. Qed.

(* BRZ_NO_SMART_VFS: the two VFS-only operations are refused and change nothing ... *)
Theorem C32_novfs_refuses : forall x o,
  locked x = false -> needs_vfs o = true -> exists e, step cfg_novfs x o = (OE e, x).
Proof. exact novfs_refuses. Qed.
Print Assumptions C32_novfs_refuses.

(* ... and a sequence without them does not depend on the VFS switch *)
Theorem C32_novfs_agrees_guarded : forall ops x,
  vfs_free ops = true -> run cfg_novfs x ops = run cfg_vfs x ops.
Proof. exact novfs_agrees_guarded. Qed.
Print Assumptions C32_novfs_agrees_guarded.

(* a server that lacks the post-1.12 verbs (client-side VFS fallbacks) is the same machine as the
   current server -- unguarded since the repair of C32-iter-revisions-serializer (/repo 9cb1028) *)
Theorem C32_oldsrv_agrees : forall ops x, run cfg_old x ops = run cfg_vfs x ops.
Proof. exact oldsrv_agrees. Qed.
Print Assumptions C32_oldsrv_agrees.

(* the property at the level of the specification: outside the two recorded discrepancies
   (known findings C32-parent-map-null, C32-genhist-absent-class) the smart-server path and the local path are the same machine *)
Theorem C32_modes_agree_guarded : forall ops x,
  quirk_free ops = true -> run cfg_vfs x ops = run cfg_local x ops.
Proof. exact modes_agree_guarded. Qed.
Print Assumptions C32_modes_agree_guarded.

Theorem C32_modes_agree_refuted :
  exists x ops, run cfg_vfs x ops <> run cfg_local x ops.
Proof. exact modes_agree_refuted. Qed.
Print Assumptions C32_modes_agree_refuted.
