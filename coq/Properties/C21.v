(* Properties/C21.v -- Pull and push never silently drop history.
   Statements only; the model is Model/BranchUpdate.v (on Lib/Dag.v), the
   proofs are in Theory/BranchUpdate.v and Theory/DagFacts.v.

   g is ANY well-formed revision graph (any size and shape, merges, criss-cross,
   ghosts); tgt/src are (tip, revno) pairs; [stop] is the optional stop
   revision; [eff_stop src stop] is the requested revision (the source tip when
   no stop revision is given); [consistent g b] says that b's recorded revno is
   the length of the left-hand history of its tip (the invariant that
   C21_revno_is_lefthand_length shows every update preserves).
   [update_revisions g tgt append_only src stop overwrite] models
   GenericInterBranch._update_revisions, which both pull and push run on the
   target (and first on its master when the target is bound). *)
From Coq Require Import List Arith Bool.
From BV Require Import Lib.Dag Theory.DagFacts Model.BranchUpdate Theory.BranchUpdate.
Import ListNotations.

(* the requested revision descends from the current tip: the tip moves to it *)
Theorem C21_descendant_moves :
  forall g, wf_dag g = true -> forall tgt ao src stop t s,
  consistent g src -> consistent g tgt ->
  tip tgt = Some t -> eff_stop src stop = Some s ->
  is_ancestor g t s = true -> t <> s ->
  lefthand_present g s = true ->
  (ao = true -> In t (lefthand g s)) ->
  update_revisions g tgt ao src stop false = Ok (mkB (Some s) (length (lefthand g s))).
Proof. exact descendant_moves. Qed.
Print Assumptions C21_descendant_moves.

Theorem C21_empty_target_moves :
  forall g, wf_dag g = true -> forall tgt ao src stop s,
  consistent g src -> consistent g tgt ->
  tip tgt = None -> eff_stop src stop = Some s ->
  lefthand_present g s = true ->
  update_revisions g tgt ao src stop false = Ok (mkB (Some s) (length (lefthand g s))).
Proof. exact empty_target_moves. Qed.
Print Assumptions C21_empty_target_moves.

(* the target already contains the requested revision (identical tips
   included): unchanged *)
Theorem C21_contained_unchanged :
  forall g, wf_dag g = true -> forall tgt ao src stop t s,
  tip tgt = Some t -> eff_stop src stop = Some s ->
  is_ancestor g s t = true ->
  update_revisions g tgt ao src stop false = Ok tgt.
Proof. exact contained_unchanged. Qed.
Print Assumptions C21_contained_unchanged.

(* otherwise: DivergedBranches, and no new state *)
Theorem C21_diverged_fails_unchanged :
  forall g, wf_dag g = true -> forall tgt ao src stop t s,
  tip tgt = Some t -> eff_stop src stop = Some s ->
  is_ancestor g s t = false -> is_ancestor g t s = false ->
  update_revisions g tgt ao src stop false = Err DivergedBranches.
Proof. exact diverged_fails. Qed.
Print Assumptions C21_diverged_fails_unchanged.

(* the three cases are exhaustive, so: without overwrite the old tip is never
   dropped -- whatever happens, it stays in the ancestry of the new tip *)
Theorem C21_no_silent_drop :
  forall g, wf_dag g = true -> forall tgt ao src stop t b',
  tip tgt = Some t ->
  update_revisions g tgt ao src stop false = Ok b' ->
  exists t', tip b' = Some t' /\ is_ancestor g t t' = true.
Proof. exact no_silent_drop. Qed.
Print Assumptions C21_no_silent_drop.

(* the recorded revno always equals the length of the tip's left-hand history
   (any overwrite / append-only / stop setting) *)
Theorem C21_revno_is_lefthand_length :
  forall g, wf_dag g = true -> forall tgt ao src stop ow b',
  consistent g src -> consistent g tgt ->
  update_revisions g tgt ao src stop ow = Ok b' ->
  consistent g b' /\
  (forall t', tip b' = Some t' -> revno b' = length (lefthand g t') /\ lefthand_present g t' = true).
Proof. exact revno_is_lefthand_length. Qed.
Print Assumptions C21_revno_is_lefthand_length.

(* append-only: no operation, overwrite included, moves the tip to a revision
   whose left-hand history lacks the previous tip ... *)
Theorem C21_append_only :
  forall g, wf_dag g = true -> forall tgt src stop ow t b',
  tip tgt = Some t ->
  update_revisions g tgt true src stop ow = Ok b' ->
  exists t', tip b' = Some t' /\ In t (lefthand g t').
Proof. exact append_only_keeps_tip. Qed.
Print Assumptions C21_append_only.

(* ... such a move is refused with AppendRevisionsOnlyViolation *)
Theorem C21_append_only_violation :
  forall g, wf_dag g = true -> forall tgt src stop t s,
  consistent g src -> consistent g tgt ->
  tip tgt = Some t -> eff_stop src stop = Some s ->
  lefthand_present g s = true -> ~ In t (lefthand g s) ->
  update_revisions g tgt true src stop true = Err AppendRevisionsOnlyViolation.
Proof. exact append_only_violation. Qed.
Print Assumptions C21_append_only_violation.

(* overwrite: the tip goes to the requested revision whatever the relation *)
Theorem C21_overwrite_moves :
  forall g, wf_dag g = true -> forall tgt src stop s,
  consistent g src -> consistent g tgt ->
  eff_stop src stop = Some s -> lefthand_present g s = true ->
  update_revisions g tgt false src stop true = Ok (mkB (Some s) (length (lefthand g s))).
Proof. exact overwrite_moves. Qed.
Print Assumptions C21_overwrite_moves.

(* ghosts: a stop revision with a ghost on its left-hand history never gets a
   made-up revno: the only successful outcome is "unchanged" *)
Theorem C21_ghost_no_wrong_revno :
  forall g, wf_dag g = true -> forall tgt ao src s ow b',
  consistent g src -> consistent g tgt ->
  lefthand_present g s = false ->
  update_revisions g tgt ao src (Some s) ow = Ok b' -> b' = tgt /\ ow = false.
Proof. exact ghost_no_wrong_revno. Qed.
Print Assumptions C21_ghost_no_wrong_revno.

(* push = pull on the tip (the `old_revid != stop_revision` shortcut is sound) *)
Theorem C21_push_same_as_pull :
  forall g, wf_dag g = true -> forall o tgt ao src stop,
  step o g tgt ao src stop false = update_revisions g tgt ao src stop false.
Proof. exact step_no_overwrite. Qed.
Print Assumptions C21_push_same_as_pull.

(* whole pull/push, bound target or not: on error the target branch is
   untouched; on success target and master were each updated as above *)
Theorem C21_error_leaves_target :
  forall g o w src stop ow e w',
  run_op o g w src stop ow = (Some e, w') -> local w' = local w.
Proof. exact run_op_error_unchanged. Qed.
Print Assumptions C21_error_leaves_target.

Theorem C21_bound_both_updated :
  forall g o w src stop ow w',
  run_op o g w src stop ow = (None, w') ->
  step o g (local w) (local_ao w) src stop ow = Ok (local w') /\
  match master w with
  | None => master w' = None
  | Some (m, mao) => exists m', master w' = Some (m', mao) /\ step o g m mao src stop ow = Ok m'
  end.
Proof. exact run_op_ok. Qed.
Print Assumptions C21_bound_both_updated.

(* ---- every shape of the API: overwrite = False / True / a collection of "history",
   "tags"; stop_revision = None / b"null:" / a revision; [step_x] is pull or push on
   one branch with these arguments, [run_op_x] the whole operation (master first) ---- *)

(* history may be overwritten iff "history" is in the normalised overwrite argument *)
Theorem C21_overwrite_history_iff :
  forall ow, ow_history ow = true <-> ow = OwTrue \/ exists t, ow = OwSet true t.
Proof. exact ow_history_spec. Qed.
Print Assumptions C21_overwrite_history_iff.

(* so False, set() and {"tags"} (--overwrite-tags) never drop the old tip: pull and
   push, any stop revision including null: *)
Theorem C21_no_silent_drop_all_shapes :
  forall g, wf_dag g = true -> forall o tgt ao src stop ow t b',
  ow_history ow = false -> tip tgt = Some t ->
  step_x o g tgt ao src stop ow = Ok b' ->
  exists t', tip b' = Some t' /\ is_ancestor g t t' = true.
Proof. exact no_silent_drop_x. Qed.
Print Assumptions C21_no_silent_drop_all_shapes.

(* append-only, all shapes and operations: the old tip stays on the left-hand
   history of the new tip; in particular a non-empty branch never becomes empty *)
Theorem C21_append_only_all_shapes :
  forall g, wf_dag g = true -> forall o tgt src stop ow t b',
  tip tgt = Some t ->
  step_x o g tgt true src stop ow = Ok b' ->
  exists t', tip b' = Some t' /\ In t (lefthand g t').
Proof. exact append_only_keeps_tip_x. Qed.
Print Assumptions C21_append_only_all_shapes.

Theorem C21_append_only_null_refused :
  forall g tgt t,
  tip tgt = Some t ->
  set_null tgt true = Err AppendRevisionsOnlyViolation /\
  (forall n, direct_set g tgt true n None = Err AppendRevisionsOnlyViolation) /\
  generate_history g tgt true None = Err AppendRevisionsOnlyViolation /\
  (forall o src ow, ow_history ow = true ->
     step_x o g tgt true src StopNull ow = Err AppendRevisionsOnlyViolation).
Proof. exact append_only_null_refused. Qed.
Print Assumptions C21_append_only_null_refused.

(* set_last_revision_info / generate_revision_history called directly *)
Theorem C21_append_only_direct :
  forall g tgt t b',
  tip tgt = Some t ->
  ((exists n new, direct_set g tgt true n new = Ok b') \/ (exists new, generate_history g tgt true new = Ok b')) ->
  exists t', tip b' = Some t' /\ In t (lefthand g t').
Proof. exact direct_append_only. Qed.
Print Assumptions C21_append_only_direct.

Theorem C21_null_stop_unchanged :
  forall g o tgt ao src ow,
  ow_history ow = false -> step_x o g tgt ao src StopNull ow = Ok tgt.
Proof. exact null_stop_unchanged. Qed.
Print Assumptions C21_null_stop_unchanged.

Theorem C21_error_leaves_target_all_shapes :
  forall g o w src stop ow e w',
  run_op_x o g w src stop ow = (Some e, w') -> local w' = local w.
Proof. intros g o w src stop ow. apply run_gen_error_unchanged. Qed.
Print Assumptions C21_error_leaves_target_all_shapes.

Theorem C21_bound_both_updated_all_shapes :
  forall g o w src stop ow w',
  run_op_x o g w src stop ow = (None, w') ->
  step_x o g (local w) (local_ao w) src stop ow = Ok (local w') /\
  match master w with
  | None => master w' = None
  | Some (m, mao) => exists m', master w' = Some (m', mao) /\ step_x o g m mao src stop ow = Ok m'
  end.
Proof. intros g o w src stop ow w'. apply (run_gen_ok (fun b ao => step_x o g b ao src stop ow)). Qed.
Print Assumptions C21_bound_both_updated_all_shapes.

(* the underlying graph facts (Lib/Dag): ancestry is the reflexive-transitive
   closure of "parent of"; the revno is the left-hand history length *)
Theorem C21_ancestors_is_closure :
  forall g seeds a, wf_dag g = true ->
  (In a (ancestors g seeds) <-> exists s, In s seeds /\ reach g a s).
Proof. exact ancestors_spec. Qed.
Print Assumptions C21_ancestors_is_closure.

Theorem C21_revno_is_distance :
  forall g r, wf_dag g = true ->
  distance_to_null g r = if lefthand_present g r then Some (length (lefthand g r)) else None.
Proof. exact distance_spec. Qed.
Print Assumptions C21_revno_is_distance.

(* ---- the hypotheses are satisfiable by non-trivial values ---------------- *)

(*  0 - 1 - 2 - 4      4 merges 3;  5 has a ghost (20) as second parent;
     \     \           6 sits on a ghost left-hand parent (21)
      3 ----+- 5                                                       *)
Definition ex_g : dag := [[]; [0]; [1]; [0]; [2; 3]; [3; 20]; [21]].

Example ex_wf : wf_dag ex_g = true. Proof. reflexivity. Qed.

(* descendant: target at 1 pulls source at 4 *)
Example ex_descendant :
  consistent ex_g (mkB (Some 4) 4) /\ consistent ex_g (mkB (Some 1) 2) /\
  is_ancestor ex_g 1 4 = true /\ lefthand_present ex_g 4 = true /\
  update_revisions ex_g (mkB (Some 1) 2) true (mkB (Some 4) 4) None false = Ok (mkB (Some 4) 4).
Proof. repeat split; reflexivity. Qed.

(* contained: target at 4 pulls -r 3 *)
Example ex_contained :
  is_ancestor ex_g 3 4 = true /\
  update_revisions ex_g (mkB (Some 4) 4) false (mkB (Some 5) 3) (Some 3) false = Ok (mkB (Some 4) 4).
Proof. split; reflexivity. Qed.

(* diverged: target at 4, source at 5 *)
Example ex_diverged :
  is_ancestor ex_g 5 4 = false /\ is_ancestor ex_g 4 5 = false /\
  update_revisions ex_g (mkB (Some 4) 4) false (mkB (Some 5) 3) None false = Err DivergedBranches.
Proof. repeat split; reflexivity. Qed.

(* append-only: target at 3, source at 4: 3 is an ancestor of 4 but not on its
   left-hand history, so even a plain pull is refused; with overwrite too *)
Example ex_append_only :
  is_ancestor ex_g 3 4 = true /\ ~ In 3 (lefthand ex_g 4) /\
  update_revisions ex_g (mkB (Some 3) 2) true (mkB (Some 4) 4) None false = Err AppendRevisionsOnlyViolation /\
  update_revisions ex_g (mkB (Some 3) 2) true (mkB (Some 4) 4) None true = Err AppendRevisionsOnlyViolation.
Proof.
  repeat split; try reflexivity.
  vm_compute. intros [H|[H|[H|[H|[]]]]]; discriminate.
Qed.

(* ghost on the left-hand history of the stop revision *)
Example ex_ghost :
  lefthand_present ex_g 6 = false /\
  update_revisions ex_g (mkB (Some 1) 2) false (mkB (Some 4) 4) (Some 6) true = Err GhostRevisionsHaveNoRevno.
Proof. split; reflexivity. Qed.

(* {"tags"} on diverged branches (brz pull --overwrite-tags): still DivergedBranches;
   null: onto a non-empty append-only branch: refused *)
Example ex_tags_only_diverged :
  ow_history (OwSet false true) = false /\
  step_x Pull ex_g (mkB (Some 4) 4) false (mkB (Some 5) 3) NoStop (OwSet false true) = Err DivergedBranches /\
  step_x Push ex_g (mkB (Some 4) 4) false (mkB (Some 5) 3) NoStop (OwSet true false) = Ok (mkB (Some 5) 3).
Proof. repeat split; reflexivity. Qed.

Example ex_null_append_only :
  step_x Pull ex_g (mkB (Some 4) 4) true (mkB (Some 5) 3) StopNull OwTrue = Err AppendRevisionsOnlyViolation /\
  step_x Pull ex_g (mkB (Some 4) 4) false (mkB (Some 5) 3) StopNull OwTrue = Ok (mkB None 0) /\
  step_x Pull ex_g (mkB (Some 4) 4) true (mkB (Some 5) 3) StopNull (OwSet false true) = Ok (mkB (Some 4) 4).
Proof. repeat split; reflexivity. Qed.
