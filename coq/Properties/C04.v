(* Properties/C04.v -- Pack repositories are crash-atomic.
   Statements only; the model is Model/PackFS.v, the proofs are in Theory/PackFS.v.

   s            : what is on disk (files of upload/ packs/ indices/ obsolete_packs/ with a
                  Partial/Complete status, the names listed by pack-names, lock, branch tip)
   run p s      : the state after the transport operations p
   firstn k p   : the process stopped after k transport operations
   good ixs s   : every listed pack is in packs/ with all its index files, complete
   visible c s  : the revisions a reader lists (union of the content of the listed packs)
   The theorems hold from EVERY good state: nothing is assumed about what else lies in
   upload/, obsolete_packs/, packs/, indices/ (leftovers of earlier crashes included). *)
From Coq Require Import List Bool Arith.
From BV Require Import Model.PackFS Theory.PackFS.
Import ListNotations.

(* the discipline: operations other than the pack-names write touch no file of a listed pack,
   the pack-names write lists complete packs only  ==>  every crash prefix is good *)
Theorem C04_discipline_keeps_every_prefix_good :
  forall ixs p s k, good ixs s -> ok_run ixs s p -> good ixs (run (firstn k p) s).
Proof. exact good_every_prefix. Qed.
Print Assumptions C04_discipline_keeps_every_prefix_good.

(* the executable check evaluated on every program of the correspondence run implies it *)
Theorem C04_checked_discipline_sound :
  forall ixs p s, ok_runb ixs s p = true -> ok_run ixs s p.
Proof. intros ixs p s; apply ok_runb_spec. Qed.
Print Assumptions C04_checked_discipline_sound.

(* commit / fetch (no autopack): crash anywhere => good, and the old or the new revisions;
   new = old + the write group's revisions *)
Theorem C04_every_prefix_old_or_new_commit :
  forall ixs content s x t k,
    good ixs s -> ~ In x (names s) ->
    let p := commit_prog ixs x (names s) t in
    let s' := run (firstn k p) s in
    good ixs s' /\
    (visible content s' = visible content s \/ visible content s' = visible content (run p s)) /\
    visible content (run p s) = visible content s ++ content x.
Proof. exact commit_old_or_new. Qed.
Print Assumptions C04_every_prefix_old_or_new_commit.

(* commit / fetch followed by autopack (one pack-names write for both): any plan, any
   leftover files to clear; new = old + the write group's revisions *)
Theorem C04_every_prefix_old_or_new_autopack :
  forall ixs oixs content s x y plan clear t k,
    good ixs s -> ~ In x (names s) -> ~ In y (names s) -> x <> y -> ~ In y plan ->
    Forall (fun f => fdir f = Obsolete) clear ->
    incl plan (names s ++ [x]) ->
    (forall r, In r (content y) <-> exists p, In p plan /\ In r (content p)) ->
    let p := autopack_prog ixs oixs x y (names s) plan clear t in
    let s' := run (firstn k p) s in
    good ixs s' /\
    (visible content s' = visible content s \/ visible content s' = visible content (run p s)) /\
    (forall r, In r (visible content (run p s)) <-> In r (visible content s ++ content x)).
Proof. exact autopack_old_or_new. Qed.
Print Assumptions C04_every_prefix_old_or_new_autopack.

(* Repository.pack(): new = old as a set of revisions *)
Theorem C04_every_prefix_old_or_new_pack :
  forall ixs oixs content s y plan clear k,
    good ixs s -> ~ In y (names s) -> ~ In y plan ->
    Forall (fun f => fdir f = Obsolete) clear ->
    incl plan (names s) ->
    (forall r, In r (content y) <-> exists p, In p plan /\ In r (content p)) ->
    let p := pack_prog ixs oixs y (names s) plan clear in
    let s' := run (firstn k p) s in
    good ixs s' /\
    (visible content s' = visible content s \/ visible content s' = visible content (run p s)) /\
    (forall r, In r (visible content (run p s)) <-> In r (visible content s)).
Proof. exact pack_old_or_new. Qed.
Print Assumptions C04_every_prefix_old_or_new_pack.

(* a write group without data, a packer that finds the pack already optimal *)
Theorem C04_aborted_write_changes_nothing :
  forall ixs s n k, good ixs s ->
    let s' := run (firstn k (abort_pack n)) s in good ixs s' /\ names s' = names s.
Proof. exact abort_every_prefix. Qed.
Print Assumptions C04_aborted_write_changes_nothing.

(* any sequence of operations (commit, autopack, pack, ... in any number), crash anywhere:
   good, and exactly what is listed after some whole number j of the operations *)
Theorem C04_every_prefix_old_or_new_sequence :
  forall ixs ps s k, good ixs s -> ok_seq ixs s ps ->
    let s' := run (firstn k (concat ps)) s in
    good ixs s' /\ exists j, j <= List.length ps /\ names s' = names (run (concat (firstn j ps)) s).
Proof. exact seq_every_prefix. Qed.
Print Assumptions C04_every_prefix_old_or_new_sequence.

(* leftovers: two states that agree on pack-names and on the files of the listed packs are
   equally good and list the same revisions -- whatever else differs (upload/, obsolete_packs/,
   files of unlisted packs in packs/ and indices/, the lock) *)
Theorem C04_leftovers_harmless :
  forall ixs content s s',
    names s' = names s ->
    (forall f, protected s f -> lookup (files s') f = lookup (files s) f) ->
    (good ixs s <-> good ixs s') /\ visible content s' = visible content s.
Proof. exact leftovers_harmless. Qed.
Print Assumptions C04_leftovers_harmless.

(* the branch tip is written after pack-names: it never points outside the listed revisions *)
Theorem C04_branch_tip_after_names :
  forall ixs content s x r k,
    tip_ok content s -> In r (content x) ->
    let s' := run (firstn k (commit_prog ixs x (names s) (Some r))) s in
    (names s' = names s \/ names s' = names s ++ [x]) -> tip_ok content s'.
Proof. exact commit_tip_ok. Qed.
Print Assumptions C04_branch_tip_after_names.

(* sanity: the theorems are not vacuous -- obsoleting before the pack-names write, or listing a
   pack before it is in packs/, violates good at some crash prefix *)
Theorem C04_reorder_breaks :
  forall ixs oixs s y p rest,
    good ixs s -> In p (names s) -> ~ In y (names s) ->
    exists k, ~ good ixs (run (firstn k (bad_pack_prog ixs oixs y (names s) (p :: rest))) s).
Proof. exact reorder_breaks. Qed.
Print Assumptions C04_reorder_breaks.

Theorem C04_list_before_move_breaks :
  forall ixs s x, good ixs s -> lookup (files s) (F Packs x EPack) = None ->
    ~ good ixs (step s (OPutNames (names s ++ [x]))).
Proof. exact list_before_move_breaks. Qed.
Print Assumptions C04_list_before_move_breaks.

(* sanity: pack-names must be replaced atomically -- a truncating (non-atomic) write has a crash point
   that lists neither the old nor the new packs (on disk: an unreadable pack-names) *)
Theorem C04_nonatomic_names_write_breaks :
  forall s l, names s <> [] -> l <> [] ->
    exists k, let s' := run (firstn k (nonatomic_save_names l)) s in
              names s' <> names s /\ names s' <> l.
Proof. exact nonatomic_names_write_breaks. Qed.
Print Assumptions C04_nonatomic_names_write_breaks.

(* hypotheses are satisfiable: a 2a history of two commits, then a commit with autopack *)
Example C04_hypotheses_satisfiable :
  good demo_ixs demo_s2 /\
  (~ In 2 (names demo_s2) /\ ~ In 3 (names demo_s2) /\ 2 <> 3 /\ ~ In 3 [0; 1; 2] /\
   incl [0; 1; 2] (names demo_s2 ++ [2]) /\ ok_run demo_ixs demo_s2 demo_autopack /\
   List.length demo_autopack = 48).
Proof. exact (conj demo_good demo_autopack_hyps). Qed.
Print Assumptions C04_hypotheses_satisfiable.
