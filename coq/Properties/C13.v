(* Properties/C13.v -- Applying a tree transform is all-or-nothing on the file system.
   Statements only; proofs are in Lib/FSFault13.v and Theory/TransformApply13.v, the model of
   InventoryTreeTransform.apply / GitTreeTransform.apply in Model/TransformApply13.v.

   apply_model x flt f0 inv0      the code as it is (metadata update BEFORE apply_deletions, since c37d45c)
   apply_model_old x flt f0 inv0  the order before c37d45c, documentation only
   flt : FNone | FPhase k e | FDel k e | FFin k e   -- the k-th syscall of that stage raises errno e
   o_stage : SPhase (raised inside the try-block, rollback ran) | SDel (raised in apply_deletions)
             | SFin (raised in finalize) | SDone
   o_dirty = true iff a performed rename replaced an existing target (os.rename does that silently;
             excluded for real transforms by the conflict check, see the last theorem).
   The try-block is: all renames (_apply_removals, first loop of _apply_insertions), then the executable
   bits (second loop, since 54fc383), whose old modes are put back when a later step fails. *)
From Coq Require Import List String Bool NArith.
From BV Require Import Lib.FSFault13 Model.TransformApply13 Theory.TransformApply13.
Import ListNotations.

(* A failure before the transform is committed restores every file and directory exactly
   (the whole disk, limbo included) and leaves the inventory unchanged: for EVERY transform
   state x, every fault, every well-formed disk.  Rollback is the exact inverse of the
   journaled prefix, executable bits included (mode journal).  Guard (executable, computed by the
   model and by the harness): no performed rename replaced an existing target -- see
   C13_clobbering_rename_not_restored_refuted. *)
Theorem C13_fault_before_commit_restores_guarded :
  forall x flt f0 inv0,
    wf f0 ->
    o_stage (apply_model x flt f0 inv0) = SPhase ->
    o_dirty (apply_model x flt f0 inv0) = false ->
    o_fs (apply_model x flt f0 inv0) = f0 /\
    o_inv (apply_model x flt f0 inv0) = inv0 /\
    exists e, o_exc (apply_model x flt f0 inv0) = Some e /\ forall n, e <> XRollback n.
Proof. intros x flt f0 inv0. exact (phase_fault_restores true (apply_prog x) flt f0 inv0). Qed.
Print Assumptions C13_fault_before_commit_restores_guarded.

(* ... and every fault index before the commit point does end there (ENOENT is swallowed on
   purpose by _apply_removals/_apply_insertions: "dangling inventory id") *)
Theorem C13_fault_before_commit_raises :
  forall x k e f0 inv0,
    e <> ENOENT -> k < List.length (g_phase (apply_prog x)) + List.length (g_chmods (apply_prog x)) ->
    o_stage (apply_model x (FPhase k e) f0 inv0) = SPhase.
Proof. intros x k e f0 inv0. exact (phase_fault_raises true (apply_prog x) k e f0 inv0). Qed.
Print Assumptions C13_fault_before_commit_raises.

(* Every outcome of the code as it is (metadata update BEFORE apply_deletions) is all-or-nothing:
   (old disk, old inventory)  or  (new visible layout, new inventory), for EVERY transform state,
   fault kind and fault index.  "visible" = everything outside the control directory; phase_fs is the
   layout the rename phase produced.  In particular a failure while discarding replaced content
   (stage SDel) never leaves the metadata describing the old layout. *)
Theorem C13_metadata_first_all_or_nothing :
  forall roots x flt f0 inv0,
    wf f0 -> hidden_prog roots (apply_prog x) = true ->
    o_dirty (apply_model x flt f0 inv0) = false ->
    (o_fs (apply_model x flt f0 inv0) = f0 /\ o_inv (apply_model x flt f0 inv0) = inv0) \/
    (visible roots (o_fs (apply_model x flt f0 inv0)) = visible roots (phase_fs (apply_prog x) flt f0) /\
     o_inv (apply_model x flt f0 inv0) = x_inv_new x).
Proof.
  intros roots x flt f0 inv0 Hwf Hh Hd.
  pose proof (outcome_classification true roots (apply_prog x) flt f0 inv0 Hwf Hh Hd) as H.
  unfold apply_model. rewrite <- (apply_prog_inv_new x).
  destruct (o_stage (run_with_fault true (apply_prog x) flt f0 inv0)); [left | right | right | right]; exact H.
Qed.
Print Assumptions C13_metadata_first_all_or_nothing.

(* the same by stage: which side of the dichotomy each failure lands on *)
Theorem C13_outcome_classification :
  forall roots x flt f0 inv0,
    wf f0 -> hidden_prog roots (apply_prog x) = true ->
    o_dirty (apply_model x flt f0 inv0) = false ->
    match o_stage (apply_model x flt f0 inv0) with
    | SPhase => o_fs (apply_model x flt f0 inv0) = f0 /\ o_inv (apply_model x flt f0 inv0) = inv0
    | SDel | SFin | SDone =>
              visible roots (o_fs (apply_model x flt f0 inv0)) = visible roots (phase_fs (apply_prog x) flt f0) /\
              o_inv (apply_model x flt f0 inv0) = x_inv_new x
    end.
Proof.
  intros roots x flt f0 inv0 Hwf Hh Hd.
  pose proof (outcome_classification true roots (apply_prog x) flt f0 inv0 Hwf Hh Hd) as H.
  unfold apply_model. rewrite <- (apply_prog_inv_new x).
  destruct (o_stage (run_with_fault true (apply_prog x) flt f0 inv0)); exact H.
Qed.
Print Assumptions C13_outcome_classification.

(* the deletions fault on the former witness (delete f, rename g -> h, first delete_any raises):
   new layout on disk AND new inventory *)
Theorem C13_fault_in_deletions_consistent_example :
  let o := apply_model w_x (FDel 0 EIO) w_fs w_inv0 in
  o_stage o = SDel /\
  visible ctl_roots (o_fs o) = visible ctl_roots (o_fs (apply_model w_x FNone w_fs w_inv0)) /\
  o_inv o = x_inv_new w_x.
Proof. exact fault_in_deletions_witness. Qed.
Print Assumptions C13_fault_in_deletions_consistent_example.

(* DOCUMENTATION of the defect repaired by c37d45c -- about apply_model_old, NOT about the code:
   with apply_deletions before the metadata update the same fault left the new layout on disk
   and the old inventory.  If the old order ever returns the correspondence run disagrees with
   apply_model and the oracle reports the mixed state. *)
Theorem C13_old_order_refuted :
  exists x f0 inv0 k e,
    wf f0 /\ hidden_prog ctl_roots (apply_prog x) = true /\
    let o := apply_model_old x (FDel k e) f0 inv0 in
    o_stage o = SDel /\ o_dirty o = false /\
    visible ctl_roots (o_fs o) = visible ctl_roots (o_fs (apply_model_old x FNone f0 inv0)) /\
    visible ctl_roots (o_fs o) <> visible ctl_roots f0 /\
    o_inv o = inv0 /\ inv0 <> x_inv_new x.
Proof.
  exists w_x, w_fs, w_inv0, 0, EIO.
  split; [exact w_fs_wf|]. split; [exact w_hidden|].
  destruct old_order_fault_in_deletions_witness as (H1 & H2 & _ & H4 & H5 & H6 & H7). repeat split; assumption.
Qed.
Print Assumptions C13_old_order_refuted.

(* executable bits are rolled back too (the former finding C13-exec-bit-not-rolled-back, repaired by
   54fc383): rename z into place, chmod a, chmod z raises => a has its old mode again, z is back in
   limbo, the disk is exactly the disk before *)
Theorem C13_exec_change_rolled_back_example :
  let o := apply_model c_x (FPhase 2 EIO) c_fs [[]; ["a"%string]] in
  wf c_fs /\ o_stage o = SPhase /\ o_dirty o = false /\ List.length (o_trace o) = 5 /\ o_fs o = c_fs /\
  lookup (o_fs (apply_model c_x FNone c_fs [[]; ["a"%string]])) ["a"%string] = Some (File [65%N] true).
Proof. exact exec_change_restored_witness. Qed.
Print Assumptions C13_exec_change_rolled_back_example.

(* the guard is needed (unreachable through apply unless the conflict check is skipped
   or the tree changes concurrently): os.rename silently replaces an existing file *)
Theorem C13_clobbering_rename_not_restored_refuted :
  exists g f0,
    wf f0 /\ o_stage (run_with_fault false g FNone f0 []) = SPhase /\
    o_fs (run_with_fault false g FNone f0 []) <> f0.
Proof.
  exists k_prog, k_fs.
  destruct clobbering_rename_witness as (H1 & H2 & _ & H4).
  split; [exact H1|]. split; [exact H2|].
  intros E. rewrite E in H4. vm_compute in H4. discriminate.
Qed.
Print Assumptions C13_clobbering_rename_not_restored_refuted.

(* hypotheses are satisfiable by a non-trivial value: Theory/TransformApply13.v, Example restores_nontrivial *)
