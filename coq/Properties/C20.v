(* Properties/C20.v -- Conflict and merge-hash records persist and resolve faithfully.
   Statements only; model in Model/ConflictStanza.v, proofs in Theory/ConflictStanza.v.
   conflict      = the ten registered classes with every combination of optional fields;
   rio_value     = what bzrformats.rio gives back for one stored value (environment model:
                   a CR directly before a line end is dropped);
   rio_conflict  = a conflict with rio_value applied to every field;
   persist cs    = set_conflicts(cs); re-open; conflicts()      (None = set_conflicts raises). *)
From Coq Require Import NArith List Bool Permutation.
From BV Require Import Lib.Bytes Model.ConflictStanza Theory.ConflictStanza.
Import ListNotations.

(* stanza round trip, every class, every field combination, every value *)
Theorem C20_stanza_roundtrip :
  forall c s, as_stanza c = Some s -> of_stanza s = FOk c.
Proof. exact stanza_roundtrip. Qed.
Print Assumptions C20_stanza_roundtrip.

(* as_stanza raises exactly for a HandledPathConflict whose conflict_path is None *)
Theorem C20_as_stanza_raises_iff :
  forall c, as_stanza c = None <-> writable c = false.
Proof. exact as_stanza_none_iff. Qed.
Print Assumptions C20_as_stanza_raises_iff.

(* what is read back after re-opening, for EVERY storable list: the same classes, order and
   fields, each value passed through rio *)
Theorem C20_persist_exact :
  forall cs, forallb writable cs = true -> persist cs = Some (map rio_conflict cs).
Proof. exact persist_spec. Qed.
Print Assumptions C20_persist_exact.

Theorem C20_persist_unwritable :
  forall cs, forallb writable cs = false -> persist cs = None.
Proof. exact persist_unwritable. Qed.
Print Assumptions C20_persist_unwritable.

(* "read back identically" is FALSE in general ... *)
Theorem C20_persist_roundtrip_refuted :
  exists c, writable c = true /\ persist [c] <> Some [c].
Proof. exact persist_refuted. Qed.
Print Assumptions C20_persist_roundtrip_refuted.

(* ... and holds under the executable guard "no value has a CR directly before a line end" *)
Theorem C20_persist_roundtrip_guarded :
  forall cs, forallb writable cs = true -> forallb conflict_safe cs = true -> persist cs = Some cs.
Proof. exact persist_roundtrip_guarded. Qed.
Print Assumptions C20_persist_roundtrip_guarded.

(* select_conflicts: both results are order-preserving sub-lists (filters) of the input, together
   a permutation of it, and membership is exactly the documented rule [matches]:
   path or conflict_path equal to a selected path, or inside one when recursing, or
   file_id / conflict_file_id equal to the file id of a selected path *)
Theorem C20_select_partition :
  forall path2id paths recurse cs new sel,
    select_conflicts path2id paths recurse cs = (new, sel) ->
    new = filter (fun c => negb (selected path2id paths recurse c)) cs
    /\ sel = filter (selected path2id paths recurse) cs
    /\ Permutation cs (new ++ sel)
    /\ (forall c, In c sel <-> In c cs /\ matches path2id paths recurse c)
    /\ (forall c, In c new <-> In c cs /\ ~ matches path2id paths recurse c).
Proof. exact select_partition. Qed.
Print Assumptions C20_select_partition.

(* resolve(paths, action=done) followed by a re-open: exactly the unselected conflicts remain *)
Theorem C20_resolve_keeps_rest_exact :
  forall path2id paths recurse cs, forallb writable cs = true ->
    resolve_done path2id paths recurse cs =
    Some (map rio_conflict
              (filter (fun c => negb (selected path2id paths recurse c)) (map rio_conflict cs))).
Proof. exact resolve_done_spec. Qed.
Print Assumptions C20_resolve_keeps_rest_exact.

Theorem C20_resolve_keeps_rest_guarded :
  forall path2id paths recurse cs,
    forallb writable cs = true -> forallb conflict_safe cs = true ->
    resolve_done path2id paths recurse cs =
    Some (filter (fun c => negb (selected path2id paths recurse c)) cs).
Proof. exact resolve_done_guarded. Qed.
Print Assumptions C20_resolve_keeps_rest_guarded.

(* merge-modified hashes: for any tree whose path2id/id2path are inverse on versioned paths,
   what is read back is exactly the recorded entries whose path is versioned and whose hash is
   the file's current sha1, in the recorded order *)
Theorem C20_merge_modified_roundtrip :
  forall (path2id id2path : bytes -> option bytes) (sha1_of : bytes -> bytes),
    (forall p i, path2id p = Some i -> id2path i = Some p) ->
    (forall p i, path2id p = Some i -> rio_safe i = true) ->
    forall d, NoDup (map fst d) -> (forall p h, In (p, h) d -> rio_safe h = true) ->
      merge_modified_rt path2id id2path sha1_of d = filter (mm_keep path2id sha1_of) d.
Proof. exact merge_modified_roundtrip. Qed.
Print Assumptions C20_merge_modified_roundtrip.
