(* Properties/C03.v -- Fetch, push and pull copy history completely and faithfully.
   Statements only; the model is Model/RepoFetch.v (on Lib/Dag.v), the proofs are
   in Theory/RepoFetch.v and Theory/DagFacts.v.

   U is ANY well-formed universe: the source's revision graph [ug U] (any size and
   shape, merges, ghosts = ids the source does not hold) with, per revision, the
   text keys its inventory references [inv_of U r].  T is ANY target content
   (which revisions / inventories / texts it holds itself), F the content of its
   fallback (empty content when it is not stacked); [vis_of F T] = the revisions the
   target sees.  [fetch U c F T fg r] models Repository.fetch(source, revision_id=r,
   find_ghosts=fg) (Branch.pull / Branch.push fetch with fg = false) for the format
   pair described by c; it returns (outcome, number of revisions copied, new T).
   [closedb U vis]: every parent (that the source has) of a visible revision (that
   the source has) is visible -- the target holds no ghost the source could fill.

   Which clause of the property is a theorem about this model and which is only a
   correspondence fact is said in notes/C03.md: the theorems are about WHICH records
   end up in the target (revision, inventory and text keys); that the bytes of each
   record, hence the testaments, are identical, and that check() is clean, is
   established by the correspondence run and its oracle only. *)
From Coq Require Import List Arith Bool.
From BV Require Import Lib.Dag Theory.DagFacts Model.RepoFetch Theory.RepoFetch.
Import ListNotations.

(* what is requested: find_ghosts=True asks for exactly the source's ancestors of r the
   target does not see; find_ghosts=False for those not behind a revision it sees *)
Theorem C03_search_full :
  forall U vis r a, wf_dag (ug U) = true ->
  (In a (missing_full U vis r) <-> reach (ug U) a r /\ srcp U a = true /\ ~ In a vis).
Proof. exact missing_full_spec. Qed.
Print Assumptions C03_search_full.

Theorem C03_search_walk :
  forall U vis r a, wf_dag (ug U) = true ->
  (In a (missing_walk U vis r) <->
   reach (ug U) a r /\ srcp U a = true /\
   ~ exists h, reach (ug U) h r /\ srcp U h = true /\ In h vis /\ reach (ug U) a h).
Proof. exact missing_walk_spec. Qed.
Print Assumptions C03_search_walk.

(* on a target without fillable ghosts the two searches request the same revisions *)
Theorem C03_search_modes_agree :
  forall U vis r a, wf_dag (ug U) = true -> closedb U vis = true ->
  (In a (missing_walk U vis r) <-> In a (missing_full U vis r)).
Proof. exact walk_eq_full_closed. Qed.
Print Assumptions C03_search_modes_agree.

(* completeness: after a successful fetch the target sees r and every ancestor of r the
   source has; and it is closed again *)
Theorem C03_fetch_complete :
  forall U c F T fg r n T', wf_dag (ug U) = true ->
  fetch U c F T fg r = (FOk, n, T') ->
  fg = true \/ closedb U (vis_of F T) = true ->
  (forall a, reach (ug U) a r -> srcp U a = true -> In a (vis_of F T')) /\
  (closedb U (vis_of F T) = true -> closedb U (vis_of F T') = true).
Proof. exact fetch_complete. Qed.
Print Assumptions C03_fetch_complete.

(* nothing the target had is lost, and a fetch that fails changes nothing *)
Theorem C03_fetch_preserves_existing :
  forall U c F T fg r out n T', fetch U c F T fg r = (out, n, T') ->
  incl (revs T) (revs T') /\ incl (invs T) (invs T') /\ incl (texts T) (texts T') /\
  (out <> FOk -> T' = T).
Proof. exact fetch_preserves. Qed.
Print Assumptions C03_fetch_preserves_existing.

(* fetching the same revision again requests nothing, copies nothing, changes nothing
   (no hypothesis on the target: also when the first fetch left ghosts unfilled) *)
Theorem C03_fetch_idempotent :
  forall U c F T fg r n T', wf_dag (ug U) = true ->
  fetch U c F T fg r = (FOk, n, T') ->
  missing U fg (vis_of F T') r = [] /\ fetch U c F T' fg r = (FOk, 0, T').
Proof. exact fetch_idempotent. Qed.
Print Assumptions C03_fetch_idempotent.

(* the payload arrives whole: into an unstacked target in which every revision has its
   inventory and all the texts it references, every copied revision arrives with its
   inventory and all the texts the source's inventory references -- for the CHK /
   inventory-difference text selection (same format) and the by-revision selection
   (format conversion) alike *)
Theorem C03_payload_equal :
  forall U c F T fg r out n T', wf_univ U = true ->
  fetch U c F T fg r = (out, n, T') -> revs F = [] ->
  fg = true \/ closedb U (revs T) = true ->
  full U T -> full U T'.
Proof. exact fetch_keeps_full. Qed.
Print Assumptions C03_payload_equal.

(* Repository.fetch(source) without a revision: afterwards the target sees every revision the
   source has, has lost nothing, a second such fetch copies nothing; an unstacked complete target
   stays complete.  No guard is needed: everything missing is requested. *)
Theorem C03_fetch_all_complete :
  forall U c F T n T', fetch_all U c F T = (FOk, n, T') ->
  (forall a, srcp U a = true -> In a (vis_of F T')) /\
  incl (revs T) (revs T') /\ incl (invs T) (invs T') /\ incl (texts T) (texts T') /\
  fetch_all U c F T' = (FOk, 0, T').
Proof. exact fetch_all_complete. Qed.
Print Assumptions C03_fetch_all_complete.

Theorem C03_fetch_all_payload :
  forall U c F T out n T', wf_univ U = true ->
  fetch_all U c F T = (out, n, T') -> revs F = [] -> full U T -> full U T'.
Proof. exact fetch_all_keeps_full. Qed.
Print Assumptions C03_fetch_all_payload.

(* Without the guard both C03_fetch_complete and C03_payload_equal are FALSE for
   find_ghosts=False: witness = a target {r0, r2} whose r2 has the parent r1 it lacks,
   a source that has r1, r4 (child of r1) and r5 = merge(r3, r4).  Fetching r5 leaves
   r1 out although r4 needs it, and r4 arrives without the texts it shares with r1.
   The real code does the same (candidate finding C03-walk-unfilled-ghost). *)
Theorem C03_fetch_complete_unclosed_refuted :
  exists n T', wf_univ wit_U = true /\ full wit_U wit_T /\
    fetch wit_U wit_c empty_repo wit_T false 5 = (FOk, n, T') /\
    (reach (ug wit_U) 1 5 /\ srcp wit_U 1 = true /\ ~ In 1 (vis_of empty_repo T')) /\
    ~ full wit_U T'.
Proof. exact fetch_walk_unclosed_refuted. Qed.
Print Assumptions C03_fetch_complete_unclosed_refuted.

(* the hypotheses are satisfiable by non-trivial values: a merge history with a ghost,
   a target holding a closed part of it; 4 revisions are copied *)
Example C03_example :
  let U := Univ [[]; [0]; [0]; [1; 2]; [3; 9]; [4]]
                [[(0,0)]; [(0,0); (1,1)]; [(0,2)]; [(0,3); (1,1)]; [(0,3); (1,4)]; [(0,5); (1,4)]] in
  let T := seed U [0; 1] in
  wf_univ U = true /\ closedb U (revs T) = true /\ full_b U T = true /\
  exists T', fetch U (Cfg true false false false) empty_repo T false 5 = (FOk, 4, T') /\
             full_b U T' = true /\ closedb U (revs T') = true.
Proof. vm_compute. repeat split. eexists. repeat split. Qed.
