(* Properties/C03.v -- Fetch, push and pull copy history completely and faithfully.
   Statements only; the model is Model/RepoFetch.v (on Lib/Dag.v), the proofs are
   in Theory/RepoFetch.v and Theory/DagFacts.v.

   U is ANY well-formed universe: the source's revision graph [ug U] (any size and
   shape, merges, ghosts = ids the source does not hold) with, per revision, the
   text keys its inventory references [inv_of U r].  T is ANY target content
   (which revisions / inventories / texts it holds itself), F the content of its
   fallback (empty content when it is not stacked); [vis_of F T] = the revisions the
   target sees.  [fetch U c F T fg r] models Repository.fetch(source, revision_id=r,
   find_ghosts=fg) (Branch.pull / Branch.push fetch with fg = false) for the format
   pair described by c; it returns (outcome, number of revisions copied, new T).
   [closedb U vis]: every parent (that the source has) of a visible revision (that
   the source has) is visible -- the target holds no ghost the source could fill.
   The find_ghosts=False search is modelled as repaired by /repo be5f5d4.

   Which clause of the property is a theorem about this model and which is only a
   correspondence fact is said in notes/C03.md: the theorems are about WHICH records
   end up in the target (revision, inventory and text keys); that the bytes of each
   record, hence the testaments, are identical, and that check() is clean, is
   established by the correspondence run and its oracle only. *)
From Coq Require Import List Arith Bool.
From BV Require Import Lib.Dag Theory.DagFacts Model.RepoFetch Theory.RepoFetch.
Import ListNotations.

(* what is requested: exactly the source's ancestors of r the target does not see -- by
   find_ghosts=True, and (since the repair /repo be5f5d4) by the find_ghosts=False walk whenever
   the search is exhausted in its first batch of 50 *)
Theorem C03_search_full :
  forall U vis r a, wf_dag (ug U) = true ->
  (In a (missing_full U vis r) <-> reach (ug U) a r /\ srcp U a = true /\ ~ In a vis).
Proof. exact missing_full_spec. Qed.
Print Assumptions C03_search_full.

Theorem C03_search_walk :
  forall U vis r a, wf_dag (ug U) = true ->
  (In a (missing_walk U vis r) <-> reach (ug U) a r /\ srcp U a = true /\ ~ In a vis).
Proof. exact missing_walk_spec. Qed.
Print Assumptions C03_search_walk.

Theorem C03_search_modes_agree :
  forall U vis r a, In a (missing_walk U vis r) <-> In a (missing_full U vis r).
Proof. exact walk_eq_full. Qed.
Print Assumptions C03_search_modes_agree.

(* The walk for ANY batch size / history size: [walk_ok U vis r M] = M contains only ancestors of r
   the target does not see, at least those reached from r without passing through a revision the
   target sees ([ravoid]), and the walk stopped only at revisions the target sees.  The modelled walk
   satisfies it; on a target without fillable ghosts every such M is exactly the set of missing
   ancestors; whatever M, the copied revisions arrive whole. *)
Theorem C03_walk_model_admissible :
  forall U vis r, wf_dag (ug U) = true -> walk_ok U vis r (missing_walk U vis r).
Proof. exact walk_ok_model. Qed.
Print Assumptions C03_walk_model_admissible.

Theorem C03_walk_any_batching_closed :
  forall U vis r M a, wf_dag (ug U) = true -> closedb U vis = true -> srcp U r = true ->
  walk_ok U vis r M -> (In a M <-> In a (missing_full U vis r)).
Proof. exact walk_ok_closed. Qed.
Print Assumptions C03_walk_any_batching_closed.

Theorem C03_walk_any_batching_payload :
  forall U c T r M,
  walk_ok U (revs T) r M -> full U T -> full U (insert U c T M).
Proof. exact walk_ok_keeps_full. Qed.
Print Assumptions C03_walk_any_batching_payload.

(* The third search: find_ghosts=False from a source behind the smart server.  The server replays
   the search recipe (start at r, never pass a revision the target has), so it sends exactly an
   admissible walk too -- but one that does not look below the revisions the target already has. *)
Theorem C03_search_replay_admissible :
  forall U vis r, wf_dag (ug U) = true -> walk_ok U vis r (missing_replay U vis r).
Proof. exact walk_ok_replay. Qed.
Print Assumptions C03_search_replay_admissible.

(* every search of the model is an admissible walk; and it requests EVERY missing ancestor when
   [fills_all]: find_ghosts, or a local source (search exhausted in one batch), or a target without
   fillable ghosts *)
Theorem C03_search_admissible :
  forall U c fg vis r, wf_dag (ug U) = true -> walk_ok U vis r (missing U c fg vis r).
Proof. exact missing_ok. Qed.
Print Assumptions C03_search_admissible.

Theorem C03_search_fills_all :
  forall U c fg vis r a, wf_dag (ug U) = true -> fills_all U c fg vis -> srcp U r = true ->
  (In a (missing U c fg vis r) <-> In a (missing_full U vis r)).
Proof. exact missing_is_full. Qed.
Print Assumptions C03_search_fills_all.

(* completeness.  After a successful fetch: (1) always, every revision reached from r without
   passing through a revision the target saw before is visible; (2) when the search fills
   everything, r and every ancestor of r the source has are visible -- in particular for
   find_ghosts=False from a local source into a target with a fillable ghost, the case of the former
   finding; (3) a closed target is closed again. *)
Theorem C03_fetch_complete :
  forall U c F T fg r n T', wf_dag (ug U) = true ->
  fetch U c F T fg r = (FOk, n, T') ->
  (forall a, ravoid U (vis_of F T) r a -> In a (vis_of F T')) /\
  (fills_all U c fg (vis_of F T) ->
     forall a, reach (ug U) a r -> srcp U a = true -> In a (vis_of F T')) /\
  (closedb U (vis_of F T) = true -> closedb U (vis_of F T') = true).
Proof. exact fetch_complete. Qed.
Print Assumptions C03_fetch_complete.

(* nothing the target had is lost, and a fetch that fails changes nothing *)
Theorem C03_fetch_preserves_existing :
  forall U c F T fg r out n T', fetch U c F T fg r = (out, n, T') ->
  incl (revs T) (revs T') /\ incl (invs T) (invs T') /\ incl (texts T) (texts T') /\
  (out <> FOk -> T' = T).
Proof. exact fetch_preserves. Qed.
Print Assumptions C03_fetch_preserves_existing.

(* fetching the same revision again requests nothing, copies nothing, changes nothing
   (no hypothesis on the target: also when the first fetch left ghosts unfilled) *)
Theorem C03_fetch_idempotent :
  forall U c F T fg r n T', wf_dag (ug U) = true ->
  fetch U c F T fg r = (FOk, n, T') ->
  missing U c fg (vis_of F T') r = [] /\ fetch U c F T' fg r = (FOk, 0, T').
Proof. exact fetch_idempotent. Qed.
Print Assumptions C03_fetch_idempotent.

(* the payload arrives whole: into an unstacked target in which every revision has its
   inventory and all the texts it references, every copied revision arrives with its inventory
   and all the texts the source's inventory references -- for the CHK / inventory-difference
   text selection of the same-format and of the converting stream sources alike, both search
   modes, no hypothesis on the target's ghosts, and also when an inventory names texts after a
   revision the source itself lacks (a sparse source: only the graph has to be well formed) *)
Theorem C03_payload_equal :
  forall U c F T fg r out n T', wf_dag (ug U) = true ->
  fetch U c F T fg r = (out, n, T') -> revs F = [] ->
  full U T -> full U T'.
Proof. exact fetch_keeps_full. Qed.
Print Assumptions C03_payload_equal.

(* Repository.fetch(source) without a revision: afterwards the target sees every revision the
   source has, has lost nothing, a second such fetch copies nothing; an unstacked complete target
   stays complete.  No guard is needed: everything missing is requested. *)
Theorem C03_fetch_all_complete :
  forall U c F T n T', fetch_all U c F T = (FOk, n, T') ->
  (forall a, srcp U a = true -> In a (vis_of F T')) /\
  incl (revs T) (revs T') /\ incl (invs T) (invs T') /\ incl (texts T) (texts T') /\
  fetch_all U c F T' = (FOk, 0, T').
Proof. exact fetch_all_complete. Qed.
Print Assumptions C03_fetch_all_complete.

Theorem C03_fetch_all_payload :
  forall U c F T out n T',
  fetch_all U c F T = (out, n, T') -> revs F = [] -> full U T -> full U T'.
Proof. exact fetch_all_keeps_full. Qed.
Print Assumptions C03_fetch_all_payload.

(* Regression statements about the OLD search (before /repo be5f5d4, [missing_walk_old]: the seen
   ancestors of the revisions the target has were excluded even when the target lacks them): with
   a target {r0, r2} whose r2 has the parent r1 it lacks and a source that has r1, r4 (child of r1)
   and r5 = merge(r3, r4), fetching r5 left r1 out and r4 arrived without the texts it shares with
   r1 (former finding C03-walk-unfilled-ghost).  The repaired search copies r1 and the result is
   complete. *)
Theorem C03_old_walk_unclosed_refuted :
  let T' := insert wit_U wit_c wit_T (missing_walk_old wit_U (revs wit_T) 5) in
  wf_univ wit_U = true /\ full wit_U wit_T /\
  (reach (ug wit_U) 1 5 /\ srcp wit_U 1 = true /\ ~ In 1 (revs T')) /\
  ~ full wit_U T'.
Proof. exact old_walk_unclosed_refuted. Qed.
Print Assumptions C03_old_walk_unclosed_refuted.

Theorem C03_walk_unclosed_now_complete :
  exists T', fetch wit_U wit_c empty_repo wit_T false 5 = (FOk, 4, T') /\
             In 1 (revs T') /\ full wit_U T'.
Proof. exact walk_unclosed_now_complete. Qed.
Print Assumptions C03_walk_unclosed_now_complete.

(* the hypotheses are satisfiable by non-trivial values: a merge history with a ghost,
   a target holding a closed part of it; 4 revisions are copied *)
Example C03_example :
  let U := Univ [[]; [0]; [0]; [1; 2]; [3; 9]; [4]]
                [[(0,0)]; [(0,0); (1,1)]; [(0,2)]; [(0,3); (1,1)]; [(0,3); (1,4)]; [(0,5); (1,4)]] in
  let T := seed U [0; 1] in
  wf_univ U = true /\ closedb U (revs T) = true /\ full_b U T = true /\
  exists T', fetch U (Cfg true false false false) empty_repo T false 5 = (FOk, 4, T') /\
             full_b U T' = true /\ closedb U (revs T') = true.
Proof. vm_compute. repeat split. eexists. repeat split. Qed.
