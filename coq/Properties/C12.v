(* Properties/C12.v -- Tree-changing commands never silently discard uncommitted work.
   Model: Model/NoLoss.v (+ Model/TextMerge.v of C19, Model/Uncommit.v of C16); proofs: Theory/NoLoss.v.
   Naming: _guarded = holds under an executable guard the proof forces; _refuted = the unguarded statement is
   false of the faithful model (witness replayed on the real code by the corpus of harness/props/c12.py);
   _old_ = a statement about the code before the repair round (commits cd17d15, 86c5d42, b356f06). *)
From Coq Require Import NArith List Bool String.
From BV Require Import Lib.Bytes Model.TextMerge Model.NoLoss Theory.NoLoss.
From BV Require Lib.Dag Model.Uncommit Theory.Uncommit.
Import ListNotations.
Open Scope N_scope.

(* ---- the keep_content decision of _alter_files (finite domain, every row) ---- *)

(* the branch structure is this boolean formula *)
Theorem C12_keep_content_table :
  forall c, keep_content c =
    is_file (wt_kind c) && (backups c || is_none (target_kind c)) && negb (mm_match c)
    && (negb (in_basis c) || negb (sha_eq_basis c)).
Proof. exact keep_content_spec. Qed.
Print Assumptions C12_keep_content_table.

(* content is kept exactly when it is user-edited and (backups are on or the target has nothing to put there):
   nothing else is ever backed up, and no user-edited file is dropped while backups are on *)
Theorem C12_decision_exact :
  forall c, keep_content c = (backups c || is_none (target_kind c)) && user_edited_chg c.
Proof. exact keep_content_iff. Qed.
Print Assumptions C12_decision_exact.

(* with backups, a user-edited file is backed up or left in place (no guard since cd17d15) *)
Theorem C12_decision_keeps_user_content :
  forall c, backups c = true -> user_edited_chg c = true ->
  alter_action c = ABackup \/ alter_action c = AKeepInPlace.
Proof. exact decision_keeps. Qed.
Print Assumptions C12_decision_keeps_user_content.

(* the OLD decision (before cd17d15, [keep_content_old]) dropped an edited file that the basis lacks and the
   target tree has; the current one keeps it *)
Theorem C12_old_decision_refuted :
  exists c, backups c = true /\ user_edited_chg c = true /\ target_versioned c = is_some (target_kind c)
            /\ keep_content_old c = false /\ keep_content c = true.
Proof. exact decision_old_refuted. Qed.
Print Assumptions C12_old_decision_refuted.

(* content that is not a regular file (a retargeted symlink, a directory) is never kept *)
Theorem C12_decision_nonfile_not_kept :
  forall c, is_file (wt_kind c) = false -> keep_content c = false.
Proof. exact decision_nonfile. Qed.
Print Assumptions C12_decision_nonfile_not_kept.

(* ---- revert on working-tree states ---- *)

(* backups on: every user-edited FILE content is still there afterwards: in place, under <name>.~k~, or under
   <name>.moved (an unversioned file in the way of a file that comes back).  No guard on the state.
   Only kind = file is covered (see C12_revert_symlink_refuted). *)
Theorem C12_revert_keeps_user_content :
  forall target sel s s' n c,
  revert target sel true s = Some s' -> user_edited s n c ->
  NoDup (names (disk s'))
  /\ exists n', In (n', NFile c) (disk s')
                /\ (n' = n \/ n' = n ++ MOVED \/ exists k, n' = backup_name n k).
Proof.
  intros target sel s s' n c Hr Hu. split; [eapply revert_nodup; exact Hr|].
  eapply revert_keeps; eauto.
Qed.
Print Assumptions C12_revert_keeps_user_content.

(* a user-retargeted symlink is not preserved (by design of the code: only files are backed up) *)
Theorem C12_revert_symlink_refuted :
  exists s', revert (basis s_link) None true s_link = Some s'
             /\ forall n', ~ In (n', NLink (b_ "USER")) (disk s').
Proof. exact revert_symlink_refuted. Qed.
Print Assumptions C12_revert_symlink_refuted.

(* even with --no-backup: user-edited content the target tree has no entry for is never deleted *)
Theorem C12_revert_keeps_added_any_backups :
  forall target sel bk s s' n c,
  revert target sel bk s = Some s' -> user_edited s n c -> lookup n target = None ->
  exists n', In (n', NFile c) (disk s') /\ (n' = n \/ n' = n ++ MOVED \/ exists k, n' = backup_name n k).
Proof. intros. eapply revert_keeps; eauto. Qed.
Print Assumptions C12_revert_keeps_added_any_backups.

(* backup names are free names: nothing is overwritten *)
Theorem C12_backup_name_fresh : forall n used, ~ In (avail n used) used /\ exists k, avail n used = backup_name n k.
Proof. intros n used. split; [apply avail_fresh|apply avail_form]. Qed.
Print Assumptions C12_backup_name_fresh.

(* ---- remove ---- *)
(* [rm_guard] below is not about the code but about the model: it stands for the reverse-sorted order of the
   real loop, which the model takes as given (a named path ending in '~' must be one that is backed up) *)

(* no --force: an unversioned path keeps its content (file, symlink or a whole directory with its unversioned
   files), under its name or a longer one -- also when its path is a path of the basis (86c5d42) and whatever
   characters the name has (b356f06) *)
Theorem C12_remove_unknown_needs_force_guarded :
  forall s files keep n nd,
  NoDup (names (disk s)) -> rm_guard s files = true ->
  lookup n (disk s) = Some nd -> memn n (inv s) = false ->
  exists n', prefixb n n' = true /\ In (n', nd) (disk (remove files keep false s)).
Proof. intros. eapply remove_preserves; eauto using to_backup_unknown. Qed.
Print Assumptions C12_remove_unknown_needs_force_guarded.

(* no --force: a versioned path that is added or whose content changed keeps its content *)
Theorem C12_remove_modified_needs_force_or_keep_guarded :
  forall s files keep n nd,
  NoDup (names (disk s)) -> rm_guard s files = true ->
  lookup n (disk s) = Some nd -> memn n (inv s) = true ->
  lookup n (basis s) = None \/ changed_content (lookup n (basis s)) (Some nd) = true ->
  exists n', prefixb n n' = true /\ In (n', nd) (disk (remove files keep false s)).
Proof. intros. eapply remove_preserves; eauto using to_backup_modified. Qed.
Print Assumptions C12_remove_modified_needs_force_or_keep_guarded.

(* --keep: the disk is not touched at all *)
Theorem C12_remove_keep_disk_unchanged :
  forall s files force, disk (remove files true force s) = disk s.
Proof. exact remove_keep_disk. Qed.
Print Assumptions C12_remove_keep_disk_unchanged.

(* ---- merge / update / pull / switch: one path ---- *)

(* the local text stays in the file, in <name>.THIS or in <name>.moved; or there was no local change and OTHER
   wins; or the file holds the clean three-way merge (no conflict region) *)
Theorem C12_merge_keeps_local_or_clean_merge :
  forall o base this tv sid other rs r,
  merge_entry o base this tv sid other rs = Some r ->
  (r_main r = Some (text this) \/ r_this r = Some (text this) \/ r_moved r = Some (text this))
  \/ (exists b, base = Some b /\ text b = text this /\ r_main r = option_map text other /\ r_conf r = ""%string)
  \/ (exists ot, other = Some ot /\ has_conflict rs = false /\ r_conf r = ""%string
                 /\ r_main r = Some (text (clean_lines (base_lines base) this ot rs))).
Proof. exact merge_keeps_local_or_clean. Qed.
Print Assumptions C12_merge_keeps_local_or_clean_merge.

Theorem C12_merge_keeps_user_edited :
  forall o b this tv sid other rs r,
  merge_entry o (Some b) this tv sid other rs = Some r -> text b <> text this ->
  (r_main r = Some (text this) \/ r_this r = Some (text this) \/ r_moved r = Some (text this))
  \/ (exists ot, other = Some ot /\ has_conflict rs = false /\ r_conf r = ""%string
                 /\ r_main r = Some (text (clean_lines b this ot rs))).
Proof. exact merge_keeps_user_edited. Qed.
Print Assumptions C12_merge_keeps_user_edited.

(* a path ends up in merge_modified() only when the merge wrote its content (OTHER's text or text_merge's
   output): the untouched local file -- in particular one that is merely renamed -- is never recorded, so a
   later revert cannot mistake the user's edit for merge output *)
Theorem C12_merge_records_only_written :
  forall o base this tv sid other rs r,
  merge_entry o base this tv sid other rs = Some r -> r_mm r = true ->
  exists ot, other = Some ot /\
    (r_main r = Some (text ot)
     \/ exists ls flag, text_merge o (base_lines base) this ot rs = Some (ls, flag) /\ r_main r = Some (text ls)).
Proof. exact merge_recorded_was_written. Qed.
Print Assumptions C12_merge_records_only_written.

(* ---- switch --store ---- *)

(* a refused switch (ChangesAlreadyStored) changes nothing *)
Theorem C12_switch_refused_unchanged :
  forall st op st', sstep st op = (st', true) -> st' = st.
Proof. exact sstep_refused. Qed.
Print Assumptions C12_switch_refused_unchanged.

(* any sequence of switches (plain or --store, refused or not): the uncommitted work in the tree plus what the
   two branches have stored stays the same set *)
Theorem C12_switch_store_conserves_work :
  forall ops st x, forallb is_switch ops = true -> (In x (all_work st) <-> In x (all_work (srun st ops))).
Proof. exact switch_store_conserves. Qed.
Print Assumptions C12_switch_store_conserves_work.

(* ---- uncommit ---- *)

(* the tree side: no file, inventory entry or merge-hash changes (tied by the uncommit cases of the run) *)
Theorem C12_uncommit_disk_unchanged :
  forall nb s, disk (uncommit_tree nb s) = disk s /\ inv (uncommit_tree nb s) = inv s /\ mm (uncommit_tree nb s) = mm s.
Proof. exact uncommit_tree_untouched. Qed.
Print Assumptions C12_uncommit_disk_unchanged.

(* the same fact on C16's model of src/uncommit.rs (tied to the Rust code by C16's correspondence run) *)
Theorem C12_uncommit_files_untouched_C16 :
  forall g b ts m k keep loc b' t' m',
  Uncommit.uncommit g b (Some ts) m k keep loc = Uncommit.Ok (b', t', m') ->
  exists ts', t' = Some ts' /\ Uncommit.tfiles ts' = Uncommit.tfiles ts.
Proof. exact BV.Theory.Uncommit.files_untouched. Qed.
Print Assumptions C12_uncommit_files_untouched_C16.
