(* Properties/C12.v -- Tree-changing commands never silently discard uncommitted work.
   Model: Model/NoLoss.v (+ Model/TextMerge.v of C19, Model/Uncommit.v of C16); proofs: Theory/NoLoss.v.
   Naming: _guarded = holds under an executable guard the proof forces; _refuted = the unguarded statement is
   false of the faithful model (witness replayed on the real code by the corpus of harness/props/c12.py). *)
From Coq Require Import NArith List Bool String.
From BV Require Import Lib.Bytes Model.TextMerge Model.NoLoss Theory.NoLoss.
From BV Require Lib.Dag Model.Uncommit Theory.Uncommit.
Import ListNotations.
Open Scope N_scope.

(* ---- the keep_content decision of _alter_files (finite domain, every row) ---- *)

(* the branch structure is this boolean formula *)
Theorem C12_keep_content_table :
  forall c, keep_content c =
    is_file (wt_kind c) && (backups c || is_none (target_kind c)) && negb (mm_match c)
    && (if in_basis c then negb (sha_eq_basis c) else is_none (target_kind c) && negb (target_versioned c)).
Proof. exact keep_content_spec. Qed.
Print Assumptions C12_keep_content_table.

(* with backups, a user-edited file is backed up or left in place -- provided it is in the basis or the target
   tree has nothing at its place *)
Theorem C12_decision_keeps_user_content_guarded :
  forall c, backups c = true -> user_edited_chg c = true -> chg_guard c = true ->
  alter_action c = ABackup \/ alter_action c = AKeepInPlace.
Proof. exact decision_keeps. Qed.
Print Assumptions C12_decision_keeps_user_content_guarded.

(* ... and without the guard it is deleted although backups are on *)
Theorem C12_decision_keeps_user_content_refuted :
  exists c, backups c = true /\ user_edited_chg c = true /\ target_versioned c = is_some (target_kind c)
            /\ alter_action c = ADelete.
Proof. exact decision_refuted. Qed.
Print Assumptions C12_decision_keeps_user_content_refuted.

(* only user-edited file content is ever kept (no backup of merge results or unchanged files);
   content that is not a regular file (a retargeted symlink, a directory) is never kept *)
Theorem C12_decision_exact :
  forall c, (keep_content c = true -> user_edited_chg c = true)
            /\ (is_file (wt_kind c) = false -> keep_content c = false).
Proof. intros c. split; [apply decision_exact|apply decision_nonfile]. Qed.
Print Assumptions C12_decision_exact.

(* ---- revert on working-tree states ---- *)

(* backups on: every user-edited FILE content is still there afterwards: in place, under <name>.~k~, or under
   <name>.moved (an unversioned file in the way of a file that comes back).  Guard: the file is in the basis or
   absent from the target tree.  Only kind = file is covered (see C12_revert_symlink_refuted). *)
Theorem C12_revert_keeps_user_content_guarded :
  forall target sel s s' n c,
  revert target sel true s = Some s' -> user_edited s n c -> name_guard s target n = true ->
  NoDup (names (disk s'))
  /\ exists n', In (n', NFile c) (disk s')
                /\ (n' = n \/ n' = n ++ MOVED \/ exists k, n' = backup_name n k).
Proof.
  intros target sel s s' n c Hr Hu Hg. split; [eapply revert_nodup; exact Hr|].
  eapply revert_keeps; eauto.
Qed.
Print Assumptions C12_revert_keeps_user_content_guarded.

(* the statement of DESIGN (no guard) is false: a file absent from the basis, present in the target tree *)
Theorem C12_revert_keeps_user_content_refuted :
  exists s', revert t_added (Some [nA]) true s_added = Some s'
             /\ user_edited s_added nA (b_ "USER EDIT")
             /\ forall n', ~ In (n', NFile (b_ "USER EDIT")) (disk s').
Proof. exact revert_added_refuted. Qed.
Print Assumptions C12_revert_keeps_user_content_refuted.

(* a user-retargeted symlink is not preserved (by design of the code: only files are backed up) *)
Theorem C12_revert_symlink_refuted :
  exists s', revert (basis s_link) None true s_link = Some s'
             /\ forall n', ~ In (n', NLink (b_ "USER")) (disk s').
Proof. exact revert_symlink_refuted. Qed.
Print Assumptions C12_revert_symlink_refuted.

(* even with --no-backup: user-edited content the target tree has no entry for is never deleted *)
Theorem C12_revert_keeps_added_any_backups :
  forall target sel bk s s' n c,
  revert target sel bk s = Some s' -> user_edited s n c -> lookup n target = None ->
  exists n', In (n', NFile c) (disk s') /\ (n' = n \/ n' = n ++ MOVED \/ exists k, n' = backup_name n k).
Proof. intros. eapply revert_keeps; eauto. Qed.
Print Assumptions C12_revert_keeps_added_any_backups.

(* backup names are free names: nothing is overwritten *)
Theorem C12_backup_name_fresh : forall n used, ~ In (avail n used) used /\ exists k, avail n used = backup_name n k.
Proof. intros n used. split; [apply avail_fresh|apply avail_form]. Qed.
Print Assumptions C12_backup_name_fresh.

(* ---- remove ---- *)

(* no --force: an unknown path (unversioned, not a path of the basis) keeps its content (file, symlink or a
   whole directory with its unversioned files), under its name or a longer one *)
Theorem C12_remove_unknown_needs_force_guarded :
  forall s files keep n nd,
  NoDup (names (disk s)) -> rm_guard s files = true ->
  lookup n (disk s) = Some nd -> memn n (inv s) = false -> lookup n (basis s) = None ->
  exists n', prefixb n n' = true /\ In (n', nd) (disk (fst (remove files keep false s))).
Proof. intros. eapply remove_preserves; eauto using to_backup_unknown. Qed.
Print Assumptions C12_remove_unknown_needs_force_guarded.

(* "unknown" must exclude paths of the basis: rm --keep f; edit f; rm f  deletes f *)
Theorem C12_remove_unknown_needs_force_refuted :
  memn nA (inv s_kept) = false /\ rm_guard s_kept [nA] = true
  /\ lookup nA (disk s_kept) = Some (NFile (b_ "EDITED"))
  /\ remove [nA] false false s_kept = ({| basis := basis s_kept; inv := []; disk := []; mm := [] |}, false).
Proof. exact remove_kept_refuted. Qed.
Print Assumptions C12_remove_unknown_needs_force_refuted.

(* no --force: a versioned path that is added or whose content changed keeps its content *)
Theorem C12_remove_modified_needs_force_or_keep_guarded :
  forall s files keep n nd,
  NoDup (names (disk s)) -> rm_guard s files = true ->
  lookup n (disk s) = Some nd -> memn n (inv s) = true ->
  lookup n (basis s) = None \/ changed_content (lookup n (basis s)) (Some nd) = true ->
  exists n', prefixb n n' = true /\ In (n', nd) (disk (fst (remove files keep false s))).
Proof. intros. eapply remove_preserves; eauto using to_backup_modified. Qed.
Print Assumptions C12_remove_modified_needs_force_or_keep_guarded.

(* --keep: the disk is not touched at all *)
Theorem C12_remove_keep_disk_unchanged :
  forall s files force, disk (fst (remove files true force s)) = disk s.
Proof. exact remove_keep_disk. Qed.
Print Assumptions C12_remove_keep_disk_unchanged.

(* the '%' guard is needed: the backup-name probe unescapes its argument, an existing file is overwritten *)
Theorem C12_remove_percent_name_refuted :
  memn (backup_name nP 1) (inv s_pct) = false /\ lookup (backup_name nP 1) (basis s_pct) = None
  /\ lookup (backup_name nP 1) (disk s_pct) = Some (NFile (b_ "PRECIOUS"))
  /\ snd (remove [nP] false false s_pct) = false
  /\ forall n', ~ In (n', NFile (b_ "PRECIOUS")) (disk (fst (remove [nP] false false s_pct))).
Proof. exact remove_percent_refuted. Qed.
Print Assumptions C12_remove_percent_name_refuted.

(* ---- merge / update / pull / switch: one path ---- *)

(* the local text stays in the file, in <name>.THIS or in <name>.moved; or there was no local change and OTHER
   wins; or the file holds the clean three-way merge (no conflict region) *)
Theorem C12_merge_keeps_local_or_clean_merge :
  forall o base this tv sid other rs r,
  merge_entry o base this tv sid other rs = Some r ->
  (r_main r = Some (text this) \/ r_this r = Some (text this) \/ r_moved r = Some (text this))
  \/ (exists b, base = Some b /\ text b = text this /\ r_main r = option_map text other /\ r_conf r = ""%string)
  \/ (exists ot, other = Some ot /\ has_conflict rs = false /\ r_conf r = ""%string
                 /\ r_main r = Some (text (clean_lines (base_lines base) this ot rs))).
Proof. exact merge_keeps_local_or_clean. Qed.
Print Assumptions C12_merge_keeps_local_or_clean_merge.

Theorem C12_merge_keeps_user_edited :
  forall o b this tv sid other rs r,
  merge_entry o (Some b) this tv sid other rs = Some r -> text b <> text this ->
  (r_main r = Some (text this) \/ r_this r = Some (text this) \/ r_moved r = Some (text this))
  \/ (exists ot, other = Some ot /\ has_conflict rs = false /\ r_conf r = ""%string
                 /\ r_main r = Some (text (clean_lines b this ot rs))).
Proof. exact merge_keeps_user_edited. Qed.
Print Assumptions C12_merge_keeps_user_edited.

(* ---- uncommit ---- *)

(* the tree side: no file, inventory entry or merge-hash changes (tied by the uncommit cases of the run) *)
Theorem C12_uncommit_disk_unchanged :
  forall nb s, disk (uncommit_tree nb s) = disk s /\ inv (uncommit_tree nb s) = inv s /\ mm (uncommit_tree nb s) = mm s.
Proof. exact uncommit_tree_untouched. Qed.
Print Assumptions C12_uncommit_disk_unchanged.

(* the same fact on C16's model of src/uncommit.rs (tied to the Rust code by C16's correspondence run) *)
Theorem C12_uncommit_files_untouched_C16 :
  forall g b ts m k keep loc b' t' m',
  Uncommit.uncommit g b (Some ts) m k keep loc = Uncommit.Ok (b', t', m') ->
  exists ts', t' = Some ts' /\ Uncommit.tfiles ts' = Uncommit.tfiles ts.
Proof. exact BV.Theory.Uncommit.files_untouched. Qed.
Print Assumptions C12_uncommit_files_untouched_C16.
