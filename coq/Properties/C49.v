(* Properties/C49.v -- Configuration values resolve by location and round-trip through files.
   Statements only; proofs in Theory/{Fnmatch,ConfigLoc,ConfigValue}.v, models in
   Model/{Fnmatch,ConfigLoc}.v.

   Vocabulary.  Strings are lists of code points.  [parts s] = s.rstrip("/").split("/").
   [fnm l s] : location segment l matches section-name segment s (Python fnmatch).
   A store = optional no-name section + named sections in file order.
   [get_matching_sections] = LocationMatcher._get_matching_sections (pairs (number of
   parts, LocationSection)); [key_ltb] = the sort key (number of parts, section id)
   compared as Python compares it; [ignores s] = bool_from_string(s.get("ignore_parents"))
   is True; [ls_get s name] = LocationSection.get(name) (policy + local references
   applied); [resolve_loc] = the value Stack.get finds in the location sections.
   [url_join], [url_basename] : dromedary's urlutils.join / basename -- ANY functions
   (environment; the theorems do not depend on what they compute). *)
From Coq Require Import NArith Bool String Ascii PeanoNat List Permutation Sorted.
From BV Require Import Lib.Bytes Model.Fnmatch Theory.Fnmatch Model.ConfigLoc
                       Theory.ConfigLoc Theory.ConfigValue.
Import ListNotations.
Open Scope list_scope.
Open Scope N_scope.

(* ---- glob matching of one segment ------------------------------------------------------- *)
(* the executable matcher decides exactly the declarative language of the pattern *)
Theorem C49_fnmatch_correct : forall name pat,
  fnmatch name pat = true <-> gm (translate pat) name.
Proof. exact fnmatch_correct. Qed.
Print Assumptions C49_fnmatch_correct.

(* a segment without * ? [ matches exactly itself *)
Theorem C49_fnmatch_plain : forall name pat,
  plain pat = true -> (fnmatch name pat = true <-> name = pat).
Proof. exact fnmatch_plain. Qed.
Print Assumptions C49_fnmatch_plain.

(* ---- matching is a component-wise prefix match ------------------------------------------- *)
(* _iter_for_location_by_parts yields (section, extra_path, n) exactly for the
   sections whose parts match, segment by segment, a prefix [pre] of the
   location's parts; extra_path is the "/"-join of the unmatched suffix and n the
   number of matched parts *)
Theorem C49_match_is_componentwise_prefix : forall secs loc sec extra n,
  In (sec, extra, n) (iter_for_location_by_parts secs loc) <->
  In sec secs /\
  exists pre suf, parts loc = pre ++ suf /\ Forall2 fnm pre (parts sec) /\
                  extra = join [cSL] suf /\ n = length pre.
Proof. exact iter_spec. Qed.
Print Assumptions C49_match_is_componentwise_prefix.

(* ... in file order *)
Theorem C49_match_keeps_file_order : forall secs loc,
  map (fun t => fst (fst t)) (iter_for_location_by_parts secs loc) =
  filter (fun sec => sec_match (parts loc) (parts sec)) secs.
Proof. exact iter_order. Qed.
Print Assumptions C49_match_keeps_file_order.

(* glob-free section names: the section's parts are literally a prefix *)
Theorem C49_match_plain_prefix : forall lp sp,
  Forall (fun s => plain s = true) sp ->
  (sec_match lp sp = true <-> exists suf, lp = sp ++ suf).
Proof. exact sec_match_plain. Qed.
Print Assumptions C49_match_plain_prefix.

Section Env.
  Variable url_join : str -> str -> str.
  Variable url_basename : str -> str.

  (* the sections LocationMatcher works with are the ones _iter_for_location_by_parts
     selects (the "resync" loop), in the same order, with the same extra_path *)
  Theorem C49_matcher_uses_iter : forall st location,
    map (fun p => (ls_id (snd p), ls_extra (snd p), fst p))
        (named_matching url_basename st location) =
    iter_for_location_by_parts (map fst (st_named st)) location.
  Proof. exact (named_matching_iter url_basename). Qed.

  (* ---- appendpath / relpath use exactly the unmatched suffix ------------------------------ *)
  (* every named matching section carries extra_path = join of the unmatched parts *)
  Theorem C49_extra_path : forall st location n s,
    In (n, s) (named_matching url_basename st location) ->
    In (ls_id s, ls_opts s) (st_named st) /\
    exists pre suf, parts location = pre ++ suf /\ Forall2 fnm pre (parts (ls_id s)) /\
                    ls_extra s = join [cSL] suf /\ n = length pre /\
                    ls_branch s = url_basename location.
  Proof. exact (named_matching_spec url_basename). Qed.

  (* appendpath: the value is url_join(value, extra_path) -- then local references *)
  Theorem C49_appendpath : forall ls name v,
    lookup name (ls_opts ls) = Some v ->
    ls_get url_join url_basename ls (name ++ policy_suffix) = Some appendpath ->
    ls_get url_join url_basename ls name =
    Some (expand_locals url_basename ls (url_join v (ls_extra ls))).
  Proof. exact (ls_get_appendpath url_join url_basename). Qed.

  (* {relpath} is the extra_path, {basename} its basename, {branchname} the branch name *)
  Theorem C49_relpath : forall ls,
    expand_locals url_basename ls (lit "{relpath}") = ls_extra ls /\
    expand_locals url_basename ls (lit "{basename}") = url_basename (ls_extra ls) /\
    expand_locals url_basename ls (lit "{branchname}") = ls_branch ls.
  Proof.
    intro ls. split; [apply expand_relpath|split; [apply expand_basename|apply expand_branchname]].
  Qed.

  (* without a policy and without '{' the stored text is returned as it is *)
  Theorem C49_plain_value_unchanged : forall ls name v,
    lookup name (ls_opts ls) = Some v ->
    lookup (name ++ policy_suffix) (ls_opts ls) = None ->
    memb 123 v = false ->
    ls_get url_join url_basename ls name = Some v.
  Proof.
    intros ls name v H1 H2 H3.
    rewrite (ls_get_nopolicy url_join url_basename ls name v H1 H2).
    rewrite expand_locals_no_brace by exact H3. reflexivity.
  Qed.

  (* the recursion LocationSection.get -> self.get(name + ":policy") always ends:
     the model's fuel is enough, and LocationSection.get satisfies its defining equation *)
  Theorem C49_section_get_equation : forall ls name,
    ls_get url_join url_basename ls name =
    match lookup name (ls_opts ls) with
    | None => None
    | Some v =>
        Some (expand_locals url_basename ls
                match ls_get url_join url_basename ls (name ++ policy_suffix) with
                | Some p => if str_eqb p appendpath then url_join v (ls_extra ls) else v
                | None => v
                end)
    end.
  Proof. exact (ls_get_eq url_join url_basename). Qed.

  (* ---- the most specific matching section wins ------------------------------------------- *)
  (* order: get_sections walks a permutation of the matching sections sorted by
     (number of parts, id) descending -- ties on the number of parts are broken by
     the section id compared as a string, greater id first (NOT by file order) *)
  Theorem C49_order : forall st location,
    StronglySorted ge_key (sort_desc (get_matching_sections url_basename st location)) /\
    Permutation (sorted_sections url_basename st location)
                (map snd (get_matching_sections url_basename st location)).
  Proof.
    intros. split; [apply sort_desc_sorted|apply sorted_sections_perm].
  Qed.

  (* ignore_parents: the visible sections are the longest prefix of that order
     without a section whose ignore_parents is true; the cut INCLUDES that section *)
  Theorem C49_ignore_parents : forall st location,
    exists rest,
      sorted_sections url_basename st location =
        get_sections url_join url_basename st location ++ rest /\
      Forall (fun s => ignores url_join url_basename s = false)
             (get_sections url_join url_basename st location) /\
      (rest = [] \/ exists r rest', rest = r :: rest' /\ ignores url_join url_basename r = true).
  Proof. exact (get_sections_spec url_join url_basename). Qed.

  (* soundness: a resolved value comes from a matching section that defines the
     option and is not cut; every strictly more specific matching section neither
     defines the option nor sets ignore_parents *)
  Theorem C49_most_specific_wins : forall st location name v,
    resolve_loc url_join url_basename st location name = Some v ->
    exists n s,
      In (n, s) (get_matching_sections url_basename st location) /\
      ls_get url_join url_basename s name = Some v /\
      ignores url_join url_basename s = false /\
      forall n' s', In (n', s') (get_matching_sections url_basename st location) ->
                    key_ltb (n, s) (n', s') = true ->
                    ls_get url_join url_basename s' name = None /\
                    ignores url_join url_basename s' = false.
  Proof. exact (most_specific_wins url_join url_basename). Qed.

  (* completeness: such a section always gives the value *)
  Theorem C49_most_specific_wins_complete : forall st location name v n s,
    In (n, s) (get_matching_sections url_basename st location) ->
    ls_get url_join url_basename s name = Some v ->
    ignores url_join url_basename s = false ->
    (forall n' s', In (n', s') (get_matching_sections url_basename st location) ->
                   key_ltb (n', s') (n, s) = false ->
                   ignores url_join url_basename s' = false /\
                   (ls_get url_join url_basename s' name = None \/
                    ls_get url_join url_basename s' name = Some v)) ->
    resolve_loc url_join url_basename st location name = Some v.
  Proof. exact (most_specific_wins_complete url_join url_basename). Qed.

  Theorem C49_unresolved : forall st location name,
    resolve_loc url_join url_basename st location name = None <->
    Forall (fun s => ls_get url_join url_basename s name = None)
           (get_sections url_join url_basename st location).
  Proof. exact (resolve_none url_join url_basename). Qed.

  (* a value never comes from, or from below, a section with ignore_parents *)
  Theorem C49_ignore_parents_cut : forall st location name v n0 s0,
    resolve_loc url_join url_basename st location name = Some v ->
    In (n0, s0) (get_matching_sections url_basename st location) ->
    ignores url_join url_basename s0 = true ->
    exists n s, In (n, s) (get_matching_sections url_basename st location) /\
                ls_get url_join url_basename s name = Some v /\ s <> s0 /\
                key_ltb (n, s) (n0, s0) = false.
  Proof. exact (ignore_parents_cut url_join url_basename). Qed.

  Theorem C49_ignore_parents_top : forall st location name n0 s0,
    In (n0, s0) (get_matching_sections url_basename st location) ->
    ignores url_join url_basename s0 = true ->
    (forall n s, In (n, s) (get_matching_sections url_basename st location) ->
                 (n, s) <> (n0, s0) -> key_ltb (n, s) (n0, s0) = true) ->
    resolve_loc url_join url_basename st location name = None.
  Proof. exact (ignore_parents_top url_join url_basename). Qed.
End Env.
Print Assumptions C49_matcher_uses_iter.
Print Assumptions C49_extra_path.
Print Assumptions C49_appendpath.
Print Assumptions C49_relpath.
Print Assumptions C49_plain_value_unchanged.
Print Assumptions C49_section_get_equation.
Print Assumptions C49_order.
Print Assumptions C49_ignore_parents.
Print Assumptions C49_most_specific_wins.
Print Assumptions C49_most_specific_wins_complete.
Print Assumptions C49_unresolved.
Print Assumptions C49_ignore_parents_cut.
Print Assumptions C49_ignore_parents_top.

(* hypotheses are satisfiable / the theorems are not vacuous *)
Example C49_examples :
  (* specificity order incl. a tie, ignore_parents, appendpath + references *)
  map (fun s => ls_id s)
      (get_sections simple_join simple_basename
         (mk_store (Some [(lit "foo", lit "0")])
                   [(lit "/a", [(lit "foo", lit "1")]); (lit "/a/b", [(lit "foo", lit "2")]);
                    (lit "/a/*", [(lit "foo", lit "3")]); (lit "/b", [(lit "foo", lit "4")])])
         (lit "/a/b/c"))
  = [lit "/a/b"; lit "/a/*"; lit "/a"; []].
Proof. exact order_example. Qed.

(* ---- the section named after a location --------------------------------------------------- *)
(* Stack.set writes into the section NAMED location; for a glob-free location
   that section matches the location, with empty extra_path *)
Theorem C49_self_match_plain : forall loc,
  Forall (fun s => plain s = true) (parts loc) ->
  sec_match (parts loc) (parts loc) = true /\ extra_of (parts loc) (parts loc) = [].
Proof. exact self_match_plain. Qed.
Print Assumptions C49_self_match_plain.

(* ... but NOT for every location: "/a/[!a]" read as a glob does not match itself,
   so a value set through LocationStack("/a/[!a]") is not found by the same stack *)
Theorem C49_self_match_refuted :
  exists loc, sec_match (parts loc) (parts loc) = false /\
              stack_get simple_join simple_basename
                        (mk_store None [(loc, [(lit "foo", lit "x")])]) loc None (lit "foo") = None.
Proof. exact self_match_refuted. Qed.
Print Assumptions C49_self_match_refuted.

(* StartingPathMatcher (an anchor; no stack uses it) matches on the whole strings
   (str.startswith / one fnmatch over the path): it is NOT component-wise *)
Theorem C49_starting_path_matcher_refuted :
  exists st loc id extra,
    In (id, extra) (spm_sections st loc) /\ sec_match (parts loc) (parts id) = false.
Proof. exact spm_not_componentwise. Qed.
Print Assumptions C49_starting_path_matcher_refuted.

(* ---- values round-trip ---------------------------------------------------------------------
   [cobj_quote] models ConfigObj._quote (environment), [unquote] is IniFileStore.unquote
   (as repaired in /repo 4293772: a matching triple quote is removed first),
   [set_get_mem v] = Stack.set then Stack.get on the same stack, [set_save_get v] =
   Stack.set, save, Stack.get through a fresh stack ([file_raw] models what ConfigObj
   writes and parses back; tied by the correspondence run only: hence _partial). *)

(* in memory: EVERY value that Stack.set accepts is read back unchanged (newlines, both
   kinds of quote, ... included); the only exclusion is ConfigObj's loud refusal *)
Theorem C49_store_roundtrip_mem : forall v,
  cobj_quote v <> None -> set_get_mem v = Some v.
Proof. exact set_get_mem_roundtrip. Qed.
Print Assumptions C49_store_roundtrip_mem.

(* ... and Stack.set refuses exactly the values that need triple quotes and contain
   both triple-quote sequences (ConfigObjError, nothing is stored) *)
Theorem C49_store_refusal : forall v,
  cobj_quote v = None <->
  need_triple v = true /\ containsb q3d v = true /\ containsb q3s v = true.
Proof. exact cobj_quote_refuses_iff. Qed.
Print Assumptions C49_store_refusal.

(* through the file the full statement is still FALSE: a single-line value with both
   kinds of quote that starts and ends with the same quote loses that pair *)
Theorem C49_store_roundtrip_refuted_mixed_quotes :
  exists v, value_safe v = true /\ quote_residue v = true /\
            set_get_mem v = Some v /\
            set_save_get v = SOk (removelast (tl v)) /\ set_save_get v <> SOk v.
Proof. exact file_roundtrip_refuted. Qed.
Print Assumptions C49_store_roundtrip_refuted_mixed_quotes.

(* guarded (executable guard [quote_residue]); ConfigObj's write/parse is a model -> _partial.
   [file_raw v = SOk r]: neither Stack.set nor save raised ConfigObjError *)
Theorem C49_store_roundtrip_partial : forall v r,
  file_raw v = SOk r -> quote_residue v = false -> set_save_get v = SOk v.
Proof. exact file_roundtrip_guarded. Qed.
Print Assumptions C49_store_roundtrip_partial.

(* the breezy half alone: unquote undoes triple quotes, and one pair of quotes
   around a text free of that quote *)
Theorem C49_unquote_inverts_triple_quotes : forall q3 v,
  q3 = q3d \/ q3 = q3s -> unquote (q3 ++ v ++ q3) = v.
Proof. exact unquote_triple. Qed.
Print Assumptions C49_unquote_inverts_triple_quotes.

Theorem C49_unquote_inverts_quotes : forall q v,
  q = cDQ \/ q = cSQ -> memb q v = false -> unquote (q :: v ++ [q]) = v.
Proof. exact unquote_wrap. Qed.
Print Assumptions C49_unquote_inverts_quotes.

(* the OLD behaviour (before 4293772, [unquote_old] = ConfigObj._unquote alone):
   a value survived in memory iff it had no newline and not both kinds of quote *)
Theorem C49_old_store_roundtrip_guarded : forall v,
  set_get_mem_old v = Some v <-> need_triple v = false.
Proof. exact mem_roundtrip_old_iff. Qed.
Print Assumptions C49_old_store_roundtrip_guarded.

Theorem C49_old_store_roundtrip_refuted_newline :
  exists v, value_safe v = true /\
            set_get_mem_old v = Some ([34; 34] ++ v ++ [34; 34]) /\ set_get_mem_old v <> Some v.
Proof. exact old_roundtrip_refuted_newline. Qed.
Print Assumptions C49_old_store_roundtrip_refuted_newline.

Example C49_roundtrip_example :
  let v := lit " a,b#c=d\e 'f' " in
  quote_residue v = false /\ set_get_mem v = Some v /\ set_save_get v = SOk v /\
  mem_raw v <> Some v.
Proof. exact roundtrip_example. Qed.

(* the witnesses of the repaired findings now round-trip *)
Example C49_repaired_examples :
  set_get_mem [97; 10; 98] = Some [97; 10; 98] /\ set_save_get [97; 10; 98] = SOk [97; 10; 98] /\
  set_get_mem [97; 34; 98; 39; 99] = Some [97; 34; 98; 39; 99] /\
  set_save_get [97; 34; 39; 35] = SOk [97; 34; 39; 35].
Proof. exact roundtrip_repaired_examples. Qed.
