(* stub while the model is being tied; replaced below *)
From BV Require Import Model.Fnmatch Theory.Fnmatch.
Theorem C49_fnmatch_correct : forall name pat, fnmatch name pat = true <-> gm (translate pat) name.
Proof. exact fnmatch_correct. Qed.
Print Assumptions C49_fnmatch_correct.
