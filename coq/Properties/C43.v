(* Properties/C43.v -- STUB, replaced below *)
From Coq Require Import NArith List Bool.
From BV Require Import Lib.Bytes Lib.FS43 Model.Upload.
Import ListNotations.
Theorem C43_stub : forall a, path_eqb a a = true.
Proof. exact path_eqb_refl. Qed.
Print Assumptions C43_stub.
