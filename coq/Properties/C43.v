(* Properties/C43.v -- Incremental uploads keep the remote directory equal to
   the uploaded tree (breezy/plugins/upload/cmds.py, BzrUploader).
   Statements only.  Model: Model/Upload.v over Lib/FS43.v; proofs: Theory/Upload*.v.

     look f p            what the remote directory f has at path p
     tlook t p           what the revision tree t has at path p
     run prog (ust0 f)   the uploader commands executed on the remote f
     [NMark]             the marker file .bzr-upload.revid

   The literal statement ("after ANY sequence of adds, deletes, renames incl.
   swaps, kind changes ... the remote equals the tree") is FALSE of the code:
   see the _refuted theorems (each witness was replayed on the real uploader).
   It holds under the executable guard [upload_guard] (Theory/UploadExact.v).

   After the repair round (46295b6, c541353, e87df2d, 5c5eacc) the model is the
   repaired uploader: the guard no longer excludes renames combined with a
   chmod / kind change / new symlink target, renames onto the path of a removed
   directory, kind changes below a renamed directory and symlinks below the
   root or with a modified target (C43_repaired_witnesses_guarded); the
   remaining refutations are the residue of the rename ordering. *)
From Coq Require Import NArith List Bool.
From BV Require Import Lib.Bytes Lib.FS43 Model.Upload
  Theory.UploadMoves Theory.UploadPhases Theory.UploadRenames Theory.UploadItems
  Theory.UploadExact Theory.UploadFull Theory.UploadFrame.
Import ListNotations.

(* --- the crux: on ANY remote, executing moves one after the other (each one
   optionally preceded by an upload to its source) realises the SIMULTANEOUS
   move of the sub-trees, provided sources and targets are prefix-incomparable
   and the targets are free.  Instantiated twice by the uploader: old paths ->
   fresh temporaries, temporaries -> new paths.  Swaps, cycles and chains of
   files and of whole directories are permutations realised this way. *)
Theorem C43_rename_staging_simultaneous :
  forall ml f, dom_ok f -> moves_pre ml f ->
  exists f', moves ml f = (f', None) /\ dom_ok f' /\
             forall p, look f' p = moved ml (look f) p.
Proof. exact moves_simultaneous. Qed.
Print Assumptions C43_rename_staging_simultaneous.

(* stage ; finish  =  every renamed sub-tree appears at its new path, the old
   paths are vacated, nothing else changes, no temporary is left *)
Theorem C43_stage_finish_is_renaming :
  forall prs h,
  NoDup (map fst prs) ->
  (forall kc, In kc prs -> clean_hd (oldp kc) = true /\ clean_hd (newp kc) = true) ->
  (forall k s, h (Tmp k :: s) = None) ->
  forall p, moved (map finP prs) (moved (map stageP prs) h) p = ren_formP prs h p.
Proof. exact stage_finish_form. Qed.
Print Assumptions C43_stage_finish_is_renaming.

(* --- incremental upload, every pair of trees that passes the guard, every
   remote that holds the old tree: no exception, the remote holds exactly the
   new tree, the marker names the new revision, nothing is left pending *)
Theorem C43_incremental_exact_guarded :
  forall old new revid f,
  upload_guard old new = true ->
  dom_ok f ->
  (forall p, p <> [NMark] -> look f p = tlook old p) ->
  look f [NMark] <> Some Dir ->
  exists u', run (upload_incremental old new revid) (ust0 f) = (u', None) /\
             (forall p, p <> [NMark] -> look (ufs u') p = tlook new p) /\
             look (ufs u') [NMark] = Some (File [revid] false) /\
             pdel u' = [] /\ pren u' = [] /\ dom_ok (ufs u').
Proof. exact incremental_exact. Qed.
Print Assumptions C43_incremental_exact_guarded.

(* any number of commits, each followed by an incremental upload *)
Theorem C43_upload_sequence_exact_guarded :
  forall ts prev k f,
  guard_chain prev ts = true -> dom_ok f ->
  (forall p, p <> [NMark] -> look f p = tlook prev p) -> look f [NMark] <> Some Dir ->
  exists f', incr_chain prev ts k f = (f', None) /\
             forall p, p <> [NMark] -> look f' p = tlook (last ts prev) p.
Proof. exact chain_exact. Qed.
Print Assumptions C43_upload_sequence_exact_guarded.

(* the guard is satisfiable by the interesting cases: swap, 3-cycle with
   modifications, two directories swapped with their content, deferred
   deletions of nested directories, kind changes + additions below a renamed
   directory *)
Theorem C43_guard_examples :
  upload_guard (mkt [mkent 1 [nA] fileA; mkent 2 [nB] fileB])
               (mkt [mkent 1 [nB] fileA; mkent 2 [nA] fileB]) = true /\
  upload_guard (mkt [mkent 1 [nA] fileA; mkent 2 [nB] fileB; mkent 3 [nC] fileA])
               (mkt [mkent 1 [nB] fileB; mkent 2 [nC] fileB; mkent 3 [nA] fileA]) = true /\
  upload_guard (mkt [mkent 1 [nA] Dir; mkent 2 [nA; nC] fileA; mkent 3 [nB] Dir; mkent 4 [nB; nD] fileB])
               (mkt [mkent 1 [nB] Dir; mkent 2 [nB; nC] fileA; mkent 3 [nA] Dir; mkent 4 [nA; nD] fileB]) = true /\
  upload_guard (mkt [mkent 1 [nD] Dir; mkent 2 [nD; nA] fileA; mkent 3 [nD; nE] Dir; mkent 4 [nD; nE; nC] fileA])
               (mkt []) = true.
Proof.
  split; [exact guard_swap|]. split; [exact guard_cycle_modify|].
  split; [exact guard_dir_swap|exact guard_deferred_deletions].
Qed.
Print Assumptions C43_guard_examples.

(* the witnesses of the repaired defects are now instances of the guarded theorem *)
Theorem C43_repaired_witnesses_guarded :
  upload_guard w_exec_old w_exec_new = true /\          (* rename + chmod *)
  upload_guard w_exec_old w_kind_new = true /\          (* rename + kind change *)
  upload_guard w_retarget_old w_retarget_new = true /\  (* rename + new symlink target *)
  upload_guard w_onto_old w_onto_new = true /\          (* rename onto a removed directory *)
  upload_guard w_nested_old w_kcsub_new = true /\       (* kind change below a renamed directory *)
  upload_guard w_lnsub_old w_lnsub_new = true /\        (* symlink added below the root *)
  upload_guard w_retarget_old w_lnmod_new = true.       (* symlink target modified *)
Proof. exact repaired_witnesses_guard. Qed.
Print Assumptions C43_repaired_witnesses_guarded.

(* --- the unguarded statement is still false (residue of C43-rename-staging-order):
   valid trees old, new such that the incremental upload from a remote holding
   exactly old raises *)
(* a directory and an entry in it renamed by the same revision: NoSuchFile *)
Theorem C43_incremental_exact_refuted : incr_refuted w_nested_old w_nested_new.
Proof. exact refuted_nested_rename. Qed.
Print Assumptions C43_incremental_exact_refuted.
(* an entry moved into a directory added by the same revision: NoSuchFile *)
Theorem C43_rename_into_new_dir_refuted : incr_refuted w_exec_old w_newdir_new.
Proof. exact refuted_rename_into_new_dir. Qed.
Print Assumptions C43_rename_into_new_dir_refuted.
(* removed non-empty sub-directory below a renamed directory: NoSuchFile *)
Theorem C43_removed_subdir_under_rename_refuted : incr_refuted w_rmsub_old w_rmsub_new.
Proof. exact refuted_removed_subdir_under_rename. Qed.
Print Assumptions C43_removed_subdir_under_rename_refuted.
(* renamed directory turned into a file while a non-empty sub-directory of it is
   removed: its deferred rmdir runs first: DirectoryNotEmpty *)
Theorem C43_recreated_dir_deferred_subdir_refuted : incr_refuted w_rmsub_old w_recdir_new.
Proof. exact refuted_recreated_dir_deferred_subdir. Qed.
Print Assumptions C43_recreated_dir_deferred_subdir_refuted.

(* --- full upload: exact on an empty remote (ignored paths and the ignore
   file itself are not uploaded); the side condition is about the environment's
   iter_entries_by_dir order (every entry once, parents first) *)
Theorem C43_full_exact_guarded :
  forall t k f,
  full_ok t = true -> dom_ok f ->
  (forall p, p <> [NMark] -> look f p = None) -> look f [NMark] <> Some Dir ->
  exists u', run (upload_full t k) (ust0 f) = (u', None) /\
             (forall p, p <> [NMark] ->
                look (ufs u') p = if skipb t p then None else tlook t p) /\
             look (ufs u') [NMark] = Some (File [k] false).
Proof. exact full_exact. Qed.
Print Assumptions C43_full_exact_guarded.

Theorem C43_full_ok_example :
  full_ok (mktree [mkent 9 [NIgn] (File [99; 10]%N false); mkent 1 [nD] Dir; mkent 2 [nD; nA] fileA;
                   mkent 3 [nD; nE] (Link nT); mkent 4 [nC] fileB; mkent 5 [nD; nC] fileA] [nC]) = true.
Proof. exact full_ok_example. Qed.
Print Assumptions C43_full_ok_example.

(* on a remote that already holds another tree a full upload is not exact:
   stale files stay (by design) *)
Theorem C43_full_exact_refuted :
  exists old new, valid_tree old = true /\ valid_tree new = true /\
    forall k, ~ exact_run (run (upload_full new k) (ust0 (fs_of old))) new.
Proof. exact refuted_full_keeps_stale. Qed.
Print Assumptions C43_full_exact_refuted.
(* --- ignored paths and the marker.  ANY program of uploader commands (so:
   incremental and full, all trees, no guard), any remote, normal or
   exceptional end: nothing changes outside the sub-trees rooted at the paths
   the commands name (and no temporary is visible there) ... *)
Theorem C43_ignored_and_marker_untouched :
  forall prog f u' e q,
  run prog (ust0 f) = (u', e) -> outside (flat_map cmd_roots prog) q ->
  look (ufs u') q = look f q.
Proof. exact upload_frame. Qed.
Print Assumptions C43_ignored_and_marker_untouched.

(* ... and the incremental upload names only: the marker, paths that are not
   ignored, and the two ends of a rename that crosses the ignore boundary *)
Theorem C43_operands_not_ignored :
  forall old new k r,
  In r (flat_map cmd_roots (upload_incremental old new k)) ->
  r = [NMark] \/ is_ignored new r = false \/ boundary old new r.
Proof. exact incr_roots_spec. Qed.
Print Assumptions C43_operands_not_ignored.

(* the marker is written last: when the incremental upload raises, the marker
   still names the previously uploaded revision; when it ends normally it names
   the new one (all trees, any remote, no guard) *)
Theorem C43_marker_written_last :
  forall old new k f u' e,
  forallb clean_hd (map epath (ents old)) = true ->
  forallb clean_hd (map epath (ents new)) = true ->
  run (upload_incremental old new k) (ust0 f) = (u', Some e) ->
  look (ufs u') [NMark] = look f [NMark].
Proof. exact marker_written_last. Qed.
Print Assumptions C43_marker_written_last.

Theorem C43_marker_set_on_success :
  forall old new k f u',
  run (upload_incremental old new k) (ust0 f) = (u', None) ->
  look (ufs u') [NMark] = Some (File [k] false).
Proof. exact marker_set_on_success. Qed.
Print Assumptions C43_marker_set_on_success.
