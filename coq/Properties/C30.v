(* Properties/C30.v -- A smart server never waits for bytes beyond the current
   request.  Statements only; model Model/Smart.v, proofs Theory/Smart*.v.

   [q] is what remains of the message after the bytes delivered so far
   ([concat segs], in any segmentation).  next_read_size() is lp_hint /
   ck_hint / p3_hintZ; the media read exactly that many bytes from a pipe
   (read_loop, Model/Smart.v), or fewer on a socket: the i-th read delivers
   1 + (pol_i mod hint) bytes, for an arbitrary list pol.

   never_blocks finished r npol nmsg :=
     r = RlFinished s' []  with finished s'      (completion exactly at the message end)
     r = RlWouldBlock ..   -> False              (asked for more than remains)
     r = RlOutOfPolicy ..  -> npol < nmsg        (only when [pol] is too short)

   Not proved here (covered by the blocking-pipe oracle of harness/props/c30.py):
   the v1/v2 request line (read one byte at a time: next_read_size = 1 before
   dispatch), and the composition with request handlers and media. *)
From Coq Require Import ZArith NArith List Bool.
From BV Require Import Lib.Bytes Model.Smart Theory.SmartSeg Theory.SmartP3 Theory.SmartC30.
Import ListNotations.

(* ---- LengthPrefixedBodyDecoder ---- *)
Theorem C30_bulk_hint_le_remaining :
  forall body segs q, concat segs ++ q = encode_bulk_data body -> q <> [] ->
    lp_finished (fold_left lp_accept segs lp_init) = false /\
    (0 < lp_hint (fold_left lp_accept segs lp_init) <= Z.of_nat (length q))%Z.
Proof. exact lp_hint_le_remaining. Qed.
Print Assumptions C30_bulk_hint_le_remaining.

Theorem C30_bulk_finished_iff_consumed :
  forall body segs q, concat segs ++ q = encode_bulk_data body ->
    (lp_finished (fold_left lp_accept segs lp_init) = true <-> q = []).
Proof. exact lp_finished_iff_consumed. Qed.
Print Assumptions C30_bulk_finished_iff_consumed.

Theorem C30_bulk_read_loop_never_blocks :
  forall body pol,
    never_blocks lp_finished (read_loop _ lp_accept lp_hint lp_finished pol lp_init (encode_bulk_data body))
                 (length pol) (length (encode_bulk_data body)).
Proof. exact lp_read_loop_never_blocks. Qed.
Print Assumptions C30_bulk_read_loop_never_blocks.

(* ---- ChunkedBodyDecoder ---- *)
Theorem C30_stream_hint_le_remaining :
  forall chunks err segs q, concat segs ++ q = encode_stream chunks err -> q <> [] ->
    ck_finished (fold_left ck_accept segs ck_init) = false /\
    (0 < ck_hint (fold_left ck_accept segs ck_init) <= Z.of_nat (length q))%Z.
Proof. exact ck_hint_le_remaining. Qed.
Print Assumptions C30_stream_hint_le_remaining.

Theorem C30_stream_finished_iff_consumed :
  forall chunks err segs q, concat segs ++ q = encode_stream chunks err ->
    (ck_finished (fold_left ck_accept segs ck_init) = true <-> q = []).
Proof. exact ck_finished_iff_consumed. Qed.
Print Assumptions C30_stream_finished_iff_consumed.

Theorem C30_stream_read_loop_never_blocks :
  forall chunks err pol,
    never_blocks ck_finished (read_loop _ ck_accept ck_hint ck_finished pol ck_init (encode_stream chunks err))
                 (length pol) (length (encode_stream chunks err)).
Proof. exact ck_read_loop_never_blocks. Qed.
Print Assumptions C30_stream_read_loop_never_blocks.

(* ---- ProtocolThreeDecoder, server side (the medium has consumed the version marker) ---- *)
Theorem C30_v3_server_hint_le_remaining :
  forall headers parts, fits32 headers -> Forall p3_part_ok parts ->
  forall segs q, concat segs ++ q = p3_encode_body headers parts -> q <> [] ->
    p3_stop (fold_left p3_accept segs p3_init_server) = false /\
    (0 < p3_hintZ (fold_left p3_accept segs p3_init_server) <= Z.of_nat (length q))%Z.
Proof. exact p3s_hint_le_remaining. Qed.
Print Assumptions C30_v3_server_hint_le_remaining.

(* next_read_size() = 0 ("request finished") exactly when the message is consumed *)
Theorem C30_v3_server_hint_zero_iff_consumed :
  forall headers parts, fits32 headers -> Forall p3_part_ok parts ->
  forall segs q, concat segs ++ q = p3_encode_body headers parts ->
    (p3_stop (fold_left p3_accept segs p3_init_server) = true <-> q = []).
Proof. exact p3s_finished_iff_consumed. Qed.
Print Assumptions C30_v3_server_hint_zero_iff_consumed.

Theorem C30_v3_server_read_loop_never_blocks :
  forall headers parts, fits32 headers -> Forall p3_part_ok parts ->
  forall pol,
    never_blocks p3_stop (read_loop _ p3_accept p3_hintZ p3_stop pol p3_init_server (p3_encode_body headers parts))
                 (length pol) (length (p3_encode_body headers parts)).
Proof. exact p3s_read_loop_never_blocks. Qed.
Print Assumptions C30_v3_server_read_loop_never_blocks.

(* ---- ProtocolThreeDecoder, client side (expect_version_marker=True) ---- *)
Theorem C30_v3_client_hint_le_remaining :
  forall headers parts, fits32 headers -> Forall p3_part_ok parts ->
  forall segs q, concat segs ++ q = p3_encode headers parts -> q <> [] ->
    p3_stop (fold_left p3_accept segs p3_init_client) = false /\
    (0 < p3_hintZ (fold_left p3_accept segs p3_init_client) <= Z.of_nat (length q))%Z.
Proof. exact p3c_hint_le_remaining. Qed.
Print Assumptions C30_v3_client_hint_le_remaining.

Theorem C30_v3_client_hint_zero_iff_consumed :
  forall headers parts, fits32 headers -> Forall p3_part_ok parts ->
  forall segs q, concat segs ++ q = p3_encode headers parts ->
    (p3_stop (fold_left p3_accept segs p3_init_client) = true <-> q = []).
Proof. exact p3c_finished_iff_consumed. Qed.
Print Assumptions C30_v3_client_hint_zero_iff_consumed.

Theorem C30_v3_client_read_loop_never_blocks :
  forall headers parts, fits32 headers -> Forall p3_part_ok parts ->
  forall pol,
    never_blocks p3_stop (read_loop _ p3_accept p3_hintZ p3_stop pol p3_init_client (p3_encode headers parts))
                 (length pol) (length (p3_encode headers parts)).
Proof. exact p3c_read_loop_never_blocks. Qed.
Print Assumptions C30_v3_client_read_loop_never_blocks.

(* the AssertionError("don't know how many bytes are expected!") branch of
   next_read_size is unreachable whenever the hint is positive, i.e. (by the
   theorems above) in every state reached inside a well-formed message *)
Theorem C30_v3_needed_bytes_known :
  forall s, (0 < p3_hintZ s)%Z -> p3_hint s <> None.
Proof. exact p3_hint_known. Qed.
Print Assumptions C30_v3_needed_bytes_known.
