(* Properties/C45.v -- End-of-line filters round-trip canonical content.
   Statements only; proofs are in Theory/Eol.v, the model in Model/Eol.v.
   canonical s x  :=  reader s x = x   (x is what reading it from disk stores). *)
From Coq Require Import NArith List Bool.
From BV Require Import Lib.Bytes Model.Eol Theory.Eol.
Import ListNotations.

(* every byte string (with or without NUL), the four LF-in-repository settings *)
Theorem C45_lf_in_repo_roundtrip :
  forall s x, lf_in_repo s = true -> canonical s x -> reader s (writer s x) = x.
Proof. exact lf_in_repo_roundtrip. Qed.
Print Assumptions C45_lf_in_repo_roundtrip.

Theorem C45_binary_untouched :
  forall s x, has_nul x = true -> writer s x = x /\ reader s x = x.
Proof. exact binary_untouched. Qed.
Print Assumptions C45_binary_untouched.

(* the full statement is FALSE for the *-with-crlf-in-repo settings that write LF *)
Theorem C45_crlf_in_repo_refuted :
  exists x, has_nul x = false /\ canonical LfCrlfRepo x /\
            reader LfCrlfRepo (writer LfCrlfRepo x) <> x.
Proof. exact crlf_in_repo_refuted. Qed.
Print Assumptions C45_crlf_in_repo_refuted.

Theorem C45_native_crlf_in_repo_refuted :
  exists x, has_nul x = false /\ canonical NativeCrlfRepo x /\
            reader NativeCrlfRepo (writer NativeCrlfRepo x) <> x.
Proof. exact native_crlf_in_repo_refuted. Qed.
Print Assumptions C45_native_crlf_in_repo_refuted.

(* ... and holds under exactly the guard "no CR CR LF" *)
Theorem C45_crlf_in_repo_guarded :
  forall s x, lf_in_repo s = false -> canonical s x -> no_crcrlf x = true ->
              reader s (writer s x) = x.
Proof. exact crlf_in_repo_roundtrip_guarded. Qed.
Print Assumptions C45_crlf_in_repo_guarded.

Theorem C45_crlf_crlf_repo_roundtrip :
  forall x, canonical CrlfCrlfRepo x -> reader CrlfCrlfRepo (writer CrlfCrlfRepo x) = x.
Proof. exact crlf_crlf_repo_roundtrip. Qed.
Print Assumptions C45_crlf_crlf_repo_roundtrip.

(* fresh checkout is clean: the filtered SHA of what was written equals the
   SHA of the stored text, for any hash function *)
Theorem C45_fresh_checkout_clean :
  forall (sha : bytes -> bytes) s x,
    canonical s x -> (lf_in_repo s = true \/ no_crcrlf x = true) ->
    sha (reader s (writer s x)) = sha x.
Proof.
  intros sha s x Hc Hg. f_equal.
  destruct (lf_in_repo s) eqn:E.
  - apply lf_in_repo_roundtrip; assumption.
  - destruct Hg as [Hg|Hg]; [discriminate|].
    apply crlf_in_repo_roundtrip_guarded; assumption.
Qed.
Print Assumptions C45_fresh_checkout_clean.
