(* Properties/C47.v -- Path and line utilities satisfy their algebraic laws.
   Statements only; proofs are in Theory/OsUtils{Path,Lines,Date}.v, the model in
   Model/OsUtils.v (hand model of crates/osutils/src/{path,lib,time}.rs and of the
   pyo3 wrappers in crates/osutils-py/src/lib.rs; Unix).

   Paths are byte strings; is_inside d f := components f starts with components d.
   A time is (secs, frac9): secs = floor t, frac9 = the fraction rounded to 9 decimals
   (0..10^9; 10^9 = "rounded up to 1.000000000"); the f64 <-> decimal conversion is
   outside Coq.  unpack returns UOk timestamp (digits, number of digits) offset. *)
From Coq Require Import ZArith NArith List Bool.
From BV Require Import Lib.Bytes Model.OsUtils Theory.OsUtilsPath Theory.OsUtilsLines Theory.OsUtilsDate Theory.OsUtilsExamples.
Import ListNotations.

(* ---- minimum_path_selection: any list of paths (any spelling, duplicates allowed) ---- *)
Theorem C47_min_selection :
  forall P : list bytes,
    let S := minimum_path_selection P in
    (forall s, In s S -> In s P) /\
    (forall p, In p P ->
       exists s, In s S /\ is_inside s p = true /\
                 forall s', In s' S -> is_inside s' p = true -> s' = s) /\
    (forall s t, In s S -> In t S -> is_inside s t = true -> s = t).
Proof.
  intros P S. split; [apply min_sel_subset|]. split; [apply min_sel_exactly_one|apply min_sel_antichain].
Qed.
Print Assumptions C47_min_selection.

(* ---- is_inside_any is the disjunction of is_inside ... ---- *)
Theorem C47_inside_any_agrees :
  forall ds f, is_inside_any ds f = true <-> exists d, In d ds /\ is_inside d f = true.
Proof. exact is_inside_any_spec. Qed.
Print Assumptions C47_inside_any_agrees.

Theorem C47_inside_or_parent_of_any_agrees :
  forall ds f, is_inside_or_parent_of_any ds f = true <->
               exists d, In d ds /\ (is_inside d f = true \/ is_inside f d = true).
Proof. exact is_inside_or_parent_of_any_spec. Qed.
Print Assumptions C47_inside_or_parent_of_any_agrees.

(* ... and the selection covers exactly the region the input covers *)
Theorem C47_min_selection_same_region :
  forall P f, is_inside_any (minimum_path_selection P) f = is_inside_any P f.
Proof. exact min_sel_same_region. Qed.
Print Assumptions C47_min_selection_same_region.

(* ---- splitpath / joinpath ---- *)
Theorem C47_split_join :
  forall p, normalised p = true ->
    exists segs, splitpath p = Ok segs /\ joinpath segs = Ok p.
Proof. exact split_join. Qed.
Print Assumptions C47_split_join.

Theorem C47_join_split :
  forall segs, forallb valid_seg segs = true ->
    exists p, joinpath segs = Ok p /\ splitpath p = Ok segs /\ normalised p = true.
Proof. exact join_split. Qed.
Print Assumptions C47_join_split.

(* on every string: splitpath fails exactly when some piece is "..", otherwise it returns
   valid segments, and re-joining and re-splitting them is stable *)
Theorem C47_splitpath_total :
  forall p,
    match splitpath p with
    | Ok segs => forallb valid_seg segs = true /\ ~ In DOTDOT (split1 SLASH p) /\
                 exists q, joinpath segs = Ok q /\ splitpath q = Ok segs
    | Err e => e = DOTDOT /\ In DOTDOT (split1 SLASH p)
    end.
Proof.
  intros p. pose proof (splitpath_result p) as R.
  destruct (splitpath p) as [segs|e] eqn:E; [|exact R].
  destruct R as [Hv Hn]. split; [exact Hv|]. split; [exact Hn|].
  eapply splitpath_idempotent. exact E.
Qed.
Print Assumptions C47_splitpath_total.

(* ---- lines: Python's split_lines (the pyo3 iterator on a one-chunk list) ---- *)
Theorem C47_lines_concat :
  forall t, concat (py_split_lines t) = t /\ lines_wf (py_split_lines t) /\
            forall ls, lines_wf ls -> concat ls = t -> ls = py_split_lines t.
Proof.
  intros t. rewrite py_split_lines_spec. split; [apply split_lines_concat|].
  split; [apply split_lines_wf|].
  intros ls Hw <-. symmetry. apply split_lines_unique. exact Hw.
Qed.
Print Assumptions C47_lines_concat.

(* ---- chunking independence: Python's chunks_to_lines and the core iterator of lib.rs ---- *)
Theorem C47_chunking_independent :
  forall cs t, concat cs = t -> chunks_to_lines cs = py_split_lines t.
Proof. intros cs t <-. rewrite py_split_lines_spec. apply chunks_to_lines_spec. Qed.
Print Assumptions C47_chunking_independent.

Theorem C47_core_chunking_independent :
  forall cs t, concat cs = t ->
    core_chunks_to_lines cs = split_lines t /\ split_lines t = py_split_lines t.
Proof.
  intros cs t <-. split; [apply core_chunks_to_lines_spec|symmetry; apply py_split_lines_spec].
Qed.
Print Assumptions C47_core_chunking_independent.

(* ---- dates ---- *)
Open Scope Z_scope.

(* guard that remains after the repair of F-C47a/b/c: whole-minute offset below 100 h and a
   local time within years 0..9999 (the modelled range of chrono's %Y); negative times,
   negative offsets and the carry of a fraction that rounds to 1.000000000 are covered *)
Theorem C47_date_roundtrip_guarded :
  forall secs frac9 offset,
    0 <= frac9 <= NANO -> offset mod 60 = 0 -> Z.abs offset < 360000 ->
    TS_MIN <= secs + carry_of frac9 + offset <= TS_MAX ->
    exists s, format_highres_date secs frac9 offset = Some s /\
              unpack_highres_date s = UOk (secs + carry_of frac9) (frac9 mod NANO, 9%nat) offset /\
              (secs + carry_of frac9) * NANO + frac9 mod NANO = secs * NANO + frac9.
Proof. exact date_roundtrip_bounds. Qed.
Print Assumptions C47_date_roundtrip_guarded.

(* the same with the executable guard used by the harness *)
Theorem C47_date_roundtrip_guarded_bool :
  forall secs frac9 offset,
    date_in_range secs frac9 offset = true ->
    exists s, format_highres_date secs frac9 offset = Some s /\
              unpack_highres_date s = UOk (secs + carry_of frac9) (frac9 mod NANO, 9%nat) offset.
Proof. exact date_roundtrip. Qed.
Print Assumptions C47_date_roundtrip_guarded_bool.

(* the +-HHMM notation has no seconds: an offset that is not a whole number of minutes comes
   back truncated AND shifts the timestamp (t = 10, offset = 30 comes back as t = 40, offset = 0) *)
Theorem C47_date_subminute_offset_refuted :
  exists secs frac9 offset s,
    0 <= frac9 < NANO /\ Z.abs offset < 360000 /\
    format_highres_date secs frac9 offset = Some s /\
    unpack_highres_date s = UOk (secs + offset) (frac9, 9%nat) 0 /\ offset <> 0.
Proof. exact date_subminute_offset_refuted. Qed.
Print Assumptions C47_date_subminute_offset_refuted.
