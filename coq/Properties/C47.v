(* Properties/C47.v -- placeholder while the theory is being written *)
From BV Require Import Lib.Bytes Model.OsUtils.
Theorem C47_placeholder : True. Proof. exact I. Qed.
Print Assumptions C47_placeholder.
