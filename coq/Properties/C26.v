(* Properties/C26.v -- Directory locks provide mutual exclusion.
   Statements only; model in Model/LockDir.v (one step = one transport operation of
   one LockDir), proofs in Theory/LockDir.v, interleaving rule in Lib/SchedLD.v.

   Every theorem quantifies over: the transport flavour [mem], an optional lock left by
   an external holder [h0], ANY list of lockers [confs] (programs of attempt / unlock /
   confirm / peek / force_break / force_break_corrupt / crash, fault points, identities,
   steal configuration) and ANY schedule [sched] (list of locker ids, any length).
   Assumed environment (Model/LockDir.exec_op): rename onto a non-empty directory fails;
   tmp names and nonces are unique by construction; attempt_lock is not called on a
   LockDir that is_held.

   Ghost history read by the statements (Model/LockDir.ghost_step):
     g_live    a break step (the rename of force_break / force_break_corrupt, also when
               reached through the steal policy) moved the lock of a live locker that
               believed it held it;
     g_brk     nonces moved away by break steps;  g_stale  nonces moved away by the
               unlock of a locker whose own nonce was different;
     g_wrong   a break step moved a lock other than the one whose info was examined;
     g_window  a break rename happened although a rename-into-place succeeded after the
               breaker's last look at held/info. *)
From Coq Require Import NArith List Bool.
From BV Require Import Lib.SchedLD Model.LockDir Theory.LockDir.
Import ListNotations.

(* Mutual exclusion: unless a live holder's lock was broken, at most one live locker
   believes it holds the lock ... *)
Theorem C26_mutex :
  forall mem h0 confs sched,
    let s := runs sched (init mem h0 confs) in
    g_live (s_g s) = false ->
    forall p q, holds (s_procs s p) = true -> holds (s_procs s q) = true -> p = q.
Proof. exact mutex_no_live_break. Qed.
Print Assumptions C26_mutex.

(* ... and it really is the one recorded in held/info (no loss). *)
Theorem C26_no_loss_without_live_break :
  forall mem h0 confs sched,
    let s := runs sched (init mem h0 confs) in
    g_live (s_g s) = false ->
    forall p, holds (s_procs s p) = true ->
      exists n h, l_nonce (s_procs s p) = Some n /\ fst n = p /\ s_held s = Some (Some (CInfo n h)).
Proof. exact no_loss_no_live_break. Qed.
Print Assumptions C26_no_loss_without_live_break.

(* Per locker (DESIGN's C26_no_loss_without_break): p keeps its lock unless a break step,
   or the unlock of a locker that had itself been broken, moved p's nonce away. *)
Theorem C26_no_loss_without_break :
  forall mem h0 confs sched,
    let s := runs sched (init mem h0 confs) in
    forall p n, l_held (s_procs s p) = true -> l_nonce (s_procs s p) = Some n ->
      ~ In n (g_brk (s_g s)) -> ~ In n (g_stale (s_g s)) ->
      exists h, s_held s = Some (Some (CInfo n h)).
Proof. exact no_loss_without_break. Qed.
Print Assumptions C26_no_loss_without_break.

Theorem C26_foreign_unlock_only_after_break :
  forall mem h0 confs sched,
    let s := runs sched (init mem h0 confs) in
    g_stale (s_g s) <> [] -> g_brk (s_g s) <> [].
Proof. exact stale_only_after_break. Qed.
Print Assumptions C26_foreign_unlock_only_after_break.

(* no break at all: at most one LockDir object has _lock_held, dead or alive *)
Theorem C26_mutex_without_any_break :
  forall mem h0 confs sched,
    let s := runs sched (init mem h0 confs) in
    g_brk (s_g s) = [] ->
    forall p q, l_held (s_procs s p) = true -> l_held (s_procs s q) = true -> p = q.
Proof. exact mutex_without_break. Qed.
Print Assumptions C26_mutex_without_any_break.

(* The property's observable -- lockers with is_held whose nonce equals held/info -- has
   at most one element in EVERY reachable state, breaks or not. *)
Theorem C26_observable_at_most_one :
  forall mem h0 confs sched n,
    length (observable n (runs sched (init mem h0 confs))) <= 1.
Proof. exact observable_at_most_one. Qed.
Print Assumptions C26_observable_at_most_one.

(* Stealing: a locker reaches the rename-away step of a steal only with locks.steal_dead
   enabled and an examined holder whose host is ours and not "localhost", whose user is
   ours and whose pid is recorded and dead. *)
Theorem C26_steal_only_known_dead :
  forall mem h0 confs sched,
    let s := runs sched (init mem h0 confs) in
    forall p i d, l_pc (s_procs s p) = B_rename (FromAttempt i) d ->
      let e := c_env (nth p confs idle_conf) in
      e_steal e = true /\
      exists n h pd, d = CInfo n h /\ h_host h = Some (e_host e) /\ e_host e <> 0%N /\
                     h_user h = Some (e_user e) /\ h_pid h = Some pd /\ In pd (e_dead e).
Proof. exact steal_only_known_dead. Qed.
Print Assumptions C26_steal_only_known_dead.

(* "Breaking a lock removes only the lock whose holder information was examined and never
   the lock of a later holder" is FALSE of the faithful model: force_break renames held
   away BEFORE re-checking the holder, and on LockBreakMismatch nothing is put back. *)
Theorem C26_break_only_examined_refuted :
  exists confs sched,
    let s := runs sched (init false None confs) in
    g_wrong (s_g s) = true /\
    l_log (s_procs s 1) = [RErr ELockBreakMismatch; RSaw (Some (CInfo (0, 0) wid0))] /\
    s_tmps s (Broken, 1, 0) = Some (Some (CInfo (2, 0) wid0)) /\
    holds (s_procs s 2) = true /\ holds (s_procs s 3) = true /\
    s_held s = Some (Some (CInfo (3, 0) wid0)).
Proof. exact break_only_examined_refuted. Qed.
Print Assumptions C26_break_only_examined_refuted.

(* It holds for every schedule without an acquisition between a breaker's look at
   held/info and its rename; the guard g_window is an executable boolean of the run. *)
Theorem C26_break_only_examined_guarded :
  forall mem h0 confs sched,
    let s := runs sched (init mem h0 confs) in
    g_window (s_g s) = false -> g_wrong (s_g s) = false.
Proof. exact break_only_examined_guarded. Qed.
Print Assumptions C26_break_only_examined_guarded.
