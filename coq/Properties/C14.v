(* Properties/C14.v -- Transform previews match their applied result.

   Full statement (properties.jsonl): for any set of transform operations the preview tree shows
   exactly the paths, kinds, contents, executable bits and versioning that the working tree has after
   the transform is applied; automatic conflict resolution always terminates with either a
   conflict-free transform that applies cleanly or a reported MalformedTransform, never a partially
   applied tree.

   The faithful model (Model/Transform14.v, tied to breezy/transform.py and breezy/bzr/transform.py by
   the correspondence run) does NOT satisfy the full statement; each failing clause has a
   machine-checked witness below (all reproduced on the real code, see notes/C14.md), next to the
   strongest statements that were proved.  Path rendering and the rename sequence of apply are tied
   by the correspondence run only (the latter is C13's subject). *)
From Coq Require Import List Bool Arith NArith ZArith String.
From BV Require Import Lib.Bytes Lib.Obs Model.Transform14 Theory.Transform14.
Import ListNotations.
Open Scope list_scope.
Open Scope nat_scope.

(* ---- clause 1: preview = applied *)

(* REFUTED as stated: a conflict-free transform (swap two files) that applies without error, yet the
   preview listing (paths, kinds, content, exec, file ids) differs from the tree after apply:
   InventoryPreviewTree.get_file / PreviewTree.is_executable look the NEW path up in the OLD tree. *)
Theorem C14_preview_eq_applied_refuted :
  exists base t, raw_conflicts base t = Ok [] /\ apply_status base t = None
                 /\ preview_listing base t <> applied_listing base t.
Proof.
  exists w_base, (w_state w_swap). split; [vm_compute; reflexivity|]. split; [vm_compute; reflexivity|].
  vm_compute. discriminate.
Qed.
Print Assumptions C14_preview_eq_applied_refuted.

(* REFUTED: a transform without raw conflicts whose apply fails after the tree was changed
   (delete_contents + create_directory of a directory that keeps a child: rmdir of the non-empty
   pending-deletion directory fails after the inventory was written; the child is gone) *)
Theorem C14_conflict_free_applies_refuted :
  exists base t, raw_conflicts base t = Ok [] /\ apply_status base t = Some "OSError"%string
                 /\ applied_listing base t <> applied_listing base (init_tt base).
Proof.
  exists w_base, (w_state w_replace). split; [vm_compute; reflexivity|]. split; [vm_compute; reflexivity|].
  vm_compute. discriminate.
Qed.
Print Assumptions C14_conflict_free_applies_refuted.

(* GUARDED, node level (structure: parent, name, kind): without "overwrite" conflicts and without the
   replaced-directory situation ([late_failure] is the executable guard), every trans id the preview
   shows with contents is, after apply, a node with that kind, sitting in the node of its final parent
   under its final name.  Holds for every base tree and every transform state. *)
Theorem C14_preview_eq_applied_structure_guarded :
  forall base t x k,
    wf_parents base ->
    overwrite_conflicts base t = [] ->
    late_failure base t = false ->
    x <> 0 ->
    final_kind base t x = Some k ->
    exists n, tid_node base t x = Some n
              /\ node_kind base t n = Some k
              /\ container base t n = preview_container base t x.
Proof. exact nodes_agree. Qed.
Print Assumptions C14_preview_eq_applied_structure_guarded.

Example C14_structure_guard_satisfiable :
  overwrite_conflicts w_base (w_state w_swap) = [] /\ late_failure w_base (w_state w_swap) = false
  /\ final_kind w_base (w_state w_swap) 1 = Some KFile.
Proof. vm_compute. repeat split. Qed.

(* PARTIAL, contents: a new versioned file whose change record says "content changed" is shown with the
   contents apply installs (the only case in which the preview reads the limbo file). *)
Theorem C14_preview_content_new_file_partial :
  forall base t x c f p,
    aget x (new_contents t) = Some (KFile, c) ->
    final_file_id base t x = Some f -> content_change base t f = true ->
    preview_content base t x p = map Z.of_N (node_content base t (true, x)).
Proof. exact preview_content_new. Qed.
Print Assumptions C14_preview_content_new_file_partial.

(* PARTIAL, versioning: every entry _generate_inventory_delta writes is exactly the entry
   _make_inv_entries shows for that trans id (entries of untouched ids: correspondence run only). *)
Theorem C14_versioning_delta_entries_partial :
  forall base t f e,
    In (f, e) (delta_adds base t) <->
    exists x, In x (inventory_altered base t) /\ preview_inv_entry base t x = Some (f, e).
Proof. exact delta_adds_are_preview_entries. Qed.
Print Assumptions C14_versioning_delta_entries_partial.

(* ---- clause 2: conflict resolution *)

(* the loop ends (structurally, at most 10 passes); a clean result has no raw conflicts, i.e. apply's
   _check_malformed accepts it; the tree is not an argument of the loop, so it cannot be touched *)
Theorem C14_resolve_terminates_clean_or_error :
  forall base t,
    passes base 10 t <= 10 /\
    match resolve_conflicts base t with
    | Clean t' _ => raw_conflicts base t' = Ok []
    | Malformed => passes base 10 t = 10
    | Raised _ => True
    end.
Proof.
  intros base t. split; [apply passes_le|].
  unfold resolve_conflicts.
  destruct (resolve base 10 t []) eqn:R.
  - exact (resolve_clean_no_conflicts base _ _ _ _ _ R).
  - exact (resolve_malformed_all_passes base _ _ _ R).
  - exact I.
Qed.
Print Assumptions C14_resolve_terminates_clean_or_error.

Example C14_resolve_clean_nontrivial :
  exists t' n, resolve_conflicts w_base (w_state w_dup) = Clean t' n /\ n <> []
               /\ raw_conflicts w_base (w_state w_dup) <> Ok [].
Proof. eexists. eexists. split; [vm_compute; reflexivity|]. split; [discriminate|]. vm_compute. discriminate. Qed.
Example C14_resolve_malformed_nontrivial : resolve_conflicts w_base (w_state w_exec) = Malformed.
Proof. vm_compute. reflexivity. Qed.

(* REFUTED: "clean or MalformedTransform".  A parent loop between two new directories makes
   resolve_parent_loop raise KeyError (get_tree_parent of a trans id without tree path); a versioned
   file in a new unversioned directory makes resolve_unversioned_parent raise ValueError
   (version_file(file_id=None)). *)
Theorem C14_resolve_clean_or_malformed_refuted :
  (exists base t, resolve_conflicts base t = Raised "KeyError")
  /\ (exists base t, resolve_conflicts base t = Raised "ValueError").
Proof.
  split.
  - exists w_base, (w_state w_loop). vm_compute. reflexivity.
  - exists w_base, (w_state w_unv). vm_compute. reflexivity.
Qed.
Print Assumptions C14_resolve_clean_or_malformed_refuted.

(* PARTIAL: four resolvers remove the conflict they were called for (on every state) *)
Theorem C14_resolver_versioning_no_contents_decreases_partial :
  forall base t t' x,
    NoDup (map fst (new_id t)) ->
    op_cancel_versioning x t = Ok t' ->
    ~ In (CVersioningNoContents x) (improper_versioning base t').
Proof. exact cancel_versioning_removes. Qed.
Print Assumptions C14_resolver_versioning_no_contents_decreases_partial.

Theorem C14_resolver_duplicate_id_decreases_partial :
  forall base t old y, ~ In (CDuplicateId old y) (duplicate_ids base (op_unversion old t)).
Proof. exact unversion_removes_duplicate_id. Qed.
Print Assumptions C14_resolver_duplicate_id_decreases_partial.

Theorem C14_resolver_missing_parent_decreases_partial :
  forall base t t' x bp,
    op_create KDir [] x t = Ok t' ->
    ~ In (CMissingParent x) (parent_type_conflicts base t' bp).
Proof. exact create_directory_removes_missing_parent. Qed.
Print Assumptions C14_resolver_missing_parent_decreases_partial.

Theorem C14_resolver_unversioned_parent_decreases_partial :
  forall base t t' x f bp,
    op_version_file x f t = Ok t' ->
    ~ In (CUnversionedParent x) (unversioned_parents base t' bp).
Proof. exact version_file_removes_unversioned_parent. Qed.
Print Assumptions C14_resolver_unversioned_parent_decreases_partial.
