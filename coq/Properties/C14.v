(* Properties/C14.v -- Transform previews match their applied result.

   Full statement (properties.jsonl): for any set of transform operations the preview tree shows
   exactly the paths, kinds, contents, executable bits and versioning that the working tree has after
   the transform is applied; automatic conflict resolution always terminates with either a
   conflict-free transform that applies cleanly or a reported MalformedTransform, never a partially
   applied tree.

   The faithful model (Model/Transform14.v, tied to breezy/transform.py and breezy/bzr/transform.py by
   the correspondence run; code after the repair rounds 2ecf5bb 33f6199 4df7934 3ace332) does NOT satisfy the full
   statement; each clause that still fails has a machine-checked witness below (reproduced on the real
   code, registered as known findings, see notes/C14.md), next to the strongest statements that hold.  Path rendering and the rename sequence of apply are tied
   by the correspondence run only (the latter is C13's subject). *)
From Coq Require Import List Bool Arith NArith ZArith String.
From BV Require Import Lib.Bytes Lib.Obs Model.Transform14 Theory.Transform14.
Import ListNotations.
Open Scope list_scope.
Open Scope nat_scope.

(* ---- clause 1: preview = applied   (code after the repair round: 2ecf5bb, 33f6199) *)

(* Contents and executable bit, UNGUARDED: every trans id the preview shows as a file is shown with exactly
   the contents and the executable bit of the node apply leaves for it -- renamed, swapped, replaced, new,
   versioned or not.  (Before 2ecf5bb this was false: see C14_old_preview_content_exec_refuted.) *)
Theorem C14_preview_content_exec_eq_applied :
  forall base t x,
    final_kind base t x = Some KFile ->
    exists n, tid_node base t x = Some n
              /\ preview_content base t x = map Z.of_N (node_content base t n)
              /\ preview_exec base t x = node_exec base t n.
Proof. exact content_exec_agree. Qed.
Print Assumptions C14_preview_content_exec_eq_applied.

(* Structure (parent, name, kind), GUARDED: without "overwrite" conflicts and without the
   replaced-directory situation ([late_failure] is the executable guard, still needed: next theorem), every
   trans id the preview shows with contents is, after apply, a node with that kind, sitting in the node of
   its final parent under its final name.  Holds for every base tree and every transform state. *)
Theorem C14_preview_eq_applied_structure_guarded :
  forall base t x k,
    wf_parents base ->
    overwrite_conflicts base t = [] ->
    late_failure base t = false ->
    x <> 0 ->
    final_kind base t x = Some k ->
    exists n, tid_node base t x = Some n
              /\ node_kind base t n = Some k
              /\ container base t n = preview_container base t x.
Proof. exact nodes_agree. Qed.
Print Assumptions C14_preview_eq_applied_structure_guarded.

(* both together: the strongest preview = applied statement that holds, at node level *)
Theorem C14_preview_eq_applied_guarded :
  forall base t x,
    wf_parents base ->
    overwrite_conflicts base t = [] ->
    late_failure base t = false ->
    x <> 0 ->
    final_kind base t x = Some KFile ->
    exists n, tid_node base t x = Some n
              /\ node_kind base t n = Some KFile
              /\ container base t n = preview_container base t x
              /\ preview_content base t x = map Z.of_N (node_content base t n)
              /\ preview_exec base t x = node_exec base t n.
Proof.
  intros base t x WF OW LF X0 FK.
  destruct (nodes_agree base t x KFile WF OW LF X0 FK) as [n [Hn [Hk Hc]]].
  destruct (content_exec_agree base t x FK) as [n' [Hn' [Hct Hex]]].
  rewrite Hn in Hn'. injection Hn' as <-.
  exists n. repeat split; assumption.
Qed.
Print Assumptions C14_preview_eq_applied_guarded.

Example C14_guard_satisfiable :
  overwrite_conflicts w_base (w_state w_swap) = [] /\ late_failure w_base (w_state w_swap) = false
  /\ final_kind w_base (w_state w_swap) 1 = Some KFile.
Proof. vm_compute. repeat split. Qed.
(* the former counterexample (swap two files) at listing level: preview listing = tree after apply *)
Example C14_swap_listing_agrees :
  raw_conflicts w_base (w_state w_swap) = Ok [] /\ apply_status w_base (w_state w_swap) = None
  /\ preview_listing w_base (w_state w_swap) = applied_listing w_base (w_state w_swap).
Proof. vm_compute. repeat split. Qed.

(* STILL REFUTED (known finding C14-replaced-directory): a transform without raw conflicts whose apply
   fails after the tree was changed (delete_contents + create_directory of a directory that keeps a child:
   rmdir of the non-empty pending-deletion directory fails after the inventory was written) *)
Theorem C14_conflict_free_applies_refuted :
  exists base t, raw_conflicts base t = Ok [] /\ apply_status base t = Some "OSError"%string
                 /\ applied_listing base t <> applied_listing base (init_tt base).
Proof.
  exists w_base, (w_state w_replace). split; [vm_compute; reflexivity|]. split; [vm_compute; reflexivity|].
  vm_compute. discriminate.
Qed.
Print Assumptions C14_conflict_free_applies_refuted.

(* DOCUMENTATION of the defect repaired by 2ecf5bb -- about preview_content_old / preview_exec_old, NOT
   about the code: looking the new path up in the old tree shows the swapped files unswapped. *)
Theorem C14_old_preview_content_exec_refuted :
  exists base t x p n, final_kind base t x = Some KFile /\ final_path base t x = Some p
                       /\ tid_node base t x = Some n
                       /\ preview_content_old base t x p <> map Z.of_N (node_content base t n)
                       /\ preview_exec_old base t x p <> node_exec base t n.
Proof.
  exists w_base, (w_state w_swap), 1, [[98]%N], (false, 1).
  split; [vm_compute; reflexivity|]. split; [vm_compute; reflexivity|]. split; [vm_compute; reflexivity|].
  split; vm_compute; discriminate.
Qed.
Print Assumptions C14_old_preview_content_exec_refuted.

(* PARTIAL, versioning: every entry _generate_inventory_delta writes is exactly the entry
   _make_inv_entries shows for that trans id (entries of untouched ids: correspondence run only). *)
Theorem C14_versioning_delta_entries_partial :
  forall base t f e,
    In (f, e) (delta_adds base t) <->
    exists x, In x (inventory_altered base t) /\ preview_inv_entry base t x = Some (f, e).
Proof. exact delta_adds_are_preview_entries. Qed.
Print Assumptions C14_versioning_delta_entries_partial.

(* ---- clause 2: conflict resolution *)

(* the loop ends (structurally, at most 10 passes); a clean result has no raw conflicts, i.e. apply's
   _check_malformed accepts it; the tree is not an argument of the loop, so it cannot be touched *)
Theorem C14_resolve_terminates_clean_or_error :
  forall base t,
    passes base 10 t <= 10 /\
    match resolve_conflicts base t with
    | Clean t' _ => raw_conflicts base t' = Ok []
    | Malformed => passes base 10 t = 10
    | Raised _ => True
    end.
Proof.
  intros base t. split; [apply passes_le|].
  unfold resolve_conflicts.
  destruct (resolve base 10 t []) eqn:R.
  - exact (resolve_clean_no_conflicts base _ _ _ _ _ R).
  - exact (resolve_malformed_all_passes base _ _ _ R).
  - exact I.
Qed.
Print Assumptions C14_resolve_terminates_clean_or_error.

Example C14_resolve_clean_nontrivial :
  exists t' n, resolve_conflicts w_base (w_state w_dup) = Clean t' n /\ n <> []
               /\ raw_conflicts w_base (w_state w_dup) <> Ok [].
Proof. eexists. eexists. split; [vm_compute; reflexivity|]. split; [discriminate|]. vm_compute. discriminate. Qed.
Example C14_resolve_malformed_nontrivial : resolve_conflicts w_base (w_state w_exec) = Malformed.
Proof. vm_compute. reflexivity. Qed.

(* STILL REFUTED (known findings C14-resolve-keyerror, -duplicatekey): "clean or MalformedTransform".  A
   parent loop between two new directories makes resolve_parent_loop raise KeyError (get_tree_parent of a
   trans id without tree path) -- also when one of them first gets a fabricated file id (w_unv_loop;
   RecursionError between 4df7934 and 3ace332); a child below a file versioned in this transform makes
   resolve_non_directory_parent raise DuplicateKey. *)
Theorem C14_resolve_clean_or_malformed_refuted :
  (exists base t, resolve_conflicts base t = Raised "KeyError")
  /\ (exists base t, resolve_conflicts base t = Raised "DuplicateKey").
Proof.
  split.
  - exists w_base, (w_state w_loop). vm_compute. reflexivity.
  - exists w_base, (w_state w_dupkey). vm_compute. reflexivity.
Qed.
Print Assumptions C14_resolve_clean_or_malformed_refuted.

Example C14_unversioned_new_parent_in_new_loop : resolve_conflicts w_base (w_state w_unv_loop) = Raised "KeyError".
Proof. vm_compute. reflexivity. Qed.
(* repaired by 3ace332: an unversioned tree directory with a versioned child inside a parent loop *)
Example C14_unversioned_parent_in_loop_resolved :
  let t := match run_ops w_base_u 0 w_unv_selfloop (init_tt w_base_u) with inl t => t | inr _ => init_tt w_base_u end in
  exists t' n, resolve_conflicts w_base_u t = Clean t' n /\ final_file_id w_base_u t' 1 = Some (gen_fid 1).
Proof. eexists. eexists. split; vm_compute; reflexivity. Qed.

(* repaired by 4df7934: a versioned file in a new unversioned directory is resolved (the directory gets a
   fresh file id) *)
Example C14_unversioned_new_parent_resolved :
  exists t' n, resolve_conflicts w_base (w_state w_unv) = Clean t' n
               /\ final_file_id w_base t' 5 = Some (gen_fid 5).
Proof. eexists. eexists. split; vm_compute; reflexivity. Qed.

(* PARTIAL: four resolvers remove the conflict they were called for (on every state) *)
Theorem C14_resolver_versioning_no_contents_decreases_partial :
  forall base t t' x,
    NoDup (map fst (new_id t)) ->
    op_cancel_versioning x t = Ok t' ->
    ~ In (CVersioningNoContents x) (improper_versioning base t').
Proof. exact cancel_versioning_removes. Qed.
Print Assumptions C14_resolver_versioning_no_contents_decreases_partial.

Theorem C14_resolver_duplicate_id_decreases_partial :
  forall base t old y, ~ In (CDuplicateId old y) (duplicate_ids base (op_unversion old t)).
Proof. exact unversion_removes_duplicate_id. Qed.
Print Assumptions C14_resolver_duplicate_id_decreases_partial.

Theorem C14_resolver_missing_parent_decreases_partial :
  forall base t t' x bp,
    op_create KDir [] x t = Ok t' ->
    ~ In (CMissingParent x) (parent_type_conflicts base t' bp).
Proof. exact create_directory_removes_missing_parent. Qed.
Print Assumptions C14_resolver_missing_parent_decreases_partial.

Theorem C14_resolver_unversioned_parent_decreases_partial :
  forall base t t' x f bp,
    op_version_file x f t = Ok t' ->
    ~ In (CUnversionedParent x) (unversioned_parents base t' bp).
Proof. exact version_file_removes_unversioned_parent. Qed.
Print Assumptions C14_resolver_unversioned_parent_decreases_partial.
