(* Properties/C37.v -- Conditional git ref updates honour the expected old value.
   Statements only; model in Model/GitRefs.v, proofs in Theory/GitRefs.v.

   st : store            loose ref files + packed-refs file on the transport
   pc : pcache           the container's _packed_refs cache (None = never loaded)
   coherent pc st        the cache, if loaded, agrees with the packed-refs file
   view st n             what a reader sees for n without following: loose, else packed
   cur (view st) n       ... with ZERO_SHA standing for "absent"
   target (view st) n    the last name of the symref chain of n (n itself on SymrefLoop)
   exec valid o st pc    the operation o run to completion on one container
   valid                 dulwich's _check_refname (any predicate) *)
From Coq Require Import NArith List Bool String.
From BV Require Import Lib.Obs Lib.SchedLD Model.GitRefs Theory.GitRefs.
Import ListNotations.

(* ---- set_if_equals: compare-and-swap on the ref the name resolves to ---- *)
Theorem C37_set_if_equals_cas :
  forall valid st pc n old new,
    valid n = true -> coherent pc st ->
    let rn := target (view st) n in
    let st' := fst (exec valid (OpSet n old new) st pc) in
    let t' := snd (exec valid (OpSet n old new) st pc) in
    coherent (tc t') st' /\
    ((old = None \/ old = Some (cur (view st) rn)) ->
       res_of t' = Some (RRet true) /\
       (forall x, view st' x = if N.eqb x rn then Some (VSha new) else view st x) /\
       (forall x, packed st' x = packed st x)) /\
    (forall o, old = Some o -> o <> cur (view st) rn ->
       res_of t' = Some (RRet false) /\ st' = st).
Proof. exact set_if_equals_cas. Qed.
Print Assumptions C37_set_if_equals_cas.

(* "after following symbolic refs": n resolves (through at most 5 symrefs, loose or
   packed at the end) to s; only old = s (or None) succeeds, and n then resolves to new *)
Theorem C37_set_if_equals_follows_symrefs :
  forall valid st pc n old new rn s,
    valid n = true -> coherent pc st ->
    follow_pure (view st) n = FOk rn (Some s) ->
    let st' := fst (exec valid (OpSet n old new) st pc) in
    let t' := snd (exec valid (OpSet n old new) st pc) in
    ((old = None \/ old = Some (VSha s)) ->
       res_of t' = Some (RRet true) /\ follow_pure (view st') n = FOk rn (Some new)) /\
    (forall o, old = Some o -> o <> VSha s -> res_of t' = Some (RRet false) /\ st' = st).
Proof. exact set_if_equals_follows. Qed.
Print Assumptions C37_set_if_equals_follows_symrefs.

(* the ZERO_SHA convention: n resolves to nothing; only old = ZERO_SHA (or None) creates it *)
Theorem C37_set_if_equals_absent_is_zero_sha :
  forall valid st pc n old new rn,
    valid n = true -> coherent pc st ->
    follow_pure (view st) n = FOk rn None ->
    let st' := fst (exec valid (OpSet n old new) st pc) in
    let t' := snd (exec valid (OpSet n old new) st pc) in
    view st rn = None /\
    ((old = None \/ old = Some (VSha ZERO_SHA)) ->
       res_of t' = Some (RRet true) /\ view st' rn = Some (VSha new)) /\
    (forall o, old = Some o -> o <> VSha ZERO_SHA -> res_of t' = Some (RRet false) /\ st' = st).
Proof. exact set_if_equals_absent. Qed.
Print Assumptions C37_set_if_equals_absent_is_zero_sha.

(* HEAD -> refs/heads/a, a loose = 1 and (stale) packed = 2: expecting 1 succeeds
   through the symref, expecting the shadowed packed value 2 fails *)
Definition ex_store : store := mk_store [(0%N, VSym 1%N); (1%N, VSha 1%N)] [(1%N, 2%N)].
Example C37_set_example :
  let r := exec all_valid (OpSet 0%N (Some (VSha 1%N)) 7%N) ex_store None in
  res_of (snd r) = Some (RRet true) /\ view (fst r) 1%N = Some (VSha 7%N) /\
  view (fst r) 0%N = Some (VSym 1%N) /\
  res_of (snd (exec all_valid (OpSet 0%N (Some (VSha 2%N)) 7%N) ex_store None)) = Some (RRet false).
Proof. vm_compute. repeat split. Qed.

(* ---- remove_if_equals: does NOT follow symrefs; compares the raw content ---- *)

(* compares the raw content (ZERO_SHA for absent); match => True, the loose file and the
   packed entry are both gone (whether or not packed-refs had been loaded before: 80b730a),
   nothing else changes; mismatch => False and the store is identical *)
Theorem C37_remove_if_equals_cas :
  forall valid st pc n old,
    valid n = true -> coherent pc st ->
    let st' := fst (exec valid (OpRemove n old) st pc) in
    let t' := snd (exec valid (OpRemove n old) st pc) in
    coherent (tc t') st' /\
    ((old = None \/ old = Some (cur (view st) n)) ->
       res_of t' = Some (RRet true) /\
       loose st' = upd (loose st) n None /\
       (forall x, packed st' x = upd (packed st) n None x) /\
       (forall x, view st' x = if N.eqb x n then None else view st x)) /\
    (forall o, old = Some o -> o <> cur (view st) n ->
       res_of t' = Some (RRet false) /\ st' = st).
Proof. exact remove_if_equals_cas. Qed.
Print Assumptions C37_remove_if_equals_cas.

(* removing the symbolic HEAD: the expected value is its raw content "ref: refs/heads/a",
   the SHA it resolves to is refused; the target is never touched *)
Example C37_remove_example :
  let r := exec all_valid (OpRemove 0%N (Some (VSym 1%N))) ex_store (Some (packed ex_store)) in
  res_of (snd r) = Some (RRet true) /\ view (fst r) 0%N = None /\ view (fst r) 1%N = Some (VSha 1%N) /\
  res_of (snd (exec all_valid (OpRemove 0%N (Some (VSha 1%N))) ex_store None)) = Some (RRet false) /\
  (* loose 1 + packed 2, cold cache, expected 1: both copies go *)
  view (fst (exec all_valid (OpRemove 1%N (Some (VSha 1%N))) ex_store None)) 1%N = None.
Proof. vm_compute. repeat split. Qed.

(* ---- add_if_new ---- *)
Theorem C37_add_if_new_never_overwrites :
  forall valid st pc n new,
    coherent pc st ->
    let st' := fst (exec valid (OpAdd n new) st pc) in
    let t' := snd (exec valid (OpAdd n new) st pc) in
    coherent (tc t') st' /\
    (forall m v, view st m = Some v -> view st' m = Some v) /\
    (res_of t' = Some (RRet true) ->
       exists rn, follow_pure (view st) n = FOk rn None /\ valid rn = true /\ view st rn = None /\
                  forall x, view st' x = if N.eqb x rn then Some (VSha new) else view st x) /\
    (res_of t' <> Some (RRet true) -> st' = st) /\
    (forall rn, follow_pure (view st) n = FOk rn None -> valid rn = true ->
                res_of t' = Some (RRet true)).
Proof. exact add_if_new_never_overwrites. Qed.
Print Assumptions C37_add_if_new_never_overwrites.

Example C37_add_example :
  res_of (snd (exec all_valid (OpAdd 0%N 7%N) ex_store None)) = Some (RRet false) /\
  let r := exec all_valid (OpAdd 2%N 7%N) ex_store None in
  res_of (snd r) = Some (RRet true) /\ view (fst r) 2%N = Some (VSha 7%N).
Proof. vm_compute. repeat split. Qed.

(* ---- any sequence of operations on one container ---- *)

(* cache coherence is an invariant and every operation terminates with a result, so the
   laws above apply at every step of every (unbounded) operation sequence *)
Theorem C37_sequence_invariant :
  forall valid ops st pc, coherent pc st ->
    Forall (fun x => match x with (r, s, c) => coherent c s /\ r <> None end)
           (exec_seq valid ops st pc).
Proof. exact exec_seq_coherent. Qed.
Print Assumptions C37_sequence_invariant.

(* every operation refines the ATOMIC compare-and-swap specification on the view *)
Theorem C37_refines_atomic_spec :
  forall valid o st pc,
    coherent pc st ->
    res_of (snd (exec valid o st pc)) = Some (fst (spec_op valid o (view st))) /\
    forall x, view (fst (exec valid o st pc)) x = snd (spec_op valid o (view st)) x.
Proof. exact exec_refines_spec. Qed.
Print Assumptions C37_refines_atomic_spec.

(* the fuel of the model's follow loop is never exhausted *)
Theorem C37_follow_fuel_irrelevant :
  forall v f n d, 6 <= f + d -> d <= 5 ->
    follow_pure_aux v (S f) n d = follow_pure_aux v f n d.
Proof. exact follow_pure_fuel. Qed.
Print Assumptions C37_follow_fuel_irrelevant.

(* ---- two updaters (two containers, one transport) ---- *)

(* FALSE without a lock file: check-then-put is not atomic.  Both expect 1;
   schedule A.check B.check A.put B.put: both report success, A's update is lost;
   no serial order of the two atomic operations explains that. *)
Theorem C37_interleaved_refuted :
  exists st oa ob sched,
    List.length sched = 4 /\
    let s := run_sched all_valid sched (sys_init st oa None ob None) in
    res_of (s_a s) = Some (RRet true) /\ res_of (s_b s) = Some (RRet true) /\
    ~ linearizable all_valid oa ob st s.
Proof. exact interleaved_refuted. Qed.
Print Assumptions C37_interleaved_refuted.

(* FALSE even without overlap when the second updater had loaded packed-refs before
   the first one rewrote it (the cache is never invalidated) *)
Theorem C37_stale_cache_refuted :
  exists st oa ob cb,
    coherent cb st /\
    let s := run_sched all_valid [0; 0; 0; 1; 1; 1] (sys_init st oa None ob cb) in
    res_of (s_a s) = Some (RRet true) /\ res_of (s_b s) = Some (RRet true) /\
    ~ linearizable all_valid oa ob st s.
Proof. exact stale_cache_refuted. Qed.
Print Assumptions C37_stale_cache_refuted.

(* two removals of different packed refs: the later packed-refs rewrite resurrects
   the ref removed by the earlier one *)
Theorem C37_remove_resurrects_refuted :
  exists st oa ob sched,
    let s := run_sched all_valid sched
               (sys_init st oa (Some (packed st)) ob (Some (packed st))) in
    res_of (s_a s) = Some (RRet true) /\ res_of (s_b s) = Some (RRet true) /\
    view (s_store s) 1%N = Some (VSha 1%N) /\
    ~ linearizable all_valid oa ob st s.
Proof. exact remove_resurrects_refuted. Qed.
Print Assumptions C37_remove_resurrects_refuted.

(* guarded: updaters that do not overlap and whose caches are coherent when they start
   ARE linearizable *)
Theorem C37_two_updaters_serial_guarded :
  forall valid st oa ca ob cb,
    coherent ca st ->
    coherent cb (fst (exec valid oa st ca)) ->
    linearizable valid oa ob st
      (run_sched valid [0; 0; 0; 1; 1; 1] (sys_init st oa ca ob cb)).
Proof. exact serial_linearizable. Qed.
Print Assumptions C37_two_updaters_serial_guarded.

Example C37_serial_example :
  linearizable all_valid (OpSet 1%N (Some (VSha 1%N)) 2%N) (OpSet 1%N (Some (VSha 1%N)) 3%N)
    (mk_store [(1%N, VSha 1%N)] [])
    (run_sched all_valid [0; 0; 0; 1; 1; 1]
       (sys_init (mk_store [(1%N, VSha 1%N)] []) (OpSet 1%N (Some (VSha 1%N)) 2%N) None
                 (OpSet 1%N (Some (VSha 1%N)) 3%N) None)).
Proof.
  apply C37_two_updaters_serial_guarded; apply coherent_none.
Qed.

(* ---- ref update during push (InterToLocalGitRepository.fetch_refs) ---- *)

(* [v0] = the target's refs as the push read them at its start, [st] = the target when the
   push finally writes (any other updater may have run in between).  The write is conditional
   on the snapshot value: if the ref no longer holds it NOTHING is written; a ref that was
   absent in the snapshot never overwrites an existing one. *)
Theorem C37_push_conditional_on_snapshot :
  forall valid v0 st pc n new,
    valid n = true -> coherent pc st ->
    let st' := fst (exec valid (push_op v0 n new) st pc) in
    (forall o, v0 n = Some o -> o <> cur (view st) (target (view st) n) -> st' = st) /\
    (forall o, v0 n = Some o -> o = cur (view st) (target (view st) n) ->
       forall x, view st' x = if N.eqb x (target (view st) n) then Some (VSha new) else view st x) /\
    (v0 n = None -> forall m v, view st m = Some v -> view st' m = Some v).
Proof. exact push_conditional. Qed.
Print Assumptions C37_push_conditional_on_snapshot.

(* snapshot a = 1, the other updater moved a to 3 meanwhile: the push of 2 leaves 3 in place *)
Example C37_push_example :
  let st0 := mk_store [(1%N, VSha 1%N)] [] in
  let st1 := seq_final all_valid [OpSet 1%N (Some (VSha 1%N)) 3%N] st0 None in
  view (fst (exec all_valid (push_op (view st0) 1%N 2%N) st1 None)) 1%N = Some (VSha 3%N) /\
  view (fst (exec all_valid (push_op (view st0) 1%N 2%N) st0 None)) 1%N = Some (VSha 2%N).
Proof. vm_compute. split; reflexivity. Qed.
