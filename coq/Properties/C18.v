(* Properties/C18.v -- Merge decision rules are symmetric and LCA-consistent.
   The functions are Gen.ThreeWay.three_way / lca_multi_way, generated from
   breezy/merge.py (Merge3Merger._three_way, _lca_multi_way) on every run.
   Argument order follows the Python code: (base, other, this). *)
From Coq Require Import List Bool.
From BV Require Import Lib.PyPrim Gen.ThreeWay Theory.ThreeWay.
Import ListNotations.

Section C18.
Variable A : Type.
Variable A_eqb : A -> A -> bool.
Hypothesis A_eqb_spec : forall x y, A_eqb x y = true <-> x = y.

(* exchanging THIS and OTHER exchanges 'this'/'other' and keeps 'conflict' ... *)
Theorem C18_three_way_symmetric : forall b o t,
  t <> o -> three_way A A_eqb b t o = winner_swap (three_way A A_eqb b o t).
Proof. exact (three_way_symmetric A A_eqb A_eqb_spec). Qed.

(* ... up to the documented tie-break when both sides agree *)
Theorem C18_three_way_tie : forall b v, three_way A A_eqb b v v = W_this.
Proof. exact (three_way_tie A A_eqb A_eqb_spec). Qed.

Theorem C18_lca_symmetric : forall b lcas o t allow,
  t <> o ->
  lca_multi_way A A_eqb (b, lcas) t o allow
  = winner_swap (lca_multi_way A A_eqb (b, lcas) o t allow).
Proof. exact (lca_symmetric A A_eqb A_eqb_spec). Qed.

Theorem C18_lca_tie : forall b lcas v allow,
  lca_multi_way A A_eqb (b, lcas) v v allow = W_this.
Proof. exact (lca_tie A A_eqb A_eqb_spec). Qed.

(* all ancestors carry the same value: the multi-ancestor decision is the three-way one *)
Theorem C18_lca_consistent_all_ancestors : forall b lcas o t allow,
  (forall l, In l lcas -> l = b) ->
  lca_multi_way A A_eqb (b, lcas) o t allow = three_way A A_eqb b o t.
Proof. exact (lca_consistent_base A A_eqb A_eqb_spec). Qed.

(* all LCAs carry one value v (any number >= 1 of LCAs, any base) *)
Theorem C18_lca_consistent : forall b lcas v o t allow,
  lcas <> [] -> (forall l, In l lcas -> l = v) ->
  lca_multi_way A A_eqb (b, lcas) o t allow = three_way A A_eqb v o t.
Proof. exact (lca_consistent A A_eqb A_eqb_spec). Qed.

(* a side that did not change relative to the ancestors never wins against a side that did *)
Theorem C18_unchanged_this_never_wins : forall b lcas o t allow,
  In t (b :: lcas) -> ~ In o (b :: lcas) ->
  lca_multi_way A A_eqb (b, lcas) o t allow <> W_this.
Proof. exact (lca_unchanged_this_never_wins A A_eqb A_eqb_spec). Qed.

Theorem C18_unchanged_other_never_wins : forall b lcas o t allow,
  In o (b :: lcas) -> ~ In t (b :: lcas) ->
  lca_multi_way A A_eqb (b, lcas) o t allow <> W_other.
Proof. exact (lca_unchanged_other_never_wins A A_eqb A_eqb_spec). Qed.

Theorem C18_three_way_unchanged_this_loses : forall b o,
  o <> b -> three_way A A_eqb b o b = W_other.
Proof. exact (three_way_unchanged_this A A_eqb A_eqb_spec). Qed.

Theorem C18_three_way_unchanged_other_loses : forall b t,
  three_way A A_eqb b b t = W_this.
Proof. exact (three_way_unchanged_other A A_eqb A_eqb_spec). Qed.

Theorem C18_three_way_both_changed_conflict : forall b o t,
  o <> b -> t <> b -> t <> o -> three_way A A_eqb b o t = W_conflict.
Proof. exact (three_way_both_changed A A_eqb A_eqb_spec). Qed.
End C18.

Print Assumptions C18_three_way_symmetric.
Print Assumptions C18_three_way_tie.
Print Assumptions C18_lca_symmetric.
Print Assumptions C18_lca_tie.
Print Assumptions C18_lca_consistent_all_ancestors.
Print Assumptions C18_lca_consistent.
Print Assumptions C18_unchanged_this_never_wins.
Print Assumptions C18_unchanged_other_never_wins.
Print Assumptions C18_three_way_unchanged_this_loses.
Print Assumptions C18_three_way_unchanged_other_loses.
Print Assumptions C18_three_way_both_changed_conflict.
