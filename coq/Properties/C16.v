(* Properties/C16.v -- Uncommit undoes commit.
   Statements only; the model is Model/Uncommit.v (on Lib/Dag.v), the proofs
   are in Theory/Uncommit.v and Theory/DagFacts.v.

   g is ANY well-formed revision graph; a branch is (tip, revno, tags), a tree
   is (parent ids, files); [uncommit g b tree master k keep_tags local] models
   breezy.uncommit.uncommit(branch, revno=k+1, tree=, keep_tags=, local=) and
   the Rust remove_tags; k is the revno the branch is taken back to. *)
From Coq Require Import List Arith Bool.
From BV Require Import Lib.Dag Theory.DagFacts Model.Uncommit Theory.Uncommit.
Import ListNotations.

(* commit, then uncommit that commit: branch tip, revno, tags, the tree's parent
   list (pending merges included, in order) and the tree's files are all back.
   ps = the tree's parents before the commit (tip first, then pending merges);
   the committed revision gets the next free number [length g]. *)
Theorem C16_uncommit_commit_id :
  forall g ps tipb n tags files keep,
  wf_dag g = true -> fresh_next g = true -> valid_parents g ps = true ->
  tipb = hd_error ps ->
  match ps with p :: _ => p < length g | [] => True end ->
  filter_parents g ps = ps ->
  forallb (fun nr => negb (snd nr =? length g)) tags = true ->
  let b := mkS tipb n tags in
  let t := mkT ps files in
  uncommit (commit_graph g t) (commit_branch g b) (Some (commit_tree g t)) None n keep false
  = Ok (b, Some t, None).
Proof. exact uncommit_commit_id. Qed.
Print Assumptions C16_uncommit_commit_id.

(* the same in a bound branch (heavyweight checkout) with commit(local=True) and
   uncommit(local=True): the master [mb] may be at the old tip or anywhere behind
   it (earlier local commits); branch, tree AND master are exactly as before *)
Theorem C16_local_uncommit_commit_id :
  forall g ps tipb n tags files keep mb,
  wf_dag g = true -> fresh_next g = true -> valid_parents g ps = true ->
  tipb = hd_error ps ->
  match ps with p :: _ => p < length g | [] => True end ->
  filter_parents g ps = ps ->
  forallb (fun nr => negb (snd nr =? length g)) tags = true ->
  let b := mkS tipb n tags in
  let t := mkT ps files in
  uncommit (commit_graph g t) (commit_branch g b) (Some (commit_tree g t)) (Some mb) n keep true
  = Ok (b, Some t, Some mb).
Proof. exact local_uncommit_commit_id. Qed.
Print Assumptions C16_local_uncommit_commit_id.

(* mixed: a local commit followed by a NON-local uncommit is refused (the branch is
   ahead of its master), leaving everything as it is *)
Theorem C16_local_commit_nonlocal_uncommit_refused :
  forall g b t mb k keep,
  tip mb <> Some (length g) ->
  uncommit (commit_graph g t) (commit_branch g b) (Some (commit_tree g t)) (Some mb) k keep false
  = Err BoundBranchOutOfDate.
Proof. exact local_commit_nonlocal_uncommit_refused. Qed.
Print Assumptions C16_local_commit_nonlocal_uncommit_refused.

(* several revisions at once (any depth d = revno - k): the new tip is the d-th
   left-hand ancestor (null: when the history is exhausted) and the new parent
   list is: new tip, then the merged parents of the removed mainline revisions
   (oldest removed revision first, each in its recorded order), then the
   pending merges the tree already had -- those in REVERSED order (what the
   code does; see notes/C16.md) -- before set_parent_ids filters it *)
Theorem C16_multi :
  forall g b tp k,
  forallb (present g) (lefthand_opt g (tip b)) = true -> k <= revno b ->
  let lh := lefthand_opt g (tip b) in
  let d := revno b - k in
  plan g b (Some tp) k =
  Ok (nth_error lh d,
      opt_list (nth_error lh d) ++ flat_map (merged g) (rev (firstn d lh)) ++ rev (tl tp)).
Proof. exact plan_spec. Qed.
Print Assumptions C16_multi.

(* ... and the recorded revno k is again the length of the new tip's left-hand history *)
Theorem C16_multi_revno :
  forall g b t m k keep loc b' t' m', wf_dag g = true ->
  distance_opt g (tip b) = Some (revno b) -> k <= revno b ->
  uncommit g b t m k keep loc = Ok (b', t', m') ->
  distance_opt g (tip b') = Some (revno b').
Proof. exact new_tip_revno. Qed.
Print Assumptions C16_multi_revno.

(* tags: a tag is dropped exactly when its revision is in the ancestry of the
   old tip and of none of the new parents; [ps] is the parent list of C16_multi *)
Theorem C16_tags :
  forall g b t m k loc b' t' m' o, wf_dag g = true -> tip b = Some o ->
  uncommit g b t m k false loc = Ok (b', t', m') ->
  exists nt ps, plan g b (option_map tparents t) k = Ok (nt, ps) /\
    forall nr, In nr (tagd b') <->
               In nr (tagd b) /\ ~ (reach g (snd nr) o /\ forall p, In p ps -> ~ reach g (snd nr) p).
Proof.
  intros g b t m k loc b' t' m' o W Ho H.
  apply uncommit_ok in H as [nt [ps [P [_ [_ [T _]]]]]].
  exists nt, ps. split; [exact P|]. intros nr. rewrite T, Ho. apply remove_tags_spec. exact W.
Qed.
Print Assumptions C16_tags.

Theorem C16_keep_tags :
  forall g b t m k loc b' t' m',
  uncommit g b t m k true loc = Ok (b', t', m') -> tagd b' = tagd b.
Proof. exact keep_tags_keeps. Qed.
Print Assumptions C16_keep_tags.

(* the working tree's files are not touched *)
Theorem C16_files_untouched :
  forall g b ts m k keep loc b' t' m',
  uncommit g b (Some ts) m k keep loc = Ok (b', t', m') ->
  exists ts', t' = Some ts' /\ tfiles ts' = tfiles ts.
Proof. exact files_untouched. Qed.
Print Assumptions C16_files_untouched.

(* "the tree's basis is the branch tip" after uncommit is FALSE when everything
   is uncommitted and a removed revision was a merge: the first merged revision
   becomes the tree's basis although the branch is empty ... *)
Theorem C16_tree_basis_is_tip_refuted :
  exists g b ts b' ts',
    wf_dag g = true /\ distance_opt g (tip b) = Some (revno b) /\
    filter_parents g (tparents ts) = tparents ts /\ hd_error (tparents ts) = tip b /\
    uncommit g b (Some ts) None 0 false false = Ok (b', Some ts', None) /\
    tip b' = None /\ tparents ts' = [1].
Proof. exact basis_is_tip_refuted. Qed.
Print Assumptions C16_tree_basis_is_tip_refuted.

(* ... and holds whenever the new tip is a revision *)
Theorem C16_tree_basis_is_tip_guarded :
  forall g b ts m k keep loc b' ts' m' x,
  uncommit g b (Some ts) m k keep loc = Ok (b', Some ts', m') ->
  tip b' = Some x -> hd_error (tparents ts') = Some x.
Proof. exact basis_is_tip_guarded. Qed.
Print Assumptions C16_tree_basis_is_tip_guarded.

(* bound branches: the master moves with the branch; an out-of-date branch is
   refused; local=True leaves the master's tip alone and needs a master *)
Theorem C16_bound_master_follows :
  forall g b t mb k keep b' t' m',
  uncommit g b t (Some mb) k keep false = Ok (b', t', m') ->
  exists mb', m' = Some mb' /\ tip mb' = tip b' /\ revno mb' = revno b' /\
              opt_eqb (tip b) (tip mb) = true.
Proof. exact bound_master_follows. Qed.
Print Assumptions C16_bound_master_follows.

Theorem C16_bound_out_of_date :
  forall g b t mb k keep,
  opt_eqb (tip b) (tip mb) = false ->
  uncommit g b t (Some mb) k keep false = Err BoundBranchOutOfDate.
Proof. exact bound_out_of_date. Qed.
Print Assumptions C16_bound_out_of_date.

Theorem C16_local_keeps_master :
  forall g b t mb k keep b' t' m',
  uncommit g b t (Some mb) k keep true = Ok (b', t', m') ->
  exists mb', m' = Some mb' /\ tip mb' = tip mb /\ revno mb' = revno mb.
Proof. exact local_keeps_master. Qed.
Print Assumptions C16_local_keeps_master.

(* bound branches and tags (repaired by commit 495a382; before it the uncommit ended in
   LockContention): C16_tags applies to bound branches as it stands, and the tag names
   removed from the branch are removed from the master too *)
Theorem C16_bound_tags :
  forall g b t mb k loc b' t' m',
  uncommit g b t (Some mb) k false loc = Ok (b', t', m') ->
  exists nt ps mb', plan g b (option_map tparents t) k = Ok (nt, ps) /\ m' = Some mb' /\
    tagd b' = remove_tags g (tagd b) (tip b) ps /\
    tagd mb' = delete_names (map fst (filter (fun nr => removed_tag g (tip b) ps nr) (tagd b))) (tagd mb).
Proof. exact bound_master_tags. Qed.
Print Assumptions C16_bound_tags.

(* ---- the hypotheses are satisfiable by non-trivial values ------------------- *)

(* 0 - 1 - 4 - 5     4 merges 2 and 3, 5 merges 6';  tree at 5 with pending merge 6
    \ 2 /   /
    \ 3 ---/   6 (child of 0)                                               *)
Definition ex_g : dag := [[]; [0]; [0]; [0]; [1; 2; 3]; [4]; [0]].

Example ex_roundtrip :
  wf_dag ex_g = true /\ fresh_next ex_g = true /\ valid_parents ex_g [5; 6] = true /\
  filter_parents ex_g [5; 6] = [5; 6] /\
  uncommit (commit_graph ex_g (mkT [5; 6] [])) (commit_branch ex_g (mkS (Some 5) 4 [(0, 2); (1, 5)]))
           (Some (commit_tree ex_g (mkT [5; 6] []))) None 4 false false
  = Ok (mkS (Some 5) 4 [(0, 2); (1, 5)], Some (mkT [5; 6] []), None).
Proof. repeat split; reflexivity. Qed.

(* uncommit two revisions (5 and the merge 4) from a tree that already has the
   pending merge 6: parents become 1, then 2 3 (merged by 4), then 6; the tag on
   2 survives (2 is re-recorded as a pending merge), the tags on 4 and 5 go *)
Example ex_multi :
  uncommit ex_g (mkS (Some 5) 4 [(0, 2); (1, 5); (2, 4)]) (Some (mkT [5; 6] [])) None 2 false false
  = Ok (mkS (Some 1) 2 [(0, 2)], Some (mkT [1; 2; 3; 6] []), None).
Proof. reflexivity. Qed.

(* the old finding's witness: a bound branch in step with its master, a tag on the tip:
   the tag now goes in both *)
Example ex_bound_tags :
  uncommit [[]; [0]] (mkS (Some 1) 2 [(0, 1)]) (Some (mkT [1] [])) (Some (mkS (Some 1) 2 [(0, 1); (3, 0)])) 1 false false
  = Ok (mkS (Some 0) 1 [], Some (mkT [0] []), Some (mkS (Some 0) 1 [(3, 0)])).
Proof. reflexivity. Qed.
