(* Properties/C05.v -- Concurrent pack writers and packers never lose committed data.
   Statements only; model in Model/PackNames.v, proofs in Theory/PackNames.v,
   interleaving semantics in Lib/SchedPN.v ([run step sched st0]: any schedule, any
   number of processes; [init_ok]: any repository whose listed packs are present and
   cover the committed revisions, every process a fresh committer / packer / reader).

   Full statement (DESIGN): in every reachable state every committed revision is in a pack
   that is listed in pack-names AND present in packs/.  It is FALSE of the faithful model
   (and of the code: finding C05-identical-repack-relisted): C05_listed_present_refuted.
   What holds is the guarded version, guard = the executable ghost flag [collided]
   ("some operation produced a pack file whose name -- content hash -- already existed"). *)
From Coq Require Import List Bool Arith.
From BV Require Import Lib.SchedPN Model.PackNames Theory.PackNames.
Import ListNotations.

(* the generic interleaving theorem the development rests on *)
Theorem C05_invariant_under_any_schedule :
  forall (S : Type) (step : nat -> S -> option S) (Inv : S -> Prop),
    (forall p s s', Inv s -> step p s = Some s' -> Inv s') ->
    forall sched s, Inv s -> Inv (run step sched s).
Proof. exact run_invariant. Qed.
Print Assumptions C05_invariant_under_any_schedule.

(* _save_pack_names writes exactly the three-way merge of (at_load, current, disk) *)
Theorem C05_save_is_three_way_merge :
  forall p st st', pc (procs st p) = PSave -> step p st = Some st' ->
    let pr := procs st p in
    disk (sh st') = merge3 (at_load pr) (names pr) (disk (sh st)) /\
    at_load (procs st' p) = disk (sh st') /\ names (procs st' p) = disk (sh st') /\
    (forall n, In n (disk (sh st')) <->
       (In n (disk (sh st)) /\ ~ (In n (at_load pr) /\ ~ In n (names pr)))
       \/ (In n (names pr) /\ ~ In n (at_load pr))).
Proof. exact save_is_three_way_merge. Qed.
Print Assumptions C05_save_is_three_way_merge.

(* pack-names is written by no other step *)
Theorem C05_only_save_writes_pack_names :
  forall p st st', step p st = Some st' -> pc (procs st p) <> PSave -> disk (sh st') = disk (sh st).
Proof. exact disk_changes_only_at_save. Qed.
Print Assumptions C05_only_save_writes_pack_names.

(* main invariant, any number of committers / auto-packers / packers / readers, any interleaving *)
Theorem C05_committed_never_lost_guarded :
  forall st0 sched, init_ok st0 ->
    let st := run step sched st0 in
    collided (sh st) = false ->
    incl (disk (sh st)) (packs (sh st)) /\
    (forall r, In r (committed (sh st)) ->
       exists n, In n (disk (sh st)) /\ In n (packs (sh st)) /\ In r (revs n)).
Proof. exact committed_never_lost_guarded. Qed.
Print Assumptions C05_committed_never_lost_guarded.

(* [committed] is not vacuous: a committer that finished has all its revisions in it
   (unguarded), and every scenario built by [init_sys] is an admissible initial state *)
Theorem C05_finished_commit_is_committed :
  forall st0 sched q rs, init_ok st0 ->
    let st := run step sched st0 in
    prole (procs st q) = RCommit rs -> pc (procs st q) = PDone ->
    incl rs (committed (sh st)).
Proof. exact finished_commit_is_committed. Qed.
Print Assumptions C05_finished_commit_is_committed.

Theorem C05_scenarios_admissible : forall base roles, init_ok (init_sys base roles).
Proof. exact init_sys_ok. Qed.
Print Assumptions C05_scenarios_admissible.

(* a process (reader, packer or committer) that found a pack missing and reloads: the new
   view is the three-way merge with the current pack-names, every pack of it is present,
   and it covers every committed revision *)
Theorem C05_reader_recovers_guarded :
  forall st0 sched p k, init_ok st0 ->
    let st := run step sched st0 in
    collided (sh st) = false -> pc (procs st p) = PReload k ->
    exists st', step p st = Some st' /\ sh st' = sh st /\
      names (procs st' p) = merge3 (at_load (procs st p)) (names (procs st p)) (disk (sh st)) /\
      at_load (procs st' p) = disk (sh st) /\
      incl (names (procs st' p)) (packs (sh st')) /\
      (forall r, In r (committed (sh st')) -> covered (names (procs st' p)) r).
Proof. exact reload_recovers_guarded. Qed.
Print Assumptions C05_reader_recovers_guarded.

(* the unguarded "listed => present" is false: 2 packers + 1 auto-packing committer, every
   operation succeeds, pack-names ends up listing a pack that is neither in packs/ nor in
   obsolete_packs/ (no revision becomes unlisted, but the repository is unreadable) *)
Theorem C05_listed_present_refuted :
  exists base roles sched st,
    st = run step sched (init_sys base roles) /\
    (forall p, p < List.length roles -> pc (procs st p) = PDone) /\
    (exists n, In n (disk (sh st)) /\ ~ In n (packs (sh st)) /\ ~ In n (obsd (sh st))) /\
    (forall r, In r (committed (sh st)) -> covered (disk (sh st)) r).
Proof. exact listed_present_refuted. Qed.
Print Assumptions C05_listed_present_refuted.

(* the guard is satisfiable by a non-trivial run (auto-packing committer that has to reload
   because a concurrent packer moved its source packs away) *)
Example C05_guarded_nontrivial :
  let st := run step ([0;0;0;0] ++ repeat 1 14 ++ repeat 0 14) (init_sys witness_base [RCommit [10]; RPack]) in
  collided (sh st) = false /\ pc (procs st 0) = PDone /\ pc (procs st 1) = PDone /\
  reloads (procs st 0) = 1 /\ committed (sh st) = [0;1;2;3;4;5;6;7;8;10] /\
  map revs (disk (sh st)) = [[0;1;2;3;4;5;6;7;8;10]].
Proof. exact guarded_nontrivial. Qed.
