(* Properties/C42.v -- Exports contain exactly the exported tree.
   Statements only; proofs in Theory/Export42.v, the model (and the specification
   [spec_export] = the selected sub-tree re-rooted under the root, as component paths
   with (kind, content, exec, target) nodes) in Model/Export42.v.

   filtered = false : a RevisionTree;  filtered = true : the ContentFilterTree that
   `brz export --filters` wraps around it.  [filtered_ok] says the --filters path is
   only used without per-file time stamps and without symlinks (it crashes otherwise:
   C42_filters_refuted); for filtered = false it is vacuous. *)
From Coq Require Import ZArith NArith List Bool String.
From BV Require Import Lib.Bytes Lib.Obs Model.Eol Model.Export42 Theory.Export42.
Import ListNotations.
Open Scope N_scope.

(* _export_iter_entries (startswith / slicing on strings) selects exactly the entries the
   component-level specification selects, with the same relative paths, in the same order;
   no hypothesis on the tree, the sub-directory or the flags *)
Theorem C42_select_exact :
  forall filtered sd es,
    map lift (export_iter_entries filtered sd es)
    = spec_select (negb filtered) (option_map splitc (norm_subdir sd)) (map abstract es).
Proof. exact select_exact. Qed.
Print Assumptions C42_select_exact.

(* tar, tgz, tbz2, txz, tlzma: the members handed to tarfile decode to exactly the selected
   sub-tree under the root: same paths, kinds, contents, executable bits, symlink targets *)
Theorem C42_entries_exact :
  forall filtered root sd force es,
    wf_entries es = true -> filtered_ok filtered force es ->
    exists items,
      tarball_items filtered root sd force es = Ok items /\
      map tar_decode items
      = spec_export filtered (negb filtered) (root_comps root)
                    (option_map splitc (norm_subdir sd)) (map abstract es).
Proof. exact tar_entries_exact. Qed.
Print Assumptions C42_entries_exact.

(* directory export: the same, directly below the destination (root is not used) *)
Theorem C42_entries_exact_dir :
  forall filtered sd force pre es,
    wf_entries es = true -> filtered_ok filtered force es -> pre <> DNonEmpty ->
    exists items,
      dir_items filtered sd force pre es = Ok items /\
      map dir_decode items
      = spec_export filtered (negb filtered) [] (option_map splitc (norm_subdir sd)) (map abstract es).
Proof. exact dir_entries_exact. Qed.
Print Assumptions C42_entries_exact_dir.

(* a non-empty destination directory is refused before anything is created *)
Theorem C42_dir_nonempty_refused :
  forall filtered sd force es, dir_items filtered sd force DNonEmpty es = Er "BzrError".
Proof. exact dir_nonempty_refused. Qed.
Print Assumptions C42_dir_nonempty_refused.

(* zip: exact only for trees without symlinks and without executable files ... *)
Theorem C42_entries_exact_zip_guarded :
  forall filtered root sd force es,
    wf_entries es = true -> filtered_ok filtered force es -> zip_guard es ->
    exists items,
      zip_items filtered root sd force es = Ok items /\
      map zip_decode items
      = spec_export filtered (negb filtered) (root_comps root)
                    (option_map splitc (norm_subdir sd)) (map abstract es).
Proof. exact zip_entries_exact_guarded. Qed.
Print Assumptions C42_entries_exact_zip_guarded.

(* ... the full statement is FALSE for zip: the executable bit is dropped, *)
Theorem C42_zip_exec_refuted :
  exists es items, wf_entries es = true /\ NoDup (map e_path es) /\
    zip_items false [82] None (Some 0%Z) es = Ok items /\
    map zip_decode items <> spec_export false true (root_comps [82]) None (map abstract es).
Proof. exact zip_exec_refuted. Qed.
Print Assumptions C42_zip_exec_refuted.

(* a symlink becomes a regular file NAME.lnk holding the target, *)
Theorem C42_zip_symlink_refuted :
  exists es items, wf_entries es = true /\ NoDup (map e_path es) /\
    zip_items false [82] None (Some 0%Z) es = Ok items /\
    map zip_decode items <> spec_export false true (root_comps [82]) None (map abstract es).
Proof. exact zip_symlink_refuted. Qed.
Print Assumptions C42_zip_symlink_refuted.

(* and that name can collide with a versioned file NAME.lnk (two members, one name) *)
Theorem C42_zip_root_prefix_injective_refuted :
  exists es items, wf_entries es = true /\ NoDup (map e_path es) /\
    zip_items false [82] None (Some 0%Z) es = Ok items /\ ~ NoDup (map z_name items).
Proof. exact zip_names_collide_refuted. Qed.
Print Assumptions C42_zip_root_prefix_injective_refuted.

(* --filters: a symlink or per-file time stamps raise NotImplementedError, and control files
   (names starting with .bzr) that the plain export excludes are exported *)
Theorem C42_filters_refuted :
  tarball_items true [82] None (Some 0%Z) w_link = Er NotImpl /\
  tarball_items true [82] None None w_exec = Er NotImpl /\
  (exists a b, tarball_items true [82] None (Some 0%Z) w_special = Ok a /\
               tarball_items false [82] None (Some 0%Z) w_special = Ok b /\
               map fst (map tar_decode a) <> map fst (map tar_decode b)).
Proof. exact filtered_refuted. Qed.
Print Assumptions C42_filters_refuted.

(* exporting a sub-directory exports exactly that sub-tree (as a tree of its own, where
   nothing is special any more) ... *)
Theorem C42_subdir_is_subtree :
  forall filtered rootc sc ces,
    sc <> [] -> special_comps sc = false ->
    Forall (fun ce => wf_comps (fst ce) = true) ces ->
    subdir_is_dir (Some sc) ces ->
    spec_export filtered true rootc (Some sc) ces
    = spec_export filtered false rootc None (subtree sc ces).
Proof. exact subdir_is_subtree. Qed.
Print Assumptions C42_subdir_is_subtree.

(* ... trailing slashes do not matter and "" is the whole tree, *)
Theorem C42_subdir_trailing_slashes :
  forall s k, s <> [] -> ends_with_sl s = false ->
    norm_subdir (Some (s ++ repeat SL k)) = Some s.
Proof. exact norm_subdir_trailing. Qed.
Print Assumptions C42_subdir_trailing_slashes.

(* ... a file or symlink given as sub-directory is exported alone under its own name, *)
Theorem C42_subdir_file :
  forall filtered rootc sc ces e,
    In (sc, e) ces -> e_kind e <> KDir -> is_root sc = false -> special_comps sc = false ->
    NoDup (map fst ces) ->
    (forall ce rel, In ce ces -> fst ce = sc ++ rel -> rel = []) ->
    spec_export filtered true rootc (Some sc) ces = [(rootc ++ [last sc []], node_of filtered e)].
Proof. exact subdir_file. Qed.
Print Assumptions C42_subdir_file.

(* ... and a control directory (names starting with .bzr) given as sub-directory exports nothing *)
Theorem C42_subdir_special_empty :
  forall filtered rootc sc ces,
    sc <> [] -> special_comps sc = true -> spec_export filtered true rootc (Some sc) ces = [].
Proof. exact subdir_special_empty. Qed.
Print Assumptions C42_subdir_special_empty.

(* re-rooting is injective and every member lies under the root *)
Theorem C42_root_prefix_injective :
  forall filtered root sd force es items,
    wf_entries es = true -> filtered_ok filtered force es -> NoDup (map e_path es) ->
    subdir_is_dir (option_map splitc (norm_subdir sd)) (map abstract es) ->
    tarball_items filtered root sd force es = Ok items ->
    NoDup (map fst (map tar_decode items)) /\
    forall it, In it items -> exists rel, rel <> [] /\ fst (tar_decode it) = root_comps root ++ rel.
Proof. exact tar_paths_injective. Qed.
Print Assumptions C42_root_prefix_injective.

Theorem C42_member_name_under_root :
  forall root fp, good_final fp ->
    pathjoin root fp = root_prefix root ++ fp /\ prefixb (root_prefix root) (pathjoin root fp) = true.
Proof. intros root fp G. split; [apply pathjoin_good | apply pathjoin_under_root]; exact G. Qed.
Print Assumptions C42_member_name_under_root.

(* get_root_name / guess_format: for every registered extension the root is the file name without
   the extension (and without the directory), the format the one registered for it *)
Theorem C42_root_name :
  forall ext f stem,
    In (ext, f) extension_map -> memb SL stem = false ->
    get_root_name (stem ++ ext) = stem /\ guess_format (stem ++ ext) = f /\
    forall dir, get_root_name (dir ++ SL :: stem ++ ext) = stem /\
                guess_format (dir ++ SL :: stem ++ ext) = f.
Proof. exact root_name_strips. Qed.
Print Assumptions C42_root_name.

Theorem C42_root_name_no_ext :
  forall name,
    memb SL name = false -> bytes_eqb name [45] = false ->
    (forall ext f, In (ext, f) extension_map -> suffixb ext name = false) ->
    get_root_name name = name /\ guess_format name = FDir.
Proof. exact root_name_no_ext. Qed.
Print Assumptions C42_root_name_no_ext.

(* export(): format / root / forced time stamp selection *)
Theorem C42_export_dispatch :
  forall es format dest root sd pft rev_ts now pre,
    let f := match format with Some f => f | None => guess_format dest end in
    export es format dest root sd pft false rev_ts now pre
    = match f with
      | FDir => match dir_items false sd (eff_force pft false rev_ts now) pre es with
                | Ok l => Ok (OutDir l) | Er x => Er x end
      | FZip => match zip_items false (eff_root root dest) sd (eff_force pft false rev_ts now) es with
                | Ok l => Ok (OutZip l) | Er x => Er x end
      | f => match tarball_items false (eff_root root dest) sd (eff_force pft false rev_ts now) es with
             | Ok l => Ok (OutTar f l) | Er x => Er x end
      end.
Proof. exact export_dispatch. Qed.
Print Assumptions C42_export_dispatch.
