(* Properties/C42.v -- Exports contain exactly the exported tree.
   Statements only; proofs in Theory/Export42.v, the model (and the specification
   [spec_export] = the selected sub-tree re-rooted under the root, as component paths
   with (kind, content, exec, target) nodes) in Model/Export42.v.

   filtered = false : a RevisionTree;  filtered = true : the ContentFilterTree that
   `brz export --filters` wraps around it (content filters applied to file texts,
   everything else delegated to the backing tree since cf2f70e). *)
From Coq Require Import ZArith NArith List Bool String.
From BV Require Import Lib.Bytes Lib.Obs Model.Eol Model.Export42 Theory.Export42.
Import ListNotations.
Open Scope N_scope.

(* _export_iter_entries (startswith / slicing on strings) selects exactly the entries the
   component-level specification selects, with the same relative paths, in the same order;
   no hypothesis on the tree or the sub-directory *)
Theorem C42_select_exact :
  forall sd es,
    map lift (export_iter_entries sd es)
    = spec_select true (option_map splitc (norm_subdir sd)) (map abstract es).
Proof. exact select_exact. Qed.
Print Assumptions C42_select_exact.

(* tar, tgz, tbz2, txz, tlzma: the members handed to tarfile decode to exactly the selected
   sub-tree under the root: same paths, kinds, contents, executable bits, symlink targets;
   with or without --filters, with or without per-file time stamps *)
Theorem C42_entries_exact :
  forall filtered root sd force es,
    wf_entries es = true ->
    map tar_decode (tarball_items filtered root sd force es)
    = spec_export filtered true (root_comps root)
                  (option_map splitc (norm_subdir sd)) (map abstract es).
Proof. exact tar_entries_exact. Qed.
Print Assumptions C42_entries_exact.

(* directory export: the same, directly below the destination (root is not used) *)
Theorem C42_entries_exact_dir :
  forall filtered sd force pre es,
    wf_entries es = true -> pre <> DNonEmpty ->
    exists items,
      dir_items filtered sd force pre es = Ok items /\
      map dir_decode items
      = spec_export filtered true [] (option_map splitc (norm_subdir sd)) (map abstract es).
Proof. exact dir_entries_exact. Qed.
Print Assumptions C42_entries_exact_dir.

(* a non-empty destination directory is refused before anything is created *)
Theorem C42_dir_nonempty_refused :
  forall filtered sd force es, dir_items filtered sd force DNonEmpty es = Er "BzrError".
Proof. exact dir_nonempty_refused. Qed.
Print Assumptions C42_dir_nonempty_refused.

(* zip: exact, executable bits included (repaired by 552504a), for trees without symlinks ... *)
Theorem C42_entries_exact_zip_guarded :
  forall filtered root sd force es,
    wf_entries es = true -> zip_guard es ->
    map zip_decode (zip_items filtered root sd force es)
    = spec_export filtered true (root_comps root)
                  (option_map splitc (norm_subdir sd)) (map abstract es).
Proof. exact zip_entries_exact_guarded. Qed.
Print Assumptions C42_entries_exact_zip_guarded.

(* ... the full statement is still FALSE for zip: a symlink becomes a regular file NAME.lnk
   holding the target (known finding C42-zip-symlink-as-lnk), *)
Theorem C42_zip_symlink_refuted :
  exists es, wf_entries es = true /\ NoDup (map e_path es) /\
    map zip_decode (zip_items false [82] None (Some 0%Z) es)
    <> spec_export false true (root_comps [82]) None (map abstract es).
Proof. exact zip_symlink_refuted. Qed.
Print Assumptions C42_zip_symlink_refuted.

(* and that name can collide with a versioned file NAME.lnk (two members, one name) *)
Theorem C42_zip_root_prefix_injective_refuted :
  exists es, wf_entries es = true /\ NoDup (map e_path es) /\
    ~ NoDup (map z_name (zip_items false [82] None (Some 0%Z) es)).
Proof. exact zip_names_collide_refuted. Qed.
Print Assumptions C42_zip_root_prefix_injective_refuted.

(* --filters (repaired by cf2f70e) changes file contents only: the exported paths, kinds,
   executable bits and symlink targets are those of the plain export *)
Theorem C42_filters_only_change_content :
  forall skip rootc sd ces,
    map shape (spec_export true skip rootc sd ces) = map shape (spec_export false skip rootc sd ces).
Proof. exact filters_only_change_content. Qed.
Print Assumptions C42_filters_only_change_content.

(* exporting a sub-directory exports exactly that sub-tree (as a tree of its own, where
   nothing is special any more) ... *)
Theorem C42_subdir_is_subtree :
  forall filtered rootc sc ces,
    sc <> [] -> special_comps sc = false ->
    Forall (fun ce => wf_comps (fst ce) = true) ces ->
    subdir_is_dir (Some sc) ces ->
    spec_export filtered true rootc (Some sc) ces
    = spec_export filtered false rootc None (subtree sc ces).
Proof. exact subdir_is_subtree. Qed.
Print Assumptions C42_subdir_is_subtree.

(* ... trailing slashes do not matter and "" is the whole tree, *)
Theorem C42_subdir_trailing_slashes :
  forall s k, s <> [] -> ends_with_sl s = false ->
    norm_subdir (Some (s ++ repeat SL k)) = Some s.
Proof. exact norm_subdir_trailing. Qed.
Print Assumptions C42_subdir_trailing_slashes.

(* ... a file or symlink given as sub-directory is exported alone under its own name, *)
Theorem C42_subdir_file :
  forall filtered rootc sc ces e,
    In (sc, e) ces -> e_kind e <> KDir -> is_root sc = false -> special_comps sc = false ->
    NoDup (map fst ces) ->
    (forall ce rel, In ce ces -> fst ce = sc ++ rel -> rel = []) ->
    spec_export filtered true rootc (Some sc) ces = [(rootc ++ [last sc []], node_of filtered e)].
Proof. exact subdir_file. Qed.
Print Assumptions C42_subdir_file.

(* ... and a control directory (names starting with .bzr) given as sub-directory exports nothing *)
Theorem C42_subdir_special_empty :
  forall filtered rootc sc ces,
    sc <> [] -> special_comps sc = true -> spec_export filtered true rootc (Some sc) ces = [].
Proof. exact subdir_special_empty. Qed.
Print Assumptions C42_subdir_special_empty.

(* re-rooting is injective and every member lies under the root *)
Theorem C42_root_prefix_injective :
  forall filtered root sd force es,
    wf_entries es = true -> NoDup (map e_path es) ->
    subdir_is_dir (option_map splitc (norm_subdir sd)) (map abstract es) ->
    let items := tarball_items filtered root sd force es in
    NoDup (map fst (map tar_decode items)) /\
    forall it, In it items -> exists rel, rel <> [] /\ fst (tar_decode it) = root_comps root ++ rel.
Proof. exact tar_paths_injective. Qed.
Print Assumptions C42_root_prefix_injective.

Theorem C42_member_name_under_root :
  forall root fp, good_final fp ->
    pathjoin root fp = root_prefix root ++ fp /\ prefixb (root_prefix root) (pathjoin root fp) = true.
Proof. intros root fp G. split; [apply pathjoin_good | apply pathjoin_under_root]; exact G. Qed.
Print Assumptions C42_member_name_under_root.

(* get_root_name / guess_format: for every registered extension the root is the file name without
   the extension (and without the directory), the format the one registered for it *)
Theorem C42_root_name :
  forall ext f stem,
    In (ext, f) extension_map -> memb SL stem = false ->
    get_root_name (stem ++ ext) = stem /\ guess_format (stem ++ ext) = f /\
    forall dir, get_root_name (dir ++ SL :: stem ++ ext) = stem /\
                guess_format (dir ++ SL :: stem ++ ext) = f.
Proof. exact root_name_strips. Qed.
Print Assumptions C42_root_name.

Theorem C42_root_name_no_ext :
  forall name,
    memb SL name = false -> bytes_eqb name [45] = false ->
    (forall ext f, In (ext, f) extension_map -> suffixb ext name = false) ->
    get_root_name name = name /\ guess_format name = FDir.
Proof. exact root_name_no_ext. Qed.
Print Assumptions C42_root_name_no_ext.

(* export(): format / root / forced time stamp selection *)
Theorem C42_export_dispatch :
  forall es format dest root sd pft filtered rev_ts now pre,
    let f := match format with Some f => f | None => guess_format dest end in
    export es format dest root sd pft filtered rev_ts now pre
    = match f with
      | FDir => match dir_items filtered sd (eff_force pft filtered rev_ts now) pre es with
                | Ok l => Ok (OutDir l) | Er x => Er x end
      | FZip => Ok (OutZip (zip_items filtered (eff_root root dest) sd (eff_force pft filtered rev_ts now) es))
      | f => Ok (OutTar f (tarball_items filtered (eff_root root dest) sd (eff_force pft filtered rev_ts now) es))
      end.
Proof. exact export_dispatch. Qed.
Print Assumptions C42_export_dispatch.
