(* Properties/C22.v -- Revision numbers and revision specifiers resolve consistently.
   Statements only; the model is Model/RevSpec.v (on Lib/Dag.v and
   Lib/DagMergeSort.v), the proofs are in Theory/RevSpec.v and
   Theory/DagMergeSortFacts.v.

   b = (graph, tip, tags) is ANY branch over a well-formed revision graph (any
   size and shape: merges of merges, criss-cross, several roots, ghosts);
   [lh b] is the left-hand history of the tip (newest first), [history b] the
   same oldest first, [last_revno b] its length.  [merge_sorted g tip] is the
   Gallina rendering of the merge-sort numbering rules; the real numbering is
   computed by compiled vcsgraph (outside /repo) and compared with it on every
   generated history by harness/props/c22.py -- that agreement is the PARTIAL
   part of C22 (everything about the numbering rules themselves, including the
   distinctness of the dotted revnos, is proved). *)
From Coq Require Import List Arith Bool ZArith Permutation.
From BV Require Import Lib.Dag Theory.DagFacts Lib.DagMergeSort Theory.DagMergeSortFacts
                       Theory.DagMergeSortMainline Theory.DagMergeSortRevnos Model.RevSpec Theory.RevSpec.
Import ListNotations.

(* ---- revision number n names the n-th revision of the left-hand history ------------- *)

Theorem C22_revno_nth :
  forall b n, n < last_revno b ->
  get_rev_id b (Z.of_nat (S n)) = match nth_error (history b) n with
                                  | Some r => Ok (Some r)
                                  | None => Err NoSuchRevision
                                  end /\
  exists r, nth_error (history b) n = Some r.
Proof.
  intros b n L. split; [apply get_rev_id_nth; exact L|].
  destruct (get_rev_id_in_range b n L) as [r [E _]]. exists r. exact E.
Qed.
Print Assumptions C22_revno_nth.

(* outside 1..last_revno there is no such revision; 0 is the null revision *)
Theorem C22_revno_out_of_range :
  forall b n, (n < 0 \/ Z.of_nat (last_revno b) < n)%Z -> get_rev_id b n = Err RevnoOutOfBounds.
Proof. exact get_rev_id_out_of_range. Qed.
Print Assumptions C22_revno_out_of_range.

(* revision_id_to_revno is the position in the left-hand history, and the two
   conversions are inverse *)
Theorem C22_revno_position :
  forall b r n, wf_dag (br_g b) = true ->
  (revision_id_to_revno b (Some r) = Ok (S n) <-> nth_error (history b) n = Some r).
Proof. exact revision_id_to_revno_spec. Qed.
Print Assumptions C22_revno_position.

Theorem C22_revno_roundtrip :
  forall b, wf_dag (br_g b) = true ->
  (forall n, n < last_revno b ->
     exists r, get_rev_id b (Z.of_nat (S n)) = Ok (Some r) /\ revision_id_to_revno b (Some r) = Ok (S n)) /\
  (forall r, In r (lh b) ->
     exists n, revision_id_to_revno b (Some r) = Ok (S n) /\ get_rev_id b (Z.of_nat (S n)) = Ok (Some r)) /\
  (forall r, ~ In r (lh b) -> revision_id_to_revno b (Some r) = Err NoSuchRevision).
Proof.
  intros b W. split; [|split].
  - intros n L. apply revno_roundtrip_number; assumption.
  - intros r H. apply revno_roundtrip_id; assumption.
  - apply revision_id_to_revno_not_mainline.
Qed.
Print Assumptions C22_revno_roundtrip.

(* ---- the dict / list-filter lookups are inverse over ANY merge-sorted list ---------- *)

Theorem C22_lookup_inverse :
  forall l : list ms4, NoDup (map m_id l) -> NoDup (map m_revno l) ->
  let m := revno_map_of l in
  (forall e, In e l -> dict_get (m_id e) m = Some (m_revno e) /\ lookup_dotted m (m_revno e) = Ok (m_id e)) /\
  (forall r d, dict_get r m = Some d -> lookup_dotted m d = Ok r) /\
  (forall r d, lookup_dotted m d = Ok r -> dict_get r m = Some d) /\
  (forall r d, dict_get r m = Some d -> exists e, In e l /\ m_id e = r /\ m_revno e = d).
Proof. exact lookup_inverse. Qed.
Print Assumptions C22_lookup_inverse.

(* ---- the merge-sorted list: ids = the ancestry, each once; revnos distinct -------------- *)

(* the ids are exactly the present ancestors of the tip, each exactly once; the
   dotted revnos are pairwise distinct; the depth-0 entries are the left-hand
   history.  ("_partial" only in that the list is the Gallina merge sort: its
   agreement with compiled vcsgraph is a correspondence fact.) *)
Theorem C22_merge_sort_revnos_unique_partial :
  forall g (t : revid), wf_dag g = true -> t < length g ->
  NoDup (ms_ids (merge_sorted g (Some t))) /\
  NoDup (ms_revnos (merge_sorted g (Some t))) /\
  (forall x, In x (ms_ids (merge_sorted g (Some t))) <-> reach g x t /\ x < length g) /\
  Permutation (ms_ids (merge_sorted g (Some t))) (filter (present g) (ancestors g [t])) /\
  (lefthand_present g t = true -> map e_id (depth0 (merge_sorted g (Some t))) = lefthand g t).
Proof.
  intros g t W L. split; [apply merge_sorted_NoDup; exact W|].
  split; [apply merge_sorted_revnos_NoDup|]. split; [|split].
  - intros x. apply merge_sorted_ids; assumption.
  - apply merge_sorted_perm; assumption.
  - intros P. apply depth0_is_lefthand; assumption.
Qed.
Print Assumptions C22_merge_sort_revnos_unique_partial.

(* the numbering of the left-hand history IS proved: an entry on the left-hand
   history carries its position (counted from the root) as a one-component
   revno -- the number revision_id_to_revno computes -- and every other entry a
   three-component revno *)
Theorem C22_merge_sort_mainline :
  forall g (t : revid), wf_dag g = true -> t < length g -> lefthand_present g t = true ->
  forall e, In e (merge_sorted g (Some t)) ->
  (In (e_id e) (lefthand g t) /\ e_revno e = [length (lefthand g (e_id e))]) \/
  (~ In (e_id e) (lefthand g t) /\ length (e_revno e) = 3).
Proof. exact merge_sorted_shape. Qed.
Print Assumptions C22_merge_sort_mainline.

Theorem C22_mainline_numberings_agree :
  forall b (t : revid) e, wf_dag (br_g b) = true -> br_tip b = Some t ->
  t < length (br_g b) -> lefthand_present (br_g b) t = true ->
  In e (merge_sorted (br_g b) (br_tip b)) -> In (e_id e) (lh b) ->
  exists n, revision_id_to_revno b (Some (e_id e)) = Ok n /\ e_revno e = [n].
Proof. exact mainline_revno_agrees. Qed.
Print Assumptions C22_mainline_numberings_agree.

(* a development line (a, k, 1), (a, k, 2), ... is a chain of left-hand parents *)
Theorem C22_merge_sort_same_line :
  forall g (t : revid), wf_dag g = true -> t < length g ->
  forall es ee a k x y, In es (merge_sorted g (Some t)) -> In ee (merge_sorted g (Some t)) ->
  e_revno es = [a; k; x] -> e_revno ee = [a; k; y] -> x <= y ->
  In (e_id es) (lefthand g (e_id ee)).
Proof. exact merge_sorted_same_line. Qed.
Print Assumptions C22_merge_sort_same_line.

(* so the hypothesis [ms_good] of the next theorems (revnos distinct, one component
   iff on the left-hand history) holds for every consistent branch *)
Theorem C22_ms_good :
  forall b (t : revid), wf_dag (br_g b) = true -> br_tip b = Some t ->
  t < length (br_g b) -> lefthand_present (br_g b) t = true -> ms_good b.
Proof. exact ms_good_holds. Qed.
Print Assumptions C22_ms_good.

(* id -> dotted revno -> id and dotted revno -> id -> dotted revno, through the
   code's two paths (mainline by position, everything else by the revno map);
   a dotted revno exists exactly for the revisions of the merge-sorted list *)
Theorem C22_dotted_roundtrip :
  forall b, wf_dag (br_g b) = true -> ms_good b ->
  (forall r d, revision_id_to_dotted_revno b (Some r) = Ok d -> dotted_revno_to_revision_id b d = Ok (Some r)) /\
  (forall d r, dotted_revno_to_revision_id b d = Ok (Some r) -> revision_id_to_dotted_revno b (Some r) = Ok d) /\
  (forall r, lh_present b ->
     ((exists d, revision_id_to_dotted_revno b (Some r) = Ok d) <->
      In r (ms_ids (merge_sorted (br_g b) (br_tip b))))).
Proof.
  intros b W G. split; [|split].
  - apply dotted_roundtrip_id; assumption.
  - apply dotted_roundtrip_revno; assumption.
  - intros r P. apply dotted_revno_defined; assumption.
Qed.
Print Assumptions C22_dotted_roundtrip.

(* ---- specifier semantics ---------------------------------------------------------------- *)

(* "n" / "revno:n" *)
Theorem C22_spec_revno :
  forall b n r, lh_present b -> nth_error (history b) n = Some r ->
  as_revision_id b (SRevno (Z.of_nat (S n))) = Ok (Some r) /\
  in_history b (SRevno (Z.of_nat (S n))) = Ok (Some (S n), Some r).
Proof. exact spec_revno. Qed.
Print Assumptions C22_spec_revno.

Theorem C22_spec_revno_edges :
  forall b,
  (as_revision_id b (SRevno 0) = Ok None /\ in_history b (SRevno 0) = Ok (Some 0, None)) /\
  (forall n, (Z.of_nat (last_revno b) < n)%Z ->
     as_revision_id b (SRevno n) = Err InvalidRevisionSpec /\ in_history b (SRevno n) = Err InvalidRevisionSpec).
Proof. intros b. split; [apply spec_revno_zero | apply spec_revno_too_big]. Qed.
Print Assumptions C22_spec_revno_edges.

(* "-k": the k-th revision from the end; beyond the beginning it is clamped to revision 1 *)
Theorem C22_spec_negative :
  forall b,
  (forall k r, lh_present b -> nth_error (lh b) k = Some r ->
     as_revision_id b (SRevno (- Z.of_nat (S k))) = Ok (Some r) /\
     in_history b (SRevno (- Z.of_nat (S k))) = Ok (Some (last_revno b - k), Some r)) /\
  (forall k, 1 <= k ->
     lookup_revno b (- Z.of_nat k) =
     lookup_revno b (Z.of_nat (if last_revno b <=? k then 1 else last_revno b + 1 - k))).
Proof. intros b. split; [apply spec_revno_from_end | apply spec_revno_negative]. Qed.
Print Assumptions C22_spec_negative.

(* "last:k" = "-k" inside the history, "last:" = the tip, "last:0" and beyond the null revision: invalid *)
Theorem C22_spec_last :
  forall b,
  (forall k, 1 <= k <= last_revno b -> lookup_last b (Some (Z.of_nat k)) = lookup_revno b (- Z.of_nat k)) /\
  (last_revno b <> 0 -> as_revision_id b (SLast None) = Ok (br_tip b)) /\
  (forall k, (k <= 0 \/ Z.of_nat (last_revno b) + 1 < k)%Z ->
     as_revision_id b (SLast (Some k)) = Err InvalidRevisionSpec).
Proof. intros b. split; [apply spec_last | split; [apply spec_last_tip | apply spec_last_invalid]]. Qed.
Print Assumptions C22_spec_last.

(* "a.b.c" names the revision whose dotted revno it is, and every dotted revno is reachable *)
Theorem C22_spec_dotted :
  forall b d r, wf_dag (br_g b) = true -> ms_good b ->
  (as_revision_id b (SDotted d) = Ok (Some r) -> revision_id_to_dotted_revno b (Some r) = Ok d) /\
  (revision_id_to_dotted_revno b (Some r) = Ok d -> as_revision_id b (SDotted d) = Ok (Some r)).
Proof. intros b d r W G. split; [apply spec_dotted | apply spec_dotted_complete]; assumption. Qed.
Print Assumptions C22_spec_dotted.

(* "revid:r" *)
Theorem C22_spec_revid :
  forall b r,
  as_revision_id b (SRevid r) = Ok (Some r) /\
  (present (br_g b) r = true -> exists n, in_history b (SRevid r) = Ok (n, Some r)) /\
  (present (br_g b) r = false -> in_history b (SRevid r) = Err InvalidRevisionSpec).
Proof. exact spec_revid. Qed.
Print Assumptions C22_spec_revid.

(* "before:s": the left-hand parent of what s names (the null revision for a root) *)
Theorem C22_spec_before :
  forall b s,
  (forall r, as_revision_id b s = Ok (Some r) -> present (br_g b) r = true ->
     as_revision_id b (SBefore s) = Ok (hd_error (parents (br_g b) r))) /\
  (as_revision_id b s = Ok None -> as_revision_id b (SBefore s) = Err InvalidRevisionSpec).
Proof. intros b s. split; [intros r; apply spec_before | apply spec_before_null]. Qed.
Print Assumptions C22_spec_before.

(* "tag:t" *)
Theorem C22_spec_tag :
  forall b t,
  as_revision_id b (STag t) = match tag_lookup t (br_tags b) with Some r => Ok (Some r) | None => Err NoSuchTag end.
Proof. exact spec_tag. Qed.
Print Assumptions C22_spec_tag.

(* "ancestor:other": a common ancestor of the two tips; the greatest one when there is one *)
Theorem C22_spec_ancestor :
  forall b a o, wf_dag (br_g b) = true -> br_tip b = Some a ->
  (forall r, as_revision_id b (SAncestor (Some o)) = Ok (Some r) ->
     is_ancestor (br_g b) r a = true /\ is_ancestor (br_g b) r o = true) /\
  (forall c, is_ancestor (br_g b) c a = true -> is_ancestor (br_g b) c o = true ->
     (forall x, is_ancestor (br_g b) x a = true -> is_ancestor (br_g b) x o = true ->
                is_ancestor (br_g b) x c = true) ->
     as_revision_id b (SAncestor (Some o)) = Ok (Some c)).
Proof.
  intros b a o W T. split.
  - intros r. apply spec_ancestor; assumption.
  - intros c. apply spec_ancestor_greatest; assumption.
Qed.
Print Assumptions C22_spec_ancestor.

(* "mainline:s": the oldest revision of the left-hand history that has the
   revision named by s in its ancestry; invalid when the tip does not descend from it *)
Theorem C22_spec_mainline :
  forall b s m t, wf_dag (br_g b) = true -> br_tip b = Some t ->
  as_revision_id b s = Ok (Some m) ->
  (forall r, as_revision_id b (SMainline s) = Ok (Some r) ->
     exists pre post, lefthand (br_g b) t = pre ++ r :: post /\
       Forall (fun c => is_ancestor (br_g b) m c = true) (pre ++ [r]) /\
       Forall (fun c => is_ancestor (br_g b) m c = false) post) /\
  (is_ancestor (br_g b) m t = false -> as_revision_id b (SMainline s) = Err InvalidRevisionSpec).
Proof.
  intros b s m t W T Hs. split.
  - intros r. apply (spec_mainline b s m t r W T Hs).
  - apply (spec_mainline_invalid b s m t W T Hs).
Qed.
Print Assumptions C22_spec_mainline.
