(* placeholder while the model is being validated *)
From Coq Require Import List Arith.
From BV Require Import Lib.Dag Lib.DagMergeSort Model.RevSpec.
Theorem C22_placeholder : True. Proof. exact I. Qed.
Print Assumptions C22_placeholder.
