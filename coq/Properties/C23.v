(* Properties/C23.v -- Checkouts and their master branches stay in step.
   Statements only; the model is Model/Bound.v (on Lib/Dag.v and
   Model/BranchUpdate.v), the proofs are in Theory/Bound.v.

   A state [s] is one master branch [mbranch s], a shared revision graph
   [graph s] and a list of checkouts [cos s]; a checkout is heavyweight (own
   branch [lbranch c], possibly [bound]) or lightweight (its branch is the
   master); [tparents c] are the parents of its working tree.  [is_bound c] =
   heavyweight and bound.  The operations are [commit s i local fault],
   [update s i], [pull s i source], bind/unbind; [step]/[run] run arbitrary
   sequences of them.  Each returns an outcome ([Done] or [Fail error]) and the
   new state.  [fault = Some k] makes the k-th write of the commit raise.
   Nothing below bounds the number of checkouts, revisions or operations. *)
From Coq Require Import List Arith Bool.
From BV Require Import Lib.Dag Theory.DagFacts Model.BranchUpdate Theory.BranchUpdate Model.Bound Theory.Bound.
Import ListNotations.

(* ---- commit in a bound branch ----------------------------------------------- *)

(* a successful commit through a bound checkout records the new revision in the
   master and in the local branch: both end on the same (revno, tip); the tree is
   based on it; no other checkout changes *)
Theorem C23_bound_commit_both :
  forall s i c s',
  nth_error (cos s) i = Some c -> is_bound c = true ->
  commit s i false None = (Done, s') ->
  let nb := mkB (Some (length (graph s))) (S (revno (mbranch s))) in
  graph s' = graph s ++ [tparents c] /\
  mbranch s' = nb /\
  nth_error (cos s') i = Some (mkC (heavy c) nb (bound c) [length (graph s)]) /\
  (forall j, j <> i -> nth_error (cos s') j = nth_error (cos s) j).
Proof. exact bound_commit_both. Qed.
Print Assumptions C23_bound_commit_both.

Example C23_bound_commit_both_ex :
  exists s', commit (init [false; true; false] true) 1 false None = (Done, s') /\
             tip (mbranch s') = Some 1.
Proof. eexists. split; reflexivity. Qed.

(* the master has moved or diverged (its tip is not the local tip): refused with
   BoundBranchOutOfDate, whatever the fault setting, and the state is unchanged *)
Theorem C23_refused_when_master_moved :
  forall s i c f,
  nth_error (cos s) i = Some c -> is_bound c = true ->
  tip (lbranch c) <> tip (mbranch s) ->
  commit s i false f = (Fail BoundBranchOutOfDate, s).
Proof. exact refused_when_master_moved. Qed.
Print Assumptions C23_refused_when_master_moved.

Example C23_refused_when_master_moved_ex :
  let s := run (init [false; true; false] true) [Commit 2 false None] in
  commit s 1 false None = (Fail BoundBranchOutOfDate, s).
Proof. reflexivity. Qed.

(* the reference branch (the master for a bound commit, else the tree's branch)
   has a tip the tree is not based on: refused with OutOfDateTree, unchanged *)
Theorem C23_stale_tree_refused :
  forall s i c loc f t,
  nth_error (cos s) i = Some c ->
  (loc = true -> is_bound c = true) ->
  (loc = false -> is_bound c = true -> tip (lbranch c) = tip (mbranch s)) ->
  tip (if negb loc && is_bound c then mbranch s else branch_of s c) = Some t ->
  hd_error (tparents c) <> Some t ->
  commit s i loc f = (Fail OutOfDateTree, s).
Proof. exact stale_tree_refused. Qed.
Print Assumptions C23_stale_tree_refused.

(* every refusal leaves every branch and tree as it was *)
Theorem C23_refusal_unchanged :
  forall s i loc f e s',
  commit s i loc f = (Fail e, s') -> e <> InjectedFault -> s' = s.
Proof. exact refusal_unchanged. Qed.
Print Assumptions C23_refusal_unchanged.

(* ---- two committers on one master -------------------------------------------------- *)

(* [commit_race s i j]: checkout j's whole commit runs between checkout i's comparison
   of the local and master tips (made before the master is locked) and i's taking of
   the master lock.  The master is re-read under the lock: when j has moved it to a
   revision i's tree is not based on, i is refused with OutOfDateTree, the state is the
   one j left (j's revision stays the master tip) and i writes nothing *)
Theorem C23_race_refused_when_master_moved :
  forall s i j c x,
  nth_error (cos s) i = Some c -> is_bound c = true ->
  tip (lbranch c) = tip (mbranch s) -> i <> j ->
  let s1 := snd (commit (mkS (graph s ++ [tparents c]) (mbranch s) (cos s)) j false None) in
  tip (mbranch s1) = Some x -> hd_error (tparents c) <> Some x ->
  commit_race s i j = (Fail OutOfDateTree, s1).
Proof. exact race_refused. Qed.
Print Assumptions C23_race_refused_when_master_moved.

(* conversely a race that succeeds found the master, under its lock, where i's tree is based *)
Theorem C23_race_done_based :
  forall s i j c s',
  nth_error (cos s) i = Some c -> is_bound c = true ->
  tip (lbranch c) = tip (mbranch s) -> i <> j ->
  commit_race s i j = (Done, s') ->
  let s1 := snd (commit (mkS (graph s ++ [tparents c]) (mbranch s) (cos s)) j false None) in
  (tip (mbranch s1) = None \/ tip (mbranch s1) = hd_error (tparents c)) /\
  tip (mbranch s') = Some (length (graph s)).
Proof. exact race_done_based. Qed.
Print Assumptions C23_race_done_based.

Example C23_race_refused_ex :
  exists s1 c2, commit_race (init [false; true; true] true) 1 2 = (Fail OutOfDateTree, s1) /\
    tip (mbranch s1) = Some 2 /\ nth_error (cos s1) 2 = Some c2 /\ tip (lbranch c2) = Some 2.
Proof. eexists. eexists. repeat split; reflexivity. Qed.

(* ---- master first ---------------------------------------------------------------- *)

(* the writes of a bound commit, in order: master tip, local tip, tree basis *)
Theorem C23_master_first_plan :
  forall s i c ws,
  is_bound c = true -> commit_plan s i c false = inr ws ->
  ws = [WMaster (new_branch s (mbranch s)); WLocal i (new_branch s (mbranch s)); WTree i [length (graph s)]]
  /\ tip (lbranch c) = tip (mbranch s)
  /\ (tip (mbranch s) = None \/ hd_error (tparents c) = tip (mbranch s)).
Proof. exact bound_commit_plan. Qed.
Print Assumptions C23_master_first_plan.

(* the fault statement: interrupt a bound commit before its k-th write, any k.
   Each of master tip / local branch / tree is old or new; the local branch is
   new only if the master is (never local ahead); the tree is new only if the
   local branch is; nobody else changes *)
Theorem C23_master_first :
  forall s i c k o s',
  nth_error (cos s) i = Some c -> is_bound c = true ->
  commit s i false (Some k) = (o, s') ->
  let new := length (graph s) in
  exists c', nth_error (cos s') i = Some c' /\
    (tip (mbranch s') = tip (mbranch s) \/ tip (mbranch s') = Some new) /\
    (lbranch c' = lbranch c \/ (tip (lbranch c') = Some new /\ mbranch s' = lbranch c')) /\
    (tparents c' = tparents c \/ (tparents c' = [new] /\ tip (lbranch c') = Some new)) /\
    (forall j, j <> i -> nth_error (cos s') j = nth_error (cos s) j).
Proof. exact master_first. Qed.
Print Assumptions C23_master_first.

(* the window exists: a fault between the two tip writes leaves the master ahead *)
Example C23_master_first_window :
  exists s' c', commit (init [false; true; false] true) 1 false (Some 1) = (Fail InjectedFault, s') /\
    nth_error (cos s') 1 = Some c' /\ tip (mbranch s') = Some 1 /\ tip (lbranch c') = Some 0.
Proof. eexists. eexists. repeat split; reflexivity. Qed.

(* ---- --local ------------------------------------------------------------------------ *)

(* a --local commit (with or without a fault) never touches the master or another
   checkout; when it succeeds the local branch alone gets the new revision *)
Theorem C23_local_commit_only_local :
  forall s i f o s',
  commit s i true f = (o, s') ->
  mbranch s' = mbranch s /\
  (forall j, j <> i -> nth_error (cos s') j = nth_error (cos s) j) /\
  (o = Done -> exists c, nth_error (cos s) i = Some c /\ is_bound c = true /\
                nth_error (cos s') i = Some (mkC (heavy c) (new_branch s (lbranch c)) (bound c) [length (graph s)]) /\
                graph s' = graph s ++ [tparents c]).
Proof. exact local_commit_only_local. Qed.
Print Assumptions C23_local_commit_only_local.

Example C23_local_commit_only_local_ex :
  exists s', commit (init [false; true; false] true) 1 true None = (Done, s') /\ tip (mbranch s') = Some 0.
Proof. eexists. split; reflexivity. Qed.

(* ---- update ---------------------------------------------------------------------------- *)

(* The full statement "update leaves the local branch equal to the master" is
   FALSE of the model (and of the code, see notes/C23.md): with an empty master
   BzrBranch.update pulls nothing and a locally committed revision stays. *)
Theorem C23_update_equalises_refuted :
  exists s i c s' c',
    s = run (init [true] false) [Commit 0 true None] /\
    nth_error (cos s) i = Some c /\ is_bound c = true /\
    update s i = (Done, s') /\ nth_error (cos s') i = Some c' /\
    tip (lbranch c') <> tip (mbranch s').
Proof. exact update_equalises_refuted. Qed.
Print Assumptions C23_update_equalises_refuted.

(* guard: the master has a tip ([is_some (tip (mbranch s))]).  Then update in a
   bound checkout always succeeds, the local branch becomes the master's
   (revno, tip), the tree is based on it, the master and everyone else are unchanged *)
Theorem C23_update_equalises_guarded :
  forall s i c t,
  nth_error (cos s) i = Some c -> is_bound c = true -> tip (mbranch s) = Some t ->
  exists s' c', update s i = (Done, s') /\ graph s' = graph s /\ mbranch s' = mbranch s /\
    nth_error (cos s') i = Some c' /\ lbranch c' = mbranch s /\ hd_error (tparents c') = Some t /\
    bound c' = bound c /\ heavy c' = heavy c /\
    (forall j, j <> i -> nth_error (cos s') j = nth_error (cos s) j).
Proof. exact update_equalises_obs. Qed.
Print Assumptions C23_update_equalises_guarded.

Example C23_update_equalises_ex :
  let s := run (init [false; true; false] true) [Commit 1 true None; Commit 2 false None] in
  exists s' c', update s 1 = (Done, s') /\ nth_error (cos s') 1 = Some c' /\
                lbranch c' = mbranch s /\ tparents c' = [2; 1].
Proof. eexists. eexists. repeat split; reflexivity. Qed.

(* update never drops the local commits: in every well-formed state ([good], which
   C23_reachable_well_formed shows for all reachable states), whatever the tree was
   based on (up to date, or left behind its branch by an interrupted commit) and
   whatever its pending merges, when the local tip o is not in the master's ancestry
   the local branch becomes the master's and o stays in the ancestry of one of the
   tree's parents.  (Before the repair of WorkingTree._update_tree -- /repo b71bd73 --
   this was false for a tree behind its branch; see notes/C23.md.) *)
Theorem C23_update_keeps_local_work :
  forall s i c m o,
  good s -> nth_error (cos s) i = Some c -> is_bound c = true ->
  tip (mbranch s) = Some m -> tip (lbranch c) = Some o ->
  is_ancestor (graph s) o m = false ->
  exists s' c' p, update s i = (Done, s') /\ nth_error (cos s') i = Some c' /\
                  lbranch c' = mbranch s /\ In p (tparents c') /\ is_ancestor (graph s) o p = true.
Proof. exact update_keeps_local_work_good. Qed.
Print Assumptions C23_update_keeps_local_work.

(* without pending merges the tree parents are exactly [master tip; old local tip],
   whatever the tree was based on *)
Theorem C23_update_pivots_exact :
  forall s i c m o b,
  wf_dag (graph s) = true ->
  nth_error (cos s) i = Some c -> is_bound c = true ->
  tip (mbranch s) = Some m -> tip (lbranch c) = Some o -> tparents c = [b] ->
  is_ancestor (graph s) o m = false ->
  exists s' c', update s i = (Done, s') /\ nth_error (cos s') i = Some c' /\
                lbranch c' = mbranch s /\ tparents c' = [m; o].
Proof. exact update_pivots_exact. Qed.
Print Assumptions C23_update_pivots_exact.

(* the old witness of the repaired defect: an interrupted --local commit (branch
   tip written, tree not), then update: the old tip 1 is now a pending merge *)
Example C23_update_keeps_local_work_stale_tree_ex :
  let s := run (init [false; true; false] true) [Commit 1 true (Some 1)] in
  exists c s' c', nth_error (cos s) 1 = Some c /\ tip (lbranch c) = Some 1 /\ tparents c = [0] /\
    update s 1 = (Done, s') /\ nth_error (cos s') 1 = Some c' /\
    tip (lbranch c') = Some 0 /\ tparents c' = [0; 1].
Proof. eexists. eexists. eexists. repeat split; reflexivity. Qed.

(* a lightweight or unbound checkout: update moves only the tree, onto its branch's tip *)
Theorem C23_update_tree_only :
  forall s i c t,
  nth_error (cos s) i = Some c -> is_bound c = false -> tip (branch_of s c) = Some t ->
  exists ps, update s i = (Done, apply_write s (WTree i ps)) /\ hd_error ps = Some t.
Proof. exact update_tree_only. Qed.
Print Assumptions C23_update_tree_only.

(* ---- pull ---------------------------------------------------------------------------------- *)

(* pull from the master into a heavyweight checkout without unmerged local
   commits (guard: the local tip is an ancestor-or-equal of the master tip):
   succeeds and equalises; the master and everyone else are unchanged *)
Theorem C23_pull_from_master_equalises_guarded :
  forall s i c,
  wf_dag (graph s) = true ->
  nth_error (cos s) i = Some c -> heavy c = true ->
  is_anc_opt (graph s) (tip (lbranch c)) (tip (mbranch s)) = true ->
  exists s' c', pull s i SMaster None = (Done, s') /\ mbranch s' = mbranch s /\
    nth_error (cos s') i = Some c' /\ tip (lbranch c') = tip (mbranch s) /\
    (forall j, j <> i -> nth_error (cos s') j = nth_error (cos s) j).
Proof. exact pull_from_master_equalises. Qed.
Print Assumptions C23_pull_from_master_equalises_guarded.

(* without the guard equality can fail: with local commits on top of the master's
   tip the pull succeeds and changes nothing *)
Theorem C23_pull_from_master_equalises_refuted :
  exists s s' c',
    s = run (init [true] true) [Commit 0 true None] /\
    pull s 0 SMaster None = (Done, s') /\ nth_error (cos s') 0 = Some c' /\
    tip (lbranch c') <> tip (mbranch s').
Proof. eexists. eexists. eexists. repeat split; try reflexivity. cbn. discriminate. Qed.
Print Assumptions C23_pull_from_master_equalises_refuted.

(* in every case a successful pull from the master leaves the master's tip in
   the local branch's ancestry, and the master untouched *)
Theorem C23_pull_from_master_contains :
  forall s i c s',
  wf_dag (graph s) = true ->
  nth_error (cos s) i = Some c -> heavy c = true ->
  pull s i SMaster None = (Done, s') ->
  mbranch s' = mbranch s /\
  exists c', nth_error (cos s') i = Some c' /\
             is_anc_opt (graph s) (tip (mbranch s)) (tip (lbranch c')) = true.
Proof. exact pull_from_master_contains. Qed.
Print Assumptions C23_pull_from_master_contains.

(* diverged: DivergedBranches, nothing changes *)
Theorem C23_pull_diverged_refused :
  forall s i c t m,
  wf_dag (graph s) = true ->
  nth_error (cos s) i = Some c -> heavy c = true ->
  tip (lbranch c) = Some t -> tip (mbranch s) = Some m ->
  is_ancestor (graph s) t m = false -> is_ancestor (graph s) m t = false ->
  pull s i SMaster None = (Fail (BU DivergedBranches), s).
Proof. exact pull_diverged_refused. Qed.
Print Assumptions C23_pull_diverged_refused.

(* a successful pull from ANY source, with or without a stop revision ([back = Some k]:
   pull -r <k-th left-hand ancestor of the source tip>), keeps a bound checkout that is
   in step with its master in step (the master is pulled into first, by the same rule
   and with the same stop revision) *)
Theorem C23_pull_keeps_in_step :
  forall s i c sr back s',
  wf_dag (graph s) = true ->
  nth_error (cos s) i = Some c -> is_bound c = true ->
  tip (lbranch c) = tip (mbranch s) ->
  pull s i sr back = (Done, s') ->
  exists c', nth_error (cos s') i = Some c' /\ tip (lbranch c') = tip (mbranch s').
Proof. exact pull_keeps_in_step. Qed.
Print Assumptions C23_pull_keeps_in_step.

(* pull -r from a third branch: master and local end together on the old tip or on
   the REQUESTED revision -- the master does not receive more than was asked for *)
Theorem C23_pull_stop_both :
  forall s i c j cj back s',
  wf_dag (graph s) = true ->
  nth_error (cos s) i = Some c -> is_bound c = true ->
  nth_error (cos s) j = Some cj -> heavy cj = true ->
  tip (lbranch c) = tip (mbranch s) ->
  pull s i (SCo j) back = (Done, s') ->
  let e := eff_stop (lbranch cj) (stop_back (graph s) (lbranch cj) back) in
  (tip (mbranch s') = tip (mbranch s) \/ tip (mbranch s') = e) /\
  exists c', nth_error (cos s') i = Some c' /\ tip (lbranch c') = tip (mbranch s').
Proof. exact pull_stop_both. Qed.
Print Assumptions C23_pull_stop_both.

Example C23_pull_stop_both_ex :
  let s := run (init [false; true; true] true) [Commit 2 true None; Commit 2 true None; Commit 2 true None] in
  exists s' c', pull s 1 (SCo 2) (Some 1) = (Done, s') /\ nth_error (cos s') 1 = Some c' /\
                tip (lbranch c') = Some 2 /\ tip (mbranch s') = Some 2.
Proof. eexists. eexists. repeat split; reflexivity. Qed.

Example C23_pull_keeps_in_step_ex :
  let s := run (init [false; true; true] true) [Commit 2 true None] in
  exists s' c', pull s 1 (SCo 2) None = (Done, s') /\ nth_error (cos s') 1 = Some c' /\
                tip (lbranch c') = Some 1 /\ tip (mbranch s') = Some 1.
Proof. eexists. eexists. repeat split; reflexivity. Qed.

(* ---- all reachable states ------------------------------------------------------------------- *)

(* from a master (empty or with a root) and any checkouts of it, after ANY
   operation sequence (faults included): the graph is well formed and without
   ghosts and every tip and tree parent is a revision of it *)
Theorem C23_reachable_well_formed :
  forall kinds root ops, good (run (init kinds root) ops).
Proof. intros kinds root ops. apply good_run. apply good_init. Qed.
Print Assumptions C23_reachable_well_formed.

(* the invariant: unless a --local commit or an unbind happened, no heavyweight
   checkout is ever ahead of or diverged from the master -- its tip is an
   ancestor-or-equal of the master's -- in every reachable state, faults included *)
Theorem C23_reachable_never_ahead :
  forall kinds root ops c,
  forallb nolocal ops = true ->
  let s := run (init kinds root) ops in
  In c (cos s) -> heavy c = true ->
  is_anc_opt (graph s) (tip (lbranch c)) (tip (mbranch s)) = true.
Proof. exact reachable_never_ahead. Qed.
Print Assumptions C23_reachable_never_ahead.

(* the same for any starting state that satisfies the invariant *)
Theorem C23_never_ahead_invariant :
  forall ops s, good s -> behind s -> forallb nolocal ops = true ->
  good (run s ops) /\ behind (run s ops).
Proof. exact never_ahead. Qed.
Print Assumptions C23_never_ahead_invariant.

(* the restriction is needed: one --local commit puts the checkout ahead *)
Example C23_never_ahead_needs_nolocal :
  let s := run (init [true] true) [Commit 0 true None] in
  exists c, In c (cos s) /\ heavy c = true /\
            is_anc_opt (graph s) (tip (lbranch c)) (tip (mbranch s)) = false.
Proof. eexists. split; [left; reflexivity|]. split; reflexivity. Qed.

Example C23_never_ahead_ex :
  forallb nolocal [Commit 1 false (Some 1); Update 1; Commit 2 false None; Pull 1 SMaster (Some 1); Bind 1] = true.
Proof. reflexivity. Qed.
