(* Properties/C40.v -- placeholder while the theory is being written. *)
From Coq Require Import ZArith NArith List Bool.
From BV Require Import Lib.Bytes Model.Directive Model.BundleSet.
Import ListNotations.

Theorem C40_placeholder : verify_patch [] [] = true.
Proof. reflexivity. Qed.
Print Assumptions C40_placeholder.
