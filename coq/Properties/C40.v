(* Properties/C40.v -- Bundles and merge directives reproduce the revisions they carry.
   Statements only.  Models: Model/Directive.v (hand model of MergeDirective2.to_lines /
   from_lines incl. the RIO-patch layer of bzrformats, of format_patch_date / parse_patch_date,
   of _verify_patch and of the v4 record names) and Model/BundleSet.v (bundle contents as
   revision sets over Lib/Dag).  Proofs: Theory/Directive{Date,Rio,Stanza,Codec}.v, Theory/BundleSet.v.

   A directive is the record [directive]; strings are their UTF-8 bytes; the time is
   (whole seconds, nanoseconds).  [dir_ok] is the executable guard found by the proof:
     - date_ok: offset in whole minutes, |offset| < 24 h, local time within 1970..9999, time <> 0
       (the former exclusion of negative non-whole-hour offsets is gone: parse_patch_date was
       repaired on 2026-09-22, finding C40-patch-date-negative-minutes);
     - d_nanos = 0 (the format keeps whole seconds);
     - a source branch or a bundle is present, testament_sha1 is present and ASCII;
     - no line of the patch starts with "# Begin bundle";
     - every line of every field value neither ends with CR (rio's trim_newline drops it) nor
       has a backslash unless its escaped RIO line fits the 68 columns (to_patch_lines may cut an
       escaped backslash in two).
   Each excluded class has a machine-checked witness below (replayed on the real code by
   harness/props/c40.py: corpus()). *)
From Coq Require Import String ZArith NArith List Bool.
From BV Require Import Lib.Bytes Lib.Obs Lib.Dag Model.OsUtils Model.Directive Model.BundleSet
  Theory.DirectiveDate Theory.DirectiveRio Theory.DirectiveStanza Theory.DirectiveCodec Theory.BundleSet.
Import ListNotations.

(* ---- the merge-directive codec ---------------------------------------------------------- *)
(* The full statement "forall d, from_lines (to_lines d) = Ok d" is false of the faithful model
   (witnesses below); this is the strongest guarded version. *)
Theorem C40_directive_roundtrip_guarded :
  forall d, dir_ok d = true -> exists ls, to_lines d = ROk ls /\ from_lines ls = ROk d.
Proof. exact directive_roundtrip. Qed.
Print Assumptions C40_directive_roundtrip_guarded.

(* the environment layer on its own: any stanza, any following lines *)
Theorem C40_stanza_roundtrip_guarded :
  forall st rest, stanza_ok st = true ->
    read_patch_stanza (to_patch_lines st ++ TERMINATOR :: rest) = (ROk (Some st), rest).
Proof. exact read_patch_stanza_roundtrip. Qed.
Print Assumptions C40_stanza_roundtrip_guarded.

Theorem C40_patch_date_roundtrip_guarded :
  forall secs offset, date_ok secs offset = true ->
    exists s, format_patch_date secs offset = Some s /\ parse_patch_date s = Some (secs, offset).
Proof. exact date_roundtrip. Qed.
Print Assumptions C40_patch_date_roundtrip_guarded.

(* accepted by the constructor and by to_lines, but not read back as written *)
Theorem C40_directive_roundtrip_refuted :
  (exists d, serialises d = true /\ roundtrips d = false /\ d_message d = Some (asc "a" ++ [CR])) /\
  (exists d, serialises d = true /\ roundtrips d = false /\
             d_message d = Some (repeat 120%N 58 ++ [BSL] ++ asc "yyyy")) /\
  (exists d, serialises d = true /\ roundtrips d = false /\ d_nanos d = 750000000%Z) /\
  (exists d, serialises d = true /\ roundtrips d = false /\
             d_patch d = Some (asc "a" ++ [LF] ++ BEGIN_BUNDLE ++ [LF] ++ asc "b" ++ [LF])).
Proof.
  split; [exists (with_message (asc "a" ++ [CR]));
          exact (conj (proj1 roundtrip_refuted_cr) (conj (proj2 roundtrip_refuted_cr) eq_refl))|].
  split; [exists (with_message (repeat 120%N 58 ++ [BSL] ++ asc "yyyy"));
          exact (conj (proj1 roundtrip_refuted_backslash) (conj (proj2 roundtrip_refuted_backslash) eq_refl))|].
  split; [exists (with_zone 750000000 3600);
          exact (conj (proj1 roundtrip_refuted_subsecond) (conj (proj2 roundtrip_refuted_subsecond) eq_refl))|].
  exists (with_payload (Some (asc "a" ++ [LF] ++ BEGIN_BUNDLE ++ [LF] ++ asc "b" ++ [LF])) (Some (asc "QUJD"))).
  exact (conj (proj1 roundtrip_refuted_marker) (conj (proj2 roundtrip_refuted_marker) eq_refl)).
Qed.
Print Assumptions C40_directive_roundtrip_refuted.

(* regression for the repaired finding C40-patch-date-negative-minutes: "-0330" *)
Example C40_patch_date_negative_minutes :
  (format_patch_date 1000000 (-12600) = Some (asc "1970-01-12 10:16:40 -0330") /\
   parse_patch_date (asc "1970-01-12 10:16:40 -0330") = Some (1000000, -12600)%Z) /\
  dir_ok (with_zone 0 (-12600)) = true.
Proof. exact (conj date_negative_minutes (proj1 roundtrip_negative_minutes)). Qed.

(* read back from a file (the text split at LF): proved by correspondence only; the extra
   excluded class is a patch without final newline followed by a bundle *)
Theorem C40_directive_text_roundtrip_partial :
  (exists d, roundtrips_text d = true /\ d_patch d = Some (asc "+a" ++ [CR; LF] ++ asc "-b" ++ [CR] ++ asc "c" ++ [LF])) /\
  (exists d, dir_ok d = true /\ roundtrips d = true /\ roundtrips_text d = false).
Proof.
  split.
  - exists (with_payload (Some (asc "+a" ++ [CR; LF] ++ asc "-b" ++ [CR] ++ asc "c" ++ [LF])) (Some (asc "QUJD"))).
    exact (conj text_roundtrip_example eq_refl).
  - exists (with_payload (Some (asc "abc")) (Some (asc "QUJD"))).
    exact text_roundtrip_refuted_no_final_newline.
Qed.
Print Assumptions C40_directive_text_roundtrip_partial.

Example C40_dir_ok_satisfiable :
  dir_ok base_directive = true /\
  dir_ok (with_message (asc "caf" ++ [195; 169]%N ++ asc " " ++ repeat 120%N 70 ++ asc " x-y/z  " ++ [LF]
                        ++ asc "C:\dir\file" ++ [LF; 9%N] ++ asc "tab ")) = true.
Proof. exact (conj (proj1 dir_ok_example) dir_ok_example_long). Qed.

(* ---- tampering ------------------------------------------------------------------------------ *)
(* Full statement "changing any byte of the patch block makes verification fail" is false:
   _verify_patch normalises line ends and trailing blanks.  Guarded: a changed byte that is not a
   blank / CR / LF (before and after) is detected, for every patch and every position. *)
Theorem C40_tamper_detected_guarded :
  forall p i old new,
    nth_error p i = Some old -> is_blank old = false -> is_blank new = false -> old <> new ->
    maybe_verify (Some (set_byte i new p)) p = "failed"%string.
Proof. exact tamper_byte_detected. Qed.
Print Assumptions C40_tamper_detected_guarded.

(* more generally: whatever differs outside blanks is detected *)
Theorem C40_verify_detects :
  forall stored calculated,
    strip_ws stored <> strip_ws calculated -> verify_patch stored calculated = false.
Proof. exact verify_detects. Qed.
Print Assumptions C40_verify_detects.

Theorem C40_verify_accepts_same : forall p, verify_patch p p = true.
Proof. exact verify_same. Qed.
Print Assumptions C40_verify_accepts_same.

Theorem C40_tamper_detected_refuted :
  exists p i new, set_byte i new p <> p /\ maybe_verify (Some (set_byte i new p)) p = "verified"%string.
Proof. exact tamper_blank_refuted. Qed.
Print Assumptions C40_tamper_detected_refuted.

(* bundle records carry the sha1 of their text: over an abstract hash H that is collision-free
   on the two texts compared, a changed text is refused *)
Section Hash.
  Variable H : bytes -> bytes.
  Theorem C40_record_tamper_detected :
    forall text text', (text' <> text -> H text' <> H text) -> text' <> text ->
      install_record H text' (H text) = RErr "BadBundle".
  Proof. exact (record_tamper_detected H). Qed.
  Theorem C40_record_accepts_same : forall text, install_record H text (H text) = ROk text.
  Proof. intros text. unfold install_record. rewrite record_ok_same. reflexivity. Qed.
End Hash.
Print Assumptions C40_record_tamper_detected.
Print Assumptions C40_record_accepts_same.

(* ---- v4 record names ------------------------------------------------------------------------ *)
Theorem C40_record_name_roundtrip_guarded :
  forall kind later, names_ok later = true ->
    decode_names (join [SLASH] (map esc_slash (kind :: later))) = kind :: later.
Proof. exact decode_names_roundtrip. Qed.
Print Assumptions C40_record_name_roundtrip_guarded.

Theorem C40_record_name_refuted :
  exists r f, encode_name (asc "file") (Some r) (Some f) = ROk (asc "file/r1///x") /\
              decode_name (asc "file/r1///x") <> (asc "file", Some r, Some f).
Proof. exact record_name_refuted. Qed.
Print Assumptions C40_record_name_refuted.

(* ---- bundle contents as a set (P-spec) ---------------------------------------------------- *)
Local Open Scope nat_scope.
(* P = what a repository stores for a revision (parents, inventory, texts, metadata: what the
   testament attests); pay = the source repository's payload.  install (bundle ...) into a
   repository that has the base's present ancestry is, as a finite map, what fetch gives. *)
Theorem C40_install_eq_fetch :
  forall (P : Type) (pay : revid -> P) g base tgt (s : store P),
    base_closed g base s ->
    forall r, lookup (install (bundle P pay g base tgt) s) r = lookup (fetch P pay g s tgt) r.
Proof. exact install_eq_fetch. Qed.
Print Assumptions C40_install_eq_fetch.

Theorem C40_install_complete :
  forall (P : Type) (pay : revid -> P) g base tgt (s : store P),
    base_closed g base s ->
    forall a, In a (ancestors g [tgt]) -> present g a = true ->
              lookup (install (bundle P pay g base tgt) s) a <> None.
Proof. exact install_complete. Qed.
Print Assumptions C40_install_complete.

Theorem C40_install_payloads :
  forall (P : Type) (pay : revid -> P) g base tgt (s : store P) r,
    lookup (install (bundle P pay g base tgt) s) r =
    match lookup s r with
    | Some x => Some x
    | None => if memb r (bundle_ids g base tgt) then Some (pay r) else None
    end.
Proof. exact install_payloads. Qed.
Print Assumptions C40_install_payloads.

Theorem C40_install_without_base_refuted :
  exists g base tgt r,
    lookup (install (bundle nat (fun x => x) g base tgt) []) r = None /\
    lookup (fetch nat (fun x => x) g [] tgt) r = Some r.
Proof. exact install_without_base_refuted. Qed.
Print Assumptions C40_install_without_base_refuted.

Example C40_install_satisfiable :
  let g := [[]; [0]; [0]; [1; 2]; [3]] in
  let s := store_of [0; 2] in
  base_closedb g (Some 2) s = true /\
  sort_ids (map fst (install (bundle nat (fun x => x) g (Some 2) 4) s)) = [0; 1; 2; 3; 4].
Proof. exact install_example. Qed.
