(* Properties/C28.v -- Reentrant locking acquires and releases the physical lock exactly once.
   cl_* / lf_* are the programs generated from breezy/counted_lock.py and
   breezy/bzr/lockable_files.py on every run (Gen/CountedLock.v, Gen/LockableFiles.v), given
   meaning by the interpreter Lib/PyImp.v; the collaborator (the real lock) is an arbitrary
   reply script, so failures of the real lock are quantified over too.
   PackRepository is a hand model (Model/ReentrantRun.v) tied by correspondence. *)
From Coq Require Import ZArith List String Bool.
From BV Require Import Lib.PyImp Gen.CountedLock Gen.LockableFiles Model.ReentrantRun.
From BV Require Theory.CountedLock Theory.LockableFiles Theory.PackRepoLock.
Import ListNotations.
Open Scope string_scope.
Open Scope Z_scope.

Module CL := Theory.CountedLock.
Module LF := Theory.LockableFiles.
Module PR := Theory.PackRepoLock.

(* -- CountedLock: any call sequence, collaborator never failing: acquisitions minus releases
      on the real lock is 1 exactly while the count is positive, else 0 *)
Theorem C28_counted_lock_acquire_release_once : forall ops env,
  CL.all_ok env ->
  let '(s', _, evs') := CL.run ops CL.cl_init env [] in
  (CL.balance evs' = 0 \/ CL.balance evs' = 1) /\ (CL.balance evs' = 1 <-> 0 < CL.count_of s').
Proof. exact CL.acquire_release_once. Qed.

(* -- the representation invariant survives ANY call sequence and ANY collaborator behaviour *)
Theorem C28_counted_lock_invariant : forall ops s env evs,
  CL.Inv s -> CL.Inv (fst (fst (CL.run ops s env evs))).
Proof. exact CL.Inv_run. Qed.

Theorem C28_counted_lock_write_after_read_refused : forall c ot tok env,
  0 < c ->
  CL.step (CL.LockWrite tok) (CL.cl_store (VStr "r") c ot) env =
  mkResult (CL.cl_store (VStr "r") c ot) [] [] env (FRaise "ReadOnlyError").
Proof. exact CL.write_after_read_refused. Qed.

Theorem C28_counted_lock_over_unlock_refused : forall m ot env,
  CL.step CL.Unlock (CL.cl_store m 0 ot) env =
  mkResult (CL.cl_store m 0 ot) [] [] env (FRaise "LockNotHeld").
Proof. exact CL.over_unlock_refused. Qed.

Theorem C28_counted_lock_token_validated_not_reacquired : forall c t tok env,
  0 < c ->
  let r := CL.step (CL.LockWrite tok) (CL.cl_store (VStr "w") c (Some t)) env in
  r_events r = [("validate_token", [tok])] /\
  match fst (pop_reply env) with
  | RepOk _ => r_self r = CL.cl_store (VStr "w") (c + 1) (Some t) /\ r_flow r = FReturn t
  | RepRaise e => r_self r = CL.cl_store (VStr "w") c (Some t) /\ r_flow r = FRaise e
  end.
Proof. exact CL.reentrant_write_validates. Qed.

Theorem C28_counted_lock_failed_acquire_unchanged : forall o ot e env,
  o = CL.LockRead \/ (exists tok, o = CL.LockWrite tok) ->
  let r := CL.step o (CL.cl_store VNone 0 ot) (RepRaise e :: env) in
  r_self r = CL.cl_store VNone 0 ot /\ r_flow r = FRaise e.
Proof. exact CL.failed_acquire_unchanged. Qed.

(* -- LockableFiles *)
Theorem C28_lockable_files_acquire_release_once : forall ops env,
  LF.all_ok env ->
  let '(s', _, evs') := LF.run ops LF.lf_init env [] in
  (LF.balance evs' = 0 \/ LF.balance evs' = 1) /\ (LF.balance evs' = 1 <-> 0 < LF.count_of s').
Proof. exact LF.acquire_release_once. Qed.

Theorem C28_lockable_files_invariant : forall ops s env evs,
  LF.Inv s -> LF.Inv (fst (fst (LF.run ops s env evs))).
Proof. exact LF.Inv_run. Qed.

Theorem C28_lockable_files_write_after_read_refused : forall c ot tok env,
  LF.step (LF.LockWrite tok) (LF.lf_store (VStr "r") (VStr "r") c ot) env =
  mkResult (LF.lf_store (VStr "r") (VStr "r") c ot) [] [] env (FRaise "ReadOnlyError").
Proof. exact LF.write_after_read_refused. Qed.

Theorem C28_lockable_files_over_unlock_refused : forall ot env,
  LF.step LF.Unlock (LF.lf_store VNone VNone 0 ot) env =
  mkResult (LF.lf_store VNone VNone 0 ot) [] [] env (FRaise "LockNotHeld").
Proof. exact LF.over_unlock_refused. Qed.

Theorem C28_lockable_files_failed_release_forgets : forall x ot e env,
  LF.rw x ->
  let r := LF.step LF.Unlock (LF.lf_store x x 1 ot) (RepRaise e :: env) in
  r_self r = LF.lf_store VNone VNone 0 ot /\ r_flow r = LF.swallow e.
Proof. exact LF.failed_release_forgets. Qed.

(* -- PackRepository (hand model): the control-files lock is held exactly while its read count
      is positive; the logical write count never takes a physical lock *)
Theorem C28_pack_repo_physical_iff_counted : forall ops s evs,
  PR.pr_inv s -> PR.pr_balance evs = PR.held01 (cfc s) ->
  let '(s', evs') := PR.pr_steps ops s evs in
  PR.pr_inv s' /\ PR.pr_balance evs' = PR.held01 (cfc s').
Proof. exact PR.pr_physical_iff_counted. Qed.

Theorem C28_pack_repo_write_after_read_refused : forall w c tok,
  w = 0 -> 1 <= c ->
  pr_step (LockWrite tok) {| wlc := w; cfc := c |} = ({| wlc := w; cfc := c |}, PrErr "ReadOnlyError", []).
Proof. exact PR.pr_write_after_read_refused. Qed.

Theorem C28_pack_repo_over_unlock_refused :
  pr_step Unlock {| wlc := 0; cfc := 0 |} = ({| wlc := 0; cfc := 0 |}, PrErr "LockNotHeld", []).
Proof. exact PR.pr_over_unlock_refused. Qed.

Print Assumptions C28_counted_lock_acquire_release_once.
Print Assumptions C28_counted_lock_invariant.
Print Assumptions C28_counted_lock_write_after_read_refused.
Print Assumptions C28_counted_lock_over_unlock_refused.
Print Assumptions C28_counted_lock_token_validated_not_reacquired.
Print Assumptions C28_counted_lock_failed_acquire_unchanged.
Print Assumptions C28_lockable_files_acquire_release_once.
Print Assumptions C28_lockable_files_invariant.
Print Assumptions C28_lockable_files_write_after_read_refused.
Print Assumptions C28_lockable_files_over_unlock_refused.
Print Assumptions C28_lockable_files_failed_release_forgets.
Print Assumptions C28_pack_repo_physical_iff_counted.
Print Assumptions C28_pack_repo_write_after_read_refused.
Print Assumptions C28_pack_repo_over_unlock_refused.
