(* Properties/C46.v -- clean-tree deletes only what was asked for.
   Statements only; model in Model/CleanTree.v (on Lib/DirTree.v), proofs in Theory/CleanTree.v.

   t    the working directory as a tree (symlinks are leaves),   vs  versioned paths (+ "is a directory"),
   ign  the paths tree.is_ignored accepts (oracle),  o  the options (unknown/ignored/detritus/dry_run/prompt answer).
   deletables = what clean_tree hands to unlink/rmtree;  clean = the working directory afterwards.
   kind_at q t = None | Some file/symlink/directory  -- existence and kind of q, without following symlinks. *)
From Coq Require Import NArith List Bool.
From BV Require Import Lib.Bytes Lib.DirTree Model.CleanTree Theory.CleanTree.
Import ListNotations.

(* only unversioned entries of a requested category are selected; descendants of a selected
   unversioned directory go with it (that directory is the unit, as in `brz status`) *)
Theorem C46_only_requested :
  forall fl o ign t vs p,
    wf_node t = true -> In p (deletables fl o ign t vs) ->
    p <> [] /\ (exists n, lookup p t = Some n) /\ versioned vs p = false /\
    ((o_detritus o = true /\ is_detritus p = true) \/
     (o_ignored o = true /\ mem_path p ign = true) \/
     (o_unknown o = true /\ mem_path p ign = false)).
Proof. exact only_requested. Qed.
Print Assumptions C46_only_requested.

(* ... and nothing else changes: a path keeps its kind unless it is at or below a deletable *)
Theorem C46_nothing_else :
  forall fl o ign t vs q,
    (forall p, In p (deletables fl o ign t vs) -> is_prefix p q = false) ->
    kind_at q (clean fl o ign t vs) = kind_at q t.
Proof. exact untouched_unless_below_deletable. Qed.
Print Assumptions C46_nothing_else.

Theorem C46_no_category_nothing :
  forall fl o ign t vs,
    o_unknown o = false -> o_ignored o = false -> o_detritus o = false ->
    deletables fl o ign t vs = [].
Proof. exact no_category_nothing. Qed.
Print Assumptions C46_no_category_nothing.

(* a versioned path q0 and each of its ancestors q survive with their kind *)
Theorem C46_versioned_safe :
  forall o ign t vs q0 q,
    wf_node t = true -> parent_closed vs ->
    versioned vs q0 = true -> is_prefix q q0 = true ->
    kind_at q (clean Bzr o ign t vs) = kind_at q t.
Proof. exact versioned_safe_bzr. Qed.
Print Assumptions C46_versioned_safe.

Theorem C46_versioned_safe_git :
  forall o ign t vs q0 q,
    wf_node t = true ->
    versioned vs q0 = true -> lookup q0 t <> None -> is_prefix q q0 = true ->
    kind_at q (clean Git o ign t vs) = kind_at q t.
Proof. exact versioned_safe_git. Qed.
Print Assumptions C46_versioned_safe_git.

Example C46_versioned_safe_nontrivial :
  exists t vs q0, wf_node t = true /\ versioned vs q0 = true /\ lookup q0 t <> None /\
                  clean Bzr only_unknown [] t vs <> t.
Proof.
  exists (Dir [([118], Dir [([102], File); ([117], File)])])%N,
         [([[118]], true); ([[118]; [102]], false)]%N, [[118]; [102]]%N.
  repeat split; try reflexivity; discriminate.
Qed.

(* every deleted path is a non-root entry of the tree reached through real directories only
   (lookup never traverses a symlink, removal is lstat based: a symlink is unlinked, not followed) *)
Theorem C46_inside_tree :
  forall fl o ign t vs p,
    wf_node t = true -> In p (deletables fl o ign t vs) ->
    p <> [] /\ exists n, lookup p t = Some n.
Proof. exact inside_tree. Qed.
Print Assumptions C46_inside_tree.

Theorem C46_dry_run_noop :
  forall fl o ign t vs, o_dry o = true -> clean fl o ign t vs = t.
Proof. exact dry_run_noop. Qed.
Print Assumptions C46_dry_run_noop.

Theorem C46_declined_noop :
  forall fl o ign t vs, o_confirm o = Some false -> clean fl o ign t vs = t.
Proof. exact declined_noop. Qed.
Print Assumptions C46_declined_noop.

(* NESTED BRANCHES (after the repairs 07ac4fc, edd5827, b06b6de).
   The control directory of EVERY branch in the working directory -- the tree's own, a nested one at
   any depth, of any registered format, in bzr and git trees -- survives with all it holds.  This is the
   former `_guarded`/`_refuted` pair, now unguarded. *)
Theorem C46_nested_branch_safe :
  forall fl o ign t vs a cs c q,
    lookup a t = Some (Dir cs) -> has_control cs = true ->
    is_control_name c = true -> is_prefix (a ++ [c]) q = true ->
    kind_at q (clean fl o ign t vs) = kind_at q t.
Proof. exact control_dirs_safe. Qed.
Print Assumptions C46_nested_branch_safe.

(* an unversioned item that holds a branch root anywhere at or below it is kept with everything it
   contains (the nested branch's working files included) *)
Theorem C46_nested_branch_tree_kept :
  forall fl o ign t vs p s cs q,
    wf_node t = true ->
    In p (extras fl t vs) -> lookup (p ++ s) t = Some (Dir cs) -> has_control cs = true ->
    is_prefix p q = true ->
    kind_at q (clean fl o ign t vs) = kind_at q t.
Proof. exact nested_tree_kept. Qed.
Print Assumptions C46_nested_branch_tree_kept.

(* git trees never delete anything at or below a directory holding a ".git" entry, at any depth *)
Theorem C46_git_nested_git_safe :
  forall o ign t vs a cs q,
    wf_node t = true -> a <> [] ->
    lookup a t = Some (Dir cs) -> has_name n_git cs = true ->
    is_prefix a q = true ->
    kind_at q (clean Git o ign t vs) = kind_at q t.
Proof. exact git_nested_git_safe. Qed.
Print Assumptions C46_git_nested_git_safe.

(* nothing with a control filename (.bzr, .git) among its path components is ever deletable *)
Theorem C46_foreign_control_dirs_safe :
  forall fl o ign t vs p c,
    In p (deletables fl o ign t vs) -> In c p -> is_control_name c = false.
Proof. exact control_names_never_deletable. Qed.
Print Assumptions C46_foreign_control_dirs_safe.

(* ... hence, in a bzr tree, an unversioned .git/.bzr entry (valid control directory or not) directly
   inside the root or a versioned directory survives with everything below it *)
Theorem C46_foreign_control_dirs_kept :
  forall o ign t vs d c q,
    wf_node t = true -> parent_closed vs ->
    (d = [] \/ versioned vs d = true) ->
    is_control_name c = true -> versioned vs (d ++ [c]) = false ->
    is_prefix (d ++ [c]) q = true ->
    kind_at q (clean Bzr o ign t vs) = kind_at q t.
Proof. exact foreign_control_safe_bzr. Qed.
Print Assumptions C46_foreign_control_dirs_kept.

(* the three former witnesses are regression examples now *)
Example C46_foreign_control_witness_now_safe :
  wf_node coloc_tree = true /\ parent_closed coloc_vs /\
  In [n_git] (extras Bzr coloc_tree coloc_vs) /\
  clean Bzr only_unknown [] coloc_tree coloc_vs = coloc_tree.
Proof.
  destruct coloc_now_safe as (H1 & H2 & H3). repeat split; auto. exact coloc_parent_closed.
Qed.

Example C46_deep_nested_witness_now_safe :
  wf_node deep_tree = true /\
  (exists cs, lookup [[117]; [110]]%N deep_tree = Some (Dir cs) /\ has_control cs = true) /\
  In [[117]]%N (extras Bzr deep_tree []) /\
  clean Bzr only_unknown [] deep_tree [] = deep_tree.
Proof. exact deep_now_safe. Qed.

(* RESIDUE: "never a nested branch" read as "nor the working files of a nested branch" is still FALSE
   when the branch root is not (inside) an unversioned item of a bzr tree:
   1. git tree with a nested bzr branch n: n/.bzr stays, the unknown file n/w is deleted;
   2. bzr tree whose versioned directory v is the root of a git repository: v/.git stays, v/k is deleted. *)
Theorem C46_nested_branch_working_files_refuted :
  (exists t n w,
     wf_node t = true /\
     (exists cs, lookup [n] t = Some (Dir cs) /\ has_control cs = true) /\
     kind_at [n; n_bzr; n_branch_format] (clean Git only_unknown [] t []) = Some KFile /\
     kind_at [n; w] (clean Git only_unknown [] t []) = None) /\
  (exists t vs v k,
     wf_node t = true /\
     (exists cs, lookup [v] t = Some (Dir cs) /\ has_control cs = true) /\
     kind_at [v; n_git] (clean Bzr only_unknown [] t vs) = Some KDir /\
     kind_at [v; k] (clean Bzr only_unknown [] t vs) = None).
Proof.
  split.
  - exists gitbzr_tree, [110]%N, [119]%N. exact git_nested_bzr_now.
  - exists bzrgit_tree, bzrgit_vs, [118]%N, [107]%N. exact bzr_versioned_git_root_now.
Qed.
Print Assumptions C46_nested_branch_working_files_refuted.
