(* Properties/C46.v -- clean-tree deletes only what was asked for.
   Statements only; model in Model/CleanTree.v (on Lib/DirTree.v), proofs in Theory/CleanTree.v.

   t    the working directory as a tree (symlinks are leaves),   vs  versioned paths (+ "is a directory"),
   ign  the paths tree.is_ignored accepts (oracle),  o  the options (unknown/ignored/detritus/dry_run/prompt answer).
   deletables = what clean_tree hands to unlink/rmtree;  clean = the working directory afterwards.
   kind_at q t = None | Some file/symlink/directory  -- existence and kind of q, without following symlinks. *)
From Coq Require Import NArith List Bool.
From BV Require Import Lib.Bytes Lib.DirTree Model.CleanTree Theory.CleanTree.
Import ListNotations.

(* only unversioned entries of a requested category are selected; descendants of a selected
   unversioned directory go with it (that directory is the unit, as in `brz status`) *)
Theorem C46_only_requested :
  forall fl o ign t vs p,
    wf_node t = true -> In p (deletables fl o ign t vs) ->
    p <> [] /\ (exists n, lookup p t = Some n) /\ versioned vs p = false /\
    ((o_detritus o = true /\ is_detritus p = true) \/
     (o_ignored o = true /\ mem_path p ign = true) \/
     (o_unknown o = true /\ mem_path p ign = false)).
Proof. exact only_requested. Qed.
Print Assumptions C46_only_requested.

(* ... and nothing else changes: a path keeps its kind unless it is at or below a deletable *)
Theorem C46_nothing_else :
  forall fl o ign t vs q,
    (forall p, In p (deletables fl o ign t vs) -> is_prefix p q = false) ->
    kind_at q (clean fl o ign t vs) = kind_at q t.
Proof. exact untouched_unless_below_deletable. Qed.
Print Assumptions C46_nothing_else.

Theorem C46_no_category_nothing :
  forall fl o ign t vs,
    o_unknown o = false -> o_ignored o = false -> o_detritus o = false ->
    deletables fl o ign t vs = [].
Proof. exact no_category_nothing. Qed.
Print Assumptions C46_no_category_nothing.

(* a versioned path q0 and each of its ancestors q survive with their kind *)
Theorem C46_versioned_safe :
  forall o ign t vs q0 q,
    wf_node t = true -> parent_closed vs ->
    versioned vs q0 = true -> is_prefix q q0 = true ->
    kind_at q (clean Bzr o ign t vs) = kind_at q t.
Proof. exact versioned_safe_bzr. Qed.
Print Assumptions C46_versioned_safe.

Theorem C46_versioned_safe_git :
  forall o ign t vs q0 q,
    wf_node t = true ->
    versioned vs q0 = true -> lookup q0 t <> None -> is_prefix q q0 = true ->
    kind_at q (clean Git o ign t vs) = kind_at q t.
Proof. exact versioned_safe_git. Qed.
Print Assumptions C46_versioned_safe_git.

Example C46_versioned_safe_nontrivial :
  exists t vs q0, wf_node t = true /\ versioned vs q0 = true /\ lookup q0 t <> None /\
                  clean Bzr only_unknown [] t vs <> t.
Proof.
  exists (Dir [([118], Dir [([102], File); ([117], File)])])%N,
         [([[118]], true); ([[118]; [102]], false)]%N, [[118]; [102]]%N.
  repeat split; try reflexivity; discriminate.
Qed.

(* every deleted path is a non-root entry of the tree reached through real directories only
   (lookup never traverses a symlink, removal is lstat based: a symlink is unlinked, not followed) *)
Theorem C46_inside_tree :
  forall fl o ign t vs p,
    wf_node t = true -> In p (deletables fl o ign t vs) ->
    p <> [] /\ exists n, lookup p t = Some n.
Proof. exact inside_tree. Qed.
Print Assumptions C46_inside_tree.

Theorem C46_dry_run_noop :
  forall fl o ign t vs, o_dry o = true -> clean fl o ign t vs = t.
Proof. exact dry_run_noop. Qed.
Print Assumptions C46_dry_run_noop.

Theorem C46_declined_noop :
  forall fl o ign t vs, o_confirm o = Some false -> clean fl o ign t vs = t.
Proof. exact declined_noop. Qed.
Print Assumptions C46_declined_noop.

(* an unversioned directory with a control directory at its top is kept with everything below it *)
Theorem C46_nested_branch_guarded :
  forall fl o ign t vs p cs q,
    wf_node t = true ->
    In p (extras fl t vs) -> lookup p t = Some (Dir cs) -> has_control cs = true ->
    is_prefix p q = true ->
    kind_at q (clean fl o ign t vs) = kind_at q t.
Proof. exact nested_top_kept. Qed.
Print Assumptions C46_nested_branch_guarded.

(* git trees never delete anything at or below a directory holding a ".git" entry, at any depth *)
Theorem C46_git_nested_git_safe :
  forall o ign t vs a cs q,
    wf_node t = true -> a <> [] ->
    lookup a t = Some (Dir cs) -> has_name n_git cs = true ->
    is_prefix a q = true ->
    kind_at q (clean Git o ign t vs) = kind_at q t.
Proof. exact git_nested_git_safe. Qed.
Print Assumptions C46_git_nested_git_safe.

(* control directories of OTHER version control systems (finding C46-foreign-control-dir, repaired
   in /repo by b06b6de: iter_deletables skips every extra whose basename is a control filename of any
   registered format).  Nothing whose basename is .bzr or .git is ever deletable, bzr and git trees: *)
Theorem C46_foreign_control_dirs_safe :
  forall fl o ign t vs p,
    In p (deletables fl o ign t vs) -> is_control_name (last_name p) = false.
Proof. exact control_names_never_deletable. Qed.
Print Assumptions C46_foreign_control_dirs_safe.

(* ... hence, in a bzr tree, an unversioned .git/.bzr entry directly inside the root or a versioned
   directory survives with everything below it *)
Theorem C46_foreign_control_dirs_kept :
  forall o ign t vs d c q,
    wf_node t = true -> parent_closed vs ->
    (d = [] \/ versioned vs d = true) ->
    is_control_name c = true -> versioned vs (d ++ [c]) = false ->
    is_prefix (d ++ [c]) q = true ->
    kind_at q (clean Bzr o ign t vs) = kind_at q t.
Proof. exact foreign_control_safe_bzr. Qed.
Print Assumptions C46_foreign_control_dirs_kept.

(* the former witness (root with .bzr, .git/HEAD and a versioned f): .git is still an extra, and
   `--unknown` now leaves the tree as it is *)
Example C46_foreign_control_witness_now_safe :
  wf_node coloc_tree = true /\ parent_closed coloc_vs /\
  In [n_git] (extras Bzr coloc_tree coloc_vs) /\
  clean Bzr only_unknown [] coloc_tree coloc_vs = coloc_tree.
Proof.
  destruct coloc_now_safe as (H1 & H2 & H3). repeat split; auto. exact coloc_parent_closed.
Qed.

(* "never a nested branch" is still FALSE: two machine-checked witnesses (both replayed on the real code) *)
(* 1. bzr tree, branch at depth 2 below an unknown directory: u/n/.bzr is deleted with `--unknown` *)
Theorem C46_nested_branch_deep_refuted :
  exists t vs u n,
    wf_node t = true /\ parent_closed vs /\
    (exists cs, lookup [u; n] t = Some (Dir cs) /\ has_control cs = true) /\
    kind_at [u; n; n_bzr] (clean Bzr only_unknown [] t vs) = None.
Proof.
  exists deep_tree, [], [117]%N, [110]%N. destruct deep_refuted as (H1 & H2 & H3).
  repeat split; auto. intros a b H. discriminate.
Qed.
Print Assumptions C46_nested_branch_deep_refuted.

(* 2. git tree with a nested bzr branch at depth 1: its control files are deleted one by one *)
Theorem C46_git_nested_bzr_refuted :
  exists t n,
    wf_node t = true /\
    (exists cs, lookup [n] t = Some (Dir cs) /\ has_control cs = true) /\
    kind_at [n; n_bzr; n_branch_format] (clean Git only_unknown [] t []) = None.
Proof.
  exists gitbzr_tree, [110]%N. exact git_nested_bzr_refuted.
Qed.
Print Assumptions C46_git_nested_bzr_refuted.
