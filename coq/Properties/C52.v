(* Properties/C52.v -- Format upgrades and reconfigurations preserve history and trees.
   Statements only.  Models: Model/Reconf52.v (breezy/reconfigure.py), Model/Upgrade52.v
   (breezy/upgrade.py + the converters of breezy/bzr/bzrdir.py, branch.py, workingtree_4.py);
   Gen/Reconfigure.v is regenerated from breezy/reconfigure.py on every run.

   A [world] is the location being reconfigured (own repository / branch or branch reference /
   working tree), the shared repository above it and up to three other branches; revision sets,
   tags and the revision graph are ARBITRARY (unbounded).  [reconfigure t force nb w] is
   Reconfigure.to_<t>(controldir, nb).apply(force): Ok w' when it completes, Fail e w' when a
   factory, _check or a step of apply() raises e (w' = the state left behind).
   eff_tip / eff_tags / eff_revs are the tip, tags and repository content the location shows
   through its branch (followed through a branch reference). *)
From Coq Require Import ZArith List String Bool Arith.
From BV Require Import Lib.PyImp Lib.Dag Gen.Reconfigure Model.Reconf52 Model.Upgrade52
     Theory.Reconf52Gen Theory.Reconf52Wf Theory.Reconf52 Theory.Reconf52Pres Theory.Reconf52Revs
     Theory.Reconf52Refute Theory.Upgrade52.
Import ListNotations.
Open Scope string_scope.

(* ---- tie T: the planning kernel is the code's ------------------------------------------------- *)

(* the program generated from Reconfigure._plan_changes computes Model.plan_changes on every input *)
Theorem C52_plan_changes_is_source :
  forall f wt wb wbd wr,
  gen_plan_changes f wt wb wbd wr =
  match plan_changes f wt wb wbd wr with
  | Some p => (FReturn VNone, Some p)
  | None => (FRaise "ReconfigurationNotSupported", Some plan0)
  end.
Proof. exact gen_plan_changes_correct. Qed.
Print Assumptions C52_plan_changes_is_source.

Theorem C52_set_use_shared_is_source :
  forall lr us, gen_set_use_shared lr us = (FReturn VNone, Some (set_use_shared lr us)).
Proof. exact gen_set_use_shared_correct. Qed.
Print Assumptions C52_set_use_shared_is_source.

Theorem C52_changes_planned_is_source :
  forall p, gen_changes_planned p = FReturn (VBool (changes_planned p)).
Proof. exact gen_changes_planned_correct. Qed.
Print Assumptions C52_changes_planned_is_source.

(* ---- every planned action list reaches the requested layout ---------------------------------- *)

(* for the four layout factories (branch / tree / checkout / lightweight checkout), every world,
   every bind location, with or without force: a completed apply() leaves exactly the wanted
   (has tree, has own branch, bound, is a reference to an existing branch) *)
Theorem C52_plan_reaches_target :
  forall t force nb w w' wn,
  wants t = Some wn -> reconfigure t force nb w = Ok w' -> facts_reached (facts_of w') wn = true.
Proof. exact reaches_target. Qed.
Print Assumptions C52_plan_reaches_target.

(* ---- what a completed reconfiguration preserves ------------------------------------------------ *)

Theorem C52_preserves_tip :
  forall t nb w w' tp,
  reconfigure t false nb w = Ok w' -> eff_tip w = Some tp -> eff_tip w' = Some tp.
Proof. exact preserves_tip. Qed.
Print Assumptions C52_preserves_tip.

(* without _check (force=True) the tip is NOT protected; without force the same call is refused *)
Theorem C52_preserves_tip_forced_refuted :
  exists w w', reconfigure TLightweight true (Some 2) w = Ok w'
               /\ eff_tip w = Some (Some 4) /\ eff_tip w' = Some (Some 1)
               /\ reconfigure TLightweight false (Some 2) w = Fail "UnsyncedBranches" w.
Proof. exact preserves_tip_forced_refuted. Qed.
Print Assumptions C52_preserves_tip_forced_refuted.

(* the working tree (parents = basis + pending merges, uncommitted changes) is either untouched or
   removed -- and removed without force only when it had no changes *)
Theorem C52_preserves_tree :
  forall t force nb w w' tr,
  reconfigure t force nb w = Ok w' -> w_tree w = Some tr ->
  w_tree w' = Some tr \/ (w_tree w' = None /\ (force = false -> tree_has_changes tr = false)).
Proof. exact preserves_tree. Qed.
Print Assumptions C52_preserves_tree.

Theorem C52_uncommitted_changes_refused :
  forall t nb w p tr,
  factory w t = inl p -> p_destroy_tree p = true -> w_tree w = Some tr -> tree_has_changes tr = true ->
  reconfigure t false nb w = Fail "UncommittedChanges" w.
Proof. exact uncommitted_changes_refused. Qed.
Print Assumptions C52_uncommitted_changes_refused.

(* tags: FALSE in general (to_lightweight_checkout merges into the reference, which wins a clash) *)
Theorem C52_preserves_tags_refuted :
  exists w w', reconfigure TLightweight false (Some 2) w = Ok w'
               /\ no_tag_clash TLightweight (Some 2) w = false
               /\ tag_lookup 0 (eff_tags w) = Some 2 /\ tag_lookup 0 (eff_tags w') = Some 1.
Proof. exact preserves_tags_refuted. Qed.
Print Assumptions C52_preserves_tags_refuted.

Theorem C52_preserves_tags_guarded :
  forall t force nb w w' n r,
  reconfigure t force nb w = Ok w' -> no_tag_clash t nb w = true ->
  tag_lookup n (eff_tags w) = Some r -> tag_lookup n (eff_tags w') = Some r.
Proof. exact preserves_tags_guarded. Qed.
Print Assumptions C52_preserves_tags_guarded.

(* no revision stored anywhere in the world is lost -- unconditional since ea08d31 (apply() always fetches
   out of the repository it destroys, or refuses first) *)
Theorem C52_no_revision_lost :
  forall t force nb w w',
  reconfigure t force nb w = Ok w' -> forall r, In r (all_revs w) -> In r (all_revs w').
Proof. exact no_revision_lost. Qed.
Print Assumptions C52_no_revision_lost.

(* the revisions reachable from the tip AND the pending merges of a kept tree (fetched since 300cbf1) stay in
   the branch's repository -- proved when the location ends with a branch of its own (kept, or created from a
   reference); the to_lightweight_checkout case and a kept reference are covered by the correspondence run
   only (notes/C52.md) *)
Theorem C52_preserves_ancestry_partial :
  forall t force nb w w' p tp,
  factory w t = inl p -> p_create_reference p = false ->
  has_local w = true \/ p_create_branch p = true ->
  reconfigure t force nb w = Ok w' -> eff_tip w = Some tp ->
  forall r, In r (fetched (w_g w) (eff_revs w) tp)
            \/ (In r (pending_of p w) /\ In r (eff_revs w)) -> In r (eff_revs w').
Proof. exact preserves_ancestry_partial. Qed.
Print Assumptions C52_preserves_ancestry_partial.

Theorem C52_pending_merges_kept_partial :
  forall t force nb w w' p tp tr,
  factory w t = inl p -> p_create_reference p = false ->
  has_local w = true \/ p_create_branch p = true ->
  reconfigure t force nb w = Ok w' -> eff_tip w = Some tp ->
  w_tree w = Some tr -> p_destroy_tree p = false ->
  forall m, In m (List.tl (t_parents tr)) -> In m (eff_revs w) -> In m (eff_revs w').
Proof. exact pending_merges_kept_partial. Qed.
Print Assumptions C52_pending_merges_kept_partial.

(* ---- refusals ---------------------------------------------------------------------------------------- *)

Theorem C52_refusal_by_factory_unchanged :
  forall t force nb w e, factory w t = inr e -> reconfigure t force nb w = Fail e w.
Proof. exact refusal_by_factory_unchanged. Qed.
Print Assumptions C52_refusal_by_factory_unchanged.

Theorem C52_refusal_by_check_unchanged :
  forall t nb w p e, factory w t = inl p -> check p w nb = Some e -> reconfigure t false nb w = Fail e w.
Proof. exact refusal_by_check_unchanged. Qed.
Print Assumptions C52_refusal_by_check_unchanged.

(* the branch to bind to is resolved before anything is changed (00bc7de), with or without force ... *)
Theorem C52_refusal_by_bind_unchanged :
  forall t nb w p e,
  factory w t = inl p -> check p w nb = None -> pre_bind p w nb = Some e ->
  forall force, reconfigure t force nb w = Fail e w.
Proof. exact refusal_by_bind_unchanged. Qed.
Print Assumptions C52_refusal_by_bind_unchanged.

(* ... and the bind step itself can no longer refuse *)
Theorem C52_bind_step_cannot_refuse :
  forall p w0 nb w b,
  pre_bind p w0 nb = None -> w_branch w = BLocal b -> exists w', step_bind p w0 nb w = Ok w'.
Proof. exact bind_step_cannot_refuse. Qed.
Print Assumptions C52_bind_step_cannot_refuse.

(* ---- format upgrades (specification level) ----------------------------------------------------------- *)

(* whatever upgrade.Convert does -- finish or refuse -- the payload is carried through: the revision set, the
   tree's parents and changes, the branch's tip/parent/bound/push location; tags too unless a format-5 branch
   (which has none) is converted (see payload_rel) *)
Theorem C52_upgrade_preserves :
  forall d f, payload_rel d (cdir_of (convert d f)).
Proof. exact upgrade_preserves. Qed.
Print Assumptions C52_upgrade_preserves.

Theorem C52_upgrade_reaches_format :
  forall d f d', convert d f = Done d' -> needs_conv d' f = false.
Proof. exact upgrade_reaches_format. Qed.
Print Assumptions C52_upgrade_reaches_format.

(* on every combination of known formats -- upgrade or downgrade, colo or not -- the driver finishes
   (e09d9b1, 69d43de); payload fixed: its irrelevance is not proved *)
Theorem C52_upgrade_terminates_partial :
  forall d f, In d skel_dirs -> In f skel_targets -> finishes (convert d f) = true.
Proof. exact upgrade_terminates_partial. Qed.
Print Assumptions C52_upgrade_terminates_partial.
