(* Properties/C10.v -- All tree-comparison implementations report the same changes.
   Statements only.  Library: Lib/Tree.v; model of the generic walker,
   _handle_precise_ids and the CHK glue: Model/TreeCompare.v; proofs:
   Theory/TreeFacts.v, Theory/TreeCompare.v.

   Property text, clause by clause:
   (1) "Applying the unfiltered change set to the source tree yields the target tree."
         C10_apply_changes_roundtrip, C10_generic_roundtrip                    (proved, all trees)
   (2) "the optimised comparisons report the same set of changes as the generic comparison"
         C10_generic_matches_spec, C10_chk_matches_spec,
         C10_chk_include_unchanged_matches_spec, C10_optimised_equals_generic  (proved, no filter, both
                                                                               include_unchanged settings)
         C10_no_duplicates                                                    (proved: no id is reported twice
                                                                               by the generic walker, filtered or not)
       The dirstate fast path's comparison core is compiled code outside /repo: no theorem;
       it is compared with the generic walker and with the model on every run (harness).
   (3) "when a path filter is given the reported changes include every parent needed so that
        applying them to the source yields a valid tree"
         C10_filtered_closed_partial   sound + complete on the selection + closed under target parents
                                       + same ancestor chains as the target (partial: holds whenever the
                                       closure loop returns; its termination is not proved)
         C10_filtered_closed_refuted   FULL validity is false: sibling names can collide *)
From Coq Require Import NArith List Bool Arith.
From BV Require Import Lib.Bytes Lib.Tree Theory.TreeFacts Model.TreeCompare Theory.TreeCompare.
Import ListNotations.

(* (1) *)
Theorem C10_apply_changes_roundtrip :
  forall a b, valid_tree a -> valid_tree b ->
    apply_changes (tree_content b) (changes a b) a = b.
Proof. exact apply_changes_roundtrip. Qed.
Print Assumptions C10_apply_changes_roundtrip.

Theorem C10_generic_roundtrip :
  forall a b incl l, valid_tree a -> valid_tree b ->
    generic a b None incl = Some l -> apply_changes (tree_content b) l a = b.
Proof. exact generic_unfiltered_roundtrip. Qed.
Print Assumptions C10_generic_roundtrip.

Example C10_valid_trees_exist :
  valid_tree w2a /\ valid_tree w2b /\ changes w2a w2b <> [].
Proof. split; [vm_compute; reflexivity|]. split; [vm_compute; reflexivity|]. vm_compute. discriminate. Qed.

(* (2) the generic walker (no filter) reports exactly the spec's changes, for both settings
   of include_unchanged; it never fails *)
Theorem C10_generic_matches_spec :
  forall a b incl, exists l, generic a b None incl = Some l /\
                             forall c, In c l <-> In c (changes_gen incl a b).
Proof. exact generic_unfiltered_spec. Qed.
Print Assumptions C10_generic_matches_spec.

Theorem C10_chk_matches_spec :
  forall a b, chk a b None false = Some (changes a b).
Proof. exact chk_unfiltered_spec. Qed.
Print Assumptions C10_chk_matches_spec.

Theorem C10_chk_include_unchanged_matches_spec :
  forall a b, valid_tree a -> valid_tree b ->
    exists l, chk a b None true = Some l /\ forall c, In c l <-> In c (changes_gen true a b).
Proof. exact chk_unfiltered_incl_spec. Qed.
Print Assumptions C10_chk_include_unchanged_matches_spec.

(* no filter, either setting of include_unchanged: the CHK fast path and the generic walker
   report the same set (true for include_unchanged since fix b515e80) *)
Theorem C10_optimised_equals_generic :
  forall a b incl, valid_tree a -> valid_tree b ->
    exists lg lc, generic a b None incl = Some lg /\ chk a b None incl = Some lc /\
                  forall c, In c lg <-> In c lc.
Proof. exact optimised_equals_generic_unfiltered_incl. Qed.
Print Assumptions C10_optimised_equals_generic.

Example C10_w3_chk_unchanged_paths :   (* the witness of the repaired defect *)
  exists lc c, chk w3a w3b None true = Some lc /\ In c lc /\ c = mk_change w3a w3b 2%nat /\
               c_path c = (Some [[100%N]; [120%N]], Some [[101%N]; [120%N]]).
Proof. exact w3_chk_unchanged_paths. Qed.

(* no id is reported twice, with or without a filter (true since fix 5cddeb1) *)
Theorem C10_no_duplicates :
  forall a b F incl l ex, sorted a -> sorted b ->
    generic_full a b F incl = Some (l, ex) -> NoDup (ids_of l).
Proof. exact generic_no_duplicates. Qed.
Print Assumptions C10_no_duplicates.

Example C10_w2_no_duplicates :         (* the witness of the repaired defect, generic and CHK *)
  exists l l', generic w2a w2b (Some [[[101%N]]]) false = Some l /\ ids_of l = [1; 2; 3]%nat /\
               chk w2a w2b (Some [[[101%N]]]) false = Some l' /\ ids_of l' = [1; 2; 3]%nat.
Proof. exact w2_no_duplicates. Qed.

(* (3) *)
Theorem C10_filtered_complete :
  forall a b fs incl l ex s i,
    generic_full a b (Some fs) incl = Some (l, ex) ->
    specific_ids a b (Some fs) = Some s -> In i s ->
    In i (keys a) \/ In i (keys b) ->
    (incl || is_changed (mk_change a b i)) = true ->
    In (mk_change a b i) l.
Proof. exact generic_filtered_complete. Qed.
Print Assumptions C10_filtered_complete.

Theorem C10_filtered_closed_partial :
  forall a b fs incl l ex,
    valid_tree a -> valid_tree b ->
    generic_full a b (Some fs) incl = Some (l, ex) ->
    let t' := apply_changes (tree_content b) l a in
    Forall (derived a b) l /\
    (forall i, lookup i t' = if existsb (fun c => Nat.eqb (c_id c) i) l then lookup i b else lookup i a) /\
    (forall c p, In c l -> snd (c_parent c) = Some p -> In p (ids_of l) \/ In p ex) /\
    (forall x, In x ex -> In x (ids_of l) \/ lookup x a = lookup x b) /\
    (forall n x, In x (ids_of l) \/ In x ex -> path_of_fuel n t' x = path_of_fuel n b x) /\
    sorted t'.
Proof. exact filtered_closed_partial. Qed.
Print Assumptions C10_filtered_closed_partial.

Example C10_closure_nonvacuous :
  exists l ex, generic_full w2a w2b (Some [[[101%N]]]) false = Some (l, ex) /\ ex <> [].
Proof. exact closure_nonvacuous. Qed.

(* the applied filtered delta is NOT always a valid tree: two ids end up with the same
   parent and name (everything except sibling uniqueness still holds: parent_validb) *)
Theorem C10_filtered_closed_refuted :
  valid_tree w1a /\ valid_tree w1b /\
  exists l, generic w1a w1b (Some [[[120%N]]]) false = Some l /\
            ids_of l = [1%nat] /\
            valid_treeb (apply_changes (tree_content w1b) l w1a) = false /\
            parent_validb (apply_changes (tree_content w1b) l w1a) = true.
Proof. exact filtered_valid_refuted. Qed.
Print Assumptions C10_filtered_closed_refuted.
