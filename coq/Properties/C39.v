(* Properties/C39.v -- Diffs apply back to the text they describe.
   Statements only; the model is Model/Patch.v, the proofs are in Theory/Patch.v and Theory/PatchMore.v.

   a, b        : old / new text, a list of lines (byte lists); any lines, empty texts, no final newline
   ops         : the sequence matcher's get_opcodes() (environment input), accepted by the checker valid_opcodes
   n           : the context size
   mk_hunks a b ops n : the hunks of internal_diff's output (grouping = get_grouped_opcodes(n), incl. the
                 "-1,0" -> "-0,0" header work-around)
   apply t hs  : iter_patched_from_hunks(t, hs) forced with list(): inr text | inl (AConflict line_no)
                 (PatchConflict: a mismatching line, or the original text ends before/inside a hunk) *)
From Coq Require Import NArith Arith List Bool.
From BV Require Import Lib.Bytes Model.Patch Theory.Patch Theory.PatchMore.
Import ListNotations.
Open Scope nat_scope.

(* ---- clause 1: applying the diff to the old text yields exactly the new text (every context size) *)
Theorem C39_apply_generated :
  forall a b ops n, valid_opcodes a b ops = true -> apply a (mk_hunks a b ops n) = inr b.
Proof. exact apply_generated. Qed.
Print Assumptions C39_apply_generated.

Definition ex_a : list line := [la; lb; la; la; la; la; la; la; la; la; [99]%N].
Definition ex_b : list line := [la; la; la; la; la; la; la; la; la; lb].
Definition ex_ops : list opcode :=
  [Op TEqual 0 1 0 1; Op TDelete 1 2 1 1; Op TEqual 2 10 1 9; Op TReplace 10 11 9 10].
Example C39_apply_generated_nontrivial :
  valid_opcodes ex_a ex_b ex_ops = true /\ length (mk_hunks ex_a ex_b ex_ops 1) = 2 /\
  valid_opcodes [] [la] [Op TInsert 0 0 0 1] = true /\ valid_opcodes [la] [] [Op TDelete 0 1 0 0] = true.
Proof. repeat split; reflexivity. Qed.

(* ---- clause 4: no silent wrong output.  If the patch applies to ANY text a2, then a2 carries a's lines on
   every range [g_i1, g_i2) a hunk reads (context and removed lines) ... *)
Theorem C39_ok_only_if_context_matches :
  forall a b ops n a2 x,
    valid_opcodes a b ops = true -> apply a2 (mk_hunks a b ops n) = inr x ->
    Forall (fun g => slice a2 (g_i1 g) (g_i2 g) = slice a (g_i1 g) (g_i2 g)) (group_opcodes n ops).
Proof. exact apply_ok_agrees. Qed.
Print Assumptions C39_ok_only_if_context_matches.

(* ... so a text that differs from a on a line some hunk touches or uses as context never gives Ok *)
Theorem C39_mismatch_not_ok :
  forall a b ops n a2 g,
    valid_opcodes a b ops = true -> In g (group_opcodes n ops) ->
    slice a2 (g_i1 g) (g_i2 g) <> slice a (g_i1 g) (g_i2 g) ->
    forall x, apply a2 (mk_hunks a b ops n) <> inr x.
Proof. exact mismatch_not_ok. Qed.
Print Assumptions C39_mismatch_not_ok.

(* ... and is reported as a PatchConflict (a mismatching line, or the text ends before/inside a hunk) *)
Theorem C39_mismatch_is_conflict :
  forall a b ops n a2 g,
    valid_opcodes a b ops = true -> In g (group_opcodes n ops) ->
    slice a2 (g_i1 g) (g_i2 g) <> slice a (g_i1 g) (g_i2 g) ->
    exists k, apply a2 (mk_hunks a b ops n) = inl (AConflict k).
Proof. exact mismatch_is_conflict. Qed.
Print Assumptions C39_mismatch_is_conflict.

Example C39_mismatch_nontrivial :
  In [Op TReplace 0 1 0 1] (group_opcodes 3 [Op TReplace 0 1 0 1]) /\
  slice [lb] 0 1 <> slice [la] 0 1 /\
  apply [lb] (mk_hunks [la] [lb] [Op TReplace 0 1 0 1] 3) = inl (AConflict 1) /\
  apply [] (mk_hunks [la] [lb] [Op TReplace 0 1 0 1] 3) = inl (AConflict 1) /\
  apply [la] (mk_hunks ex_a ex_b ex_ops 0) = inl (AConflict 2).
Proof. split; [left; reflexivity|]. split; [discriminate|]. repeat split; reflexivity. Qed.

(* ---- clause 3: the statistics are the changed line counts: (lines inserted, lines removed, number of hunks) *)
Theorem C39_stats :
  forall a b ops n, valid_opcodes a b ops = true ->
    stats (mk_hunks a b ops n) = (total ins_len ops, total rem_len ops, length (group_opcodes n ops)).
Proof. exact stats_generated. Qed.
Print Assumptions C39_stats.

Example C39_stats_nontrivial : stats (mk_hunks ex_a ex_b ex_ops 1) = (1, 2, 2).
Proof. reflexivity. Qed.

(* ---- clause 2: serialise-then-parse gives back the same hunks.
   FULL statement (not proved):  forall p, wf p -> parse_patch (split_lines (patch_bytes p)) = inr p.
   Proved part: for ANY hunks whose counts are consistent and whose header line parses back
   (hdr_ok: an executable guard, evaluated on every correspondence case), iter_hunks over the hunks'
   logical lines (header, then lead character + contents, i.e. after iter_lines_handle_nl) returns
   exactly those hunks.  Missing: the decimal/regex round trip of the header for all numbers, and the
   byte layer (split_lines, the "\ No newline at end of file" marker); both are covered by the
   correspondence run only. *)
Theorem C39_parse_render_partial :
  forall hs pending,
    forallb counts_ok hs = true -> forallb hdr_ok hs = true ->
    hunks_loop (flat_map hunk_logical hs) (PHead pending)
    = (match pending with Some p => [p] | None => [] end ++ hs, None).
Proof. exact hunks_loop_logical. Qed.
Print Assumptions C39_parse_render_partial.

(* the hunks of breezy's own diffs always have consistent counts, so only the header guard remains *)
Theorem C39_generated_reparse_partial :
  forall a b ops n,
    valid_opcodes a b ops = true -> forallb hdr_ok (mk_hunks a b ops n) = true ->
    iter_hunks (flat_map hunk_logical (mk_hunks a b ops n)) = (mk_hunks a b ops n, None).
Proof. exact generated_reparse. Qed.
Print Assumptions C39_generated_reparse_partial.

Example C39_reparse_nontrivial :
  forallb hdr_ok (mk_hunks ex_a ex_b ex_ops 1) = true /\
  forallb hdr_ok [Hunk 12 1 3456 0 (Some [100; 101]%N) [Rem la]] = true /\
  parse_patch (split_lines (internal_diff lbl_old ex_a lbl_new ex_b 1 ex_ops))
    = inr (Patch lbl_old None lbl_new None (mk_hunks ex_a ex_b ex_ops 1)).
Proof. repeat split; vm_compute; reflexivity. Qed.
