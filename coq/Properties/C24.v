(* Properties/C24.v -- Tag transfer never loses or silently rewrites tags.

   [reconcile_tags] is Gen.ReconcileTags.reconcile_tags, regenerated on every run from
   breezy/tag.py:_reconcile_tags by tools/py2coq_dictloop.py.  Its result is the triple
   (result dict, updates dict, conflicts list); [res]/[upd]/[cfl] are the projections.
   Dicts are association lists in insertion order; [dict_get] is Python's d.get.
   All theorems of the first section hold for ALL key/value types with a decidable
   equality, ALL source dicts with pairwise different keys (any length), ALL destination
   dicts, ALL selectors (None or any function) and both overwrite settings.

   [serialize]/[deserialize] are the hand model of BasicTags._serialize_tag_dict /
   _deserialize_tag_dict over fastbencode (tie H, byte-exact correspondence on every run);
   tag names are their utf-8 byte strings there (str.encode / bytes.decode are environment). *)
From Coq Require Import NArith List Bool Permutation.
From BV Require Import Lib.Bytes Lib.PyDict Gen.ReconcileTags Model.TagStore
                       Theory.PyDictFacts Theory.ReconcileTags Theory.TagStore.
Import ListNotations.

Section C24.
Variables K V : Type.
Variable K_eqb : K -> K -> bool.
Variable V_eqb : V -> V -> bool.
Hypothesis K_eqb_spec : forall x y, K_eqb x y = true <-> x = y.
Hypothesis V_eqb_spec : forall x y, V_eqb x y = true <-> x = y.

Variables src dst : dict K V.
Variable overwrite : bool.
Variable selector : option (K -> bool).
Hypothesis src_keys_distinct : NoDup (map fst src).

Notation get := (dict_get K_eqb).
Notation out := (reconcile_tags K V K_eqb V_eqb src dst overwrite selector).
Notation result := (res K V out).
Notation updates := (upd K V out).
Notation conflicts := (cfl K V out).
Notation selected := (sel_ok K selector).

(* the complete pointwise description of the result dict (everything below follows from it) *)
Theorem C24_result_pointwise : forall n,
  get result n =
  match get src n with
  | Some v => if selected n
              then match get dst n with
                   | None => Some v
                   | Some w => if V_eqb w v then Some w else if overwrite then Some v else Some w
                   end
              else get dst n
  | None => get dst n
  end.
Proof. exact (reconcile_result_spec K V K_eqb V_eqb K_eqb_spec src dst overwrite selector src_keys_distinct). Qed.

(* every (selected) tag only in the source is added, and reported as an update *)
Theorem C24_only_in_source_added : forall n v,
  get src n = Some v -> get dst n = None -> selected n = true ->
  get result n = Some v /\ get updates n = Some v.
Proof.
  intros n v Hs Hd Hsel. split.
  - rewrite C24_result_pointwise, Hs, Hsel, Hd. reflexivity.
  - apply (updates_exact K V K_eqb V_eqb K_eqb_spec V_eqb_spec src dst overwrite selector src_keys_distinct).
    rewrite Hd. repeat split; [exact Hs|exact Hsel|discriminate|left; reflexivity].
Qed.

(* every tag only in the destination is kept *)
Theorem C24_only_in_dest_kept : forall n,
  get src n = None -> get result n = get dst n /\ get updates n = None.
Proof.
  intros n Hs. split.
  - rewrite C24_result_pointwise, Hs. reflexivity.
  - rewrite (reconcile_updates_spec K V K_eqb V_eqb K_eqb_spec src dst overwrite selector src_keys_distinct), Hs.
    reflexivity.
Qed.

(* identical definitions are unchanged: not an update, not a conflict *)
Theorem C24_identical_unchanged : forall n v,
  get src n = Some v -> get dst n = Some v ->
  get result n = Some v /\ get updates n = None /\ (forall v' o, ~ In (n, v', o) conflicts).
Proof.
  intros n v Hs Hd. split; [|split].
  - rewrite C24_result_pointwise, Hs, Hd.
    rewrite (proj2 (V_eqb_spec v v) eq_refl). destruct (selected n); reflexivity.
  - destruct (get updates n) as [u|] eqn:E; [|reflexivity]. exfalso.
    apply (updates_exact K V K_eqb V_eqb K_eqb_spec V_eqb_spec src dst overwrite selector src_keys_distinct) in E.
    destruct E as [E1 [_ [E3 _]]]. rewrite Hs in E1. inversion E1; subst. apply E3; exact Hd.
  - intros v' o Hin.
    apply (conflicts_exact K V K_eqb V_eqb K_eqb_spec V_eqb_spec src dst overwrite selector src_keys_distinct) in Hin.
    destruct Hin as [E1 [_ [_ [w [_ [E2 E3]]]]]].
    rewrite Hs in E1; inversion E1; subst. rewrite Hd in E2; inversion E2; subst. apply E3; reflexivity.
Qed.

(* differing definitions, no overwrite: destination value kept, conflict reported, no update *)
Theorem C24_differing_keeps_dest_and_reports : forall n v w,
  get src n = Some v -> get dst n = Some w -> v <> w -> selected n = true -> overwrite = false ->
  get result n = Some w /\ In (n, v, Some w) conflicts /\ get updates n = None.
Proof.
  intros n v w Hs Hd Hne Hsel Hov.
  assert (Ev : V_eqb w v = false).
  { destruct (V_eqb w v) eqn:E; [|reflexivity]. apply V_eqb_spec in E. subst. exfalso; apply Hne; reflexivity. }
  split; [|split].
  - rewrite C24_result_pointwise, Hs, Hsel, Hd, Ev, Hov. reflexivity.
  - apply (conflicts_exact K V K_eqb V_eqb K_eqb_spec V_eqb_spec src dst overwrite selector src_keys_distinct).
    repeat split; [exact Hs|exact Hsel|exact Hov|].
    exists w. repeat split; [exact Hd|]. intros ->; apply Hne; reflexivity.
  - rewrite (reconcile_updates_spec K V K_eqb V_eqb K_eqb_spec src dst overwrite selector src_keys_distinct).
    rewrite Hs, Hsel, Hd. unfold changes. rewrite Ev, Hov. reflexivity.
Qed.

(* differing definitions, overwrite requested: source value, reported as update, no conflict *)
Theorem C24_differing_overwrite : forall n v w,
  get src n = Some v -> get dst n = Some w -> v <> w -> selected n = true -> overwrite = true ->
  get result n = Some v /\ get updates n = Some v /\ (forall v' o, ~ In (n, v', o) conflicts).
Proof.
  intros n v w Hs Hd Hne Hsel Hov.
  assert (Ev : V_eqb w v = false).
  { destruct (V_eqb w v) eqn:E; [|reflexivity]. apply V_eqb_spec in E. subst. exfalso; apply Hne; reflexivity. }
  split; [|split].
  - rewrite C24_result_pointwise, Hs, Hsel, Hd, Ev, Hov. reflexivity.
  - apply (updates_exact K V K_eqb V_eqb K_eqb_spec V_eqb_spec src dst overwrite selector src_keys_distinct).
    repeat split; [exact Hs|exact Hsel| |right; exact Hov].
    rewrite Hd. intros H; inversion H; subst. apply Hne; reflexivity.
  - intros v' o Hin.
    apply (conflicts_exact K V K_eqb V_eqb K_eqb_spec V_eqb_spec src dst overwrite selector src_keys_distinct) in Hin.
    destruct Hin as [_ [_ [E _]]]. rewrite Hov in E. discriminate.
Qed.

(* full frame condition: a name that is not in the source, or that the selector rejects, keeps
   exactly its destination state (present with the same value, or absent) *)
Theorem C24_nothing_else_changes : forall n,
  get src n = None \/ selected n = false -> get result n = get dst n.
Proof.
  intros n [H|H]; rewrite C24_result_pointwise.
  - rewrite H. reflexivity.
  - destruct (get src n); [rewrite H|]; reflexivity.
Qed.

(* no destination tag is ever dropped, whatever the inputs *)
Theorem C24_no_tag_lost : forall n w, get dst n = Some w -> exists w', get result n = Some w'.
Proof.
  intros n w Hd. rewrite C24_result_pointwise, Hd.
  destruct (get src n) as [v|]; [|exists w; reflexivity].
  destruct (selected n); [|exists w; reflexivity].
  destruct (V_eqb w v); [exists w; reflexivity|]. destruct overwrite; [exists v|exists w]; reflexivity.
Qed.

(* the reported updates are exactly the names whose value changed, with the new value *)
Theorem C24_updates_exact : forall n v,
  get updates n = Some v <->
  get src n = Some v /\ selected n = true /\ get dst n <> Some v /\ (get dst n = None \/ overwrite = true).
Proof. exact (updates_exact K V K_eqb V_eqb K_eqb_spec V_eqb_spec src dst overwrite selector src_keys_distinct). Qed.

Theorem C24_updates_are_the_changes : forall n,
  get updates n = (if opt_eqb V_eqb (get result n) (get dst n) then None else get result n).
Proof.
  intros n. rewrite (reconcile_updates_spec K V K_eqb V_eqb K_eqb_spec src dst overwrite selector src_keys_distinct).
  rewrite C24_result_pointwise. unfold changes.
  destruct (get src n) as [v|]; [|destruct (get dst n) as [w|]; cbn [opt_eqb]; [rewrite (proj2 (V_eqb_spec w w) eq_refl)|]; reflexivity].
  destruct (selected n); cbn [andb];
    [|destruct (get dst n) as [w|]; cbn [opt_eqb]; [rewrite (proj2 (V_eqb_spec w w) eq_refl)|]; reflexivity].
  destruct (get dst n) as [w|]; cbn [opt_eqb]; [|reflexivity].
  destruct (V_eqb w v) eqn:Ev; cbn [negb andb opt_eqb].
  - rewrite (proj2 (V_eqb_spec w w) eq_refl). reflexivity.
  - destruct overwrite; cbn [opt_eqb].
    + destruct (V_eqb v w) eqn:E2; [|reflexivity].
      apply V_eqb_spec in E2; subst. rewrite (proj2 (V_eqb_spec w w) eq_refl) in Ev. discriminate.
    + rewrite (proj2 (V_eqb_spec w w) eq_refl). reflexivity.
Qed.

(* the conflict list, exactly; in particular its third component (Python: result[name], a
   possible KeyError that the translation does not totalise) is always a present value *)
Theorem C24_conflicts_exact : forall n v o,
  In (n, v, o) conflicts <->
  get src n = Some v /\ selected n = true /\ overwrite = false /\
  exists w, o = Some w /\ get dst n = Some w /\ w <> v.
Proof. exact (conflicts_exact K V K_eqb V_eqb K_eqb_spec V_eqb_spec src dst overwrite selector src_keys_distinct). Qed.

Theorem C24_conflict_third_component_always_some : forall n v o,
  In (n, v, o) conflicts -> exists w, o = Some w /\ get dst n = Some w.
Proof.
  intros n v o H. apply C24_conflicts_exact in H.
  destruct H as [_ [_ [_ [w [H1 [H2 _]]]]]]. exists w; split; assumption.
Qed.

(* the outputs are well-formed dicts again (pairwise different keys) *)
Theorem C24_result_keys_distinct :
  NoDup (map fst dst) -> NoDup (map fst result) /\ NoDup (map fst updates).
Proof. exact (reconcile_nodup K V K_eqb V_eqb K_eqb_spec src dst overwrite selector). Qed.

End C24.

Print Assumptions C24_result_pointwise.
Print Assumptions C24_only_in_source_added.
Print Assumptions C24_only_in_dest_kept.
Print Assumptions C24_identical_unchanged.
Print Assumptions C24_differing_keeps_dest_and_reports.
Print Assumptions C24_differing_overwrite.
Print Assumptions C24_nothing_else_changes.
Print Assumptions C24_no_tag_lost.
Print Assumptions C24_updates_exact.
Print Assumptions C24_updates_are_the_changes.
Print Assumptions C24_conflicts_exact.
Print Assumptions C24_conflict_third_component_always_some.
Print Assumptions C24_result_keys_distinct.

(* the hypotheses are satisfiable by a non-trivial instance: every branch of the loop is taken *)
Example C24_example :
  reconcile_tags N N N.eqb N.eqb [(1, 10); (2, 20); (3, 30); (4, 40)]%N [(2, 20); (3, 31); (5, 50)]%N false
                 (Some (fun n => negb (N.eqb n 4)))
  = ([(2, 20); (3, 31); (5, 50); (1, 10)]%N, [(1, 10)]%N, [(3, 30, Some 31)]%N).
Proof. reflexivity. Qed.

(* ---- storage: tag dictionaries are stored and read back unchanged ---------------------- *)

(* for every dict with pairwise different (utf-8 encoded) names, any number of entries, any
   byte strings as names and revision ids: reading back what was written gives the same
   finite map (same entries; same lookup for every name) *)
Theorem C24_serialise_roundtrip : forall d : tagdict,
  NoDup (map fst d) ->
  exists d', deserialize (serialize d) = Some d'
             /\ Permutation d' d
             /\ (forall k, dict_get bytes_eqb d' k = dict_get bytes_eqb d k).
Proof. exact serialise_roundtrip. Qed.
Print Assumptions C24_serialise_roundtrip.

Example C24_serialise_example :
  serialize [([98], [120]); ([97], [121; 121]); ([], [])]%N
  = [100; 48;58; 48;58; 49;58;97; 50;58;121;121; 49;58;98; 49;58;120; 101]%N    (* d0:0:1:a2:yy1:b1:xe *)
  /\ deserialize (serialize [([98], [120]); ([97], [121; 121]); ([], [])]%N)
     = Some [([], []); ([97], [121; 121]); ([98], [120])]%N.
Proof. split; vm_compute; reflexivity. Qed.

(* a branch initialised with an empty tags file has no tags *)
Theorem C24_empty_file_is_empty_dict : deserialize [] = Some [].
Proof. exact deserialize_empty_file. Qed.
Print Assumptions C24_empty_file_is_empty_dict.

(* ---- bound destination: InterTags.merge updates the master too -------------------------- *)

(* child and master each receive reconcile(source, own dict): all theorems above apply to both *)
Theorem C24_bound_child_and_master_both_reconciled : forall src dst m ov sel,
  fst (fst (fst (merge_inter src dst (Some m) false ov sel))) = res bytes bytes (reconcileB src dst ov sel)
  /\ snd (fst (fst (merge_inter src dst (Some m) false ov sel))) = Some (res bytes bytes (reconcileB src m ov sel)).
Proof. intros. split; [apply merge_inter_child|apply merge_inter_master]. Qed.
Print Assumptions C24_bound_child_and_master_both_reconciled.

Theorem C24_ignore_master_leaves_master : forall src dst master ov sel,
  snd (fst (fst (merge_inter src dst master true ov sel))) = master.
Proof. exact merge_inter_master_ignored. Qed.
Print Assumptions C24_ignore_master_leaves_master.

(* ---- faithful behaviour on the two known-finding classes -------------------------------- *)

(* C24-git-ghost-tag-reported-not-stored: "every tag only in the source is added" is FALSE of a git
   destination when the revision is not a commit of the repository: the tag is reported in updates
   but LocalGitTagDict._set_tag_dict suppresses GhostTagsNotSupported and nothing is stored *)
Theorem C24_git_only_in_source_added_refuted :
  exists (src dst : tagdict) (cs : list bytes) (n v : bytes),
    dict_get bytes_eqb src n = Some v /\ dict_get bytes_eqb dst n = None /\
    dict_get bytes_eqb (upd bytes bytes (reconcileB src dst false None)) n = Some v /\
    exists r', stored (DGit cs) dst (res bytes bytes (reconcileB src dst false None)) = Some r'
               /\ dict_get bytes_eqb r' n = None.
Proof.
  exists [([103], [120])]%N, [], [[99]]%N, [103]%N, [120]%N.
  repeat split; try reflexivity. eexists; split; reflexivity.
Qed.
Print Assumptions C24_git_only_in_source_added_refuted.

(* guard (executable): when every revision id of the dict is a commit, git keeps the dict as it is;
   in general it keeps exactly the entries whose revision id is a commit *)
Theorem C24_git_store_guarded : forall cs old d,
  forallb (git_keeps cs) d = true -> stored (DGit cs) old d = Some d.
Proof. exact git_store_guarded. Qed.
Print Assumptions C24_git_store_guarded.

Theorem C24_git_store_entries : forall cs old d d' k v,
  stored (DGit cs) old d = Some d' ->
  (In (k, v) d' <->
   (In (k, v) d /\ git_keeps cs (k, v) = true)
   \/ (exists v', In (k, v') d /\ git_keeps cs (k, v') = false /\ dict_get bytes_eqb old k = Some v)).
Proof. exact git_store_entries. Qed.
Print Assumptions C24_git_store_entries.

(* even when the new revision of a tag cannot be stored, a tag the git destination already had is
   kept (with its old value): the transfer never LOSES a destination tag *)
Theorem C24_git_store_no_tag_lost : forall cs old d d' k v w,
  stored (DGit cs) old d = Some d' -> In (k, v) d -> dict_get bytes_eqb old k = Some w ->
  exists x, In (k, x) d'.
Proof. exact git_store_no_tag_lost. Qed.
Print Assumptions C24_git_store_no_tag_lost.

(* MemoryTags.merge_to (repaired by commit b75814f, finding C24-memorytags-merge-ignores-master):
   a bound destination and its master each receive reconcile(source, own dict) *)
Theorem C24_memorytags_bound_child_and_master_both_reconciled : forall src dst m ov sel,
  fst (fst (fst (merge_memsrc src dst (Some m) false ov sel))) = res bytes bytes (reconcileB src dst ov sel)
  /\ snd (fst (fst (merge_memsrc src dst (Some m) false ov sel))) = Some (res bytes bytes (reconcileB src m ov sel)).
Proof. intros. split; [apply merge_memsrc_child|apply merge_memsrc_master]. Qed.
Print Assumptions C24_memorytags_bound_child_and_master_both_reconciled.

Theorem C24_memorytags_ignore_master_leaves_master : forall src dst master ov sel,
  snd (fst (fst (merge_memsrc src dst master true ov sel))) = master.
Proof. exact merge_memsrc_master_ignored. Qed.
Print Assumptions C24_memorytags_ignore_master_leaves_master.

(* the OLD behaviour (before b75814f), kept as a regression statement about merge_memsrc_old only:
   the tag reached the bound branch but its master was left as it was *)
Theorem C24_old_memorytags_master_updated_refuted :
  exists (src dst m : tagdict) (n v : bytes),
    dict_get bytes_eqb src n = Some v /\ dict_get bytes_eqb m n = None /\
    dict_get bytes_eqb (fst (fst (fst (merge_memsrc_old src dst (Some m) false None)))) n = Some v /\
    snd (fst (fst (merge_memsrc_old src dst (Some m) false None))) = Some m.
Proof. exists [([118], [49])]%N, [], [], [118]%N, [49]%N. repeat split; reflexivity. Qed.
Print Assumptions C24_old_memorytags_master_updated_refuted.
