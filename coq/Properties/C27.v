(* Properties/C27.v -- Lock operations leave recoverable state at every crash point.
   Same model as C26 (Model/LockDir.v).  A locker that is never scheduled again has
   stopped (crashed) at that point; a locker with [c_fault = Some k] gets a transport
   error at its k-th operation and then runs its own exception handling.  So "every
   prefix of the transport operations and every fault point" = every schedule, every
   [firstn k sched], every fault assignment -- all universally quantified below. *)
From Coq Require Import NArith List Bool.
From BV Require Import Lib.SchedLD Model.LockDir Theory.LockDir.
Import ListNotations.

(* In every reachable state (after any prefix of any schedule, any faults) the lock is
   free, or held WITH an info file that is readable -- unless an unreadable info file was
   there initially (the force_break_corrupt case). *)
Theorem C27_every_prefix_recoverable :
  forall mem h0 confs sched k,
    let s := runs (firstn k sched) (init mem h0 confs) in
    s_held s = None \/
    exists c, s_held s = Some (Some c) /\ (readable c = true \/ h0 = Some c).
Proof. intros mem h0 confs sched k. exact (held_recoverable mem h0 confs (firstn k sched)). Qed.
Print Assumptions C27_every_prefix_recoverable.

(* The mechanism: when a locker is about to rename its pending directory into place, that
   directory already contains the complete info file carrying the locker's own nonce. *)
Theorem C27_info_before_rename :
  forall mem h0 confs sched,
    let s := runs sched (init mem h0 confs) in
    forall p i, l_pc (s_procs s p) = A_rename i ->
      exists n h, s_tmps s (Pending, p, i) = Some (Some (CInfo n h)) /\
                  l_nonce (s_procs s p) = Some n /\ fst n = p.
Proof. exact info_before_rename. Qed.
Print Assumptions C27_info_before_rename.

(* "A failed acquisition never leaves the lock held by the failing process" is FALSE when the
   transport error hits the confirming peek that follows the successful rename. *)
Theorem C27_failed_attempt_not_held_refuted :
  exists confs sched,
    let s := runs sched (init false None confs) in
    l_log (s_procs s 0) = [RErr EFault] /\ l_held (s_procs s 0) = false /\ l_pc (s_procs s 0) = Idle /\
    s_held s = Some (Some (CInfo (0, 0) wid0)).
Proof. exact failed_attempt_not_held_refuted. Qed.
Print Assumptions C27_failed_attempt_not_held_refuted.

(* Everywhere else it holds: if held/info names locker p (and is not the external holder's
   initial lock) then p believes it holds the lock, or p is between its successful rename
   and its confirming peek. In particular a locker whose attempt_lock has failed is never
   the one recorded in held/info. *)
Theorem C27_failed_attempt_not_held_guarded :
  forall mem h0 confs sched,
    let s := runs sched (init mem h0 confs) in
    g_chkfault (s_g s) = false ->
    forall n h, s_held s = Some (Some (CInfo n h)) ->
      h0 = Some (CInfo n h) \/
      (l_nonce (s_procs s (fst n)) = Some n /\
       (l_held (s_procs s (fst n)) = true \/ l_pc (s_procs s (fst n)) = A_check)).
Proof. exact failed_attempt_not_held_guarded. Qed.
Print Assumptions C27_failed_attempt_not_held_guarded.

(* Recovery by a fresh locker (peek; force_break or force_break_corrupt; attempt_lock) from
   each kind of initial content: checked instances only (the general statement "from every
   reachable state" is NOT proved in Coq; it is exercised by the replay on the real code). *)
Theorem C27_break_paths_partial :
  forallb (fun h0 =>
     let s := runs (repeat 0 10) (init false h0 [mk recovery_prog None]) in
     l_held (s_procs s 0) && match s_held s with Some (Some (CInfo (0, 0) _)) => true | _ => false end)
   [None; Some (CInfo (7, 0) deadw); Some CEmpty; Some (CCorrupt 0)] = true.
Proof. exact recovery_examples. Qed.
Print Assumptions C27_break_paths_partial.
