(* Properties/C38.v -- All git SHA-map cache backends answer identically.
   Statements only; model in Model/ShaMap.v (spec + Dict, Sqlite, Index, Tdb as faithful state
   machines over per-revision updates), proofs in Theory/ShaMap.v.
   [l] is the list of per-revision updates a backend has received (one update = the add_object
   calls of one CacheUpdater followed by finish()). *)
From Coq Require Import NArith List Bool.
From BV Require Import Lib.Bytes Lib.Obs Model.ShaMap Theory.ShaMap.
Import ListNotations.

(* spec law: a revision's commit SHA leads back to that revision's commit entry *)
Theorem C38_spec_commit_law :
  forall l r s, s_lookup_commit l r = Some s ->
                exists t v, In (ECommit r t v) (s_lookup_git_sha l s).
Proof. exact spec_commit_law. Qed.
Print Assumptions C38_spec_commit_law.

(* spec law: missing_revisions rs = rs \ revids *)
Theorem C38_spec_missing_revisions :
  forall l rs r, In r (s_missing l rs) <-> In r rs /\ s_lookup_commit l r = None.
Proof. exact spec_missing. Qed.
Print Assumptions C38_spec_missing_revisions.

(* queries are unaffected by closing and re-opening a backend whose write groups are committed *)
Theorem C38_reopen_committed :
  forall b done q, answers b (step b (done, []) Reopen) q = answers b (done, []) q.
Proof. exact reopen_committed. Qed.
Print Assumptions C38_reopen_committed.

(* ... while an uncommitted write group is lost (Index: the builder was never written) *)
Example C38_reopen_pending_lost :
  run_ops BIndex [Begin; Add u1; Reopen] = ([], []) /\ run_ops BIndex [Begin; Add u1; Commit; Reopen] = ([u1], []).
Proof. split; reflexivity. Qed.

(* THE PROPERTY AS STATED IS FALSE of the faithful model (each replayed on the real classes): *)
Theorem C38_refinements_agree_refuted :
  (* one blob SHA under two keys: Index reports only the first entry *)
  i_lookup_git_sha [u1] A <> d_lookup_git_sha [u1] A /\
  (* the same tree SHA in two revisions: Sqlite's unique index on trees.sha1 drops the first key *)
  q_lookup_tree [u1; u2] ([114], [49]) <> d_lookup_tree [u1; u2] ([114], [49]) /\
  (* Dict keeps blobs and trees in one table: a tree key asked as a blob is answered *)
  d_lookup_blob [u1] ([114], [49]) <> s_lookup_blob [u1] ([114], [49]) /\
  (* a revision id added twice with different commits: Index keeps the first, the others the last *)
  i_lookup_commit [u1; u1'] [49] <> d_lookup_commit [u1; u1'] [49].
Proof.
  repeat split; [exact git_sha_refuted|exact tree_refuted|exact dict_namespace_refuted|exact overwrite_refuted].
Qed.
Print Assumptions C38_refinements_agree_refuted.

(* ... and holds under the guard "a key is never re-added with a different SHA"
   (consistent: all bindings of one revision id / one (file id, revision) carry the same SHA).
   _partial: proved for Dict, Index and Tdb against the spec on lookup_commit and lookup_blob_id;
   Sqlite (rows written by finish() with REPLACE), lookup_git_sha, revids, sha1s and
   missing_revisions are tied to the spec by the differential run only. *)
Theorem C38_refinements_agree_guarded_partial :
  forall l,
    consistent (rev_bindings l) -> consistent (obj_bindings is_blob l) ->
    (forall r, d_lookup_commit l r = s_lookup_commit l r /\
               i_lookup_commit l r = s_lookup_commit l r /\
               t_lookup_commit l r = s_lookup_commit l r) /\
    (forall k, i_lookup_blob l k = s_lookup_blob l k /\ t_lookup_blob l k = s_lookup_blob l k) /\
    (forall k, (forall o u, In u l -> In o (u_objs u) -> o_tree o = true -> o_key o <> k) ->
               d_lookup_blob l k = s_lookup_blob l k).
Proof.
  intros l Hc Hb. repeat split; try (apply commits_agree; exact Hc); try (apply blobs_agree; exact Hb).
  intros Hk. apply dict_blob_agree; exact Hk.
Qed.
Print Assumptions C38_refinements_agree_guarded_partial.

(* the guard is satisfiable by a non-trivial value: two revisions sharing a blob and a root tree *)
Example C38_guard_example :
  consistent (rev_bindings [u1; u2]) /\ consistent (obj_bindings is_blob [u1; u2]) /\
  i_lookup_commit [u1; u2] [50] = Some [100].
Proof.
  repeat split.
  - intros k v v' H1 H2. simpl in *. intuition congruence.
  - intros k v v' H1 H2. simpl in *. intuition congruence.
Qed.
