(* Properties/C17.v -- placeholder while the correspondence is being debugged *)
From BV Require Import Lib.Tree17 Model.TreeMerge.
Theorem C17_placeholder : True. Proof. exact I. Qed.
Print Assumptions C17_placeholder.
