(* Properties/C17.v -- Tree merges obey the three-way merge laws.

   Model: Model/TreeMerge.v (Merge3Merger per file id, on the kernels Gen.ThreeWay generated from
   breezy/merge.py on every run).  [merge_tree tm lm unmod U B Ls O T] = (merged tree, cooked conflicts):
     tm    any text merger (merge3 / weave / lca plans), NO hypothesis on it is needed;
     lm    false = _entries3/_three_way, true = _entries_lca/_lca_multi_way (criss-cross merges);
     unmod the is_unmodified test of _entries_lca (assumed to imply equal entries: [unmod_sound]);
     U     the file ids in play; B Ls O T = BASE, LCA trees, OTHER, THIS.
   [lcas_agree_at lm B Ls f]: three-way mode, or every LCA tree agrees with BASE on file id f.
   Trees are functions from file ids to optional entries (parent id, name, kind + text/target + exec bit),
   so "paths, kinds, contents and executable bits" are all part of the compared entries. *)
From Coq Require Import List Bool Arith NArith.
From BV Require Import Lib.Bytes Lib.PyPrim Lib.Tree17 Gen.ThreeWay Theory.ThreeWay Model.TreeMerge Theory.TreeMerge.
Import ListNotations.
Local Open Scope nat_scope.

Section C17.
Variable tm : bytes -> bytes -> bytes -> bytes * bool.
Variable lm : bool.
Variable unmod : nat -> bool.

(* ---- the four laws, file id by file id (each needs its premise only at that id) ------------- *)

(* OTHER = BASE at f: THIS's entry survives untouched and f contributes no conflict *)
Theorem C17_other_eq_base : forall U B Ls O T f,
  lcas_agree_at lm B Ls f -> O f = B f ->
  fst (merge_tree tm lm unmod U B Ls O T) f = T f /\ cs_of tm lm unmod U B Ls O T f = [].
Proof. exact (law_other_eq_base tm lm unmod). Qed.

(* THIS = BASE at f: the result carries OTHER's entry (parent, name, kind, contents, exec; or its absence) *)
Theorem C17_this_eq_base : forall U B Ls O T f,
  lcas_agree_at lm B Ls f -> unmod_sound unmod Ls O -> T f = B f -> (In f U \/ O f = B f) ->
  fst (merge_tree tm lm unmod U B Ls O T) f = O f /\ cs_of tm lm unmod U B Ls O T f = [].
Proof. exact (law_this_eq_base tm lm unmod). Qed.

(* both sides made the same change at f *)
Theorem C17_identical_changes : forall U B Ls O T f,
  lcas_agree_at lm B Ls f -> T f = O f ->
  fst (merge_tree tm lm unmod U B Ls O T) f = T f /\ cs_of tm lm unmod U B Ls O T f = [].
Proof. exact (law_identical tm lm unmod). Qed.

(* ---- the four laws for whole trees ------------------------------------------------------------ *)

Theorem C17_other_eq_base_tree : forall U B Ls O T,
  (forall f, lcas_agree_at lm B Ls f) -> (forall f, O f = B f) ->
  (forall f, fst (merge_tree tm lm unmod U B Ls O T) f = T f) /\
  snd (merge_tree tm lm unmod U B Ls O T) = [].
Proof. exact (tree_other_eq_base tm lm unmod). Qed.

Theorem C17_this_eq_base_tree : forall U B Ls O T,
  (forall f, lcas_agree_at lm B Ls f) -> unmod_sound unmod Ls O -> (forall f, T f = B f) ->
  (forall f, O f <> B f -> In f U) ->
  (forall f, fst (merge_tree tm lm unmod U B Ls O T) f = O f) /\
  snd (merge_tree tm lm unmod U B Ls O T) = [].
Proof. exact (tree_this_eq_base tm lm unmod). Qed.

Theorem C17_identical_changes_tree : forall U B Ls O T,
  (forall f, lcas_agree_at lm B Ls f) -> (forall f, T f = O f) ->
  (forall f, fst (merge_tree tm lm unmod U B Ls O T) f = T f) /\
  snd (merge_tree tm lm unmod U B Ls O T) = [].
Proof. exact (tree_identical tm lm unmod). Qed.

(* disjoint sets of changed files: the result is the union of both sides' changes, no conflict *)
Theorem C17_disjoint_union : forall U B Ls O T,
  (forall f, lcas_agree_at lm B Ls f) -> unmod_sound unmod Ls O ->
  (forall f, T f = B f \/ O f = B f) ->
  (forall f, O f <> B f -> In f U) ->
  (forall f, fst (merge_tree tm lm unmod U B Ls O T) f = union_tree B O T f) /\
  snd (merge_tree tm lm unmod U B Ls O T) = [].
Proof. exact (tree_disjoint_union tm lm unmod). Qed.

(* ---- disjoint changes inside ONE entry: each of parent, name, (kind, contents), exec bit changed by at
        most one side; the merged entry takes, attribute by attribute, the changed value; no conflict ---- *)
Theorem C17_disjoint_attributes : forall f thop ohtp changed be oe te ls,
  lcas_agree lm (Some be) ls ->
  (vpair (Some be) <> vpair (Some oe) -> changed = true) ->
  (vname (Some te) = vname (Some be) \/ vname (Some oe) = vname (Some be)) ->
  (vparent (Some te) = vparent (Some be) \/ vparent (Some oe) = vparent (Some be)) ->
  (vpair (Some te) = vpair (Some be) \/ vpair (Some oe) = vpair (Some be)) ->
  (vexec (Some te) = vexec (Some be) \/ vexec (Some oe) = vexec (Some be)) ->
  exists r,
    merge_entry tm lm f thop ohtp changed (Some be) ls (Some oe) (Some te) = (Some r, []) /\
    e_name r = (if bytes_eqb (e_name be) (e_name oe) then e_name te else e_name oe) /\
    e_parent r = (if Nat.eqb (e_parent be) (e_parent oe) then e_parent te else e_parent oe) /\
    vpair (Some r) = (if opair_eqb (vpair (Some be)) (vpair (Some oe)) then vpair (Some te) else vpair (Some oe)) /\
    (kind_of (e_body r) = KFile ->
     exec_of (e_body r) = if Bool.eqb (exec_of (e_body be)) (exec_of (e_body oe))
                          then exec_of (e_body te) else exec_of (e_body oe)).
Proof. exact (merge_entry_attrs tm lm). Qed.

End C17.

(* ---- the LCA variant spelled out: criss-cross merge whose LCA trees all equal BASE -------------- *)
Theorem C17_lca_variant_disjoint_union : forall tm unmod U B Ls O T,
  Ls <> [] -> (forall L f, In L Ls -> L f = B f) -> unmod_sound unmod Ls O ->
  (forall f, T f = B f \/ O f = B f) ->
  (forall f, O f <> B f -> In f U) ->
  (forall f, fst (merge_tree tm true unmod U B Ls O T) f = union_tree B O T f) /\
  snd (merge_tree tm true unmod U B Ls O T) = [].
Proof.
  intros tm unmod U B Ls O T Hne Hl. apply C17_disjoint_union.
  intros f. right. split; [exact Hne|]. intros L HL. apply Hl. exact HL.
Qed.

(* ---- the union of disjoint changes need not be a tree: the conflict-free union law cannot hold at the
        file-system level for such triples (breezy then reports duplicate / missing parent / ... conflicts,
        which the correspondence run observes as "fs-conflict").  Guarded version: C17_disjoint_union gives the
        raw result = union; the oracle requires result = union and no conflict whenever the union is a tree. ---- *)

Definition ex_file (p : nat) (n : bytes) (c : bytes) : entry := mkE p n (BFile c false).
Definition ex_B : list (nat * entry) := [].
Definition ex_T : list (nat * entry) := [(3, ex_file 0 [97%N] [113%N; 10%N])].
Definition ex_O : list (nat * entry) := [(4, ex_file 0 [97%N] [113%N; 10%N])].
Definition ex_tm (b t o : bytes) : bytes * bool := (t, true).

Theorem C17_disjoint_union_is_tree_refuted :
  exists U B O T,
    wf_tree U B = true /\ wf_tree U O = true /\ wf_tree U T = true /\
    (forall f, T f = B f \/ O f = B f) /\
    wf_tree U (fst (merge_tree ex_tm false (fun _ => false) U B [] O T)) = false.
Proof.
  exists [3; 4], (alookup ex_B), (alookup ex_O), (alookup ex_T).
  repeat split; try reflexivity.
  intros f. destruct (Nat.eqb f 3) eqn:E.
  - right. apply Nat.eqb_eq in E. subst. reflexivity.
  - left. unfold ex_T, ex_B, alookup. rewrite (Nat.eqb_sym 3 f), E. reflexivity.
Qed.

(* ---- non-vacuity: concrete criss-cross and three-way instances meeting the hypotheses ----------- *)

Definition ex2_B : list (nat * entry) :=
  [(1, mkE 0 [100%N] BDir); (2, ex_file 1 [97%N] [49%N; 10%N]); (3, ex_file 0 [98%N] [50%N; 10%N])].
(* THIS renames and chmods 2; OTHER rewrites 3, moves it into directory 1, adds symlink 4 *)
Definition ex2_T : list (nat * entry) :=
  [(1, mkE 0 [100%N] BDir); (2, mkE 1 [99%N] (BFile [49%N; 10%N] true)); (3, ex_file 0 [98%N] [50%N; 10%N])].
Definition ex2_O : list (nat * entry) :=
  [(1, mkE 0 [100%N] BDir); (2, ex_file 1 [97%N] [49%N; 10%N]); (3, ex_file 1 [98%N] [51%N; 10%N]);
   (4, mkE 0 [108%N] (BLink [116%N]))].

Example C17_nonvacuous :
  (forall lm, let M := merge_tree ex_tm lm (fun _ => false) [1; 2; 3; 4]
                                  (alookup ex2_B) [alookup ex2_B; alookup ex2_B] (alookup ex2_O) (alookup ex2_T) in
     map (fst M) [1; 2; 3; 4] = map (union_tree (alookup ex2_B) (alookup ex2_O) (alookup ex2_T)) [1; 2; 3; 4]
     /\ snd M = [] /\ wf_tree [1; 2; 3; 4] (fst M) = true)
  /\ fst (merge_tree ex_tm false (fun _ => false) [1; 2; 3; 4] (alookup ex2_B) [] (alookup ex2_O) (alookup ex2_T)) 3
     = Some (ex_file 1 [98%N] [51%N; 10%N])
  /\ fst (merge_tree ex_tm false (fun _ => false) [1; 2; 3; 4] (alookup ex2_B) [] (alookup ex2_O) (alookup ex2_T)) 2
     = Some (mkE 1 [99%N] (BFile [49%N; 10%N] true)).
Proof. split; [intros []; vm_compute; repeat split|split; reflexivity]. Qed.

(* one entry, attributes changed on different sides: THIS renames, OTHER edits the text and sets the exec bit *)
Example C17_attributes_nonvacuous :
  merge_entry ex_tm false 2 false false true
              (Some (ex_file 1 [97%N] [49%N; 10%N])) []
              (Some (mkE 1 [97%N] (BFile [50%N; 10%N] true)))
              (Some (ex_file 1 [99%N] [49%N; 10%N]))
  = (Some (mkE 1 [99%N] (BFile [50%N; 10%N] true)), []).
Proof. reflexivity. Qed.

Print Assumptions C17_other_eq_base.
Print Assumptions C17_this_eq_base.
Print Assumptions C17_identical_changes.
Print Assumptions C17_other_eq_base_tree.
Print Assumptions C17_this_eq_base_tree.
Print Assumptions C17_identical_changes_tree.
Print Assumptions C17_disjoint_union.
Print Assumptions C17_disjoint_attributes.
Print Assumptions C17_lca_variant_disjoint_union.
Print Assumptions C17_disjoint_union_is_tree_refuted.
