(* Properties/C08.v -- Stacked branches stay readable from their own repository plus
   fallbacks.  Statements only; the model is Model/RepoFetch.v (shared with C03), the
   proofs are in Theory/RepoFetch.v.

   T = what the stacked repository holds itself, F = what its fallback holds.
   [local_complete U T]  (the stacking invariant of the property statement): every
     revision of T has, in T itself, its inventory, the inventories of all its parents
     that exist, and every text of its inventory that is in no parent's inventory.
   [full U F]: the fallback is an ordinary complete repository.
   [readable U F T r]: r's inventory and every text it references are in T or F.
   [closedb U (vis_of F T)]: the stack as a whole has no fillable ghost.
   [fetch] models Repository.fetch / Branch.push / Branch.pull into T (ext c = true:
   the 2a format), [commit] models a commit into T. *)
From Coq Require Import List Arith Bool.
From BV Require Import Lib.Dag Theory.DagFacts Model.RepoFetch Theory.RepoFetch.
Import ListNotations.

(* a new stacked repository satisfies the invariant *)
Theorem C08_empty_complete : forall U, local_complete U empty_repo.
Proof. exact local_complete_empty. Qed.
Print Assumptions C08_empty_complete.

(* committing keeps the invariant (stacked: the parent inventories are copied from the
   fallback or the commit is refused; a refused commit changes nothing) *)
Theorem C08_commit_keeps_complete :
  forall U c F T r out n T', wf_univ U = true ->
  commit U c F T r = (out, n, T') ->
  (stacked c = false -> forall p, In p (parents (ug U) r) -> srcp U p = true -> In p (revs T)) ->
  local_complete U T -> local_complete U T' /\ (out <> FOk -> T' = T).
Proof. exact commit_keeps_complete. Qed.
Print Assumptions C08_commit_keeps_complete.

(* fetching / pushing / pulling into it keeps the invariant, for every split of the
   history between fallback and stacked repository, both search modes, both text
   selections, whatever the outcome *)
Theorem C08_fetch_keeps_complete :
  forall U c F T fg r out n T', wf_univ U = true ->
  fetch U c F T fg r = (out, n, T') -> ext c = true -> closedb U (vis_of F T) = true ->
  local_complete U T -> local_complete U T'.
Proof. exact fetch_keeps_complete. Qed.
Print Assumptions C08_fetch_keeps_complete.

Theorem C08_fetch_all_keeps_complete :
  forall U c F T out n T', wf_univ U = true ->
  fetch_all U c F T = (out, n, T') -> ext c = true -> closedb U (vis_of F T) = true ->
  local_complete U T -> local_complete U T'.
Proof. exact fetch_all_keeps_complete. Qed.
Print Assumptions C08_fetch_all_keeps_complete.

(* a sender that cannot supply the parent inventories the sink asks for (pull over the smart server
   from a stacked source whose revisions live in its own fallback): refused -> nothing changes; and
   the invariant survives whenever the fetch is refused or needed no parent inventory *)
Theorem C08_unsupplied_refused_unchanged :
  forall U c F T fg r out n T',
  fetch_nr U c F T fg r = (out, n, T') -> out <> FOk -> T' = T.
Proof. exact fetch_nr_refused_unchanged. Qed.
Print Assumptions C08_unsupplied_refused_unchanged.

Theorem C08_unsupplied_keeps_complete :
  forall U c F T fg r out n T', wf_univ U = true ->
  fetch_nr U c F T fg r = (out, n, T') -> ext c = true -> closedb U (vis_of F T) = true ->
  local_complete U T ->
  out <> FOk \/ refill U c T (missing U c fg (vis_of F T) r) = [] ->
  local_complete U T'.
Proof. exact fetch_nr_keeps_complete. Qed.
Print Assumptions C08_unsupplied_keeps_complete.

(* the invariant is what makes the branch readable: every revision of the stacked
   repository can be reconstructed from it plus the fallback *)
Theorem C08_complete_implies_tip_readable :
  forall U F T, wf_univ U = true ->
  local_complete U T -> full U F -> closedb U (vis_of F T) = true ->
  forall r, In r (revs T) -> srcp U r = true -> readable U F T r.
Proof. exact complete_readable. Qed.
Print Assumptions C08_complete_implies_tip_readable.

(* pushing to a stacked location never leaves the target unable to reconstruct its tip *)
Theorem C08_push_tip_readable :
  forall U c F T fg r n T', wf_univ U = true ->
  fetch U c F T fg r = (FOk, n, T') -> ext c = true -> closedb U (vis_of F T) = true ->
  local_complete U T -> full U F -> srcp U r = true ->
  readable U F T' r /\ forall x, In x (revs T') -> srcp U x = true -> readable U F T' x.
Proof. exact fetch_tip_readable. Qed.
Print Assumptions C08_push_tip_readable.

(* non-trivial instance: fallback = {r0, r1}, the stacked repository receives r2..r4 (a
   merge), then a commit of r5; the parent inventories r0, r1 are held locally, the texts
   of r0, r1 are not *)
Example C08_example :
  let U := Univ [[]; [0]; [0]; [1; 2]; [3]; [4]]
                [[(0,0)]; [(0,0); (1,1)]; [(0,2)]; [(0,3); (1,1)]; [(0,3); (1,4)]; [(0,5); (1,4)]] in
  let F := seed U [0; 1] in
  let c := Cfg true false true false in
  wf_univ U = true /\ closedb U (vis_of F empty_repo) = true /\
  exists T1 T2, fetch U c F empty_repo false 4 = (FOk, 3, T1) /\
                commit U c F T1 5 = (FOk, 1, T2) /\
                revs T2 = [5; 2; 3; 4] /\ memb 0 (invs T2) = true /\ memb 1 (invs T2) = true /\
                tmemb (0, 0) (texts T2) = false.
Proof. vm_compute. repeat split. eexists. eexists. repeat split. Qed.
