(* Properties/C09.v -- Working trees behave like an abstract versioned file system (P-spec).
   Statements only.  The machine is Model/WT.v ([step f s o], f = Bzr | Git); proofs are in
   Theory/WTBase.v, WTValid.v, WTLaws.v.  These are laws of the SPECIFICATION; the implementation is
   tied to the machine by the differential run of harness/props/c09.py (translation validation).

   valid_state Bzr s : the working inventory and the basis are trees: unique file ids, unique paths
                       (= unique sibling names), the root is id 0 at path [], every other entry's parent
                       path is versioned, ids are below the allocation counter.
   valid_state Git s : the index and the basis file list are duplicate-free (directories are implied,
                       so parents are versioned by construction: [git_snapshot]). *)
From Coq Require Import NArith List Bool.
From BV Require Import Lib.Obs Model.WT Theory.WTBase Theory.WTValid Theory.WTLaws.
Import ListNotations.

(* every operation keeps the versioned tree valid ... *)
Theorem C09_ops_preserve_valid_step :
  forall f s o st s', valid_state f s -> step f s o = Done st s' -> valid_state f s'.
Proof. exact step_valid. Qed.
Print Assumptions C09_ops_preserve_valid_step.

(* ... hence after ARBITRARY operation sequences, from the empty tree, in both formats *)
Theorem C09_ops_preserve_valid :
  forall f ops, valid_state f (run f init_state ops).
Proof. intros f ops. apply run_valid. apply init_valid. Qed.
Print Assumptions C09_ops_preserve_valid.

Example C09_valid_example :      (* a non-trivial reachable state: mkdir a; put a/b; add a/b; commit; rename a -> c *)
  let s := run Bzr init_state [OMkdir [[97%N]]; OPut [[97%N]; [98%N]] [120%N]; OAdd [[97%N]; [98%N]]; OCommit;
                               ORename [[97%N]] [[99%N]]] in
  map (fun e => fst (snd e)) (sinv s) = [[]; [[99%N]]; [[99%N]; [98%N]]] /\ length (bzr_status s) = 1.
Proof. vm_compute. split; reflexivity. Qed.

(* status is sound and complete: applying the reported changes to the basis gives the working tree,
   key by key (git: path -> entry; dirstate: file id -> (parent id, name, kind, text, exec)) *)
Theorem C09_status_sound_complete_git :
  forall s p, assoc path_eqb p (apply_changes path_eqb (git_status s) (git_basis_tree s))
              = assoc path_eqb p (git_snapshot s).
Proof. exact git_status_sound_complete. Qed.
Print Assumptions C09_status_sound_complete_git.

Theorem C09_status_sound_complete_bzr :
  forall s k, assoc Nat.eqb k (apply_changes Nat.eqb (changes Nat.eqb pkey_eqb (ktree (sbasis s)) (ktree (bzr_view s)))
                                             (ktree (sbasis s)))
              = assoc Nat.eqb k (ktree (bzr_view s)).
Proof. exact bzr_status_sound_complete. Qed.
Print Assumptions C09_status_sound_complete_bzr.

(* the rows [bzr_status] emits are exactly the file ids whose comparison keys differ *)
Theorem C09_status_rows_bzr :
  forall s k, (exists x y, In (k, x, y) (bzr_status s)) <->
              assoc Nat.eqb k (ktree (sbasis s)) <> assoc Nat.eqb k (ktree (bzr_view s)).
Proof. exact bzr_status_rows. Qed.
Print Assumptions C09_status_rows_bzr.

(* commit then clean (dirstate): any state, commit always succeeds and leaves view = basis, status empty *)
Theorem C09_commit_then_clean :
  forall s st s', step Bzr s OCommit = Done st s' -> st = SOk /\ bzr_view s' = sbasis s' /\ bzr_status s' = [].
Proof. exact bzr_commit_then_clean. Qed.
Print Assumptions C09_commit_then_clean.

(* for git the law is FALSE of the faithful model: an index entry that became a directory on disk stays
   in the index over a commit and is then reported as an added directory (replayed on breezy: same) *)
Theorem C09_commit_then_clean_git_refuted :
  exists ops s st s', s = run Git init_state ops /\ step Git s OCommit = Done st s' /\ st = SOk /\ git_status s' <> [].
Proof. exact git_commit_then_clean_refuted. Qed.
Print Assumptions C09_commit_then_clean_git_refuted.

(* revert restores the basis (dirstate), in every state reachable by an operation sequence whose basis is
   not the null tree, whenever revert is inside the modelled domain (i.e. does not return Stuck) *)
Theorem C09_revert_restores_basis :
  forall ops st s', let s := run Bzr init_state ops in
    sbasis s <> [] -> step Bzr s ORevert = Done st s' ->
    st = SOk /\ sbasis s' = sbasis s /\ bzr_view s' = sbasis s /\ bzr_status s' = [].
Proof. exact bzr_revert_after_run. Qed.
Print Assumptions C09_revert_restores_basis.

Theorem C09_revert_null_basis :
  forall s st s', sbasis s = [] -> step Bzr s ORevert = Done st s' ->
                  st = SOk /\ sinv s' = [(0, ([], KD))] /\ sbasis s' = [].
Proof. exact bzr_revert_null_basis. Qed.
Print Assumptions C09_revert_null_basis.

Example C09_revert_example :     (* put a; add a; commit; modify a; chmod +x; remove --keep a; put unversioned b; revert *)
  let a := [[97%N]] in let b := [[98%N]] in
  let s := run Bzr init_state [OPut a [120%N]; OAdd a; OCommit; OPut a [121%N]; OChmod a true; ORemoveKeep a; OPut b [122%N]] in
  match step Bzr s ORevert with
  | Done SOk s' => dl (sdisk s') a = Some (NFile [120%N] false) /\ dl (sdisk s') b = Some (NFile [122%N] false) /\
                   dl (sdisk s') (moved a) = Some (NFile [121%N] true)
  | _ => False
  end.
Proof. vm_compute. repeat split; reflexivity. Qed.

(* git: revert/commit laws are NOT proved in general (they need a disk well-formedness invariant through
   revert_disk); they are checked on the implementation by the oracle and on the model by examples *)
Example C09_revert_restores_basis_git_partial :
  let a := [[97%N]] in let d := [[100%N]] in
  let s := run Git init_state [OPut a [120%N]; OAdd a; OOsMkdir d; OPut (d ++ a) [121%N]; OAdd (d ++ a); OCommit;
                               OPut a [122%N]; OChmod (d ++ a) true; ORemoveForce d] in
  match step Git s ORevert with
  | Done SOk s' => git_status s' = [] /\ dl (sdisk s') (d ++ a) = Some (NFile [121%N] false)
  | _ => False
  end.
Proof. vm_compute. split; reflexivity. Qed.

(* re-open is the identity of the abstract state (the implementation side of this clause is the
   persisted-state comparison of the refinement run) *)
Theorem C09_reopen_identity : forall f s, step f s OReopen = Done SOk s.
Proof. exact reopen_identity. Qed.
Print Assumptions C09_reopen_identity.
