(* Properties/C35.v -- Git object export is consistent and round-trips.
   Statements only; model in Model/GitTree.v, proofs in Theory/GitTree.v.

   Object ids are an abstract type [sha] with [Hb] (blob id) and [Ht] (tree id from its sorted
   entries): nothing about SHA-1 is used except that it is a function.  (Injectivity is needed
   only to read "equal ids" back as "equal trees"; the refutation instantiates ids with the
   Merkle structure itself.)  Bazaar's text SHA-1 comparison in find_unchanged_parent_ie is
   modelled as equality of the texts (assumption: no SHA-1 collision among compared texts). *)
From Coq Require Import NArith List Bool Permutation Sorted.
From BV Require Import Lib.Bytes Lib.SortUniq Model.GitTree Theory.GitTree.
Import ListNotations.

(* dulwich writes tree entries sorted with directories compared as name+"/": the result is a
   function of the SET of entries (any two enumerations of the children give the same tree) *)
Theorem C35_git_sort_function_of_entry_set :
  forall es1 es2, Permutation es1 es2 -> NoDup (map gkey es1) -> gsort es1 = gsort es2.
Proof. exact gsort_entry_set. Qed.
Print Assumptions C35_git_sort_function_of_entry_set.

(* incremental (_tree_to_objects with parent trees and the id-map cache, plus the root handling
   of _revision_to_objects) = from scratch (directory_to_tree over the whole tree).
   Hypotheses: the cache is consistent with the stored texts; every entry's (file id, revision)
   names its text; paths are unique; and iter_changes (bzrformats) is complete: if it reports no
   change at all (and the revision has no unusual modes), the tree equals the left-hand parent's.
   Since the repair 4f049bc no caveat about banned names is needed: every reported change,
   exported or not, dirties its directories. *)
Theorem C35_incremental_eq_scratch :
  forall (sha : Type) (Hb : bytes -> sha) (Ht : list (N * name * sha) -> sha)
         (texts : key -> bytes) (cache : key -> option sha) (others : list (list fent))
         (cs : list change) (um ump : umap) (base t : ktree) (parent_root : option sha),
    cache_consistent sha Hb cache texts ->
    keys_ok texts (flat t) -> Forall (keys_ok texts) others ->
    NoDup (map f_path (flat t)) ->
    ((forall c, In c cs -> c_old c = None /\ c_new c = None) -> um = [] ->
       erase t = erase base /\ ump = um /\
       parent_root = Some (gid Hb Ht (to_git_root ump (erase base)))) ->
    incremental Hb Ht cache others cs um parent_root t = gid Hb Ht (to_git_root um (erase t)).
Proof. exact incremental_eq_scratch_changes. Qed.
Print Assumptions C35_incremental_eq_scratch.

(* hypotheses are satisfiable by a non-trivial value: second revision modifies one of two files *)
Example C35_incremental_example :
  let b := KDir ([114],[48]) [([97;97], KFile ([102],[48]) [65] false); ([98;98], KFile ([103],[48]) [66] true)] in
  let t := KDir ([114],[48]) [([97;97], KFile ([102],[49]) [67] false); ([98;98], KFile ([103],[48]) [66] true)] in
  let cs := changes (flat b) (flat t) in
  dirty_dirs cs [] <> [] /\
  incremental HbG HtG (cache_of [b]) [] cs [] (Some (to_git_root [] (erase b))) t
  = gid HbG HtG (to_git_root [] (erase t)).
Proof. split; vm_compute; [discriminate|reflexivity]. Qed.

(* regression for the repaired finding C35-banned-rename: a revision whose only change renames a
   file to ".git" used to re-use the parent's root tree; now the root is dirty and recomputed *)
Theorem C35_banned_rename_regression :
  let cs := changes (flat wit_base) (flat wit_t) in
  dirty_dirs cs [] <> [] /\
  incremental HbG HtG (cache_of [wit_base]) [] cs [] (Some (to_git_root [] (erase wit_base))) wit_t
  = gid HbG HtG (to_git_root [] (erase wit_t)).
Proof. exact incremental_banned_rename_ok. Qed.
Print Assumptions C35_banned_rename_regression.

(* push then fetch: importing the exported tree gives back paths, contents, executable bits and
   symlink targets; exactly the empty directories (and names git bans) are dropped *)
Theorem C35_of_git_to_git :
  forall t ae p, wf_e t ->
    option_map (of_git (entry_mode t)) (to_git [] ae p t) = drop_empty ae t.
Proof. exact of_git_to_git. Qed.
Print Assumptions C35_of_git_to_git.

Example C35_of_git_to_git_example :
  let t := EDir [([97], EFile [1] true); ([97;45], ELink [97]); ([98], EDir [([99], EDir [])])] in
  wf_e t /\ drop_empty true t = Some (EDir [([97], EFile [1] true); ([97;45], ELink [97])]).
Proof.
  split; [|reflexivity]. simpl.
  repeat split; repeat constructor; simpl; intuition discriminate.
Qed.

(* fetch then re-export: canonical git trees (entries in git order, distinct names, standard
   modes, no empty subtrees, no ".git" entries, no submodules) are reproduced exactly, hence
   with the original ids.  _partial: trees with unusual modes (0o100664, ...) are carried by the
   unusual-modes map ([um_of]); that path is covered by the correspondence run only. *)
Theorem C35_to_git_of_git_partial :
  forall g m ae p, canon m g -> (g <> GTree [] \/ ae = true) ->
    to_git [] ae p (of_git m g) = Some g.
Proof. exact to_git_of_git. Qed.
Print Assumptions C35_to_git_of_git_partial.

Corollary C35_reexport_same_ids :
  forall (sha : Type) (Hb : bytes -> sha) (Ht : list (N * name * sha) -> sha) g,
    canon M_DIR g ->
    gid Hb Ht (to_git_root [] (of_git M_DIR g)) = gid Hb Ht g.
Proof.
  intros sha Hb Ht g Hc. unfold to_git_root.
  rewrite (to_git_of_git g M_DIR true [] Hc) by (right; reflexivity). reflexivity.
Qed.
Print Assumptions C35_reexport_same_ids.

Example C35_canon_example :
  canon M_DIR (GTree [(M_REG, [97;45], GBlob [1]); (M_DIR, [97], GTree [(M_LNK, [120], GBlob [97])]);
                      (M_EXE, [97;48], GBlob [])]).
Proof.
  simpl. repeat split; auto; repeat constructor; simpl; intuition discriminate.
Qed.
