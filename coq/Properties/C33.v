(* Properties/C33.v -- Search recipes sent to the server describe exactly the
   intended revisions.  Statements only; the model is Model/Search.v (+ the
   breadth-first searcher of Lib/DagSearch.v), the proofs are in Theory/Search.v
   and Theory/DagSearch.v.

   g        the server's revision graph (any size; ghosts = referenced, not a key)
   pm       the client's cached parent map       missing  its negative cache
   cache_okb g pm          : pm is a dict, each entry is the server's entry, parents are
                             numbered below their child (acyclic), the server has no b""
   missing_okb g pm missing: missing keys are not cached and are absent on the server
                             (null: excepted; the server maps null: to ())
   server_replay g r       : recreate_search_from_recipe on recipe r = (start, stop, count):
                             Walk started excludes included  |  NoSuchRevision (count check failed) *)
From Coq Require Import Arith NArith List Bool.
From BV Require Import Lib.Bytes Lib.DagSearch Theory.DagSearch Model.Search Theory.Search.
Import ListNotations.
Local Open Scope nat_scope.

(* The searcher model terminates within its fuel on every graph and computes exactly
   the revisions reachable from the start keys through present, non-stopped revisions. *)
Theorem C33_bfs_fuel_suffices_and_spec :
  forall (g : graph) (start excl : list nat),
  exists seen stopped refs,
    bfs g start excl = Some (seen, stopped, refs) /\
    NoDup seen /\
    (forall r, In r seen <-> Vis g start excl r) /\
    (forall r, In r stopped <-> Vis g start excl r /\ okb g excl r = false) /\
    (forall r, In r refs <-> exists c, Vis g start excl c /\ okb g excl c = true /\ In r (parents g c)).
Proof. exact bfs_spec. Qed.
Print Assumptions C33_bfs_fuel_suffices_and_spec.

(* Full recipe (search_result_from_parent_map): the server's count check passes and the
   walk is exactly the cached keys (plus null: when the NULL_REVISION rule fires). *)
Theorem C33_walk_eq_intended_guarded :
  forall g pm missing,
  cache_okb g pm = true -> missing_okb g pm missing = true ->
  exists started excludes walk,
    server_replay g (search_result_from_parent_map pm missing) = Walk started excludes walk /\
    NoDup walk /\
    length walk = snd (search_result_from_parent_map pm missing) /\
    (forall r, In r walk <-> In r (intended_full pm missing)).
Proof. exact full_recipe_exact. Qed.
Print Assumptions C33_walk_eq_intended_guarded.

Theorem C33_walk_eq_cached_keys :
  forall g pm missing,
  cache_okb g pm = true -> missing_okb g pm missing = true -> memb NULL missing = false ->
  exists started excludes walk,
    server_replay g (search_result_from_parent_map pm missing) = Walk started excludes walk /\
    length walk = length pm /\
    (forall r, In r walk <-> In r (keys pm)).
Proof. exact full_recipe_exact_keys. Qed.
Print Assumptions C33_walk_eq_cached_keys.

(* Depth-limited recipe (limited_search_result_from_parent_map), any tips and depth: the
   count check passes, the server walks exactly what the client's own limited walk
   included, which lies inside the cache and excludes the requested tips. *)
Theorem C33_limited_walk_subset_and_count :
  forall g pm missing tips depth,
  cache_okb g pm = true ->
  exists r started excludes walk,
    limited_search_result_from_parent_map pm missing tips depth = Some r /\
    server_replay g r = Walk started excludes walk /\
    NoDup walk /\ length walk = snd r /\
    (forall x, In x walk <-> In x (limited_client_keys pm tips depth)) /\
    (forall x, In x walk -> In x (keys pm) /\ ~ In x tips).
Proof. exact limited_recipe_exact. Qed.
Print Assumptions C33_limited_walk_subset_and_count.

(* Wire format: what _serialise_search_recipe emits, the server's three splits parse
   back to the same key sets (an empty set arrives as {b""}) and the same count. *)
Theorem C33_serialise_roundtrip :
  forall (start stop : list bytes) (count : nat),
  forallb key_okb start = true -> forallb key_okb stop = true ->
  parse_search_recipe (serialise_search_recipe start stop count)
  = Some (keys_or_empty start, keys_or_empty stop, count).
Proof. exact serialise_roundtrip. Qed.
Print Assumptions C33_serialise_roundtrip.

(* ... and for the revision ids of the model: nat-level parse_keys is the byte-level parse *)
Theorem C33_serialise_roundtrip_ids :
  forall (start stop : list nat) (count : nat),
  parse_search_recipe (serialise_search_recipe (map enc start) (map enc stop) count)
  = Some (map enc (parse_keys start), map enc (parse_keys stop), count)
  /\ (forall a b, enc a = enc b -> a = b).
Proof. intros. split; [apply serialise_roundtrip_enc|exact enc_inj]. Qed.
Print Assumptions C33_serialise_roundtrip_ids.

(* The hypotheses on the client state cannot be dropped (the unguarded statement is false
   of the model, and of the real code: these witnesses are in the harness corpus). *)
Theorem C33_stale_missing_refuted :
  exists g pm missing,
    cache_okb g pm = true /\
    forallb (fun m => negb (memb m (keys pm))) missing = true /\
    server_replay g (search_result_from_parent_map pm missing) = NoSuchRevision.
Proof. exact stale_missing_refuted. Qed.
Print Assumptions C33_stale_missing_refuted.

Theorem C33_null_cached_and_missing_refuted :
  exists g pm missing,
    cache_okb g pm = true /\
    forallb (fun m => Nat.eqb m NULL || negb (in_dom g m)) missing = true /\
    server_replay g (search_result_from_parent_map pm missing) = NoSuchRevision.
Proof. exact null_cached_and_missing_refuted. Qed.
Print Assumptions C33_null_cached_and_missing_refuted.

Theorem C33_unfaithful_cache_refuted :
  exists g pm missing,
    missing_okb g pm missing = true /\
    server_replay g (search_result_from_parent_map pm missing) = NoSuchRevision.
Proof. exact unfaithful_cache_refuted. Qed.
Print Assumptions C33_unfaithful_cache_refuted.
