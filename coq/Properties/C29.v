(* Properties/C29.v -- Smart protocol messages survive the wire unchanged.
   Statements only; the model is Model/Smart.v (hand model of
   breezy/bzr/smart/protocol.py and message.py), proofs in Theory/Smart*.v.

   A decoder is  accept : state -> bytes -> state.  "Regardless of how the
   byte stream is split into reads" = for every list [segs] of segments,
   fold_left accept segs init; "bytes following the end of a message are
   preserved" = the [tail] ends up in unused_data.

   Not proved here (covered by the end-to-end oracle of harness/props/c29.py
   only): the composition of these codecs into whole v1/v2/v3 requests and
   responses by the request handlers and media, and bencode itself (a v3
   structure is its raw bencoded bytes; fastbencode is environment). *)
From Coq Require Import ZArith NArith List Bool.
From BV Require Import Lib.Bytes Model.Smart Theory.SmartNum Theory.SmartSeg Theory.SmartLP Theory.SmartCk
  Theory.SmartP3 Theory.SmartCodec.
Import ListNotations.

(* ---- v1/v2 bulk bodies: LengthPrefixedBodyDecoder ---- *)
Theorem C29_bulk_segmentation_independent :
  forall s a b, lp_accept (lp_accept s a) b = lp_accept s (a ++ b).
Proof. exact lp_accept_app. Qed.
Print Assumptions C29_bulk_segmentation_independent.

Theorem C29_bulk_decode_encode_any_segmentation :
  forall body tail segs, concat segs = encode_bulk_data body ++ tail ->
    fold_left lp_accept segs lp_init = LpDone body tail.
Proof. exact lp_decode_encode_any_segmentation. Qed.
Print Assumptions C29_bulk_decode_encode_any_segmentation.

(* ... whether or not read_pending_data() is called between the reads *)
Theorem C29_bulk_read_pending_any_time :
  forall body tail (segs : list (bytes * bool)),
    concat (map fst segs) = encode_bulk_data body ++ tail ->
    fst (lp_consume lp_init segs []) = body /\
    lp_finished (snd (lp_consume lp_init segs [])) = true /\
    lp_unused (snd (lp_consume lp_init segs [])) = tail.
Proof. exact lp_consume_roundtrip. Qed.
Print Assumptions C29_bulk_read_pending_any_time.

(* ---- v2 streamed bodies: ChunkedBodyDecoder ---- *)
Theorem C29_stream_segmentation_independent :
  forall s a b, ck_accept (ck_accept s a) b = ck_accept s (a ++ b).
Proof. exact ck_accept_app. Qed.
Print Assumptions C29_stream_segmentation_independent.

Theorem C29_stream_decode_encode_any_segmentation :
  forall chunks err tail segs, concat segs = encode_stream chunks err ++ tail ->
    fold_left ck_accept segs ck_init = (CkDone err chunks tail, []).
Proof. exact ck_decode_encode_any_segmentation. Qed.
Print Assumptions C29_stream_decode_encode_any_segmentation.

(* a stream that fails after k chunks decodes to the k chunks followed by the same error tuple *)
Theorem C29_stream_error_midway :
  forall chunks error_args tail segs, concat segs = encode_stream chunks (Some error_args) ++ tail ->
    fold_left ck_accept segs ck_init = (CkDone (Some error_args) chunks tail, []).
Proof. intros chunks e. exact (ck_decode_encode_any_segmentation chunks (Some e)). Qed.
Print Assumptions C29_stream_error_midway.

(* ---- protocol 3 framing: ProtocolThreeDecoder (part lengths < 2^32, as struct.pack requires) ---- *)
Theorem C29_v3_segmentation_independent :
  forall s a b, p3_accept (p3_accept s a) b = p3_accept s (a ++ b).
Proof. exact p3_accept_app. Qed.
Print Assumptions C29_v3_segmentation_independent.

Theorem C29_v3_decode_encode_any_segmentation_server :
  forall headers parts tail segs, fits32 headers -> Forall p3_part_ok parts ->
    concat segs = p3_encode_body headers parts ++ tail ->
    fold_left p3_accept segs p3_init_server = ((P3Unused tail, p3_events_of headers parts, None), []).
Proof. exact p3_decode_encode_any_segmentation_server. Qed.
Print Assumptions C29_v3_decode_encode_any_segmentation_server.

Theorem C29_v3_decode_encode_any_segmentation_client :
  forall headers parts tail segs, fits32 headers -> Forall p3_part_ok parts ->
    concat segs = p3_encode headers parts ++ tail ->
    fold_left p3_accept segs p3_init_client = ((P3Unused tail, p3_events_of headers parts, None), []).
Proof. exact p3_decode_encode_any_segmentation_client. Qed.
Print Assumptions C29_v3_decode_encode_any_segmentation_client.

(* ConventionalResponseHandler turns the parts of a response back into
   status / args / body or chunks / stream error, for every response shape,
   including a body stream that fails before its first chunk (repaired in /repo
   by 737004f; before that this case was C29_v3_stream_error_first_refuted) *)
Theorem C29_v3_response_parts :
  forall headers ok args body,
    rh_run rh_init (p3_events_of headers (response_parts ok args body)) = Some (rh_expected ok args body).
Proof. exact response_parts_roundtrip. Qed.
Print Assumptions C29_v3_response_parts.

Theorem C29_v3_stream_error_before_first_chunk :
  forall headers args e,
    rh_run rh_init (p3_events_of headers (response_parts true args (RStream [] (Some e)))) =
    Some {| rh_status := Some 83%N; rh_args := Some args; rh_parts := []; rh_body_started := true;
            rh_stream_status := Some 69%N; rh_error_args := Some e |}.
Proof. intros headers args e. exact (response_parts_roundtrip headers true args (RStream [] (Some e))). Qed.
Print Assumptions C29_v3_stream_error_before_first_chunk.

(* ---- v1/v2 argument tuples: \x01-joined, \n-terminated ---- *)
Theorem C29_tuple_roundtrip_guarded :
  forall args tail, no_sep args = true ->
    recv_tuple (encode_tuple args ++ tail) = Some (DtOk args, tail).
Proof. exact recv_encode_tuple. Qed.
Print Assumptions C29_tuple_roundtrip_guarded.

(* without the guard (an argument containing \x01 or \n, or the empty tuple) it is false:
   the documented limitation of protocol versions 1 and 2 *)
Theorem C29_tuple_roundtrip_refuted :
  (exists args, args <> [] /\ decode_tuple (encode_tuple args) <> DtOk args) /\
  decode_tuple (encode_tuple []) <> DtOk [] /\
  (exists args tail, forallb (fun a => negb (memb SEP a)) args = true /\
                     recv_tuple (encode_tuple args ++ tail) <> Some (DtOk args, tail)).
Proof. exact tuple_roundtrip_refuted. Qed.
Print Assumptions C29_tuple_roundtrip_refuted.

(* ---- readv offsets ---- *)
Theorem C29_offsets_roundtrip :
  forall offs, deserialise_offsets (serialise_offsets offs) = Some offs.
Proof. exact offsets_roundtrip. Qed.
Print Assumptions C29_offsets_roundtrip.
