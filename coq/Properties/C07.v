(* Properties/C07.v -- Autopack planning is well-formed for every pack size distribution.
   Statements only; proofs are in Theory/AutoPack.v, the model in Model/AutoPack.v
   (hand model of RepositoryPackCollection._max_pack_count, pack_distribution,
   plan_autopack_combinations and the trigger of _do_autopack in breezy/bzr/pack_repo.py).

   pack = (revision_count, identity);  sumc = sum of the counts;  positive = every count > 0;
   plan packs dist : Nothing (returns []) | Combine n l (returns [[n, l]]) | Fail e (raises);
   max_pack_count total = 1 if total = 0, else the sum of the decimal digits of total.

   The property's quantifier "all total counts" is FALSE for totals below the sum of the counts
   (C07_dup_total_refuted).  The strongest true statement has the executable guard
   [sumc packs <=? total]; in _do_autopack the total IS the sum (key_count), so the
   C07_do_autopack_* theorems carry no guard. *)
From Coq Require Import NArith List Bool Permutation Lia.
From BV Require Import Model.AutoPack Theory.AutoPack.
Import ListNotations.
Open Scope N_scope.

(* ---- "digit sum" really is the sum of the decimal digits; the distribution ---- *)

(* digits_rev total is the decimal representation of total, least significant digit first *)
Theorem C07_digits_are_decimal :
  forall total, from_digits_rev (digits_rev total) = total /\
                Forall (fun d => d < 10) (digits_rev total).
Proof. exact digits_rev_spec. Qed.
Print Assumptions C07_digits_are_decimal.

Theorem C07_max_pack_count_is_digit_sum :
  forall total, max_pack_count total = if total =? 0 then 1 else sumN (digits_rev total).
Proof.
  intros total. unfold max_pack_count. destruct (total =? 0); [reflexivity|].
  apply digit_sum_digits_rev.
Qed.
Print Assumptions C07_max_pack_count_is_digit_sum.

(* the distribution has max_pack_count buckets that add up to the total *)
Theorem C07_distribution_shape :
  forall total, sumN (pack_distribution total) = total /\
                N.of_nat (length (pack_distribution total)) = max_pack_count total.
Proof. intros total. split; [apply pack_distribution_sum|apply pack_distribution_length]. Qed.
Print Assumptions C07_distribution_shape.

(* ---- the planner, direct call, guard: total >= sum of the counts ---- *)

(* planning never fails with an internal error (IndexError, or the single-pack AssertionError) *)
Theorem C07_no_internal_error_guarded :
  forall packs total e, positive packs -> (sumc packs <=? total) = true ->
    plan packs (pack_distribution total) <> Fail e.
Proof.
  intros packs total e Hpos Hg Hf. apply N.leb_le in Hg.
  pose proof (plan_wellformed packs total Hpos Hg) as Hw. rewrite Hf in Hw. exact Hw.
Qed.
Print Assumptions C07_no_internal_error_guarded.

(* a non-empty plan is ONE combination of at least two of the given packs, its revision count
   is the sum of theirs, and afterwards (kept packs + the new one) at most max_pack_count remain *)
Theorem C07_plan_shape_and_count_after_guarded :
  forall packs total n l, positive packs -> (sumc packs <=? total) = true ->
    plan packs (pack_distribution total) = Combine n l ->
    (2 <= length l)%nat /\ n = sumc l /\
    exists kept, Permutation packs (l ++ kept) /\
                 N.of_nat (length kept) + 1 <= max_pack_count total.
Proof.
  intros packs total n l Hpos Hg Hp. apply N.leb_le in Hg.
  pose proof (plan_wellformed packs total Hpos Hg) as Hw. rewrite Hp in Hw.
  destruct Hw as (H2 & Hn & kept & Hperm & Hk). repeat apply conj; [exact H2|exact Hn|].
  exists kept. split; [exact Hperm|]. unfold bound_of in Hk. lia.
Qed.
Print Assumptions C07_plan_shape_and_count_after_guarded.

(* nothing is planned when the pack count is already within the bound (no guard needed) *)
Theorem C07_noop_within_bound :
  forall packs total, N.of_nat (length packs) <= max_pack_count total ->
    plan packs (pack_distribution total) = Nothing.
Proof.
  intros packs total H. apply plan_noop_within_bound. unfold bound_of. lia.
Qed.
Print Assumptions C07_noop_within_bound.

(* ... and something IS planned when it is not *)
Theorem C07_plans_over_bound_guarded :
  forall packs total, positive packs -> (sumc packs <=? total) = true ->
    max_pack_count total < N.of_nat (length packs) ->
    exists n l, plan packs (pack_distribution total) = Combine n l.
Proof.
  intros packs total Hpos Hg H. apply N.leb_le in Hg.
  apply plan_acts_over_bound; [exact Hpos|exact Hg|]. unfold bound_of. lia.
Qed.
Print Assumptions C07_plans_over_bound_guarded.

(* the same facts for ANY distribution list holding at least the packs' revisions
   (bound = its length); the planner does not rely on the list being sorted *)
Theorem C07_planner_any_distribution :
  forall packs dist, positive packs -> sumc packs <= sumN dist ->
    match plan packs dist with
    | Nothing => (length packs <= length dist)%nat
    | Combine n l => (2 <= length l)%nat /\ n = sumc l /\
                     exists kept, Permutation packs (l ++ kept) /\
                                  (length kept + 1 <= length dist)%nat
    | Fail _ => False
    end.
Proof. exact plan_wellformed_any_dist. Qed.
Print Assumptions C07_planner_any_distribution.

(* ---- the full statement ("all total counts") is false ---- *)

Theorem C07_dup_total_refuted :
  exists packs total, positive packs /\ total < sumc packs /\
                      plan packs (pack_distribution total) = Fail IndexError.
Proof. exact dup_total_refuted. Qed.
Print Assumptions C07_dup_total_refuted.

(* ---- _do_autopack: total = key_count = sum of the per-pack counts, no guard ---- *)

Theorem C07_do_autopack_total_is_sum :
  forall all_packs, do_autopack all_packs = do_autopack_with (sumc all_packs) all_packs.
Proof. reflexivity. Qed.
Print Assumptions C07_do_autopack_total_is_sum.

(* the whole property for the trigger: no internal error; either nothing (then the pack count is
   within the digit sum) or one combination of >= 2 packs with the summed count after which at
   most digit-sum packs remain *)
Theorem C07_do_autopack_wellformed :
  forall all_packs, positive all_packs ->
    let bound := N.to_nat (max_pack_count (sumc all_packs)) in
    match do_autopack all_packs with
    | Nothing => (length all_packs <= bound)%nat
    | Combine n l => (2 <= length l)%nat /\ n = sumc l /\
                     exists kept, Permutation all_packs (l ++ kept) /\
                                  (length kept + 1 <= bound)%nat
    | Fail _ => False
    end.
Proof. exact do_autopack_wellformed. Qed.
Print Assumptions C07_do_autopack_wellformed.

(* hypotheses are satisfiable: 11 packs, 20 revisions, ten single-revision packs are combined *)
Theorem C07_example :
  let packs := [(1, 7); (10, 0); (1, 1); (1, 2); (1, 3); (1, 4); (1, 5); (1, 6); (1, 8); (1, 9); (1, 10)] in
  positive packs /\ sumc packs <= 20 /\ (bound_of 20 < length packs)%nat /\
  plan packs (pack_distribution 20) =
    Combine 10 [(1, 10); (1, 9); (1, 8); (1, 7); (1, 6); (1, 5); (1, 4); (1, 3); (1, 2); (1, 1)].
Proof. exact plan_example. Qed.
Print Assumptions C07_example.
