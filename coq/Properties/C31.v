(* Properties/C31.v -- Smart server clients cannot reach files outside the served directory.
   Statements only; model in Model/Jail.v, proofs in Theory/Jail.v.

   resolve_plain / resolve_vfs  rcp p  is the whole trip of a client path p under
   root client path rcp: translate_client_path, then the backing transport built
   by BzrServerFactory._make_backing_transport (userdir filter -> chroot ->
   local transport).  The result is  Fail e  (the request is rejected) or
   Ok segs : the OS is asked to walk the segments [segs] starting in the served
   directory.  stays_inside segs: that walk never steps above the served
   directory.  [expander]/[base_path] are BzrServerFactory.userdir_expander and
   .base_path; expander_harmless is the hypothesis on os.path.expanduser. *)
From Coq Require Import NArith List Bool String.
From BV Require Import Lib.Bytes Model.Jail Theory.Jail.
Import ListNotations.

(* Non-VFS verbs: every byte string, every root client path. *)
Theorem C31_plain_inside_root :
  forall expander base_path, expander_harmless expander base_path ->
  forall rcp p segs,
    wf_bytes p = true ->
    resolve_plain expander base_path rcp p = Ok segs ->
    ~ In dotdot segs /\ stays_inside segs = true.
Proof. exact plain_inside_root. Qed.
Print Assumptions C31_plain_inside_root.

(* the expander hypothesis is satisfiable (expanduser over an empty user database) *)
Example C31_expander_hypothesis_satisfiable :
  forall bp, expander_harmless (expanduser []) (SLASH :: bp).
Proof. exact expander_harmless_nohomes. Qed.

(* VFS verbs (VfsRequest.translate_client_path as of commit 54ddefb: the client's
   escaping is removed BEFORE the jail check): full statement, no guard. *)
Theorem C31_vfs_inside_root :
  forall expander base_path, expander_harmless expander base_path ->
  forall rcp p segs,
    wf_bytes p = true ->
    resolve_vfs expander base_path rcp p = Ok segs ->
    ~ In dotdot segs /\ stays_inside segs = true.
Proof. exact vfs_inside_root. Qed.
Print Assumptions C31_vfs_inside_root.

Example C31_vfs_served_example :
  forall expander base_path,
    wf_bytes vfs_example = true /\
    resolve_vfs expander base_path [SLASH] vfs_example = Ok [[97;32;98]; [126;120]; [102]]%N.
Proof. exact vfs_example_ok. Qed.

(* regression: the current translation rejects "..%2Fsecret/x" and maps
   "%%%332E%%%332E/secret/x" to a literal file name below the served directory *)
Example C31_vfs_old_witnesses_now_harmless :
  forall expander base_path,
    resolve_vfs expander base_path [SLASH] witness_sep = Fail "InvalidURLJoin" /\
    resolve_vfs expander base_path [SLASH] witness_dot
    = Ok [[37;37;51;50;69;37;37;51;50;69]; [115;101;99;114;101;116]; [120]]%N.
Proof. exact vfs_on_old_witnesses. Qed.

(* Statements about the OLD VfsRequest.translate_client_path (before 54ddefb:
   unescape AFTER the jail check; model translate_vfs_old / resolve_vfs_old).
   It was FALSE of that code, whatever the expander and base_path: witness
   "..%2Fsecret/x" under root client path "/" made the OS walk ../secret/x. *)
Theorem C31_old_vfs_translation_refuted :
  forall expander base_path, exists p segs,
    wf_bytes p = true /\
    resolve_vfs_old expander base_path [SLASH] p = Ok segs /\
    In dotdot segs /\ stays_inside segs = false.
Proof.
  intros e b. exists witness_sep, escaped_segs.
  destruct (old_vfs_refuted_sep e b) as (A & B & C). repeat split; auto. left; reflexivity.
Qed.
Print Assumptions C31_old_vfs_translation_refuted.

(* second witness against the OLD translation, without any encoded separator:
   "%%%332E%%%332E/secret/x" (two pathfilter normalisations + the local unescape
   peel three layers) *)
Theorem C31_old_vfs_translation_nested_dot_refuted :
  forall expander base_path, exists p segs,
    wf_bytes p = true /\ existsb (N.eqb 47) (pct_decode p) = existsb (N.eqb 47) p /\
    resolve_vfs_old expander base_path [SLASH] p = Ok segs /\ stays_inside segs = false.
Proof.
  intros e b. exists witness_dot, escaped_segs.
  destruct (old_vfs_refuted_dot e b) as (A & B & C). repeat split; auto.
Qed.
Print Assumptions C31_old_vfs_translation_nested_dot_refuted.

(* _pre_open_hook with a jail installed: a transport is accepted only below an
   allowed root of the same server; anything else fails (JailBreak). *)
Theorem C31_open_outside_jail_fails :
  forall l url,
    (pre_open_hook (Some l) url = true ->
       exists a r, In a l /\ fst a = fst url /\ snd url = snd a ++ r) /\
    ((forall a, In a l -> fst a <> fst url \/ forall r, snd url <> snd a ++ r) ->
       pre_open_hook (Some l) url = false).
Proof. intros l url. split; [apply pre_open_inside|apply pre_open_outside_fails]. Qed.
Print Assumptions C31_open_outside_jail_fails.

(* containment is decided by path SEGMENTS: with the jail at  d/proj  the siblings
   d/proj-x, d/proj.x, d/projs, d/proj%20x (also spelled d/proj/../proj-x) and the
   parent d are refused, d/proj and d/proj/in are accepted *)
Example C31_jail_is_segmentwise :
  let jail := Some [(0, pf_segs [100;47;112;114;111;106])]%N in
  map (fun c => pre_open_hook jail (0%N, pf_segs c))
      [[100;47;112;114;111;106;45;120]; [100;47;112;114;111;106;46;120]; [100;47;112;114;111;106;115];
       [100;47;112;114;111;106;37;50;48;120]; [100;47;112;114;111;106;47;46;46;47;112;114;111;106;45;120];
       [100]; [100;47;112;114;111;106;47]; [100;47;112;114;111;106;47;105;110]]%N
  = [false; false; false; false; false; false; true; true].
Proof. vm_compute. reflexivity. Qed.

(* The same holds when the backing transport is a bare LocalTransport (no
   chroot stack below the request): the relpath returned by
   translate_client_path itself never leaves the served directory. *)
Theorem C31_bare_backing_inside_root :
  forall vfs rcp p segs,
    wf_bytes p = true -> resolve_bare vfs rcp p = Ok segs ->
    ~ In dotdot segs /\ stays_inside segs = true.
Proof. exact bare_inside_root. Qed.
Print Assumptions C31_bare_backing_inside_root.

(* jail_info is per thread: once thread t has set up its jail, whatever OTHER
   threads do (set up, tear down, open), an open by t is decided by t's own roots. *)
Theorem C31_jail_is_per_thread :
  forall ops s t roots u,
    jget t s = Some roots ->
    (forall o, In o ops -> jop_thread o <> t) ->
    exists l, jail_run s (ops ++ [JOpen t u]) = l ++ [pre_open_hook (Some roots) u].
Proof. exact jail_frame. Qed.
Print Assumptions C31_jail_is_per_thread.
