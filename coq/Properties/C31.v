(* Properties/C31.v -- Smart server clients cannot reach files outside the served directory.
   Statements only; model in Model/Jail.v, proofs in Theory/Jail.v.

   resolve_plain / resolve_vfs  rcp p  is the whole trip of a client path p under
   root client path rcp: translate_client_path, then the backing transport built
   by BzrServerFactory._make_backing_transport (userdir filter -> chroot ->
   local transport).  The result is  Fail e  (the request is rejected) or
   Ok segs : the OS is asked to walk the segments [segs] starting in the served
   directory.  stays_inside segs: that walk never steps above the served
   directory.  [expander]/[base_path] are BzrServerFactory.userdir_expander and
   .base_path; expander_harmless is the hypothesis on os.path.expanduser. *)
From Coq Require Import NArith List Bool String.
From BV Require Import Lib.Bytes Model.Jail Theory.Jail.
Import ListNotations.

(* Non-VFS verbs: every byte string, every root client path. *)
Theorem C31_plain_inside_root :
  forall expander base_path, expander_harmless expander base_path ->
  forall rcp p segs,
    wf_bytes p = true ->
    resolve_plain expander base_path rcp p = Ok segs ->
    ~ In dotdot segs /\ stays_inside segs = true.
Proof. exact plain_inside_root. Qed.
Print Assumptions C31_plain_inside_root.

(* the expander hypothesis is satisfiable (expanduser over an empty user database) *)
Example C31_expander_hypothesis_satisfiable :
  forall bp, expander_harmless (expanduser []) (SLASH :: bp).
Proof. exact expander_harmless_nohomes. Qed.

(* VFS verbs: the statement is FALSE, whatever the expander and base_path.
   Witness "..%2Fsecret/x" under root client path "/": the OS is asked for
   ../secret/x relative to the served directory. *)
Theorem C31_vfs_inside_root_refuted :
  forall expander base_path, exists p segs,
    wf_bytes p = true /\
    resolve_vfs expander base_path [SLASH] p = Ok segs /\
    In dotdot segs /\ stays_inside segs = false.
Proof.
  intros e b. exists witness_sep, escaped_segs.
  destruct (vfs_refuted_sep e b) as (A & B & C). repeat split; auto. left; reflexivity.
Qed.
Print Assumptions C31_vfs_inside_root_refuted.

(* second witness, without any encoded separator: "%%%332E%%%332E/secret/x"
   (the two pathfilter normalisations and the local unescape peel three layers) *)
Theorem C31_vfs_nested_dot_refuted :
  forall expander base_path, exists p segs,
    wf_bytes p = true /\ existsb (N.eqb 47) (pct_decode p) = existsb (N.eqb 47) p /\
    resolve_vfs expander base_path [SLASH] p = Ok segs /\ stays_inside segs = false.
Proof.
  intros e b. exists witness_dot, escaped_segs.
  destruct (vfs_refuted_dot e b) as (A & B & C). repeat split; auto.
Qed.
Print Assumptions C31_vfs_nested_dot_refuted.

(* VFS verbs under the guard "every '%' starts an upper-case escape of a byte
   outside urlutils.escape's safe set" (what urlutils.escape itself produces). *)
Theorem C31_vfs_guarded :
  forall expander base_path, expander_harmless expander base_path ->
  forall rcp p segs,
    wf_bytes p = true -> pct_ok p = true ->
    resolve_vfs expander base_path rcp p = Ok segs ->
    ~ In dotdot segs /\ stays_inside segs = true.
Proof. exact vfs_guarded. Qed.
Print Assumptions C31_vfs_guarded.

Example C31_vfs_guard_satisfiable :
  forall expander base_path,
    pct_ok guarded_example = true /\ wf_bytes guarded_example = true /\
    resolve_vfs expander base_path [SLASH] guarded_example = Ok [[97;32;98]; [126;120]; [102]]%N.
Proof. exact guarded_example_ok. Qed.

(* The proposed repair of VfsRequest.translate_client_path (unescape BEFORE the
   jail check): full statement, no guard. *)
Theorem C31_vfs_repaired_inside_root :
  forall expander base_path, expander_harmless expander base_path ->
  forall rcp p segs,
    wf_bytes p = true ->
    resolve_vfs_fixed expander base_path rcp p = Ok segs ->
    ~ In dotdot segs /\ stays_inside segs = true.
Proof. exact vfs_fixed_inside. Qed.
Print Assumptions C31_vfs_repaired_inside_root.

(* _pre_open_hook with a jail installed: a transport is accepted only below an
   allowed root of the same server; anything else fails (JailBreak). *)
Theorem C31_open_outside_jail_fails :
  forall l url,
    (pre_open_hook (Some l) url = true ->
       exists a r, In a l /\ fst a = fst url /\ snd url = snd a ++ r) /\
    ((forall a, In a l -> fst a <> fst url \/ forall r, snd url <> snd a ++ r) ->
       pre_open_hook (Some l) url = false).
Proof. intros l url. split; [apply pre_open_inside|apply pre_open_outside_fails]. Qed.
Print Assumptions C31_open_outside_jail_fails.
