(* Properties/C25.v -- Log lists the requested history completely and consistently.
   Statements only; the model is Model/Log.v (on Model/RevSpec.v, Lib/Dag.v,
   Lib/DagMergeSort.v), the proofs are in Theory/LogRbd.v, Theory/Log.v and
   Theory/DagMergeSortFacts.v.

   [log_revisions b start end forward levels limit excl] models
   _DefaultLogGenerator.iter_log_revisions (the (revision, revno, merge depth)
   sequence and the exception the iteration ends with, if any; limit 0 = none);
   [calc_view] models _calc_view_revisions; b is ANY branch over a well-formed
   revision graph whose tip t is present.  The merge-sorted order, revnos and
   depths are those of the Gallina merge sort (Lib/DagMergeSort), compared with
   compiled vcsgraph on every generated history (see C22).

   The model follows the code after the repairs 036aad8 (open-ended ranges end at
   the branch tip) and a31cbfe (_is_obvious_ancestor).

   Not covered by theorems (stated in notes/C25.md): exactness of ranges on the
   merge-sorted ("with-merges") path and the per-file clause are checked by the
   oracle only; the per-file filters are not modelled. *)
From Coq Require Import List Arith Bool Permutation.
From BV Require Import Lib.Dag Theory.DagFacts Lib.DagMergeSort Theory.DagMergeSortFacts
                       Theory.DagMergeSortRevnos Model.RevSpec Theory.RevSpec Model.Log Theory.LogRbd Theory.Log.
Import ListNotations.

(* ---- every revision of the ancestry exactly once, with revno and depth ----------------- *)

Theorem C25_each_once :
  forall b (t : revid), wf_dag (br_g b) = true -> br_tip b = Some t -> t < length (br_g b) ->
  log_revisions b None None false 0 0 false =
    (map whole_view (merge_sort (br_g b) (br_tip b)), None) /\
  Permutation (map v_id (fst (log_revisions b None None false 0 0 false)))
              (filter (present (br_g b)) (ancestors (br_g b) [t])).
Proof.
  intros b t W T L. split; [apply (log_whole_reverse b t W T L) | apply (log_whole_each_once b t W T L)].
Qed.
Print Assumptions C25_each_once.

(* ---- reverse_by_depth ------------------------------------------------------------------- *)

(* a permutation of its input, for EVERY list of (payload, depth) (the final
   filter of the code drops the entries whose revno is None: [hr] false) *)
Theorem C25_reverse_by_depth_perm :
  forall (A : Type) (hr : A -> bool) (l : list (A * nat)),
  Permutation (reverse_by_depth hr l) (filter (fun x => hr (fst x)) l).
Proof. exact @reverse_by_depth_perm. Qed.
Print Assumptions C25_reverse_by_depth_perm.

(* an involution on depth-well-formed lists (first depth 0, a step goes up by at
   most one), which it maps to depth-well-formed lists *)
Theorem C25_reverse_by_depth_involutive :
  forall (A : Type) (hr : A -> bool) (l : list (A * nat)),
  wf_depths l = true -> forallb (fun x => hr (fst x)) l = true ->
  reverse_by_depth hr (reverse_by_depth hr l) = l /\ wf_depths (reverse_by_depth hr l) = true.
Proof.
  intros A hr l W H. split; [apply reverse_by_depth_involutive | apply reverse_by_depth_wf]; assumption.
Qed.
Print Assumptions C25_reverse_by_depth_involutive.

(* the forward log is the reverse-by-depth of the reverse log and vice versa *)
Theorem C25_forward_is_reverse_by_depth :
  forall b (t : revid), wf_dag (br_g b) = true -> br_tip b = Some t -> t < length (br_g b) ->
  log_revisions b None None true 0 0 false =
    (reverse_by_depth has_revno (fst (log_revisions b None None false 0 0 false)), None) /\
  reverse_by_depth has_revno (fst (log_revisions b None None true 0 0 false)) =
    fst (log_revisions b None None false 0 0 false) /\
  wf_depths (fst (log_revisions b None None false 0 0 false)) = true.
Proof.
  intros b t W T L. split; [apply (log_whole_forward b t W T L)|].
  split; [apply (log_whole_reverse_of_forward b t W T L)|].
  rewrite (log_whole_reverse b t W T L). apply (whole_views_wf b t W T L).
Qed.
Print Assumptions C25_forward_is_reverse_by_depth.

(* _rebase_merge_depth shifts all depths by one common amount and leaves a list
   that shows a top-level revision alone *)
Theorem C25_rebase_merge_depth :
  forall (A : Type) (l : list (A * nat)),
  map fst (rebase_merge_depth l) = map fst l /\
  (exists m, (forall y, In y l -> m <= snd y) /\ rebase_merge_depth l = map (fun y => (fst y, snd y - m)) l) /\
  ((exists y, In y l /\ snd y = 0) -> rebase_merge_depth l = l).
Proof. intros A l. split; [apply rebase_ids | split; [apply rebase_shift | apply rebase_noop_if_zero]]. Qed.
Print Assumptions C25_rebase_merge_depth.

(* ---- one level = the left-hand history --------------------------------------------------- *)

Theorem C25_level1_is_lefthand :
  forall b (t : revid), br_tip b = Some t ->
  log_revisions b None None false 1 0 false = (count_down (last_revno b) (lh b), None) /\
  map v_id (fst (log_revisions b None None false 1 0 false)) = lefthand (br_g b) t /\
  map v_id (fst (log_revisions b None None true 1 0 false)) = rev (lefthand (br_g b) t) /\
  (forall i r, nth_error (lh b) i = Some r ->
     nth_error (count_down (last_revno b) (lh b)) i = Some ((r, Some [last_revno b - i]), 0)).
Proof.
  intros b t T. split; [apply (log_level1_reverse b t T)|].
  destruct (log_level1_is_lefthand b t T) as [A B]. split; [exact A | split; [exact B|]].
  intros i r. apply count_down_nth.
Qed.
Print Assumptions C25_level1_is_lefthand.

(* the linear fast path and the level filter over the merge-sorted path give the
   same entries: revisions, revnos and depths (the mainline numbering of the merge
   sort is the position in the left-hand history: Theory/DagMergeSortMainline.v) *)
Theorem C25_linear_eq_graph :
  forall b (t : revid), wf_dag (br_g b) = true -> br_tip b = Some t ->
  t < length (br_g b) -> lefthand_present (br_g b) t = true ->
  filter (fun v => v_depth v <? 1) (fst (log_revisions b None None false 0 0 false)) =
  fst (log_revisions b None None false 1 0 false).
Proof. exact linear_eq_graph_whole_full. Qed.
Print Assumptions C25_linear_eq_graph.

(* ---- ranges ---------------------------------------------------------------------------------- *)

(* a range whose start s is on the left-hand history of its end e lists, at one
   level, exactly the revisions from e down to s (forward: from s up to e) *)
Theorem C25_range_exact :
  forall b tip s e pre post forward delayed, wf_dag (br_g b) = true ->
  br_tip b = Some tip -> s <> e -> lefthand (br_g b) e = pre ++ s :: post ->
  calc_view b (Some s) (Some e) forward false delayed false =
  ((if forward then rev (map (mk_view b) (pre ++ [s])) else map (mk_view b) (pre ++ [s])), None).
Proof. exact calc_view_range_level1. Qed.
Print Assumptions C25_range_exact.

(* No request makes _calc_view_revisions end with the internal
   _StartNotLinearAncestor exception (before the repair a31cbfe this was refuted
   by the range 1.1.1..1.2.1 at one level, finding C25-start-not-linear-leak):
   whenever _is_obvious_ancestor lets the unevaluated generator through, the
   left-hand walk from the end does meet the start. *)
Theorem C25_range_no_internal_error :
  forall b (t : revid) start end_ forward gen_merge delayed excl,
  wf_dag (br_g b) = true -> br_tip b = Some t -> t < length (br_g b) ->
  lefthand_present (br_g b) t = true ->
  snd (calc_view b start end_ forward gen_merge delayed excl) <> Some StartNotLinearAncestor.
Proof. intros b t st en fw gm dl ex W T L P. apply (calc_view_no_internal_error b t W T L P). Qed.
Print Assumptions C25_range_no_internal_error.

(* what _is_obvious_ancestor promises: the start revision is on the left-hand
   history of the end revision (of the tip when the end is open) *)
Theorem C25_obvious_ancestor_is_linear :
  forall b (t : revid) s end_ excl,
  wf_dag (br_g b) = true -> br_tip b = Some t -> t < length (br_g b) ->
  lefthand_present (br_g b) t = true ->
  is_obvious_ancestor b (Some s) end_ = true -> snd (linear_view b (Some s) end_ excl) = None.
Proof. intros b t s en ex W T L P. apply (obvious_is_linear b t W T L P). Qed.
Print Assumptions C25_obvious_ancestor_is_linear.
