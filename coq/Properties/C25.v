(* placeholder while the model is being validated *)
From BV Require Import Lib.Dag Lib.DagMergeSort Model.RevSpec Model.Log.
Theorem C25_placeholder : True. Proof. exact I. Qed.
Print Assumptions C25_placeholder.
