(* Properties/C50.v -- Command-line splitting inverts shell-style quoting.
   Statements only; proofs are in Theory/CmdLine.v, the model in Model/CmdLine.v.

   str = list N (code points);  split sq s : option (list str)  models
   breezy.cmdline.split(s, single_quotes_allowed=sq)  (None = the model's loop
   fuel ran out, proved impossible);  quote sq a  is the documented quoting
   rule;  join [SP] = SP.join. *)
From Coq Require Import NArith List Bool.
From BV Require Import Lib.Bytes Model.CmdLine Theory.CmdLine.
Import ListNotations.
Open Scope N_scope.

(* the splitter always terminates with a result: the pushback loop of
   _get_token and the token loop of split never diverge *)
Theorem C50_split_total :
  forall sq s, exists toks, split sq s = Some toks.
Proof. exact split_total. Qed.
Print Assumptions C50_split_total.

(* MAIN: any list of any strings (empty strings, whitespace of every kind,
   quotes of both kinds, backslash runs anywhere), quoted by the rule and joined
   with single spaces, splits back into exactly that list; both flag values *)
Theorem C50_split_join_quote :
  forall sq args, split sq (join [SP] (map (quote sq) args)) = Some args.
Proof. exact split_quote_join. Qed.
Print Assumptions C50_split_join_quote.

Example C50_split_join_quote_ex :
  let args := [[97; 32; 98]; [99; 92; 34; 100]; [92]; []; [92; 39]; [9; 92; 92]] in
  quote_join true args =
    [34;97;32;98;34; 32; 34;99;92;92;92;34;100;34; 32; 34;92;92;34; 32; 34;34; 32;
     34;92;92;39;34; 32; 34;9;92;92;92;92;34]
  /\ split true (quote_join true args) = Some args.
Proof. split; reflexivity. Qed.

(* ... and the Splitter reports every such token as quoted *)
Theorem C50_splitter_quoted :
  forall sq args,
    splitter sq (join [SP] (map (quote sq) args)) = Some (map (fun a => (true, a)) args).
Proof.
  intros sq args. rewrite splitter_spec. f_equal. apply scan_all_quote_join.
Qed.
Print Assumptions C50_splitter_quoted.

(* the rule has to follow the flag: quoting for single_quotes_allowed=False
   and splitting with True loses the backslash of  \'  *)
Theorem C50_quote_flag_mismatch_refuted :
  exists a, split true (quote false a) <> Some [a].
Proof. exists [92; 39]. vm_compute. discriminate. Qed.
Print Assumptions C50_quote_flag_mismatch_refuted.

(* no invention: the concatenated output is a subsequence of the input *)
Theorem C50_no_invention :
  forall sq s toks, split sq s = Some toks -> subseq (concat toks) s.
Proof. exact split_no_invention. Qed.
Print Assumptions C50_no_invention.

Example C50_no_invention_ex :
  split true [97; 32; 34; 98; 92; 34; 32; 34; 32; 39; 99; 39] = Some [[97]; [98; 34; 32]; [99]].
Proof. reflexivity. Qed.

(* no loss, character-class form: every character that is not whitespace, not
   an enabled quote character and not a backslash reaches the output, in order
   and with multiplicity (so the token loop never stops early either).
   _partial: the statement classifies characters by class, not by position;
   the positional content (whitespace inside quotes, backslashes not before a
   quote, the other kind of quote inside quotes) is covered by
   C50_split_join_quote and C50_no_loss_quote_free. *)
Theorem C50_no_loss_partial :
  forall sq s toks,
    split sq s = Some toks ->
    filter (ordinary sq) (concat toks) = filter (ordinary sq) s.
Proof. exact split_no_loss. Qed.
Print Assumptions C50_no_loss_partial.

(* no loss, exact form for input without enabled quote characters: the result
   is plain whitespace splitting; in particular every backslash survives *)
Theorem C50_no_loss_quote_free :
  forall sq s,
    (forall c, In c s -> allowed sq c = false) -> split sq s = Some (words [] s).
Proof. exact split_no_quotes. Qed.
Print Assumptions C50_no_loss_quote_free.

Example C50_no_loss_quote_free_ex :
  let s := [92; 92; 104; 92; 112; 32; 9; 42; 92; 32; 39] in
  (forall c, In c s -> allowed false c = false) /\
  split false s = Some [[92; 92; 104; 92; 112]; [42; 92]; [39]].
Proof.
  split; [|reflexivity].
  intros c H. cbn in H.
  repeat (destruct H as [H|H]; [subst c; reflexivity|]). contradiction.
Qed.
