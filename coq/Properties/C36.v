(* Properties/C36.v -- Git identifier mappings round-trip.
   Statements only; the model is Model/GitIds.v, proofs are in Theory/GitIds{Codec,Refs,Url}.v.
   bytes = list N (wf_bytes: every element < 256); a Python str = list of code points. *)
From Coq Require Import NArith List Bool String.
From BV Require Import Lib.Bytes Model.GitIds Theory.GitIdsCodec Theory.GitIdsRefs Theory.GitIdsUrl.
Import ListNotations.
Open Scope N_scope.

(* ---- file-id escaping: every byte string ---- *)
Theorem C36_file_id_escape : forall b, unescape_file_id (escape_file_id b) = Some b.
Proof. exact unescape_escape. Qed.
Print Assumptions C36_file_id_escape.

Example C36_file_id_escape_ex :
  escape_file_id (asc "a_b c") = asc "a__b_sc" /\ unescape_file_id (asc "a__b_sc") = Some (asc "a_b c").
Proof. split; reflexivity. Qed.

(* ---- git paths (bytes, possibly not UTF-8) <-> str, surrogateescape ---- *)
Theorem C36_git_path : forall b, wf_bytes b = true ->
  exists s, decode_git_path b = Some s /\ encode_git_path s = Some b.
Proof. exact git_path_roundtrip. Qed.
Print Assumptions C36_git_path.

Example C36_git_path_ex :
  decode_git_path [97; 255; 195; 169] = Some [97; 56575; 233] /\
  encode_git_path [97; 56575; 233] = Some [97; 255; 195; 169].
Proof. split; reflexivity. Qed.

(* a str that is not a decoded path (two escapes spelling valid UTF-8) does not survive *)
Theorem C36_git_path_str_refuted :
  exists s b, encode_git_path s = Some b /\ decode_git_path b <> Some s.
Proof. exact git_path_str_roundtrip_refuted. Qed.
Print Assumptions C36_git_path_str_refuted.

Theorem C36_git_path_str_guarded : forall b s,
  wf_bytes b = true -> decode_git_path b = Some s ->
  exists b', encode_git_path s = Some b' /\ decode_git_path b' = Some s.
Proof. exact git_path_str_roundtrip_guarded. Qed.
Print Assumptions C36_git_path_str_guarded.

(* strict UTF-8 both ways (used for names) *)
Theorem C36_utf8_strict : forall s b,
  utf8_encode false s = Some b -> utf8_decode false b = Some s.
Proof. exact utf8_encode_decode_strict. Qed.
Print Assumptions C36_utf8_strict.

(* ---- paths <-> file ids: every byte path, incl. non-UTF-8 and the root ---- *)
Theorem C36_file_id_path : forall p, wf_bytes p = true ->
  exists s, parse_file_id (generate_file_id_bytes p) = Ok s /\
            decode_git_path p = Some s /\ encode_git_path s = Some p.
Proof. exact parse_generate_file_id. Qed.
Print Assumptions C36_file_id_path.

Theorem C36_file_id_path_str : forall b s,
  wf_bytes b = true -> decode_git_path b = Some s ->
  exists f, generate_file_id_str s = Some f /\ parse_file_id f = Ok s.
Proof. exact parse_generate_file_id_str. Qed.
Print Assumptions C36_file_id_path_str.

Theorem C36_file_id_path_str_refuted :
  exists s f, generate_file_id_str s = Some f /\ parse_file_id f <> Ok s.
Proof. exact parse_generate_file_id_str_refuted. Qed.
Print Assumptions C36_file_id_path_str_refuted.

Theorem C36_file_id_injective : forall p q,
  generate_file_id_bytes p = generate_file_id_bytes q -> p = q.
Proof. exact generate_file_id_injective. Qed.
Print Assumptions C36_file_id_injective.

Example C36_file_id_path_ex :
  generate_file_id_bytes (asc "a b/" ++ [255]) = asc "git:a_sb/" ++ [255] /\
  parse_file_id (asc "git:a_sb/" ++ [255]) = Ok (asc "a b/" ++ [56575]) /\
  parse_file_id (generate_file_id_bytes []) = Ok [].
Proof. repeat split; reflexivity. Qed.

(* ---- git SHA <-> revision id ---- *)
(* through the mapping registry: EVERY git id, both registered mappings *)
Theorem C36_revid : forall prefix sha, registered prefix ->
  registry_bzr_to_foreign (revision_id_foreign_to_bzr prefix sha)
  = Ok (sha, if bytes_eqb sha ZERO_SHA then None else Some prefix).
Proof. exact revid_registry_roundtrip. Qed.
Print Assumptions C36_revid.

(* on the mapping class itself: every id but the null id *)
Theorem C36_revid_class_guarded : forall prefix sha,
  bytes_eqb sha ZERO_SHA = false ->
  revision_id_bzr_to_foreign prefix (revision_id_foreign_to_bzr prefix sha) = Some sha.
Proof. exact revid_class_roundtrip_guarded. Qed.
Print Assumptions C36_revid_class_guarded.

Theorem C36_revid_class_refuted :
  revision_id_bzr_to_foreign PREFIX_V1 (revision_id_foreign_to_bzr PREFIX_V1 ZERO_SHA) = None.
Proof. exact revid_class_roundtrip_refuted. Qed.
Print Assumptions C36_revid_class_refuted.

Theorem C36_revid_back_guarded : forall prefix r sha,
  revision_id_bzr_to_foreign prefix r = Some sha -> bytes_eqb sha ZERO_SHA = false ->
  revision_id_foreign_to_bzr prefix sha = r.
Proof. exact revid_class_back_guarded. Qed.
Print Assumptions C36_revid_back_guarded.

Theorem C36_revid_back_refuted :
  exists r sha, revision_id_bzr_to_foreign PREFIX_V1 r = Some sha /\
                revision_id_foreign_to_bzr PREFIX_V1 sha <> r.
Proof. exact revid_class_back_refuted. Qed.
Print Assumptions C36_revid_back_refuted.

Example C36_revid_ex :
  registry_bzr_to_foreign (revision_id_foreign_to_bzr PREFIX_V1 (repeat 97 40))
  = Ok (repeat 97 40, Some PREFIX_V1) /\
  registry_bzr_to_foreign (revision_id_foreign_to_bzr PREFIX_V1 ZERO_SHA) = Ok (ZERO_SHA, None).
Proof. split; reflexivity. Qed.

(* ---- branch / tag names <-> refs ---- *)
(* name -> ref -> name: exactly when the name does not start with "refs/"
   ("" <-> HEAD included) *)
Theorem C36_refs_branch_guarded : forall name r,
  prefixb REFS_SLASH name = false ->
  branch_name_to_ref name = Some r -> ref_to_branch_name r = Ok name.
Proof. exact branch_name_roundtrip_guarded. Qed.
Print Assumptions C36_refs_branch_guarded.

Theorem C36_refs_branch_refuted :
  exists name r, branch_name_to_ref name = Some r /\ ref_to_branch_name r <> Ok name.
Proof. exact branch_name_roundtrip_refuted. Qed.
Print Assumptions C36_refs_branch_refuted.

Theorem C36_refs_tag : forall name r,
  tag_name_to_ref name = Some r -> ref_to_tag_name r = Ok name.
Proof. exact tag_name_roundtrip. Qed.
Print Assumptions C36_refs_tag.

(* ref -> name -> ref *)
Theorem C36_refs_branch_back_guarded : forall ref name,
  wf_bytes ref = true -> ref_to_branch_name ref = Ok name ->
  prefixb REFS_SLASH name = false -> (name = [] -> ref = HEAD) ->
  branch_name_to_ref name = Some ref.
Proof. exact ref_branch_roundtrip_guarded. Qed.
Print Assumptions C36_refs_branch_back_guarded.

Theorem C36_refs_branch_back_refuted :
  exists ref name, ref_to_branch_name ref = Ok name /\ branch_name_to_ref name <> Some ref.
Proof. exact ref_branch_roundtrip_refuted. Qed.
Print Assumptions C36_refs_branch_back_refuted.

Theorem C36_refs_tag_back : forall ref name,
  wf_bytes ref = true -> ref_to_tag_name ref = Ok name -> tag_name_to_ref name = Some ref.
Proof. exact ref_tag_roundtrip. Qed.
Print Assumptions C36_refs_tag_back.

Example C36_refs_ex :
  branch_name_to_ref [233] = Some (LOCAL_BRANCH_PREFIX ++ [195; 169]) /\
  ref_to_branch_name (LOCAL_BRANCH_PREFIX ++ [195; 169]) = Ok [233] /\
  branch_name_to_ref [] = Some HEAD /\ ref_to_branch_name HEAD = Ok [].
Proof. repeat split; reflexivity. Qed.

(* ---- percent-encoding of parameter values ---- *)
Theorem C36_percent : forall bs, wf_bytes bs = true ->
  percent_decode (quote_from_bytes [] bs) = bs.
Proof. exact percent_decode_quote. Qed.
Print Assumptions C36_percent.

(* ---- git URL + branch/ref -> breezy URL -> back ----
   L = the location after git_url_to_bzr_url's scheme normalisation (url_head); the URL that
   comes back is L with every comma quoted as %2C (repair 3b37c3b; before it the round trip
   needed "no comma in the last path segment").  No guard on L any more.
   The (branch, ref) that comes back is the pair git_url_to_bzr_url itself normalised
   ([norm_br]: HEAD and empty values mean "none", a refs/heads/X ref whose name X maps back
   to it is the branch X -- repair c5a74d8), and it denotes the same ref (C36_url_ref_preserved). *)
Theorem C36_url_roundtrip : forall ssh_reser location L branch ref,
  url_head ssh_reser location = HCont L ->
  valid_str L -> valid_opt branch -> wf_opt ref ->
  (branch = None \/ ref = None) ->
  exists u, git_url_to_bzr_url ssh_reser location branch ref = Ok u /\
            bzr_url_to_git_url u
            = Ok (quote_commas L, ne_opt (snd (norm_br branch ref)), ne_opt (fst (norm_br branch ref))).
Proof. exact url_roundtrip. Qed.
Print Assumptions C36_url_roundtrip.

(* every non-empty ref other than HEAD comes back as a (branch, ref) pair denoting that ref *)
Theorem C36_url_ref_preserved : forall r,
  r <> [] -> bytes_eqb r HEAD = false ->
  eff_ref (ne_opt (snd (norm_br None (Some r)))) (ne_opt (fst (norm_br None (Some r)))) = Some r.
Proof. exact norm_br_eff. Qed.
Print Assumptions C36_url_ref_preserved.

(* the three readable instances: a branch name, a ref that is not a branch, a branch ref *)
Theorem C36_url_roundtrip_branch : forall ssh_reser location L b,
  url_head ssh_reser location = HCont L -> valid_str L ->
  valid_str b -> b <> [] ->
  exists u, git_url_to_bzr_url ssh_reser location (Some b) None = Ok u /\
            bzr_url_to_git_url u = Ok (quote_commas L, Some b, None).
Proof.
  intros ssh_reser location L b HH HV Hb Hne.
  destruct (url_roundtrip ssh_reser location L (Some b) None HH HV Hb I (or_intror eq_refl))
    as [u [H1 H2]].
  exists u. split; [exact H1|]. rewrite H2, norm_br_branch.
  destruct b; [contradiction|reflexivity].
Qed.
Print Assumptions C36_url_roundtrip_branch.

Theorem C36_url_roundtrip_ref : forall ssh_reser location L r e,
  url_head ssh_reser location = HCont L -> valid_str L ->
  wf_bytes r = true -> r <> [] -> bytes_eqb r HEAD = false -> ref_to_branch_name r = Err e ->
  exists u, git_url_to_bzr_url ssh_reser location None (Some r) = Ok u /\
            bzr_url_to_git_url u = Ok (quote_commas L, None, Some r).
Proof.
  intros ssh_reser location L r e HH HV Hr Hne H1 H2.
  destruct (url_roundtrip ssh_reser location L None (Some r) HH HV I Hr (or_introl eq_refl))
    as [u [H3 H4]].
  exists u. split; [exact H3|]. rewrite H4, (norm_br_ref_other r e H1 H2).
  destruct r; [contradiction|reflexivity].
Qed.
Print Assumptions C36_url_roundtrip_ref.

Theorem C36_url_roundtrip_branch_ref : forall ssh_reser location L name e,
  url_head ssh_reser location = HCont L -> valid_str L ->
  name <> [] -> prefixb REFS_SLASH name = false -> utf8_encode false name = Some e ->
  exists u, git_url_to_bzr_url ssh_reser location None (Some (LOCAL_BRANCH_PREFIX ++ e)) = Ok u /\
            bzr_url_to_git_url u = Ok (quote_commas L, Some name, None).
Proof.
  intros ssh_reser location L name e HH HV Hne Hg He.
  assert (Hwf : wf_opt (Some (LOCAL_BRANCH_PREFIX ++ e))).
  { cbn [wf_opt]. rewrite wf_bytes_app, (utf8_encode_wf _ _ _ He). reflexivity. }
  destruct (url_roundtrip ssh_reser location L None _ HH HV I Hwf (or_introl eq_refl))
    as [u [H3 H4]].
  exists u. split; [exact H3|]. rewrite H4, (norm_br_ref_heads name e Hne Hg He).
  destruct name; [contradiction|reflexivity].
Qed.
Print Assumptions C36_url_roundtrip_branch_ref.

(* locations of a known git scheme other than ssh are their own normal form *)
Theorem C36_url_head_known : forall ssh_reser location,
  existsb (bytes_eqb (url_scheme location)) KNOWN_GIT_SCHEMES = true ->
  bytes_eqb (url_scheme location) (asc "ssh") = false ->
  url_head ssh_reser location = HCont location.
Proof. exact url_head_known. Qed.
Print Assumptions C36_url_head_known.

Example C36_url_ex :
  git_url_to_bzr_url (fun l => l) (asc "git://h/r") (Some (asc "a b")) None
    = Ok (asc "git://h/r,branch=a%20b") /\
  bzr_url_to_git_url (asc "git://h/r,branch=a%20b") = Ok (asc "git://h/r", Some (asc "a b"), None) /\
  git_url_to_bzr_url (fun l => l) (asc "u@h:r") None (Some (asc "refs/tags/v1"))
    = Ok (asc "git+ssh://u@h/r,ref=refs%2Ftags%2Fv1") /\
  bzr_url_to_git_url (asc "git+ssh://u@h/r,ref=refs%2Ftags%2Fv1")
    = Ok (asc "git+ssh://u@h/r", None, Some (asc "refs/tags/v1")) /\
  quote_commas (asc "git://h/r,a=b") = asc "git://h/r%2Ca=b" /\
  git_url_to_bzr_url (fun l => l) (asc "git://h/r") None (Some (asc "refs/heads/refs/y"))
    = Ok (asc "git://h/r,ref=refs%2Fheads%2Frefs%2Fy").
Proof. repeat split; vm_compute; reflexivity. Qed.

(* the former witnesses of C36_url_roundtrip_comma_refuted now round-trip *)
Example C36_url_comma_ex :
  git_url_to_bzr_url (fun l => l) (asc "git://h/r,a=b") (Some (asc "x")) None
    = Ok (asc "git://h/r%2Ca=b,branch=x") /\
  bzr_url_to_git_url (asc "git://h/r%2Ca=b,branch=x") = Ok (asc "git://h/r%2Ca=b", Some (asc "x"), None) /\
  git_url_to_bzr_url (fun l => l) (asc "git://h/r,a") None None = Ok (asc "git://h/r%2Ca") /\
  bzr_url_to_git_url (asc "git://h/r%2Ca") = Ok (asc "git://h/r%2Ca", None, None).
Proof. exact url_roundtrip_comma_example. Qed.

(* ---- parent location ---- *)
(* any named branch, rel L = L (URL unrelated to the branch's own), known-scheme L:
   what _get_parent_location reads back splits into L and the normalised stored ref.
   (F-C36b, repaired in /repo: the merge ref used to be read from branch.<remote>.) *)
Theorem C36_parent_location : forall ssh_reser rel name location cfg L branch ref v,
  name <> [] ->
  bzr_url_to_git_url location = Ok (L, branch, ref) ->
  eff_ref branch ref = Some v -> wf_bytes v = true ->
  rel L = L -> url_head ssh_reser L = HCont L -> valid_str L ->
  exists cfg' u, set_parent rel name location cfg = Ok cfg' /\
                 get_parent_location ssh_reser name cfg' = Ok (Some u) /\
                 bzr_url_to_git_url u
                 = Ok (quote_commas L,
                       ne_opt (snd (norm_br None (Some v))), ne_opt (fst (norm_br None (Some v)))).
Proof. exact parent_location_equivalent. Qed.
Print Assumptions C36_parent_location.

(* the intermediate fact, without the URL hypotheses *)
Theorem C36_parent_location_stored : forall ssh_reser rel name location cfg L branch ref v,
  name <> [] ->
  bzr_url_to_git_url location = Ok (L, branch, ref) ->
  eff_ref branch ref = Some v ->
  exists cfg', set_parent rel name location cfg = Ok cfg' /\
               get_parent_location ssh_reser name cfg'
               = match git_url_to_bzr_url ssh_reser (rel L) None (Some v) with
                 | Ok l => Ok (Some l)
                 | Err e => Err e
                 end.
Proof. exact parent_roundtrip_guarded. Qed.
Print Assumptions C36_parent_location_stored.

Example C36_parent_ex :
  exists cfg',
    set_parent (fun l => l) (asc "foo") (asc "git://h/r,branch=b")
               {| cfg_url := None; cfg_merge := [] |} = Ok cfg' /\
    bzr_url_to_git_url (asc "git://h/r,branch=b") = Ok (asc "git://h/r", Some (asc "b"), None) /\
    get_parent_location (fun l => l) (asc "foo") cfg' = Ok (Some (asc "git://h/r,branch=b")).
Proof. exact parent_roundtrip_example. Qed.
