(* Properties/C36.v -- placeholder while the tie is being validated *)
From Coq Require Import NArith List Bool.
From BV Require Import Lib.Bytes Model.GitIds.
Import ListNotations.

Theorem C36_placeholder : unescape_file_id (escape_file_id [95%N]) = Some [95%N].
Proof. reflexivity. Qed.
Print Assumptions C36_placeholder.
