(* Properties/C11.v -- adding files versions exactly the intended paths.
   Statements only; model in Model/SmartAdd.v (on Lib/DirTree.v), proofs in Theory/SmartAdd.v.

   t  the working directory,  vs / ix  the versioned entries before (path, kind),  ign  the paths
   is_ignored accepts (oracle),  confl  the paths with a text conflict,  named  the paths given to
   smart_add (tree relative),  recurse  the flag.   vs1_of t vs named = vs + named paths with parents.

   eligible_bzr t vs1 ign rel d q  (q = d ++ sfx is added by the walk started at the directory d):
     every directory d ++ a strictly above q (d included) is ENTERED:  bzr_enters = it is not the tree's
       control directory, it is versioned or not ignored, no \r\n in the path, not a conflict helper
       file, it is a real directory and not a nested tree (no control directory inside);
     q itself is EMITTED:  bzr_emits = same first four conditions, not yet versioned, not a nested tree.
   eligible_git is the same shape with git_enters / git_emits (the ignore test also applies to versioned
   entries, directories are never versioned, the conflict-helper test applies to files only). *)
From Coq Require Import NArith List Bool String.
From BV Require Import Lib.Bytes Lib.DirTree Model.CleanTree Model.SmartAdd Theory.SmartAdd.
Import ListNotations.

(* bzr: after = before + named paths with their parents + (recursing) the eligible descendants of
   the walked directories; nothing else *)
Theorem C11_exact_set :
  forall t vs ign confl named recurse after q,
    wf_node t = true ->
    smart_add_bzr t vs ign confl named recurse = Ok after ->
    q <> [] ->
    (In q (paths_of after) <->
     In q (paths_of vs) \/
     (exists p, In p named /\ is_prefix q p = true) \/
     (recurse = true /\
      exists d, In d (bzr_roots t vs named) /\
                eligible_bzr t (vs1_of t vs named) ign (related confl) d q)).
Proof. exact bzr_exact_set. Qed.
Print Assumptions C11_exact_set.

(* the walked directories are named directories ... *)
Theorem C11_walked_dirs_are_named :
  forall t vs named d, In d (bzr_roots t vs named) -> In d (named_dirs t named).
Proof.
  intros t vs named d H. unfold bzr_roots in H. apply filter_In in H as [H1 _].
  apply walked_roots_sub; exact H1.
Qed.
Print Assumptions C11_walked_dirs_are_named.

(* ... and ALL of them when no named directory lies inside another one (guard), except possibly an
   already versioned directory that holds a ".bzr" directory (the dirstate tree reports it as a
   tree reference; tree_ref_root) *)
Theorem C11_exact_set_guarded :
  forall t vs named d,
    antichain (named_dirs t named) ->
    In d (named_dirs t named) -> tree_ref_root t vs d = false ->
    In d (bzr_roots t vs named).
Proof.
  intros t vs named d Ha Hd Ht. unfold bzr_roots. apply filter_In. split.
  - apply walked_roots_all; assumption.
  - destruct (treeref_blocked t vs named d) eqn:E; [|reflexivity].
    apply treeref_blocked_sound in E. congruence.
Qed.
Print Assumptions C11_exact_set_guarded.

(* without the guard the statement "every eligible descendant of a NAMED directory is versioned" is
   FALSE: a is a nested tree; naming a/b alone versions a/b/x, naming a and a/b does not *)
Theorem C11_named_dir_shadowed_refuted :
  exists t a ab abx,
    wf_node t = true /\
    (exists after, smart_add_bzr t [] [] [] [ab] true = Ok after /\ In abx (paths_of after)) /\
    (exists after, smart_add_bzr t [] [] [] [a; ab] true = Ok after /\
                   ~ In abx (paths_of after) /\ In ab (named_dirs t [a; ab])).
Proof. exists shadow_tree, p_a, p_ab, p_abx. exact shadow_refuted. Qed.
Print Assumptions C11_named_dir_shadowed_refuted.

Theorem C11_existing_untouched :
  forall t vs ign confl named recurse after,
    wf_node t = true ->
    smart_add_bzr t vs ign confl named recurse = Ok after ->
    incl vs after /\ forall e, In e after -> In (fst e) (paths_of vs) -> In e vs.
Proof. exact bzr_existing_untouched. Qed.
Print Assumptions C11_existing_untouched.

(* the call fails (and then versions nothing) exactly when a named path is a control file or missing *)
Theorem C11_fails_iff :
  forall t vs ign confl named recurse,
    (exists e, smart_add_bzr t vs ign confl named recurse = Fail e) <->
    exists p, In p named /\ (root_control n_bzr p = true \/ lookup p t = None).
Proof. exact bzr_fails_iff. Qed.
Print Assumptions C11_fails_iff.

(* git: the index afterwards = index before + named files/symlinks + (recursing) the eligible files
   below every named directory (no shadowing here: every named directory is walked) *)
Theorem C11_exact_set_git :
  forall t ix ign confl named recurse after q,
    wf_node t = true ->
    smart_add_git t ix ign confl named recurse = Ok after ->
    (In q (paths_of after) <->
     In q (paths_of ix) \/
     (In q named /\ is_nondir t q) \/
     (recurse = true /\
      exists d, In d (named_dirs t named) /\
                eligible_git t (ix1_of t ix named) ign (related confl) d q)).
Proof. exact git_exact_set. Qed.
Print Assumptions C11_exact_set_git.

Theorem C11_existing_untouched_git :
  forall t ix ign confl named recurse after,
    wf_node t = true ->
    smart_add_git t ix ign confl named recurse = Ok after ->
    incl ix after /\ forall e, In e after -> In (fst e) (paths_of ix) -> In e ix.
Proof. exact git_existing_untouched. Qed.
Print Assumptions C11_existing_untouched_git.

(* the hypotheses are satisfiable by a non-trivial value: d/x and d/ig with ig ignored, d named *)
Example C11_nontrivial :
  let t := Dir [([100], Dir [([105;103], File); ([120], File)])]%N in
  wf_node t = true /\
  smart_add_bzr t [] [[[100];[105;103]]]%N [] [[[100]]]%N true
    = Ok [([[100]], KDir); ([[100];[120]], KFile)]%N /\
  smart_add_git t [] [[[100];[105;103]]]%N [] [[[100]]]%N true = Ok [([[100];[120]], KFile)]%N.
Proof. repeat split. Qed.
