(* Lib/FSFault13.v -- abstract file system + fault semantics for C13.

   A file system is a finite map  path -> node  (association list, a path is a
   list of name segments, the root is []).  [rename] has the POSIX semantics
   of os.rename that matter to breezy/transform.py:_FileMover (missing source,
   missing parent, EINVAL into own subtree, silent replacement of a file or an
   empty directory, ENOTEMPTY/ENOTDIR/EISDIR).  [delete_any] is
   crates/osutils/src/file.rs:delete_any (rmdir for directories, unlink else).

   A transform application is a program [prog]:
     - a journaled phase (renames through _FileMover.rename, then the
       executable bits with their own journal of old modes),
       whose handler on any exception is _FileMover.rollback;
     - the deferred deletions (_FileMover.apply_deletions);
     - the metadata update (apply_inventory_delta / _apply_index_changes);
     - the limbo clean-up (DiskTreeTransform.finalize).
   [run_with_fault inv_first g flt f0 inv0]: the operation selected by [flt]
   raises, then the program's own handler runs.  [inv_first = true] is the
   order of the code (metadata update, THEN the deletions); [false] is the order
   before commit c37d45c, kept to document the defect it had. *)
From Coq Require Import List String Bool Arith Lia NArith.
Import ListNotations.
Open Scope list_scope.

Definition seg := string.
Definition path := list seg.
Definition path_eq_dec : forall a b : path, {a = b} + {a <> b} := list_eq_dec string_dec.

Inductive node :=
| File (content : list N) (exec : bool)
| Dir
| Link (target : list N).

Definition fs := list (path * node).

(* strip a p = Some s  iff  p = a ++ s *)
Fixpoint strip (a p : path) : option path :=
  match a, p with
  | [], _ => Some p
  | x :: a', y :: p' => if string_dec x y then strip a' p' else None
  | _ :: _, [] => None
  end.

Fixpoint lookup (f : fs) (p : path) : option node :=
  match f with
  | [] => None
  | e :: f' => if path_eq_dec (fst e) p then Some (snd e) else lookup f' p
  end.

Definition mem (f : fs) (p : path) : bool :=
  match lookup f p with Some _ => true | None => false end.

Definition rebase (from to p : path) : path :=
  match strip from p with Some s => to ++ s | None => p end.

(* moving a node moves its whole subtree *)
Definition move (from to : path) (f : fs) : fs :=
  map (fun e => (rebase from to (fst e), snd e)) f.

Definition remove (p : path) (f : fs) : fs :=
  filter (fun e => if path_eq_dec (fst e) p then false else true) f.

Definition has_child (f : fs) (p : path) : bool :=
  existsb (fun e => match strip p (fst e) with Some (_ :: _) => true | _ => false end) f.

Definition parent (p : path) : path := removelast p.

Inductive errno := ENOENT | EEXIST | ENOTEMPTY | ENOTDIR | EISDIR | EINVAL | EIO | EACCES.

Inductive res (A : Type) := Ok (a : A) | Err (e : errno).
Arguments Ok {A} a.
Arguments Err {A} e.

(* os.rename *)
Definition rename (from to : path) (f : fs) : res fs :=
  match lookup f from with
  | None => Err ENOENT
  | Some nf =>
    if path_eq_dec from to then Ok f else
    match strip from to with
    | Some _ => Err EINVAL
    | None =>
      match to with
      | [] => Err EEXIST
      | _ :: _ =>
        match lookup f (parent to) with
        | None => Err ENOENT
        | Some Dir =>
          match lookup f to with
          | None => Ok (move from to f)
          | Some nt =>
            match nf, nt with
            | Dir, Dir => if has_child f to then Err ENOTEMPTY
                          else Ok (move from to (remove to f))
            | Dir, _ => Err ENOTDIR
            | _, Dir => Err EISDIR
            | _, _ => Ok (move from to (remove to f))
            end
          end
        | Some _ => Err ENOTDIR
        end
      end
    end
  end.

(* osutils.delete_any: rmdir / unlink, never recursive *)
Definition delete_any (p : path) (f : fs) : res fs :=
  match lookup f p with
  | None => Err ENOENT
  | Some Dir => if has_child f p then Err ENOTEMPTY else Ok (remove p f)
  | Some _ => Ok (remove p f)
  end.

(* TreeTransform._set_executability: os.stat + chmod; only the x bit of regular files is observed *)
Definition chmod (p : path) (x : bool) (f : fs) : res fs :=
  match lookup f p with
  | None => Err ENOENT
  | Some (File c _) =>
      Ok (map (fun e => if path_eq_dec (fst e) p then (fst e, File c x) else e) f)
  | Some _ => Ok f
  end.

(* ---------------------------------------------------------------- well-formedness *)

Definition wf (f : fs) : Prop :=
  NoDup (map fst f) /\
  lookup f [] = Some Dir /\
  forall p n, In (p, n) f -> p <> [] -> lookup f (parent p) = Some Dir.

Fixpoint nodupb (l : list path) : bool :=
  match l with
  | [] => true
  | p :: l' => (if in_dec path_eq_dec p l' then false else true) && nodupb l'
  end.

Definition wfb (f : fs) : bool :=
  nodupb (map fst f) &&
  match lookup f [] with Some Dir => true | _ => false end &&
  forallb (fun e => match fst e with
                    | [] => true
                    | _ :: _ => match lookup f (parent (fst e)) with Some Dir => true | _ => false end
                    end) f.

(* ---------------------------------------------------------------- the machine *)

(* operations of the journaled phase *)
Inductive pop :=
| PRename (skip_enoent : bool) (from to : path)   (* mover.rename / mover.pre_delete;
                                                     skip = wrapped in "except TransformRenameFailed: if errno != ENOENT: raise" *).

Definition journal := list (path * path).          (* _FileMover.past_renames, most recent first *)

Inductive ev :=
| EvRename (from to : path) (clobber : bool) (r : option errno)
| EvChmod (p : path) (x : bool) (r : option errno)
| EvDelete (p : path) (r : option errno).

Inductive exc :=
| XRename (e : errno)        (* FileExists / TransformRenameFailed raised by _FileMover.rename *)
| XOs (e : errno)            (* a bare OSError (chmod, delete_any) *)
| XRollback (e : errno)      (* TransformRenameFailed raised by _FileMover.rollback *)
| XImmortalLimbo
| XImmortalPendingDeletion.

Inductive stage := SPhase | SDel | SFin | SDone.

Definition tick (k : option nat) : bool * option nat :=
  match k with
  | Some 0 => (true, None)
  | Some (S n) => (false, Some n)
  | None => (false, None)
  end.

Definition is_enoent (e : errno) : bool := match e with ENOENT => true | _ => false end.

(* the renames of the try-block of apply: _apply_removals + the first loop of _apply_insertions.
   Returns (fs, journal, dirty, trace (reversed), exception).
   dirty = some rename replaced an existing target: the one effect a reverse replay of the
   journal cannot undo. *)
Fixpoint run_phase (ops : list pop) (k : option nat) (e : errno)
         (f : fs) (j : journal) (dirty : bool) (tr : list ev)
  : fs * journal * bool * list ev * option exc :=
  match ops with
  | [] => (f, j, dirty, tr, None)
  | PRename skip from to :: ops' =>
      let '(fire, k') := tick k in
      let c := mem f to in
      match (if fire then Err e else rename from to f) with
      | Ok f' => run_phase ops' k' e f' ((from, to) :: j) (dirty || c) (EvRename from to c None :: tr)
      | Err er =>
          if skip && is_enoent er
          then run_phase ops' k' e f j dirty (EvRename from to c (Some er) :: tr)
          else (f, j, dirty, EvRename from to c (Some er) :: tr, Some (XRename er))
      end
  end.

(* the second loop of _apply_insertions (since 54fc383): _set_executability for every path of
   new_paths AFTER all renames, remembering (abspath, old mode) in old_modes (most recent first) *)
Definition mjournal := list (path * bool).
Definition exec_of (n : node) : bool := match n with File _ x => x | _ => false end.

Fixpoint run_chmods (cs : list (path * bool)) (k : option nat) (e : errno)
         (f : fs) (mj : mjournal) (tr : list ev)
  : fs * mjournal * list ev * option exc :=
  match cs with
  | [] => (f, mj, tr, None)
  | (p, x) :: cs' =>
      match lookup f p with
      | None => (f, mj, tr, Some (XOs ENOENT))            (* os.stat raises first *)
      | Some n =>
          let '(fire, k') := tick k in
          match (if fire then Err e else chmod p x f) with
          | Ok f' => run_chmods cs' k' e f' ((p, exec_of n) :: mj) (EvChmod p x None :: tr)
          | Err er => (f, mj, EvChmod p x (Some er) :: tr, Some (XOs er))
          end
      end
  end.

(* except BaseException: for old_mode in reversed(old_modes): chmod_if_possible(abspath, mode) *)
Fixpoint restore_modes (mj : mjournal) (f : fs) (tr : list ev) : fs * list ev * option errno :=
  match mj with
  | [] => (f, tr, None)
  | (p, b) :: mj' =>
      match chmod p b f with
      | Ok f' => restore_modes mj' f' (EvChmod p b None :: tr)
      | Err er => (f, EvChmod p b (Some er) :: tr, Some er)
      end
  end.

(* the fault counter after a completed rename loop: every PRename consumes exactly one call *)
Definition k_after (ops : list pop) (k : option nat) : option nat :=
  match k with
  | Some n => if n <? List.length ops then None else Some (n - List.length ops)
  | None => None
  end.

(* _FileMover.rollback: for from_, to in reversed(past_renames): os.rename(to, from_) *)
Fixpoint rollback (j : journal) (f : fs) (tr : list ev) : fs * list ev * option errno :=
  match j with
  | [] => (f, tr, None)
  | (from, to) :: j' =>
      let c := mem f from in
      match rename to from f with
      | Ok f' => rollback j' f' (EvRename to from c None :: tr)
      | Err er => (f, EvRename to from c (Some er) :: tr, Some er)
      end
  end.

(* _FileMover.apply_deletions; the finalize loops.  skip = "except FileNotFoundError: pass" *)
Fixpoint run_del (skip : bool) (ps : list path) (k : option nat) (e : errno) (f : fs) (tr : list ev)
  : fs * list ev * option errno * option nat :=
  match ps with
  | [] => (f, tr, None, k)
  | p :: ps' =>
      let '(fire, k') := tick k in
      match (if fire then Err e else delete_any p f) with
      | Ok f' => run_del skip ps' k' e f' (EvDelete p None :: tr)
      | Err er =>
          if skip && is_enoent er
          then run_del skip ps' k' e f (EvDelete p (Some er) :: tr)
          else (f, EvDelete p (Some er) :: tr, Some er, k')
      end
  end.

Record prog := {
  g_phase : list pop;          (* renames of the removals ++ renames of the insertions *)
  g_chmods : list (path * bool);  (* _set_executability calls, after all renames *)
  g_deletions : list path;     (* pending_deletions, in order *)
  g_inv_new : list path;       (* versioned paths after the metadata update *)
  g_fin_files : list path;     (* limbo paths finalize deletes (FileNotFoundError ignored), in order *)
  g_limbodir : path;
  g_deletiondir : path
}.

Inductive fault :=
| FNone
| FPhase (k : nat) (e : errno)     (* k-th syscall (os.rename / chmod) of the try-block raises e *)
| FDel (k : nat) (e : errno)       (* k-th delete_any of apply_deletions raises e *)
| FFin (k : nat) (e : errno).      (* k-th delete_any of finalize raises e *)

Record outcome := {
  o_fs : fs;
  o_inv : list path;
  o_exc : option exc;
  o_stage : stage;
  o_dirty : bool;
  o_trace : list ev
}.

Definition kphase (flt : fault) := match flt with FPhase k _ => Some k | _ => None end.
Definition kdel (flt : fault) := match flt with FDel k _ => Some k | _ => None end.
Definition kfin (flt : fault) := match flt with FFin k _ => Some k | _ => None end.
Definition ferr (flt : fault) :=
  match flt with FPhase _ e | FDel _ e | FFin _ e => e | FNone => EIO end.

(* DiskTreeTransform.finalize *)
Definition run_fin (g : prog) (k : option nat) (e : errno) (f : fs) (tr : list ev)
  : fs * list ev * option exc :=
  match run_del true (g_fin_files g) k e f tr with
  | (f1, tr1, Some er, _) => (f1, tr1, Some (XOs er))
  | (f1, tr1, None, k1) =>
      match run_del false [g_limbodir g] k1 e f1 tr1 with
      | (f2, tr2, Some _, _) => (f2, tr2, Some XImmortalLimbo)
      | (f2, tr2, None, k2) =>
          match run_del false [g_deletiondir g] k2 e f2 tr2 with
          | (f3, tr3, Some _, _) => (f3, tr3, Some XImmortalPendingDeletion)
          | (f3, tr3, None, _) => (f3, tr3, None)
          end
      end
  end.

(* InventoryTreeTransform.apply / GitTreeTransform.apply.
   inv_first = true : the code as it is (metadata update, THEN apply_deletions);
   inv_first = false: the order before c37d45c (apply_deletions first). *)
(* the whole try-block: all renames, then the executable bits; a failure among the latter puts the
   saved modes back before the exception reaches apply's handler *)
Definition run_try (g : prog) (flt : fault) (f0 : fs)
  : fs * journal * bool * list ev * option exc :=
  let e := ferr flt in
  match run_phase (g_phase g) (kphase flt) e f0 [] false [] with
  | (f1, j, dirty, tr1, Some x) => (f1, j, dirty, tr1, Some x)
  | (f1, j, dirty, tr1, None) =>
      match run_chmods (g_chmods g) (k_after (g_phase g) (kphase flt)) e f1 [] tr1 with
      | (f2, mj, tr2, None) => (f2, j, dirty, tr2, None)
      | (f2, mj, tr2, Some x) =>
          match restore_modes mj f2 tr2 with
          | (f3, tr3, None) => (f3, j, dirty, tr3, Some x)
          | (f3, tr3, Some er) => (f3, j, dirty, tr3, Some (XOs er))
          end
      end
  end.

Definition run_with_fault (inv_first : bool) (g : prog) (flt : fault) (f0 : fs) (inv0 : list path)
  : outcome :=
  let e := ferr flt in
  match run_try g flt f0 with
  | (f1, j, dirty, tr1, Some x) =>
      (* except BaseException: mover.rollback(); raise *)
      match rollback j f1 tr1 with
      | (f2, tr2, None) => Build_outcome f2 inv0 (Some x) SPhase dirty (rev tr2)
      | (f2, tr2, Some er) => Build_outcome f2 inv0 (Some (XRollback er)) SPhase dirty (rev tr2)
      end
  | (f1, j, dirty, tr1, None) =>
      (* else: mover.apply_deletions() *)
      let inv_d := if inv_first then g_inv_new g else inv0 in
      match run_del false (g_deletions g) (kdel flt) e f1 tr1 with
      | (f2, tr2, Some er, _) => Build_outcome f2 inv_d (Some (XOs er)) SDel dirty (rev tr2)
      | (f2, tr2, None, _) =>
          match run_fin g (kfin flt) e f2 tr2 with
          | (f3, tr3, Some x) => Build_outcome f3 (g_inv_new g) (Some x) SFin dirty (rev tr3)
          | (f3, tr3, None) => Build_outcome f3 (g_inv_new g) None SDone dirty (rev tr3)
          end
      end
  end.

(* the part of the disk a user sees: everything not at or below one of the given roots *)
Definition under_any (roots : list path) (p : path) : bool :=
  existsb (fun r => match strip r p with Some _ => true | None => false end) roots.
Definition visible (roots : list path) (f : fs) : fs :=
  filter (fun e => negb (under_any roots (fst e))) f.

(* ================================================================ lemmas *)

Lemma strip_spec : forall a p s, strip a p = Some s <-> p = a ++ s.
Proof.
  induction a as [|x a IH]; intros p s; simpl.
  - split; intros H; [injection H as <-; reflexivity | subst; reflexivity].
  - destruct p as [|y p]; [split; intros H; discriminate|].
    destruct (string_dec x y) as [->|Hne].
    + rewrite IH. split; intros H; [subst; reflexivity | injection H as ->; reflexivity].
    + split; intros H; [discriminate | injection H as H1 _; congruence].
Qed.

Lemma strip_app : forall a s, strip a (a ++ s) = Some s.
Proof. intros a s; apply strip_spec; reflexivity. Qed.

Lemma strip_self : forall a, strip a a = Some [].
Proof. intros a. apply strip_spec. symmetry; apply app_nil_r. Qed.

Lemma strip_length : forall a p s, strip a p = Some s -> List.length p = List.length a + List.length s.
Proof. intros a p s H. apply strip_spec in H. subst. apply app_length. Qed.

Lemma parent_snoc : forall p, p <> [] -> p = parent p ++ [last p EmptyString].
Proof. intros p H. unfold parent. apply app_removelast_last. exact H. Qed.

Lemma parent_length : forall p, p <> [] -> S (List.length (parent p)) = List.length p.
Proof.
  intros p H. rewrite (parent_snoc p H) at 2. rewrite app_length. simpl. lia.
Qed.

Lemma parent_app : forall a s, s <> [] -> parent (a ++ s) = a ++ parent s.
Proof. intros a s H. unfold parent. apply removelast_app. exact H. Qed.

(* if the parent is below a, so is the path *)
Lemma strip_parent_some : forall a p t, p <> [] -> strip a (parent p) = Some t ->
  exists t', strip a p = Some t'.
Proof.
  intros a p t Hp H. apply strip_spec in H.
  exists (t ++ [last p EmptyString]). apply strip_spec.
  rewrite (parent_snoc p Hp) at 1. rewrite H. rewrite app_assoc. reflexivity.
Qed.

Lemma lookup_In : forall f p n, lookup f p = Some n -> In (p, n) f.
Proof.
  induction f as [|[q m] f IH]; intros p n H; simpl in *; [discriminate|].
  destruct (path_eq_dec q p) as [->|Hne].
  - injection H as ->. left; reflexivity.
  - right. apply IH. exact H.
Qed.

Lemma In_lookup : forall f p n, In (p, n) f -> exists n', lookup f p = Some n'.
Proof.
  induction f as [|[q m] f IH]; intros p n H; simpl in *; [contradiction|].
  destruct (path_eq_dec q p) as [->|Hne]; [eexists; reflexivity|].
  destruct H as [H|H]; [injection H as H1 _; congruence|].
  eapply IH. exact H.
Qed.

Definition none_under (f : fs) (a : path) : Prop :=
  forall p n, In (p, n) f -> strip a p = None.

(* an absent path has nothing below it in a well-formed file system *)
Lemma absent_none_under : forall f a, wf f -> lookup f a = None -> none_under f a.
Proof.
  intros f a (Hnd & Hroot & Hpar) Habs.
  assert (G : forall s p n, In (p, n) f -> p = a ++ s -> False).
  { induction s as [|x s IH] using rev_ind; intros p n Hin Hp.
    - rewrite app_nil_r in Hp. subst p.
      destruct (In_lookup _ _ _ Hin) as [n' Hn']. congruence.
    - assert (Hne : p <> []) by (subst p; destruct a; simpl; [destruct s|]; discriminate).
      pose proof (Hpar p n Hin Hne) as Hd.
      apply lookup_In in Hd.
      apply (IH _ _ Hd).
      subst p. rewrite app_assoc. unfold parent. rewrite removelast_app by discriminate.
      simpl. rewrite app_nil_r. reflexivity. }
  intros p n Hin. destruct (strip a p) as [s|] eqn:E; [|reflexivity].
  exfalso. apply strip_spec in E. eapply G; eauto.
Qed.

Lemma rebase_back : forall f from to, none_under f to ->
  forall p n, In (p, n) f -> rebase to from (rebase from to p) = p.
Proof.
  intros f from to Hnu p n Hin. unfold rebase at 2.
  destruct (strip from p) as [s|] eqn:E.
  - unfold rebase. rewrite strip_app. apply strip_spec in E. symmetry; exact E.
  - unfold rebase. rewrite (Hnu _ _ Hin). reflexivity.
Qed.

Lemma move_back : forall f from to, none_under f to -> move to from (move from to f) = f.
Proof.
  intros f from to Hnu. unfold move. rewrite map_map. simpl.
  rewrite <- (map_id f) at 2. apply map_ext_in. intros [p n] Hin. simpl.
  rewrite (rebase_back f from to Hnu p n Hin). reflexivity.
Qed.

Lemma none_under_tail : forall e f a, none_under (e :: f) a -> none_under f a.
Proof. intros e f a H p n Hin. eapply H. right. exact Hin. Qed.

(* lookups after a move into an empty region *)
Lemma lookup_move : forall f from to q, none_under f to ->
  lookup (move from to f) q =
  match strip to q with
  | Some s => lookup f (from ++ s)
  | None => match strip from q with Some _ => None | None => lookup f q end
  end.
Proof.
  induction f as [|[p n] f IH]; intros from to q Hnu.
  - simpl. destruct (strip to q); [reflexivity|]. destruct (strip from q); reflexivity.
  - pose proof (Hnu p n (or_introl eq_refl)) as Hp.
    specialize (IH from to q (none_under_tail _ _ _ Hnu)).
    cbn [move map fst snd lookup]. fold (move from to f).
    destruct (strip to q) as [s|] eqn:Etq.
    + apply strip_spec in Etq.
      destruct (strip from p) as [s'|] eqn:Efp.
      * replace (rebase from to p) with (to ++ s') by (unfold rebase; rewrite Efp; reflexivity).
        apply strip_spec in Efp.
        destruct (path_eq_dec (to ++ s') q) as [H1|H1];
        destruct (path_eq_dec p (from ++ s)) as [H2|H2]; try reflexivity; try exact IH.
        -- exfalso. apply H2. subst q. apply app_inv_head in H1. subst. reflexivity.
        -- exfalso. apply H1. subst p. apply app_inv_head in H2. subst. reflexivity.
      * replace (rebase from to p) with p by (unfold rebase; rewrite Efp; reflexivity).
        destruct (path_eq_dec p q) as [H1|H1].
        -- exfalso. subst p q. rewrite strip_app in Hp. discriminate.
        -- destruct (path_eq_dec p (from ++ s)) as [H2|H2]; [|exact IH].
           exfalso. subst p. rewrite strip_app in Efp. discriminate.
    + destruct (strip from q) as [t|] eqn:Efq.
      * destruct (strip from p) as [s'|] eqn:Efp.
        -- replace (rebase from to p) with (to ++ s') by (unfold rebase; rewrite Efp; reflexivity).
           destruct (path_eq_dec (to ++ s') q) as [H1|H1]; [|exact IH].
           exfalso. subst q. rewrite strip_app in Etq. discriminate.
        -- replace (rebase from to p) with p by (unfold rebase; rewrite Efp; reflexivity).
           destruct (path_eq_dec p q) as [H1|H1]; [|exact IH].
           exfalso. subst p. congruence.
      * destruct (strip from p) as [s'|] eqn:Efp.
        -- replace (rebase from to p) with (to ++ s') by (unfold rebase; rewrite Efp; reflexivity).
           destruct (path_eq_dec (to ++ s') q) as [H1|H1].
           ++ exfalso. subst q. rewrite strip_app in Etq. discriminate.
           ++ destruct (path_eq_dec p q) as [H2|H2]; [|exact IH].
              exfalso. subst p. congruence.
        -- replace (rebase from to p) with p by (unfold rebase; rewrite Efp; reflexivity).
           destruct (path_eq_dec p q); [reflexivity | exact IH].
Qed.

(* THE inverse lemma: a rename onto an absent target in a well-formed file
   system is undone exactly by the reverse rename, and keeps well-formedness *)
Lemma rename_inverse : forall f from to f',
  wf f -> lookup f to = None -> rename from to f = Ok f' ->
  rename to from f' = Ok f /\ wf f'.
Proof.
  intros f from to f' Hwf Habs Hren.
  pose proof (absent_none_under f to Hwf Habs) as Hnu.
  destruct Hwf as (Hnd & Hroot & Hpar).
  unfold rename in Hren.
  destruct (lookup f from) as [nf|] eqn:Hfrom; [|discriminate].
  destruct (path_eq_dec from to) as [Heq|Hneq]; [subst; congruence|].
  destruct (strip from to) as [?|] eqn:Hft; [discriminate|].
  destruct to as [|t0 to']; [discriminate|].
  set (to := t0 :: to') in *.
  destruct (lookup f (parent to)) as [[| |]|] eqn:Hpt; try discriminate.
  rewrite Habs in Hren. injection Hren as <-.
  assert (Hfrom_ne : from <> []) by (intros ->; simpl in Hft; discriminate).
  assert (Hto_ne : to <> []) by discriminate.
  pose proof (lookup_In _ _ _ Hfrom) as Hfrom_in.
  assert (Htf : strip to from = None) by (eapply Hnu; exact Hfrom_in).
  pose proof (Hpar _ _ Hfrom_in Hfrom_ne) as Hpf.
  assert (Hpf_to : strip to (parent from) = None)
    by (eapply Hnu; eapply lookup_In; exact Hpf).
  assert (Hpf_from : strip from (parent from) = None).
  { destruct (strip from (parent from)) as [s|] eqn:E; [|reflexivity].
    apply strip_length in E. pose proof (parent_length from Hfrom_ne). lia. }
  assert (Hpt_to : strip to (parent to) = None).
  { destruct (strip to (parent to)) as [s|] eqn:E; [|reflexivity].
    apply strip_length in E. pose proof (parent_length to Hto_ne). lia. }
  assert (Hpt_from : strip from (parent to) = None).
  { destruct (strip from (parent to)) as [s|] eqn:E; [|reflexivity].
    destruct (strip_parent_some _ _ _ Hto_ne E) as [t' Ht']. congruence. }
  split.
  - unfold rename.
    rewrite (lookup_move f from to to Hnu), strip_self, app_nil_r, Hfrom.
    destruct (path_eq_dec to from) as [E|_]; [congruence|].
    rewrite Htf.
    destruct from as [|f0 from']; [congruence|].
    set (from := f0 :: from') in *.
    rewrite (lookup_move f from to (parent from) Hnu), Hpf_to, Hpf_from, Hpf.
    rewrite (lookup_move f from to from Hnu), Htf, strip_self.
    rewrite move_back by exact Hnu. reflexivity.
  - split; [|split].
    + apply (NoDup_map_inv (rebase to from)).
      replace (map (rebase to from) (map fst (move from to f))) with (map fst f); [exact Hnd|].
      rewrite <- (move_back f from to Hnu) at 1.
      unfold move. rewrite !map_map. reflexivity.
    + rewrite (lookup_move f from to [] Hnu). simpl.
      destruct from; [congruence|]. simpl. exact Hroot.
    + intros q n Hin Hq.
      unfold move in Hin. apply in_map_iff in Hin. destruct Hin as [[p m] [Hpm Hin]].
      simpl in Hpm. injection Hpm as Hq' ->.
      rewrite (lookup_move f from to (parent q) Hnu).
      unfold rebase in Hq'. destruct (strip from p) as [s|] eqn:Efp.
      * apply strip_spec in Efp. subst q.
        destruct s as [|s0 s'].
        -- rewrite app_nil_r. rewrite Hpt_to, Hpt_from. exact Hpt.
        -- rewrite parent_app by discriminate. rewrite strip_app.
           assert (Hp_ne : p <> []) by (subst p; destruct from; discriminate).
           pose proof (Hpar _ _ Hin Hp_ne) as Hd.
           subst p. rewrite parent_app in Hd by discriminate. exact Hd.
      * subst q.
        pose proof (Hpar _ _ Hin Hq) as Hd.
        assert (E1 : strip to (parent p) = None)
          by (eapply Hnu; eapply lookup_In; exact Hd).
        assert (E2 : strip from (parent p) = None).
        { destruct (strip from (parent p)) as [t|] eqn:E; [|reflexivity].
          destruct (strip_parent_some _ _ _ Hq E) as [t' Ht']. congruence. }
        rewrite E1, E2. exact Hd.
Qed.

Lemma nodupb_NoDup : forall l, nodupb l = true -> NoDup l.
Proof.
  induction l as [|p l IH]; simpl; intros H; [constructor|].
  apply andb_true_iff in H. destruct H as [H1 H2].
  destruct (in_dec path_eq_dec p l); [discriminate|].
  constructor; auto.
Qed.

Lemma wfb_wf : forall f, wfb f = true -> wf f.
Proof.
  intros f H. unfold wfb in H.
  apply andb_true_iff in H. destruct H as [H H3].
  apply andb_true_iff in H. destruct H as [H1 H2].
  split; [apply nodupb_NoDup; exact H1|]. split.
  - destruct (lookup f []) as [[| |]|]; try discriminate. reflexivity.
  - intros p n Hin Hp. rewrite forallb_forall in H3. specialize (H3 _ Hin). simpl in H3.
    destruct p; [congruence|].
    destruct (lookup f (parent (s :: p))) as [[| |]|]; try discriminate. reflexivity.
Qed.

(* ---------------------------------------------------------------- journal invariant *)

(* replaying the journal backwards from f leads exactly to f0 *)
Fixpoint undoes (j : journal) (f f0 : fs) : Prop :=
  match j with
  | [] => f = f0
  | (from, to) :: j' => exists f', rename to from f = Ok f' /\ undoes j' f' f0
  end.

Lemma rollback_undoes : forall j f f0 tr, undoes j f f0 ->
  exists tr', rollback j f tr = (f0, tr', None).
Proof.
  induction j as [|[from to] j IH]; intros f f0 tr H; simpl in *.
  - subst. eexists; reflexivity.
  - destruct H as [f' [Hr Hu]]. rewrite Hr. eapply IH. exact Hu.
Qed.

Lemma run_phase_dirty_sticky : forall e ops k f j tr f1 j1 d1 tr1 x,
  run_phase ops k e f j true tr = (f1, j1, d1, tr1, x) -> d1 = true.
Proof.
  intros e. induction ops as [|op ops IH]; intros k f j tr f1 j1 d1 tr1 x H.
  - simpl in H. injection H as _ _ <- _ _. reflexivity.
  - destruct op as [skip from to]; simpl in H.
    destruct (tick k) as [fire k'].
    destruct (if fire then Err e else rename from to f) as [f'|er].
    + eapply IH. exact H.
    + destruct (skip && is_enoent er); [eapply IH; exact H|].
      injection H as _ _ <- _ _. reflexivity.
Qed.

Lemma run_phase_invariant : forall ops k e f j dirty tr f0 f1 j1 d1 tr1 x,
  wf f -> undoes j f f0 ->
  run_phase ops k e f j dirty tr = (f1, j1, d1, tr1, x) ->
  d1 = false ->
  wf f1 /\ undoes j1 f1 f0 /\ dirty = false.
Proof.
  induction ops as [|op ops IH]; intros k e f j dirty tr f0 f1 j1 d1 tr1 x Hwf Hu Hrun Hd.
  - simpl in Hrun. injection Hrun as <- <- <- <- <-. auto.
  - destruct op as [skip from to]; simpl in Hrun.
    destruct (tick k) as [fire k'].
    destruct (if fire then Err e else rename from to f) as [f'|er] eqn:Hr.
    + destruct fire; [discriminate|].
      destruct (mem f to) eqn:Hm.
      * (* clobbering rename: dirty *)
        exfalso. rewrite orb_true_r in Hrun.
        apply run_phase_dirty_sticky in Hrun. congruence.
      * unfold mem in Hm. destruct (lookup f to) eqn:Hl; [discriminate|].
        destruct (rename_inverse f from to f' Hwf Hl Hr) as [Hinv Hwf'].
        rewrite orb_false_r in Hrun.
        eapply IH; [exact Hwf' | | exact Hrun | exact Hd].
        simpl. exists f. split; [exact Hinv | exact Hu].
    + destruct (skip && is_enoent er).
      * eapply IH; eauto.
      * injection Hrun as <- <- <- <- <-. auto.
Qed.

(* ---------------------------------------------------------------- mode journal invariant *)

Lemma NoDup_In_lookup : forall f p n, NoDup (map fst f) -> In (p, n) f -> lookup f p = Some n.
Proof.
  induction f as [|[q m] f IH]; intros p n Hnd Hin; simpl in *; [contradiction|].
  inversion Hnd as [|? ? Hnotin Hnd']; subst.
  destruct Hin as [Hin|Hin].
  - injection Hin as -> ->. destruct (path_eq_dec p p); [reflexivity | congruence].
  - destruct (path_eq_dec q p) as [->|_]; [|apply IH; assumption].
    exfalso. apply Hnotin. apply in_map_iff. exists (p, n). split; [reflexivity | exact Hin].
Qed.

Definition set_x (p : path) (c : list N) (x : bool) (f : fs) : fs :=
  map (fun e => if path_eq_dec (fst e) p then (fst e, File c x) else e) f.

Lemma set_x_keys : forall p c x f, map fst (set_x p c x f) = map fst f.
Proof.
  intros p c x f. unfold set_x. rewrite map_map. apply map_ext. intros [q n]. simpl.
  destruct (path_eq_dec q p); reflexivity.
Qed.

Lemma lookup_set_x : forall p c x f q,
  lookup (set_x p c x f) q =
  if path_eq_dec q p then match lookup f q with Some _ => Some (File c x) | None => None end
  else lookup f q.
Proof.
  intros p c x f q. induction f as [|[r n] f IH]; simpl.
  - destruct (path_eq_dec q p); reflexivity.
  - destruct (path_eq_dec r p) as [->|Hrp]; simpl.
    + destruct (path_eq_dec p q) as [<-|Hpq].
      * destruct (path_eq_dec p p); [reflexivity | congruence].
      * rewrite IH. destruct (path_eq_dec q p); [congruence | reflexivity].
    + destruct (path_eq_dec r q) as [<-|Hrq].
      * destruct (path_eq_dec r p); [congruence | reflexivity].
      * exact IH.
Qed.

(* changing the x bit of a regular file is undone exactly by setting the old bit again *)
Lemma chmod_inverse : forall f p c b x f',
  wf f -> lookup f p = Some (File c b) -> chmod p x f = Ok f' ->
  chmod p b f' = Ok f /\ wf f'.
Proof.
  intros f p c b x f' (Hnd & Hroot & Hpar) Hl Hc.
  unfold chmod in Hc. rewrite Hl in Hc. injection Hc as <-. fold (set_x p c x f).
  assert (Hp : p <> []) by (intros ->; congruence).
  split.
  - unfold chmod. rewrite lookup_set_x. destruct (path_eq_dec p p); [|congruence]. rewrite Hl.
    f_equal. fold (set_x p c b (set_x p c x f)). unfold set_x. rewrite map_map.
    rewrite <- (map_id f) at 2. apply map_ext_in. intros [q n] Hin. simpl.
    destruct (path_eq_dec q p) as [->|Hne]; simpl.
    + destruct (path_eq_dec p p); [|congruence].
      rewrite (NoDup_In_lookup f p n Hnd Hin) in Hl. injection Hl as ->. reflexivity.
    + destruct (path_eq_dec q p); [congruence | reflexivity].
  - split; [rewrite set_x_keys; exact Hnd|]. split.
    + rewrite lookup_set_x. destruct (path_eq_dec [] p); [congruence | exact Hroot].
    + intros q n Hin Hq.
      assert (Hk : In q (map fst f)).
      { rewrite <- (set_x_keys p c x f). apply in_map_iff. exists (q, n). split; [reflexivity | exact Hin]. }
      apply in_map_iff in Hk. destruct Hk as [[q' n0] [Hq' Hin0]]. simpl in Hq'. subst q'.
      pose proof (Hpar q n0 Hin0 Hq) as Hd.
      rewrite lookup_set_x. destruct (path_eq_dec (parent q) p) as [E|_]; [|exact Hd].
      rewrite E in Hd. congruence.
Qed.

Fixpoint mundoes (mj : mjournal) (f fa : fs) : Prop :=
  match mj with
  | [] => f = fa
  | (p, b) :: mj' => exists f', chmod p b f = Ok f' /\ mundoes mj' f' fa
  end.

Lemma restore_undoes : forall mj f fa tr, mundoes mj f fa ->
  exists tr', restore_modes mj f tr = (fa, tr', None).
Proof.
  induction mj as [|[p b] mj IH]; intros f fa tr H; simpl in *.
  - subst. eexists; reflexivity.
  - destruct H as [f' [Hc Hu]]. rewrite Hc. eapply IH. exact Hu.
Qed.

Lemma run_chmods_invariant : forall cs k e f mj tr fa f2 mj2 tr2 x,
  wf f -> mundoes mj f fa ->
  run_chmods cs k e f mj tr = (f2, mj2, tr2, x) ->
  wf f2 /\ mundoes mj2 f2 fa.
Proof.
  induction cs as [|[p b] cs IH]; intros k e f mj tr fa f2 mj2 tr2 x Hwf Hu Hrun; simpl in Hrun.
  - injection Hrun as <- <- _ _. auto.
  - destruct (lookup f p) as [n|] eqn:Hl; [|injection Hrun as <- <- _ _; auto].
    destruct (tick k) as [fire k'].
    destruct (if fire then Err e else chmod p b f) as [f'|er] eqn:Hc;
      [|injection Hrun as <- <- _ _; auto].
    destruct fire; [discriminate|].
    destruct n as [c b0| |t].
    + destruct (chmod_inverse f p c b0 b f' Hwf Hl Hc) as [Hinv Hwf'].
      eapply IH; [exact Hwf' | | exact Hrun].
      simpl. exists f. split; [exact Hinv | exact Hu].
    + unfold chmod in Hc. rewrite Hl in Hc. injection Hc as <-.
      eapply IH; [exact Hwf | | exact Hrun].
      simpl. exists f. split; [unfold chmod; rewrite Hl; reflexivity | exact Hu].
    + unfold chmod in Hc. rewrite Hl in Hc. injection Hc as <-.
      eapply IH; [exact Hwf | | exact Hrun].
      simpl. exists f. split; [unfold chmod; rewrite Hl; reflexivity | exact Hu].
Qed.

Lemma run_phase_not_rollback : forall ops k e f j d tr f1 j1 d1 tr1 e0,
  run_phase ops k e f j d tr = (f1, j1, d1, tr1, Some (XRollback e0)) -> False.
Proof.
  induction ops as [|op ops IH]; intros k e f j d tr f1 j1 d1 tr1 e0 H; simpl in H; [discriminate|].
  destruct op as [skip from to].
  destruct (tick k) as [fire k'].
  destruct (if fire then Err e else rename from to f) as [f'|er].
  - eapply IH; exact H.
  - destruct (skip && is_enoent er); [eapply IH; exact H | discriminate].
Qed.

Lemma run_chmods_not_rollback : forall cs k e f mj tr f2 mj2 tr2 e0,
  run_chmods cs k e f mj tr = (f2, mj2, tr2, Some (XRollback e0)) -> False.
Proof.
  induction cs as [|[p b] cs IH]; intros k e f mj tr f2 mj2 tr2 e0 H; simpl in H; [discriminate|].
  destruct (lookup f p); [|discriminate].
  destruct (tick k) as [fire k'].
  destruct (if fire then Err e else chmod p b f) as [f'|er]; [eapply IH; exact H | discriminate].
Qed.

(* the invariant of the whole try-block: when it raises (and no rename replaced a target) the
   saved modes have been put back and replaying the rename journal backwards yields f0 *)
Lemma run_try_invariant : forall g flt f0 f1 j tr x,
  wf f0 -> run_try g flt f0 = (f1, j, false, tr, Some x) ->
  undoes j f1 f0 /\ forall er, x <> XRollback er.
Proof.
  intros g flt f0 f1 j tr x Hwf H. unfold run_try in H.
  destruct (run_phase (g_phase g) (kphase flt) (ferr flt) f0 [] false [])
    as [[[[fa ja] da] tra] [xa|]] eqn:Hp.
  - injection H as <- <- -> <- <-.
    destruct (run_phase_invariant (g_phase g) (kphase flt) (ferr flt) f0 [] false [] f0 fa ja false tra (Some xa) Hwf eq_refl Hp eq_refl) as (_ & Hu & _).
    split; [exact Hu|].
    intros er ->. eapply run_phase_not_rollback; exact Hp.
  - destruct (run_chmods (g_chmods g) (k_after (g_phase g) (kphase flt)) (ferr flt) fa [] tra)
      as [[[f2 mj] tr2] [xc|]] eqn:Hc; [|discriminate].
    destruct (restore_modes mj f2 tr2) as [[f3 tr3] r] eqn:Hr.
    assert (Hd : da = false) by (destruct r; injection H as _ _ -> _ _; reflexivity).
    subst da.
    destruct (run_phase_invariant (g_phase g) (kphase flt) (ferr flt) f0 [] false [] f0 fa ja false tra None Hwf eq_refl Hp eq_refl) as (Hwfa & Hu & _).
    destruct (run_chmods_invariant (g_chmods g) (k_after (g_phase g) (kphase flt)) (ferr flt) fa [] tra fa f2 mj tr2 (Some xc) Hwfa eq_refl Hc) as (_ & Hmu).
    destruct (restore_undoes _ _ _ tr2 Hmu) as [tr' Hr']. rewrite Hr' in Hr.
    injection Hr as <- <- <-. injection H as <- <- <- <-.
    split; [exact Hu|].
    intros er ->. eapply run_chmods_not_rollback; exact Hc.
Qed.
