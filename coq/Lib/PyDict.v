(* Lib/PyDict.v -- Python dicts as association lists, the primitives emitted by
   the dict-loop translator tools/py2coq_dictloop.py.

   A dict is a [list (K * V)] in INSERTION ORDER with pairwise different keys
   (the theorems carry [NoDup (map fst d)] as a hypothesis; [dict_set]
   preserves it).  Key comparison is a boolean equality [K_eqb] supplied by
   the user of the generated code (Python ==/hash on the key type).

     d.get(k)        dict_get K_eqb d k      : option V     (None = absent)
     d[k]            dict_get K_eqb d k      : option V     (None = KeyError; NOT totalised)
     k in d          dict_mem K_eqb d k
     d[k] = v        dict_set K_eqb d k v    replaces the value in place when the key is
                                             present, appends (k, v) at the end otherwise
     d.update(e)     dict_update K_eqb d e
     x == y  on the results of .get          opt_eqb V_eqb

   Definitions only; facts are in Theory/PyDictFacts.v. *)
From Coq Require Import List Bool.
Import ListNotations.

Section PyDict.
Variables K V : Type.
Variable K_eqb : K -> K -> bool.

Definition dict : Type := list (K * V).

Fixpoint dict_get (d : dict) (k : K) : option V :=
  match d with
  | [] => None
  | (k', v) :: d' => if K_eqb k k' then Some v else dict_get d' k
  end.

Definition dict_mem (d : dict) (k : K) : bool :=
  match dict_get d k with Some _ => true | None => false end.

Fixpoint dict_set (d : dict) (k : K) (v : V) : dict :=
  match d with
  | [] => [(k, v)]
  | (k', v') :: d' => if K_eqb k k' then (k', v) :: d' else (k', v') :: dict_set d' k v
  end.

Definition dict_update (d e : dict) : dict :=
  fold_left (fun acc kv => dict_set acc (fst kv) (snd kv)) e d.

Definition dict_keys (d : dict) : list K := map fst d.
End PyDict.

Arguments dict_get {K V}.
Arguments dict_mem {K V}.
Arguments dict_set {K V}.
Arguments dict_update {K V}.
Arguments dict_keys {K V}.

Definition opt_eqb {V : Type} (V_eqb : V -> V -> bool) (a b : option V) : bool :=
  match a, b with
  | Some x, Some y => V_eqb x y
  | None, None => true
  | _, _ => false
  end.
