(* Lib/Obs.v -- the uniform observation type used by every correspondence run.

   The harness encodes what the implementation returned as an [obs] literal,
   the model's [run_case] returns an [obs], and [mismatches] (evaluated by
   vm_compute in a generated cases file) lists the indices where they differ.
   Nothing here is specific to a property. *)
From Coq Require Import ZArith NArith List String Bool Ascii.
Import ListNotations.
Open Scope list_scope.

Inductive obs : Type :=
| OZ (z : Z)                (* integers, lengths, flags *)
| OB (b : list N)           (* byte strings *)
| OT (t : string)           (* enum tags: "this", "conflict", ... *)
| OE (e : string)           (* an exception class, canonicalised *)
| ON                        (* None *)
| OL (l : list obs).        (* tuples, lists, sorted sets, sorted dict items *)

Fixpoint list_eqb {A} (eqb : A -> A -> bool) (a b : list A) : bool :=
  match a, b with
  | [], [] => true
  | x :: a', y :: b' => eqb x y && list_eqb eqb a' b'
  | _, _ => false
  end.

Fixpoint obs_eqb (a b : obs) {struct a} : bool :=
  match a, b with
  | OZ x, OZ y => Z.eqb x y
  | OB x, OB y => list_eqb N.eqb x y
  | OT x, OT y => String.eqb x y
  | OE x, OE y => String.eqb x y
  | ON, ON => true
  | OL x, OL y =>
      (fix go (x y : list obs) {struct x} : bool :=
         match x, y with
         | [], [] => true
         | a' :: x', b' :: y' => obs_eqb a' b' && go x' y'
         | _, _ => false
         end) x y
  | _, _ => false
  end.

(* (index, model observation, implementation observation) *)
Definition mismatches (cases : list (N * obs * obs)) : list N :=
  map (fun c => fst (fst c))
      (filter (fun c => negb (obs_eqb (snd (fst c)) (snd c))) cases).

Definition obool (b : bool) : obs := OT (if b then "True" else "False")%string.
Definition oopt {A} (f : A -> obs) (o : option A) : obs :=
  match o with Some x => f x | None => ON end.
Definition olist {A} (f : A -> obs) (l : list A) : obs := OL (map f l).
Definition opair {A B} (f : A -> obs) (g : B -> obs) (p : A * B) : obs :=
  OL [f (fst p); g (snd p)].
Definition onat (n : nat) : obs := OZ (Z.of_nat n).
Definition oN (n : N) : obs := OZ (Z.of_N n).

Lemma list_eqb_refl {A} (eqb : A -> A -> bool) :
  (forall x, eqb x x = true) -> forall l, list_eqb eqb l l = true.
Proof.
  intros H l; induction l as [|x l IH]; simpl; [reflexivity|].
  rewrite H, IH; reflexivity.
Qed.
