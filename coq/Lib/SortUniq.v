(* Lib/SortUniq.v -- lexicographic order on byte strings, insertion sort by a
   byte-string key, and the fact every model of "sorted entries" needs: the
   sorted list is a FUNCTION OF THE ENTRY SET (two permutations with pairwise
   distinct keys sort to the same list).  Used by C35 (git tree entry order,
   inventory child order).  Self-contained: stdlib only. *)
From Coq Require Import NArith List Bool Lia Permutation Sorted.
From BV Require Import Lib.Bytes.
Import ListNotations.
Open Scope N_scope.

(* Python / memcmp order on bytes: a <= b *)
Fixpoint bytes_leb (a b : bytes) : bool :=
  match a, b with
  | [], _ => true
  | _ :: _, [] => false
  | x :: a', y :: b' => (x <? y) || ((x =? y) && bytes_leb a' b')
  end.

Lemma bytes_leb_refl a : bytes_leb a a = true.
Proof.
  induction a as [|x a IH]; simpl; [reflexivity|].
  rewrite N.eqb_refl, IH. apply orb_true_r.
Qed.

Lemma bytes_leb_total a b : bytes_leb a b = true \/ bytes_leb b a = true.
Proof.
  revert b; induction a as [|x a IH]; intros [|y b]; simpl; auto.
  destruct (N.ltb_spec x y) as [H|H]; simpl; auto.
  destruct (N.ltb_spec y x) as [H'|H']; simpl; auto.
  assert (x = y) by lia; subst y. rewrite N.eqb_refl; simpl. apply IH.
Qed.

Lemma bytes_leb_antisym a b : bytes_leb a b = true -> bytes_leb b a = true -> a = b.
Proof.
  revert b; induction a as [|x a IH]; intros [|y b]; simpl; try discriminate; auto.
  intros H1 H2.
  apply orb_true_iff in H1; apply orb_true_iff in H2.
  destruct H1 as [H1|H1]; destruct H2 as [H2|H2];
    try (apply N.ltb_lt in H1); try (apply N.ltb_lt in H2);
    try (apply andb_true_iff in H1; destruct H1 as [E1 H1]; apply N.eqb_eq in E1);
    try (apply andb_true_iff in H2; destruct H2 as [E2 H2]; apply N.eqb_eq in E2);
    try lia.
  subst y. f_equal. apply IH; assumption.
Qed.

Lemma bytes_leb_trans a b c :
  bytes_leb a b = true -> bytes_leb b c = true -> bytes_leb a c = true.
Proof.
  revert b c; induction a as [|x a IH]; intros [|y b] [|z c]; simpl; try discriminate; auto.
  intros H1 H2.
  apply orb_true_iff in H1; apply orb_true_iff in H2. apply orb_true_iff.
  destruct H1 as [H1|H1]; destruct H2 as [H2|H2];
    try (apply N.ltb_lt in H1); try (apply N.ltb_lt in H2);
    try (apply andb_true_iff in H1; destruct H1 as [E1 H1]; apply N.eqb_eq in E1);
    try (apply andb_true_iff in H2; destruct H2 as [E2 H2]; apply N.eqb_eq in E2);
    subst.
  - left. apply N.ltb_lt. lia.
  - left. apply N.ltb_lt. lia.
  - left. apply N.ltb_lt. lia.
  - right. rewrite N.eqb_refl. simpl. eapply IH; eassumption.
Qed.

Section ISort.
  Context {A : Type} (key : A -> bytes).

  Definition kle (x y : A) : Prop := bytes_leb (key x) (key y) = true.

  Fixpoint insert (x : A) (l : list A) : list A :=
    match l with
    | [] => [x]
    | y :: l' => if bytes_leb (key x) (key y) then x :: l else y :: insert x l'
    end.

  Fixpoint isort (l : list A) : list A :=
    match l with [] => [] | x :: l' => insert x (isort l') end.

  Lemma insert_perm x l : Permutation (insert x l) (x :: l).
  Proof.
    induction l as [|y l IH]; simpl; [reflexivity|].
    destruct (bytes_leb (key x) (key y)); [reflexivity|].
    rewrite IH. apply perm_swap.
  Qed.

  Lemma isort_perm l : Permutation (isort l) l.
  Proof.
    induction l as [|x l IH]; simpl; [reflexivity|].
    rewrite insert_perm. constructor. exact IH.
  Qed.

  Lemma insert_sorted x l : StronglySorted kle l -> StronglySorted kle (insert x l).
  Proof.
    induction l as [|y l IH]; intros Hs; simpl.
    - constructor; constructor.
    - inversion Hs as [|? ? Hs' Hall]; subst.
      destruct (bytes_leb (key x) (key y)) eqn:E.
      + constructor; [assumption|]. constructor; [exact E|].
        rewrite Forall_forall in *. intros z Hz. unfold kle.
        eapply bytes_leb_trans; [exact E|]. apply Hall; assumption.
      + constructor; [apply IH; assumption|].
        assert (Hyx : kle y x).
        { unfold kle. destruct (bytes_leb_total (key x) (key y)) as [H|H]; congruence. }
        rewrite Forall_forall in *. intros z Hz.
        apply (Permutation_in _ (insert_perm x l)) in Hz. destruct Hz as [<-|Hz]; auto.
  Qed.

  Lemma isort_sorted l : StronglySorted kle (isort l).
  Proof.
    induction l as [|x l IH]; simpl; [constructor|]. apply insert_sorted; exact IH.
  Qed.

  (* two sorted permutations with pairwise distinct keys are equal *)
  Lemma sorted_perm_unique l1 l2 :
    StronglySorted kle l1 -> StronglySorted kle l2 -> Permutation l1 l2 ->
    NoDup (map key l1) -> l1 = l2.
  Proof.
    revert l2; induction l1 as [|x l1 IH]; intros l2 S1 S2 P ND.
    - apply Permutation_nil in P. subst; reflexivity.
    - destruct l2 as [|y l2]; [apply Permutation_sym, Permutation_nil in P; discriminate|].
      inversion S1 as [|? ? S1' A1]; subst. inversion S2 as [|? ? S2' A2]; subst.
      simpl in ND. inversion ND as [|? ? Hnin ND']; subst.
      assert (Hxy : key x = key y).
      { assert (Hx : In x (y :: l2)) by (eapply Permutation_in; [exact P|left; reflexivity]).
        assert (Hy : In y (x :: l1)) by (eapply Permutation_in; [apply Permutation_sym; exact P|left; reflexivity]).
        rewrite Forall_forall in A1, A2.
        destruct Hx as [->|Hx]; [reflexivity|]. destruct Hy as [->|Hy]; [reflexivity|].
        apply bytes_leb_antisym; [apply A1|apply A2]; assumption. }
      assert (x = y).
      { assert (Hy : In y (x :: l1)) by (eapply Permutation_in; [apply Permutation_sym; exact P|left; reflexivity]).
        destruct Hy as [->|Hy]; [reflexivity|].
        exfalso. apply Hnin. rewrite Hxy. apply in_map; exact Hy. }
      subst y. f_equal. apply IH; try assumption.
      eapply Permutation_cons_inv; exact P.
  Qed.

  (* THE fact: the sort is a function of the entry set *)
  Theorem isort_perm_invariant l1 l2 :
    Permutation l1 l2 -> NoDup (map key l1) -> isort l1 = isort l2.
  Proof.
    intros P ND. apply sorted_perm_unique; try apply isort_sorted.
    - rewrite (isort_perm l1), (isort_perm l2). exact P.
    - eapply Permutation_NoDup; [|exact ND].
      apply Permutation_map, Permutation_sym, isort_perm.
  Qed.

  Theorem isort_sorted_id l :
    StronglySorted kle l -> NoDup (map key l) -> isort l = l.
  Proof.
    intros S ND. apply sorted_perm_unique; try assumption.
    - apply isort_sorted.
    - apply isort_perm.
    - eapply Permutation_NoDup; [|exact ND].
      apply Permutation_map, Permutation_sym, isort_perm.
  Qed.
End ISort.
