(* Lib/Tree01.v -- small abstract versioned trees for C01 (commit of a selection).

   A tree is an association list  file-id -> entry ; an entry carries the
   fields of a bzr inventory entry that a commit records (parent id, name,
   kind, content token, executable bit) plus the working-tree-only flag
   "missing" (versioned but absent from disk).  Paths are derived from the
   parent pointers.  Definitions only, plus the elementary lookup lemmas. *)
From Coq Require Import List NArith Bool Lia.
Import ListNotations.
Open Scope list_scope.

Definition fid := N.
Definition name := N.                 (* one path segment (a single byte) *)
Definition path := list name.

Inductive kind := KFile | KDir | KLink.

Record entry := mkE {
  e_parent : fid;       (* the root's parent is the root itself *)
  e_name : name;        (* the root's name is 0 *)
  e_kind : kind;
  e_content : N;        (* file text token / symlink target token / 0 *)
  e_exec : bool;
  e_missing : bool      (* working trees only: versioned, nothing on disk *)
}.

Definition tree := list (fid * entry).
Definition root_id : fid := 0%N.

Definition kind_eqb (a b : kind) : bool :=
  match a, b with KFile, KFile | KDir, KDir | KLink, KLink => true | _, _ => false end.

(* only files have an executable bit *)
Definition eff_exec (e : entry) : bool := match e_kind e with KFile => e_exec e | _ => false end.

Definition entry_eqb (a b : entry) : bool :=
  N.eqb (e_parent a) (e_parent b) && N.eqb (e_name a) (e_name b) &&
  kind_eqb (e_kind a) (e_kind b) && N.eqb (e_content a) (e_content b) &&
  Bool.eqb (eff_exec a) (eff_exec b) && Bool.eqb (e_missing a) (e_missing b).

Fixpoint lookup (t : tree) (i : fid) : option entry :=
  match t with
  | [] => None
  | (j, e) :: r => if N.eqb i j then Some e else lookup r i
  end.

Definition remove (t : tree) (i : fid) : tree :=
  filter (fun p => negb (N.eqb i (fst p))) t.

Definition insert (t : tree) (i : fid) (e : entry) : tree := (i, e) :: remove t i.

Definition ids (t : tree) : list fid := map fst t.

(* path of an id: follow parent pointers, at most [fuel] steps *)
Fixpoint path_of (t : tree) (fuel : nat) (i : fid) : option path :=
  match fuel with
  | O => None
  | S f =>
      match lookup t i with
      | None => None
      | Some e =>
          if N.eqb i root_id then Some []
          else match path_of t f (e_parent e) with
               | None => None
               | Some p => Some (p ++ [e_name e])
               end
      end
  end.

Definition tpath (t : tree) (i : fid) : option path := path_of t (S (length t)) i.

Fixpoint path_eqb (a b : path) : bool :=
  match a, b with
  | [], [] => true
  | x :: a', y :: b' => N.eqb x y && path_eqb a' b'
  | _, _ => false
  end.

Definition opath_eqb (a b : option path) : bool :=
  match a, b with
  | None, None => true
  | Some x, Some y => path_eqb x y
  | _, _ => false
  end.

(* osutils.is_inside(dir, fname): segment-wise prefix *)
Fixpoint is_inside (dir fname : path) : bool :=
  match dir, fname with
  | [], _ => true
  | x :: d, y :: f => N.eqb x y && is_inside d f
  | _ :: _, [] => false
  end.

Definition is_inside_any (dirs : list path) (p : path) : bool :=
  existsb (fun d => is_inside d p) dirs.

Definition oinside (dirs : list path) (p : option path) : bool :=
  match p with Some q => is_inside_any dirs q | None => false end.

(* all proper prefixes of a path, the empty path (root) first *)
Fixpoint proper_prefixes (p : path) : list path :=
  match p with
  | [] => []
  | x :: r => [] :: map (cons x) (proper_prefixes r)
  end.

(* id occupying a path *)
Definition ids_at (t : tree) (p : path) : list fid :=
  filter (fun i => opath_eqb (tpath t i) (Some p)) (ids t).

Definition id_of_path (t : tree) (p : path) : option fid :=
  match ids_at t p with i :: _ => Some i | [] => None end.

Fixpoint nodupb (l : list N) : bool :=
  match l with
  | [] => true
  | x :: r => negb (existsb (N.eqb x) r) && nodupb r
  end.

(* validity of a tree: unique ids; empty or rooted at a directory; every
   entry has a path (parents present, no cycles); parents are directories;
   sibling names are unique (= paths are unique). *)
Definition entry_ok (t : tree) (p : fid * entry) : bool :=
  let (i, e) := p in
  if N.eqb i root_id then
    match e_kind e with KDir => true | _ => false end
  else
    match lookup t (e_parent e) with
    | Some pe => match e_kind pe with KDir => true | _ => false end
    | None => false
    end &&
    match tpath t i with Some _ => true | None => false end.

Fixpoint nodup_paths (l : list (option path)) : bool :=
  match l with
  | [] => true
  | x :: r => negb (existsb (opath_eqb x) r) && nodup_paths r
  end.

Definition valid_tree (t : tree) : bool :=
  nodupb (ids t) &&
  match t with [] => true | _ => match lookup t root_id with Some _ => true | None => false end end &&
  forallb (entry_ok t) t &&
  nodup_paths (map (fun p => tpath t (fst p)) t).

(* a revision tree has no missing entries; non-files carry no exec bit *)
Definition normal_entry (e : entry) : bool := negb (e_missing e) && Bool.eqb (e_exec e) (eff_exec e).
Definition rev_entry_ok (p : fid * entry) : bool := normal_entry (snd p).
Definition rev_normal (t : tree) : bool := forallb rev_entry_ok t.
Definition valid_rev_tree (t : tree) : bool := valid_tree t && forallb rev_entry_ok t.

(* ---------------------------------------------------------------- lemmas *)

Lemma lookup_remove_same : forall t i, lookup (remove t i) i = None.
Proof.
  induction t as [|[j e] r IH]; intros i; simpl; [reflexivity|].
  destruct (N.eqb i j) eqn:E; simpl; [apply IH|].
  rewrite E. apply IH.
Qed.

Lemma lookup_remove_other : forall t i k, i <> k -> lookup (remove t i) k = lookup t k.
Proof.
  induction t as [|[j e] r IH]; intros i k Hne; simpl; [reflexivity|].
  destruct (N.eqb i j) eqn:E; simpl.
  - apply N.eqb_eq in E; subst j.
    destruct (N.eqb k i) eqn:E2; [apply N.eqb_eq in E2; congruence|].
    apply IH; assumption.
  - destruct (N.eqb k j); [reflexivity|]. apply IH; assumption.
Qed.

Lemma lookup_insert_same : forall t i e, lookup (insert t i e) i = Some e.
Proof. intros; unfold insert; simpl. rewrite N.eqb_refl. reflexivity. Qed.

Lemma lookup_insert_other : forall t i e k, i <> k -> lookup (insert t i e) k = lookup t k.
Proof.
  intros t i e k Hne; unfold insert; simpl.
  destruct (N.eqb k i) eqn:E; [apply N.eqb_eq in E; congruence|].
  apply lookup_remove_other; assumption.
Qed.

Lemma path_eqb_refl : forall p, path_eqb p p = true.
Proof. induction p; simpl; [reflexivity|]. rewrite N.eqb_refl; assumption. Qed.

Lemma path_eqb_eq : forall a b, path_eqb a b = true <-> a = b.
Proof.
  induction a as [|x a IH]; destruct b as [|y b]; simpl; split; intros H; try reflexivity; try discriminate.
  - apply andb_true_iff in H as [H1 H2]. apply N.eqb_eq in H1. apply IH in H2. congruence.
  - injection H as -> ->. rewrite N.eqb_refl. apply path_eqb_refl.
Qed.

Lemma opath_eqb_eq : forall a b, opath_eqb a b = true <-> a = b.
Proof.
  destruct a, b; simpl; split; intros H; try reflexivity; try discriminate.
  - apply path_eqb_eq in H; congruence.
  - injection H as ->. apply path_eqb_refl.
Qed.

Lemma is_inside_refl : forall p, is_inside p p = true.
Proof. induction p; simpl; [reflexivity|]. rewrite N.eqb_refl; assumption. Qed.

Lemma is_inside_trans : forall a b c, is_inside a b = true -> is_inside b c = true -> is_inside a c = true.
Proof.
  induction a as [|x a IH]; intros b c H1 H2; simpl; [reflexivity|].
  destruct b as [|y b]; simpl in H1; [discriminate|].
  destruct c as [|z c]; simpl in H2; [discriminate|].
  apply andb_true_iff in H1 as [E1 H1]. apply andb_true_iff in H2 as [E2 H2].
  apply N.eqb_eq in E1. apply N.eqb_eq in E2. subst. simpl. rewrite N.eqb_refl. simpl.
  eapply IH; eassumption.
Qed.

Lemma is_inside_any_trans : forall ds q p,
  is_inside_any ds q = true -> is_inside q p = true -> is_inside_any ds p = true.
Proof.
  intros ds q p H1 H2. unfold is_inside_any in *.
  apply existsb_exists in H1 as [d [Hin Hd]].
  apply existsb_exists. exists d. split; [assumption|]. eapply is_inside_trans; eassumption.
Qed.

Lemma is_inside_any_app : forall a b p,
  is_inside_any (a ++ b) p = is_inside_any a p || is_inside_any b p.
Proof. intros; unfold is_inside_any; apply existsb_app. Qed.
