(* Lib/DecBytes.v -- decimal printing/parsing of N as byte strings and
   find-first-byte, with their round-trip lemmas.  The definitions and proofs
   are the decimal part of Model/Smart.v + Theory/SmartNum.v (C29/C30), copied
   here so that C24 does not depend on another property's files. *)
From Coq Require Import ZArith NArith Bool List Lia.
From BV Require Import Lib.Bytes.
Import ListNotations.
Open Scope N_scope.


(* most significant digit first; [fuel] = number of further divisions allowed *)
Fixpoint to_digits (base : N) (fuel : nat) (n : N) (acc : list N) : list N :=
  match fuel with
  | O => n :: acc
  | S f => if n <? base then n :: acc
           else to_digits base f (n / base) (n mod base :: acc)
  end.
Definition digits_of (base n : N) : list N := to_digits base (N.to_nat (N.size n)) n [].

Definition dec_char (d : N) : N := 48 + d.
Definition print_dec (n : N) : bytes := map dec_char (digits_of 10 n).
Definition dec_digit (c : N) : option N :=
  if (48 <=? c) && (c <=? 57) then Some (c - 48) else None.

Fixpoint parse_digits (base : N) (dig : N -> option N) (s : bytes) (acc : N) : option N :=
  match s with
  | [] => Some acc
  | c :: s' => match dig c with
               | Some d => parse_digits base dig s' (acc * base + d)
               | None => None
               end
  end.
(* int(s) / int(s, 16) on pure digit strings; None = ValueError *)
Definition parse_num (base : N) (dig : N -> option N) (s : bytes) : option N :=
  match s with [] => None | _ => parse_digits base dig s 0 end.
Definition parse_dec := parse_num 10 dec_digit.

(* pos = s.find(b"\n");  (s[:pos], s[pos+1:]) *)
Fixpoint find_byte (b : N) (s : bytes) : option (bytes * bytes) :=
  match s with
  | [] => None
  | c :: s' => if c =? b then Some ([], s')
               else match find_byte b s' with
                    | Some (l, r) => Some (c :: l, r)
                    | None => None
                    end
  end.

Lemma parse_digits_app base dig a b acc :
  parse_digits base dig (a ++ b) acc =
  match parse_digits base dig a acc with
  | Some v => parse_digits base dig b v
  | None => None
  end.
Proof.
  revert acc; induction a as [|c a IH]; intros acc; cbn [app parse_digits]; [reflexivity|].
  destruct (dig c); [apply IH|reflexivity].
Qed.

Lemma to_digits_length_ge base f q l : (S (length l) <= length (to_digits base f q l))%nat.
Proof.
  revert q l; induction f as [|f IHf]; intros q l; cbn [to_digits]; [cbn [length]; lia|].
  destruct (q <? base); [cbn [length]; lia|].
  specialize (IHf (q / base) (q mod base :: l)). cbn [length] in IHf. lia.
Qed.

(* value of the printed digits, for any fuel *)
Lemma to_digits_value base dig chr f :
  2 <= base ->
  (forall d, d < base -> dig (chr d) = Some d) ->
  forall n acc v,
    Forall (fun d => d < base) (to_digits base f n acc) ->
    parse_digits base dig (map chr (to_digits base f n acc)) v =
    parse_digits base dig (map chr acc) (v * base ^ N.of_nat (length (to_digits base f n acc) - length acc) + n).
Proof.
  intros Hb2 Hd. induction f as [|f IH]; intros n acc v Hall.
  - cbn [to_digits] in *. cbn [map parse_digits length].
    inversion Hall as [|? ? Hn _]; subst.
    rewrite (Hd n Hn).
    replace (S (length acc) - length acc)%nat with 1%nat by lia.
    f_equal. change (N.of_nat 1) with 1. rewrite N.pow_1_r. reflexivity.
  - cbn [to_digits] in *. destruct (n <? base) eqn:E.
    + cbn [map parse_digits length].
      inversion Hall as [|? ? Hn _]; subst.
      rewrite (Hd n Hn).
      replace (S (length acc) - length acc)%nat with 1%nat by lia.
      f_equal. change (N.of_nat 1) with 1. rewrite N.pow_1_r. reflexivity.
    + rewrite (IH _ _ v Hall). cbn [map parse_digits].
      assert (Hm : n mod base < base).
      { apply N.mod_lt. lia. }
      rewrite (Hd _ Hm). f_equal.
      pose proof (to_digits_length_ge base f (n / base) (n mod base :: acc)) as Hlen.
      cbn [length] in *.
      set (L := length (to_digits base f (n / base) (n mod base :: acc))) in *.
      replace (N.of_nat (L - length acc)) with (N.succ (N.of_nat (L - S (length acc)))) by lia.
      rewrite N.pow_succ_r'.
      assert (Hb : base <> 0) by lia.
      pose proof (N.div_mod n base Hb) as Hdm.
      nia.
Qed.

Lemma to_digits_small base f : 2 <= base ->
  forall n acc, n < base ^ N.of_nat (S f) -> Forall (fun d => d < base) acc ->
                Forall (fun d => d < base) (to_digits base f n acc).
Proof.
  intros Hb. induction f as [|f IH]; intros n acc Hn Hacc; cbn [to_digits].
  - constructor; [|assumption]. change (N.of_nat 1) with 1 in Hn. rewrite N.pow_1_r in Hn. exact Hn.
  - destruct (n <? base) eqn:E.
    + constructor; [apply N.ltb_lt; exact E|assumption].
    + apply IH.
      * apply N.div_lt_upper_bound; [lia|].
        replace (N.of_nat (S (S f))) with (N.succ (N.of_nat (S f))) in Hn by lia.
        rewrite N.pow_succ_r' in Hn. exact Hn.
      * constructor; [apply N.mod_lt; lia|assumption].
Qed.

Lemma to_digits_nonempty base f n acc : to_digits base f n acc <> [].
Proof.
  revert n acc; induction f as [|f IH]; intros n acc; cbn [to_digits]; [discriminate|].
  destruct (n <? base); [discriminate|apply IH].
Qed.

Lemma digits_of_small base n : 2 <= base -> Forall (fun d => d < base) (digits_of base n).
Proof.
  intros Hb. unfold digits_of. apply to_digits_small; [assumption| |constructor].
  rewrite Nat2N.inj_succ, N2Nat.id.
  pose proof (N.size_gt n) as Hs.
  assert (2 ^ N.size n <= base ^ N.size n) by (apply N.pow_le_mono_l; exact Hb).
  assert (base ^ N.size n <= base ^ N.succ (N.size n)) by (apply N.pow_le_mono_r; lia).
  lia.
Qed.

Section Radix.
  Variables (base : N) (dig : N -> option N) (chr : N -> N).
  Hypothesis base_ge : 2 <= base.
  Hypothesis dig_chr : forall d, d < base -> dig (chr d) = Some d.

  Lemma parse_print n : parse_num base dig (map chr (digits_of base n)) = Some n.
  Proof.
    unfold parse_num.
    destruct (map chr (digits_of base n)) eqn:E.
    - apply map_eq_nil in E. unfold digits_of in E. exfalso. exact (to_digits_nonempty _ _ _ _ E).
    - rewrite <- E. unfold digits_of.
      rewrite (to_digits_value base dig chr _ base_ge dig_chr n [] 0).
      + cbn [map parse_digits]. f_equal.
      + apply digits_of_small; assumption.
  Qed.
End Radix.

Lemma dec_digit_char d : d < 10 -> dec_digit (dec_char d) = Some d.
Proof.
  intros H. unfold dec_digit, dec_char.
  assert (E : (48 <=? 48 + d) && (48 + d <=? 57) = true).
  { apply andb_true_intro; split; apply N.leb_le; lia. }
  rewrite E. f_equal. lia.
Qed.

Theorem parse_print_dec n : parse_dec (print_dec n) = Some n.
Proof. apply parse_print; [lia|exact dec_digit_char]. Qed.
Definition is_dec_char (c : N) : bool := (48 <=? c) && (c <=? 57).

Lemma print_dec_chars n : forallb is_dec_char (print_dec n) = true.
Proof.
  unfold print_dec. apply forallb_forall. intros c Hc. apply in_map_iff in Hc.
  destruct Hc as [d [<- Hd]].
  pose proof (digits_of_small 10 n ltac:(lia)) as Hall.
  rewrite Forall_forall in Hall. specialize (Hall d Hd).
  unfold is_dec_char, dec_char. apply andb_true_intro; split; apply N.leb_le; lia.
Qed.

Lemma print_dec_nonempty n : print_dec n <> [].
Proof.
  unfold print_dec, digits_of. intros E. apply map_eq_nil in E. exact (to_digits_nonempty _ _ _ _ E).
Qed.

Lemma find_byte_app_some b s l r t :
  find_byte b s = Some (l, r) -> find_byte b (s ++ t) = Some (l, r ++ t).
Proof.
  revert l r; induction s as [|c s IH]; intros l r H; cbn [find_byte app] in *; [discriminate|].
  destruct (c =? b); [inversion H; reflexivity|].
  destruct (find_byte b s) as [[l' r']|]; [|discriminate].
  inversion H; subst. rewrite (IH _ _ eq_refl). reflexivity.
Qed.

Lemma find_byte_none_app b s t :
  find_byte b s = None ->
  find_byte b (s ++ t) = match find_byte b t with Some (l, r) => Some (s ++ l, r) | None => None end.
Proof.
  induction s as [|c s IH]; intros H; cbn [find_byte app] in *.
  - destruct (find_byte b t) as [[l r]|]; reflexivity.
  - destruct (c =? b); [discriminate|].
    destruct (find_byte b s) as [[l' r']|]; [discriminate|].
    rewrite (IH eq_refl). destruct (find_byte b t) as [[l r]|]; reflexivity.
Qed.

Lemma find_byte_absent b s : memb b s = false -> find_byte b s = None.
Proof.
  unfold memb. induction s as [|c s IH]; intros H; cbn [find_byte existsb] in *; [reflexivity|].
  apply orb_false_elim in H. destruct H as [H1 H2].
  rewrite N.eqb_sym, H1, (IH H2). reflexivity.
Qed.

(* the first occurrence: a prefix without b, then b *)
Lemma find_byte_first b s t : memb b s = false -> find_byte b (s ++ b :: t) = Some (s, t).
Proof.
  intros H. rewrite (find_byte_none_app _ _ _ (find_byte_absent _ _ H)).
  cbn [find_byte]. rewrite N.eqb_refl, app_nil_r. reflexivity.
Qed.

Lemma find_byte_length b s l r : find_byte b s = Some (l, r) -> length s = S (length l + length r).
Proof.
  revert l r; induction s as [|c s IH]; intros l r H; cbn [find_byte] in H; [discriminate|].
  destruct (c =? b); [inversion H; subst; reflexivity|].
  destruct (find_byte b s) as [[l' r']|]; [|discriminate].
  inversion H; subst. cbn [length]. rewrite (IH _ _ eq_refl). reflexivity.
Qed.

Lemma memb_forallb_false b (p : N -> bool) s :
  p b = false -> forallb p s = true -> memb b s = false.
Proof.
  intros Hb. unfold memb. induction s as [|c s IH]; intros H; cbn [forallb existsb] in *; [reflexivity|].
  apply andb_prop in H. destruct H as [H1 H2].
  rewrite (IH H2), orb_false_r. destruct (b =? c) eqn:E; [|reflexivity].
  apply N.eqb_eq in E. subst. congruence.
Qed.

Lemma print_dec_no b n : is_dec_char b = false -> memb b (print_dec n) = false.
Proof. intros H. exact (memb_forallb_false b _ _ H (print_dec_chars n)). Qed.

(* ------------------------------------------------- no leading zero *)

Lemma to_digits_head_nonzero base f : 1 <= base -> forall n acc, n <> 0 ->
  exists d t, to_digits base f n acc = d :: t /\ d <> 0.
Proof.
  intros Hb. induction f as [|f IH]; intros n acc Hn; cbn [to_digits].
  - exists n, acc; split; [reflexivity|exact Hn].
  - destruct (n <? base) eqn:E.
    + exists n, acc; split; [reflexivity|exact Hn].
    + apply IH. apply N.ltb_ge in E. intros H0.
      apply N.div_small_iff in H0; lia.
Qed.

(* b"%d" % n never starts with "0" unless it is exactly "0" *)
Lemma print_dec_no_leading_zero n c t : print_dec n <> 48 :: c :: t.
Proof.
  destruct (N.eq_dec n 0) as [->|Hn].
  - vm_compute. discriminate.
  - unfold print_dec, digits_of.
    destruct (to_digits_head_nonzero 10 (N.to_nat (N.size n)) ltac:(lia) n [] Hn) as [d [tl [E Hd]]].
    rewrite E. cbn [map]. unfold dec_char. remember (48 + d) as x eqn:Hx. intros H. injection H as H1 _. lia.
Qed.

Lemma print_dec_head n : exists c t, print_dec n = c :: t /\ is_dec_char c = true.
Proof.
  pose proof (print_dec_chars n) as H. pose proof (print_dec_nonempty n) as Hne.
  destruct (print_dec n) as [|c t]; [contradiction|].
  exists c, t. split; [reflexivity|]. cbn [forallb] in H. apply andb_prop in H. exact (proj1 H).
Qed.
