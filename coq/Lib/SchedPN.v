(* Lib/SchedPN.v -- a minimal interleaving semantics (written for C05).

   A system state [S] (shared state + the local states of ALL processes, however
   many there are), process identifiers [nat], a partial step function
   [step p s] ("process p performs its next atomic action"; [None] = p cannot
   move: finished, failed or blocked), and schedules = arbitrary lists of pids.
   [run] executes a schedule, skipping entries whose process cannot move.

   The generic theorem: an invariant that holds initially and is preserved by
   every step of every process holds after ANY schedule (any length, any number
   of processes, any order).  No fairness or bound is assumed. *)
From Coq Require Import List.
Import ListNotations.

Section Sched.
  Variable S : Type.
  Variable step : nat -> S -> option S.

  Fixpoint run (sched : list nat) (s : S) : S :=
    match sched with
    | [] => s
    | p :: rest => match step p s with
                   | Some s' => run rest s'
                   | None => run rest s
                   end
    end.

  (* states reachable from [s0] by some schedule *)
  Definition reachable (s0 s : S) : Prop := exists sched, run sched s0 = s.

  Theorem run_invariant (Inv : S -> Prop) :
    (forall p s s', Inv s -> step p s = Some s' -> Inv s') ->
    forall sched s, Inv s -> Inv (run sched s).
  Proof.
    intros Hstep sched; induction sched as [|p rest IH]; intros s Hs; simpl; [exact Hs|].
    destruct (step p s) as [s'|] eqn:E.
    - apply IH. eapply Hstep; eauto.
    - apply IH; exact Hs.
  Qed.

  Corollary reachable_invariant (Inv : S -> Prop) (s0 : S) :
    Inv s0 ->
    (forall p s s', Inv s -> step p s = Some s' -> Inv s') ->
    forall s, reachable s0 s -> Inv s.
  Proof.
    intros H0 Hstep s [sched <-]. apply run_invariant; assumption.
  Qed.

  Lemma run_app (a b : list nat) (s : S) : run (a ++ b) s = run b (run a s).
  Proof.
    revert s; induction a as [|p a IH]; intros s; simpl; [reflexivity|].
    destruct (step p s); apply IH.
  Qed.

  (* a two-state (step) invariant, e.g. monotonicity of a ghost set *)
  Theorem run_preorder (R : S -> S -> Prop) :
    (forall s, R s s) -> (forall a b c, R a b -> R b c -> R a c) ->
    (forall p s s', step p s = Some s' -> R s s') ->
    forall sched s, R s (run sched s).
  Proof.
    intros Hr Ht Hs sched; induction sched as [|p rest IH]; intros s; simpl; [apply Hr|].
    destruct (step p s) as [s'|] eqn:E; [|apply IH].
    eapply Ht; [eapply Hs; eauto | apply IH].
  Qed.
End Sched.

Arguments run {S} step sched s.
Arguments reachable {S} step s0 s.
