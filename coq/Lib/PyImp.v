(* Lib/PyImp.v -- a tiny deep-embedded imperative language with the semantics of
   the Python subset that py2coq's "class mode" accepts: methods that read and
   assign attributes of self, call methods of ONE collaborator object (each
   call is an event; the environment decides whether it returns or raises),
   raise, return, if/elif/else and try/finally.

   The translator emits a [stmt] value per method; this file gives it meaning.
   Definitions only. *)
From Coq Require Import ZArith List String Bool.
Import ListNotations.
Open Scope string_scope.

Inductive val :=
| VNone
| VInt (z : Z)
| VStr (s : string)
| VBool (b : bool)
| VTok (t : nat).          (* an opaque lock token handed out by the collaborator *)

Definition val_eqb (a b : val) : bool :=
  match a, b with
  | VNone, VNone => true
  | VInt x, VInt y => Z.eqb x y
  | VStr x, VStr y => String.eqb x y
  | VBool x, VBool y => Bool.eqb x y
  | VTok x, VTok y => Nat.eqb x y
  | _, _ => false
  end.

(* Python truthiness *)
Definition truthy (v : val) : bool :=
  match v with
  | VNone => false
  | VInt z => negb (Z.eqb z 0)
  | VStr s => negb (String.eqb s "")
  | VBool b => b
  | VTok _ => true
  end.

Inductive exp :=
| EField (f : string)               (* self.f *)
| EArg (a : string)                 (* a method argument *)
| ELocal (x : string)               (* a local bound by a collaborator call *)
| ENone
| EInt (z : Z)
| EStr (s : string)
| EBool (b : bool)
| EEq (a b : exp) | ENe (a b : exp)
| EGt (a b : exp) | EGe (a b : exp)
| ENot (a : exp)
| EAnd (a b : exp) | EOr (a b : exp)      (* only used in tests: value = truthiness *)
| EIn (a : exp) (l : list exp)
| ENotIn (a : exp) (l : list exp).

Inductive stmt :=
| SPass
| SSeq (a b : stmt)
| SAssign (f : string) (e : exp)                        (* self.f = e *)
| SAugAdd (f : string) (z : Z)                          (* self.f += z *)
| SAugSub (f : string) (z : Z)                          (* self.f -= z *)
| SCall (callee : string) (args : list exp)             (* self._collab.callee(args) *)
| SLocalCall (x : string) (callee : string) (args : list exp)   (* x = self._collab.callee(args) *)
| SFieldCall (f : string) (callee : string) (args : list exp)   (* self.f = self._collab.callee(args) *)
| SRaise (exc : string)
| SReturn (e : exp)
| SIf (c : exp) (a b : stmt)
| STryFinally (body fin : stmt)
| SOnlyRaises (allowed : list string) (body : stmt).   (* @only_raises(...): other exceptions are logged and dropped *)

Definition store := list (string * val).

Fixpoint lookup (k : string) (s : store) : option val :=
  match s with
  | [] => None
  | (k', v) :: s' => if String.eqb k k' then Some v else lookup k s'
  end.

Fixpoint update (k : string) (v : val) (s : store) : store :=
  match s with
  | [] => [(k, v)]
  | (k', v') :: s' => if String.eqb k k' then (k, v) :: s' else (k', v') :: update k v s'
  end.

Inductive reply := RepOk (v : val) | RepRaise (exc : string).

Definition event := (string * list val)%type.

Inductive flow := FNormal | FReturn (v : val) | FRaise (exc : string).

Record result := mkResult {
  r_self : store;            (* attributes of self *)
  r_locals : store;
  r_events : list event;     (* collaborator calls made, oldest first *)
  r_env : list reply;        (* remaining scripted replies of the collaborator *)
  r_flow : flow }.

(* expression evaluation; None = a Python error (AttributeError, TypeError) *)
Fixpoint eval (self args locals : store) (e : exp) : option val :=
  let ev := eval self args locals in
  match e with
  | EField f => lookup f self
  | EArg a => lookup a args
  | ELocal x => lookup x locals
  | ENone => Some VNone
  | EInt z => Some (VInt z)
  | EStr s => Some (VStr s)
  | EBool b => Some (VBool b)
  | EEq a b => match ev a, ev b with Some x, Some y => Some (VBool (val_eqb x y)) | _, _ => None end
  | ENe a b => match ev a, ev b with Some x, Some y => Some (VBool (negb (val_eqb x y))) | _, _ => None end
  | EGt a b => match ev a, ev b with
               | Some (VInt x), Some (VInt y) => Some (VBool (Z.ltb y x)) | _, _ => None end
  | EGe a b => match ev a, ev b with
               | Some (VInt x), Some (VInt y) => Some (VBool (Z.leb y x)) | _, _ => None end
  | ENot a => match ev a with Some x => Some (VBool (negb (truthy x))) | None => None end
  | EAnd a b => match ev a with
                | Some x => if truthy x then
                              match ev b with Some y => Some (VBool (truthy y)) | None => None end
                            else Some (VBool false)
                | None => None end
  | EOr a b => match ev a with
               | Some x => if truthy x then Some (VBool true) else
                             match ev b with Some y => Some (VBool (truthy y)) | None => None end
               | None => None end
  | EIn a l =>
      match ev a with
      | Some x => (fix go (l : list exp) : option val :=
                     match l with
                     | [] => Some (VBool false)
                     | b :: l' => match ev b with
                                  | Some y => if val_eqb x y then Some (VBool true) else go l'
                                  | None => None end
                     end) l
      | None => None end
  | ENotIn a l =>
      match ev a with
      | Some x => (fix go (l : list exp) : option val :=
                     match l with
                     | [] => Some (VBool true)
                     | b :: l' => match ev b with
                                  | Some y => if val_eqb x y then Some (VBool false) else go l'
                                  | None => None end
                     end) l
      | None => None end
  end.

Fixpoint eval_list (self args locals : store) (l : list exp) : option (list val) :=
  match l with
  | [] => Some []
  | e :: l' => match eval self args locals e, eval_list self args locals l' with
               | Some v, Some vs => Some (v :: vs) | _, _ => None end
  end.

Definition pyerror := FRaise "PythonError".

Definition pop_reply (env : list reply) : reply * list reply :=
  match env with [] => (RepOk VNone, []) | r :: env' => (r, env') end.

Definition add_int (v : val) (z : Z) : option val :=
  match v with VInt x => Some (VInt (x + z)) | _ => None end.

Fixpoint exec (args : store) (p : stmt) (r : result) {struct p} : result :=
  let self := r_self r in
  let locals := r_locals r in
  let fail := mkResult self locals (r_events r) (r_env r) pyerror in
  let do_call (callee : string) (cargs : list exp) (k : val -> result -> result) : result :=
      match eval_list self args locals cargs with
      | None => fail
      | Some vs =>
          let '(rep, env') := pop_reply (r_env r) in
          let r' := mkResult self locals (r_events r ++ [(callee, vs)]) env' FNormal in
          match rep with
          | RepOk v => k v r'
          | RepRaise e => mkResult self locals (r_events r') env' (FRaise e)
          end
      end in
  match p with
  | SPass => r
  | SSeq a b =>
      let r1 := exec args a r in
      match r_flow r1 with FNormal => exec args b r1 | _ => r1 end
  | SAssign f e =>
      match eval self args locals e with
      | Some v => mkResult (update f v self) locals (r_events r) (r_env r) FNormal
      | None => fail end
  | SAugAdd f z =>
      match lookup f self with
      | Some v => match add_int v z with
                  | Some v' => mkResult (update f v' self) locals (r_events r) (r_env r) FNormal
                  | None => fail end
      | None => fail end
  | SAugSub f z =>
      match lookup f self with
      | Some v => match add_int v (- z) with
                  | Some v' => mkResult (update f v' self) locals (r_events r) (r_env r) FNormal
                  | None => fail end
      | None => fail end
  | SCall callee cargs => do_call callee cargs (fun _ r' => r')
  | SLocalCall x callee cargs =>
      do_call callee cargs
              (fun v r' => mkResult (r_self r') (update x v (r_locals r')) (r_events r') (r_env r') FNormal)
  | SFieldCall f callee cargs =>
      do_call callee cargs
              (fun v r' => mkResult (update f v (r_self r')) (r_locals r') (r_events r') (r_env r') FNormal)
  | SRaise e => mkResult self locals (r_events r) (r_env r) (FRaise e)
  | SReturn e =>
      match eval self args locals e with
      | Some v => mkResult self locals (r_events r) (r_env r) (FReturn v)
      | None => fail end
  | SIf c a b =>
      match eval self args locals c with
      | Some v => if truthy v then exec args a r else exec args b r
      | None => fail end
  | STryFinally body fin =>
      let r1 := exec args body r in
      let r2 := exec args fin (mkResult (r_self r1) (r_locals r1) (r_events r1) (r_env r1) FNormal) in
      match r_flow r2 with
      | FNormal => mkResult (r_self r2) (r_locals r2) (r_events r2) (r_env r2) (r_flow r1)
      | _ => r2
      end
  | SOnlyRaises allowed body =>
      let r1 := exec args body r in
      match r_flow r1 with
      | FRaise e => if existsb (String.eqb e) allowed then r1
                    else mkResult (r_self r1) (r_locals r1) (r_events r1) (r_env r1) (FReturn VNone)
      | _ => r1
      end
  end.

(* run a method: a Python method that falls off its end returns None *)
Definition run_method (p : stmt) (args : store) (self : store) (env : list reply) : result :=
  let r := exec args p (mkResult self [] [] env FNormal) in
  match r_flow r with
  | FNormal => mkResult (r_self r) (r_locals r) (r_events r) (r_env r) (FReturn VNone)
  | _ => r
  end.
