(* Lib/DagTopo.v -- topological orders of revision graphs (companion of
   Lib/Dag.v; definitions only, the facts are in Theory/DagTopoFacts.v).

   vcsgraph.tsort.topo_sort(parent_map) and Graph.iter_topo_order(revisions)
   (compiled, site-packages) return SOME list of the keys in which every
   revision comes after all of its parents that are keys too; which one
   depends on dict/hash order.  Clients therefore take the order as an
   environment value constrained by [topo_order_of]; the harness evaluates the
   same boolean on the order the real function returned. *)
From Coq Require Import List Arith Bool.
From BV Require Import Lib.Dag.
Import ListNotations.

(* list.index(x): position of the first occurrence; None = ValueError *)
Fixpoint index_of (x : revid) (l : list revid) : option nat :=
  match l with
  | [] => None
  | y :: l' => if x =? y then Some 0 else option_map S (index_of x l')
  end.

(* l[i:j] for non-negative i, j *)
Definition slice (l : list revid) (i j : nat) : list revid := firstn (j - i) (skipn i l).

(* l[-1]; None = IndexError *)
Fixpoint last_opt (l : list revid) : option revid :=
  match l with
  | [] => None
  | [x] => Some x
  | _ :: l' => last_opt l'
  end.

(* no duplicates, and no revision is followed by one of its parents *)
Fixpoint topo_sortedb (g : dag) (l : list revid) : bool :=
  match l with
  | [] => true
  | r :: l' => negb (memb r l') && forallb (fun p => negb (memb p l')) (parents g r)
               && topo_sortedb g l'
  end.

(* [l] is a topological order of the present members of [keys]
   (get_parent_map drops ghosts, so they are not sorted) *)
Definition topo_order_of (g : dag) (keys l : list revid) : bool :=
  topo_sortedb g l && set_eqb l (filter (present g) keys).

(* one topological order that always exists: ascending revision numbers *)
Definition asc_order (g : dag) (keys : list revid) : list revid :=
  filter (fun i => memb i keys) (seq 0 (length g)).
