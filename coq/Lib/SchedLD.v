(* Lib/SchedLD.v -- a small interleaving library (used by Model/LockDir.v).

   A system is any state type [S] with a total step function
   [step : pid -> S -> S] ("process [p] performs its next atomic action"; a
   process that is finished, dead or does not exist leaves the state
   unchanged).  A schedule is a list of process ids, of any length, naming
   any process ids; nothing bounds the number of processes.

   [run sched s] executes the schedule.  The generic theorems say that a
   property that holds initially and is preserved by every single step of
   every process holds after ANY schedule, and in every intermediate state
   (every prefix of the schedule = every crash point of the whole system). *)
From Coq Require Import List.
Import ListNotations.

Section Sched.
  Variable S : Type.
  Variable step : nat -> S -> S.

  Definition run (sched : list nat) (s : S) : S :=
    fold_left (fun s p => step p s) sched s.

  Lemma run_nil : forall s, run [] s = s.
  Proof. reflexivity. Qed.

  Lemma run_cons : forall p sched s, run (p :: sched) s = run sched (step p s).
  Proof. reflexivity. Qed.

  Lemma run_app : forall a b s, run (a ++ b) s = run b (run a s).
  Proof. intros a b s. unfold run. apply fold_left_app. Qed.

  Lemma run_snoc : forall a p s, run (a ++ [p]) s = step p (run a s).
  Proof. intros. rewrite run_app. reflexivity. Qed.

  (* the invariant rule: any number of processes, any schedule *)
  Theorem run_invariant :
    forall (Inv : S -> Prop) (init : S),
      Inv init ->
      (forall p s, Inv s -> Inv (step p s)) ->
      forall sched, Inv (run sched init).
  Proof.
    intros Inv init Hi Hs sched. revert init Hi.
    induction sched as [|p sched IH]; intros init Hi; [exact Hi|].
    rewrite run_cons. apply IH. apply Hs. exact Hi.
  Qed.

  (* ... and in every intermediate state (every prefix of the schedule) *)
  Theorem run_invariant_prefix :
    forall (Inv : S -> Prop) (init : S),
      Inv init ->
      (forall p s, Inv s -> Inv (step p s)) ->
      forall sched k, Inv (run (firstn k sched) init).
  Proof. intros Inv init Hi Hs sched k. apply run_invariant; assumption. Qed.

  (* a two-state ("history") invariant: R relates the initial state and every reachable one *)
  Theorem run_invariant_rel :
    forall (R : S -> S -> Prop) (init : S),
      R init init ->
      (forall p s, R init s -> R init (step p s)) ->
      forall sched, R init (run sched init).
  Proof. intros R init H0 Hs sched. apply (run_invariant (R init)); assumption. Qed.

  (* reachability as a predicate, for statements of the form "in every reachable state" *)
  Definition reachable (init s : S) : Prop := exists sched, s = run sched init.

  Lemma reachable_inv :
    forall (Inv : S -> Prop) init,
      Inv init -> (forall p s, Inv s -> Inv (step p s)) ->
      forall s, reachable init s -> Inv s.
  Proof. intros Inv init Hi Hs s [sched ->]. apply run_invariant; assumption. Qed.

  Lemma reachable_step : forall init s p, reachable init s -> reachable init (step p s).
  Proof. intros init s p [sched ->]. exists (sched ++ [p]). symmetry. apply run_snoc. Qed.
End Sched.

Arguments run {S} step sched s.
Arguments reachable {S} step init s.
