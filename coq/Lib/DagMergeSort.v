(* Lib/DagMergeSort.v -- merge-sorted order, merge depths and dotted revision
   numbers of a history (companion of Lib/Dag.v; shared by C22 and C25;
   definitions only, the facts are in Theory/DagMergeSortFacts.v and
   Theory/DagMergeSortMainline.v).

   The real numbering is vcsgraph.tsort.MergeSorter / KnownGraph.merge_sort
   (compiled Rust in site-packages, i.e. ENVIRONMENT for /repo): breezy's
   Branch.iter_merge_sorted_revisions calls
       repository.get_known_graph_ancestry([tip]).merge_sort(tip)
   and everything else (revno maps, dotted revnos, log views) is computed from
   that list.  [merge_sort] below is a Gallina rendering of the documented
   algorithm (bzrlib/tsort.py MergeSorter.iter_topo_order: depth-first walk,
   left-hand parent first at the same depth, the other parents right-to-left
   one level deeper; a node is numbered when it is popped):

     * the first child to be PUSHED on top of its left-hand parent continues
       the parent's numbering   r.(n)  ->  r.(n+1)
     * any other child opens a new branch   (base, k, 1)   where base is the
       first component of the left-hand parent's revno and k counts the
       branches opened from that base so far
     * a node without (present) left-hand parent is a root: the first one is
       (1), later ones (0, k, 1)
     * end_of_merge: the next node in the output is shallower, or equally deep
       but not a parent of this node, or there is no next node.

   Its agreement with the compiled implementation is a correspondence fact:
   harness/props/c22.py and c25.py compare the two on every generated history
   (every tip of every history).  Theorems about [merge_sort] are therefore
   theorems about the documented numbering rules. *)
From Coq Require Import List Arith Bool.
From BV Require Import Lib.Dag.
Import ListNotations.

Definition revno := list nat.                 (* (3) or (3,1,2) *)
Definition ms_entry := (revid * nat * revno)%type.     (* key, merge_depth, revno *)

Definition e_id (e : ms_entry) : revid := fst (fst e).
Definition e_depth (e : ms_entry) : nat := snd (fst e).
Definition e_revno (e : ms_entry) : revno := snd e.

Fixpoint revno_eqb (a b : revno) : bool :=
  match a, b with
  | [], [] => true
  | x :: a', y :: b' => (x =? y) && revno_eqb a' b'
  | _, _ => false
  end.

(* association lists keyed by nat (revno_to_branch_count) *)
Fixpoint nlookup (k : nat) (m : list (nat * nat)) : option nat :=
  match m with
  | [] => None
  | (k', v) :: m' => if k' =? k then Some v else nlookup k m'
  end.
Definition nset (k v : nat) (m : list (nat * nat)) : list (nat * nat) := (k, v) :: m.

Record ms_state := mkMS {
  ms_sched : list ms_entry;        (* scheduled_nodes, last scheduled FIRST (= output order);
                                      also completed_node_names and the revnos assigned so far *)
  ms_claimed : list revid;         (* nodes whose "first child" flag has been taken *)
  ms_counts : list (nat * nat)     (* revno_to_branch_count *)
}.
Definition ms_init : ms_state := mkMS [] [] [].

Fixpoint sched_find (r : revid) (s : list ms_entry) : option ms_entry :=
  match s with
  | [] => None
  | e :: s' => if e_id e =? r then Some e else sched_find r s'
  end.
Definition completed (st : ms_state) (r : revid) : bool :=
  match sched_find r (ms_sched st) with Some _ => true | None => false end.
Definition assigned_revno (st : ms_state) (r : revid) : option revno :=
  option_map e_revno (sched_find r (ms_sched st)).

(* parent_revno[:-1] + (parent_revno[-1] + 1,) *)
Definition revno_succ (r : revno) : revno := removelast r ++ [S (last r 0)].

(* pop_node: number the node from its left-hand parent *)
Definition number_node (first_child : bool) (parent_revno : option revno) (counts : list (nat * nat))
  : revno * list (nat * nat) :=
  match parent_revno with
  | Some pr =>
      if first_child then (revno_succ pr, counts)
      else let base := hd 0 pr in
           let c := match nlookup base counts with None => 1 | Some c => S c end in
           ([base; c; 1], nset base c counts)
  | None =>
      (* revno_to_branch_count.get(0, -1) + 1 *)
      let rc := match nlookup 0 counts with None => 0 | Some c => S c end in
      ((if rc =? 0 then [1] else [0; rc; 1]), nset 0 rc counts)
  end.

(* push_node: the left-hand parent, unless it is a ghost ("consider it not to exist") *)
Definition left_parent (g : dag) (n : revid) : option revid :=
  match parents g n with
  | p :: _ => if present g p then Some p else None
  | [] => None
  end.
(* first_child = parent_info[1]; parent_info[1] = False *)
Definition is_first_child (lp : option revid) (st : ms_state) : bool :=
  match lp with
  | Some p => negb (memb p (ms_claimed st))
  | None => false
  end.
Definition claim (lp : option revid) (st : ms_state) : ms_state :=
  match lp with
  | Some p => mkMS (ms_sched st) (add p (ms_claimed st)) (ms_counts st)
  | None => st
  end.

(* the order in which the pending parents are taken: the left-hand parent
   first at the same depth (pop(0)), then the others from the right (pop())
   one level deeper *)
Definition visit_plan (ps : list revid) (depth : nat) : list (revid * nat) :=
  match ps with
  | [] => []
  | p :: rest => (p, depth) :: map (fun q => (q, S depth)) (rev rest)
  end.

(* pop_node: number the node, schedule it *)
Definition pop_node (n : revid) (depth : nat) (lp : option revid) (first_child : bool) (st : ms_state)
  : ms_state :=
  let parent_revno := match lp with Some p => assigned_revno st p | None => None end in
  let '(rv, counts') := number_node first_child parent_revno (ms_counts st) in
  mkMS ((n, depth, rv) :: ms_sched st) (ms_claimed st) counts'.

(* One "call frame" of the flattened depth-first search: push_node, the
   parents, pop_node.  [fuel] only has to exceed the node (parents are smaller
   or ghosts); a completed or ghost parent is skipped. *)
Fixpoint ms_visit (g : dag) (fuel : nat) (n : revid) (depth : nat) (st : ms_state) : ms_state :=
  match fuel with
  | 0 => st
  | S f =>
      let lp := left_parent g n in
      let descend := fun (s : ms_state) (qd : revid * nat) =>
                       if completed s (fst qd) || ghost g (fst qd) then s
                       else ms_visit g f (fst qd) (snd qd) s in
      pop_node n depth lp (is_first_child lp st)
               (fold_left descend (visit_plan (parents g n) depth) (claim lp st))
  end.

(* the same, named, for the theory *)
Definition ms_descend (g : dag) (f : nat) (s : ms_state) (qd : revid * nat) : ms_state :=
  if completed s (fst qd) || ghost g (fst qd) then s else ms_visit g f (fst qd) (snd qd) s.

(* the scheduled list for a tip (newest first), without end_of_merge *)
Definition merge_sorted (g : dag) (tip : option revid) : list ms_entry :=
  match tip with
  | None => []
  | Some t => if present g t then ms_sched (ms_visit g (S t) t 0 ms_init) else []
  end.

(* the output pass: end_of_merge *)
Fixpoint with_eom (g : dag) (l : list ms_entry) : list (ms_entry * bool) :=
  match l with
  | [] => []
  | e :: l' =>
      let eom := match l' with
                 | [] => true
                 | e' :: _ =>
                     if e_depth e' <? e_depth e then true
                     else if (e_depth e' =? e_depth e) && negb (memb (e_id e') (parents g (e_id e))) then true
                     else false
                 end in
      (e, eom) :: with_eom g l'
  end.

(* KnownGraph.merge_sort(tip): (key, merge_depth, revno, end_of_merge) *)
Definition merge_sort (g : dag) (tip : option revid) : list (ms_entry * bool) :=
  with_eom g (merge_sorted g tip).

Definition ms_ids (l : list ms_entry) : list revid := map e_id l.
Definition ms_revnos (l : list ms_entry) : list revno := map e_revno l.
